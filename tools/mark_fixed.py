#!/usr/bin/env python3
"""tools/mark_fixed.py <PROP> <commit> <substring-of-what> : flips a known finding to status fixed."""
import json, sys
prop, commit, sub = sys.argv[1:4]
out, n = [], 0
for line in open("known_findings.jsonl"):
    if not line.strip():
        continue
    f = json.loads(line)
    if f["property"] == prop and f.get("status") == "known" and sub in f["what"]:
        f["status"] = "fixed"; f["commit"] = commit
        f["line"] = "fixed: property=%s %s %s" % (prop, commit, f["what"])
        n += 1
    out.append(json.dumps(f))
open("known_findings.jsonl", "w").write("\n".join(out) + "\n")
print("flipped", n)
