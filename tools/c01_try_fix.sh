#!/bin/sh
# tools/c01_try_fix.sh <patch-file (absolute)> [families]
# Evaluates a candidate fix for a C01 finding WITHOUT touching /repo:
#  (a) C01 check on a scratch copy with the patch applied (families: default witness,template),
#  (b) the repository's own evaluator tables (tests/test_unit_eval.py::test_eval, ::test_eval_exceptions)
#      in a scratch copy of /repo with the patch applied.
ROOT="$(cd "$(dirname "$0")/.." && pwd)"
PATCH="$1"; FAMS="${2:-witness,template}"
echo "== (a) C01 on patched copy ($FAMS)"
VERIF_C01_FAMILIES="$FAMS" "$ROOT/tools/with_mutant.sh" "$PATCH" -- "$ROOT/checks/run" C01 --tier quick 2>&1 | grep -v "^KNOWN-FINDING" | tail -15
echo "== (b) tests/test_unit_eval.py on patched copy"
D=$(mktemp -d /tmp/vfunit.XXXXXX)
cp -r /repo/custom_components /repo/tests /repo/setup.cfg /repo/pyproject.toml "$D"/ 2>/dev/null
(cd "$D" && patch -p1 -s < "$PATCH" && /venv/bin/python -m pytest "tests/test_unit_eval.py::test_eval" "tests/test_unit_eval.py::test_eval_exceptions" -q -p no:cacheprovider 2>&1 | grep -E "passed|failed|^FAILED|^E  " | head -12)
rm -rf "$D"
