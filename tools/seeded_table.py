#!/usr/bin/env python3
"""Writes seeded/README.md from seeded/*/meta.json."""
import glob, json, os
V = os.path.dirname(os.path.dirname(os.path.abspath(__file__)))
rows = []
for mp in sorted(glob.glob(os.path.join(V, "seeded", "*", "meta.json"))):
    m = json.load(open(mp))
    d = m.get("demo", {})
    chk = "; ".join("%s: %s" % (k, "DETECTED" if v["detected"] else ("missed" if v["exit"] == 0 else "machinery(exit %s)" % v["exit"]))
                    for k, v in sorted(m.get("checks", {}).items()))
    first = next((v["violations"][0] for v in m.get("checks", {}).values() if v.get("violations")), "")
    rows.append("| %s | %s | %s | %s | %s | %s |" % (m["id"], m["property"], m.get("summary", "").replace("|", "/"), m.get("needs", "").replace("|", "/"),
                "ok" if d.get("passes_without_patch") and d.get("fails_with_patch") else "NOT CONFIRMED" if d else "-", chk))
out = ["# Seeded changes", "",
       "Each directory: `patch.diff` (apply with `git -C /repo apply`), `demo.py` (fails with the patch, passes without), `notes.md`",
       "(the seeding agent's description), `meta.json` (what was run).  Produced by fresh sub-agents that saw only the property text.",
       "", "| id | property | change | needs | demo confirmed | checks |", "|---|---|---|---|---|---|"] + rows
open(os.path.join(V, "seeded", "README.md"), "w").write("\n".join(out) + "\n")
print("\n".join(rows))
