#!/bin/sh
# tools/with_mutant.sh <patch-file|-e sed-expr file> -- <command...>
# Applies a patch to a scratch copy of custom_components/pyscript (outside /repo and /verif), runs the
# command with PYSCRIPT_SRC pointing at it, removes the copy.  Used for self-tests only.
set -e
mkdir -p /var/tmp/vfm; D=$(mktemp -d /var/tmp/vfm/m.XXXXXX)
mkdir -p "$D/custom_components"
cp -r /repo/custom_components/pyscript "$D/custom_components/pyscript"
touch "$D/custom_components/__init__.py" 2>/dev/null || true
if [ "$1" = "-e" ]; then
  sed -i "$2" "$D/custom_components/pyscript/$3"; shift 3
else
  (cd "$D" && patch -p1 -s < "$1"); shift 1
fi
[ "$1" = "--" ] && shift
rc=0
PYSCRIPT_SRC="$D" "$@" || rc=$?
rm -rf "$D"
exit $rc
