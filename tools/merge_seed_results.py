#!/usr/bin/env python3
"""tools/merge_seed_results.py <vp-run-number>: copy the verdicts a `vp run` of tools/seed_eval.py produced
(in the run's snapshot) into /verif/seeded/*/meta.json - only for the (seed, property) pairs that run evaluated."""
import json, os, re, sys
n = sys.argv[1]
log = open("/root/.vp/runs/%s/log" % n).read()
pairs = re.findall(r"^(\S+) (C\d+) demo:", log, re.M)
for sid, prop in pairs:
    src = "/root/.vp/runs/%s/verif/seeded/%s/meta.json" % (n, sid)
    dst = "/verif/seeded/%s/meta.json" % sid
    if not os.path.exists(src):
        continue
    m, d = json.load(open(src)), json.load(open(dst))
    key = [k for k in m.get("checks", {}) if k.startswith(prop + ":")]
    for k in key:
        old = d.get("checks", {}).get(k)
        if old and old.get("detected") != m["checks"][k].get("detected"):
            d.setdefault("history", []).append({"earlier_run": old})
        d.setdefault("checks", {})[k] = m["checks"][k]
    if "demo" in m:
        d["demo"] = m["demo"]
    d["repo_head"] = m.get("repo_head")
    json.dump(d, open(dst, "w"), indent=1)
    print(sid, prop, [d["checks"][k]["detected"] for k in key])
