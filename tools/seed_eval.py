#!/usr/bin/env python3
"""Evaluate one seeded change: tools/seed_eval.py seeded/<id> <PROP> [--tier quick] [--skip-demo]

1. confirms the demonstration in a scratch worktree of /repo's HEAD (passes without the patch, fails
   with it) and that the patch applies;
2. runs the property's check against a scratch copy of /repo's working tree with the patch applied
   (tools/with_mutant.sh -> PYSCRIPT_SRC), never touching /repo;
3. writes/updates seeded/<id>/meta.json.
The scratch worktree and copy are removed afterwards.
"""
import json
import os
import re
import subprocess
import sys
import tempfile
import time

VERIF = os.path.dirname(os.path.dirname(os.path.abspath(__file__)))


def sh(cmd, cwd=None, timeout=3600, env=None):
    p = subprocess.run(cmd, shell=True, cwd=cwd, capture_output=True, text=True, timeout=timeout, env=env)
    return p.returncode, p.stdout + p.stderr


def main():
    sdir, prop = sys.argv[1], sys.argv[2]
    tier = "quick"
    if "--tier" in sys.argv:
        tier = sys.argv[sys.argv.index("--tier") + 1]
    sdir = os.path.abspath(sdir)
    patch = os.path.join(sdir, "patch.diff")
    demo = os.path.join(sdir, "demo.py")
    meta_path = os.path.join(sdir, "meta.json")
    meta = json.load(open(meta_path)) if os.path.exists(meta_path) else {}
    meta.update({"property": prop, "id": os.path.basename(sdir)})
    head = sh("git -C /repo rev-parse --short HEAD")[1].strip()
    meta["repo_head"] = head
    if "--skip-demo" not in sys.argv:
        wt = tempfile.mkdtemp(prefix="vfseed_")
        os.rmdir(wt)
        rc, out = sh("git -C /repo worktree add -q --detach %s HEAD" % wt)
        try:
            sh("cp %s %s/seed_demo_test.py" % (demo, wt))
            is_pytest = "def test_" in open(demo).read()
            run = ("/venv/bin/python -m pytest -q -p no:cacheprovider --timeout=600 seed_demo_test.py" if is_pytest
                   else "/venv/bin/python seed_demo_test.py")
            env = dict(os.environ)
            env.pop("PYSCRIPT_VERIF", None)
            rc0, out0 = sh(run, cwd=wt, env=env)
            rca, outa = sh("git apply %s" % patch, cwd=wt)
            rc1, out1 = sh(run, cwd=wt, env=env)
            meta["demo"] = {"cmd": run, "passes_without_patch": rc0 == 0, "patch_applies": rca == 0,
                            "fails_with_patch": rc1 != 0, "tail_with_patch": out1[-600:]}
        finally:
            sh("git -C /repo worktree remove --force %s" % wt)
            sh("rm -rf %s" % wt)
    t0 = time.time()
    rc, out = sh("tools/with_mutant.sh %s -- ./checks/run %s --tier %s" % (patch, prop, tier), cwd=VERIF, timeout=7200)
    viol = [l for l in out.splitlines() if l.startswith("VIOLATION")]
    meta.setdefault("checks", {})[prop + ":" + tier] = {
        "cmd": "tools/with_mutant.sh seeded/%s/patch.diff -- ./checks/run %s --tier %s" % (meta["id"], prop, tier),
        "exit": rc, "detected": rc == 1 and bool(viol), "violations": [re.sub(r"replay=\S+", "", v)[:300] for v in viol][:6],
        "wall_s": round(time.time() - t0), "tail": out[-400:] if rc not in (0, 1) else ""}
    json.dump(meta, open(meta_path, "w"), indent=1)
    print(meta["id"], prop, "demo:", meta.get("demo", {}).get("passes_without_patch"), meta.get("demo", {}).get("fails_with_patch"),
          "check exit", rc, "detected" if rc == 1 and viol else "MISSED" if rc == 0 else "MACHINERY")
    # replays written by the mutant run are not evidence about /repo
    sh("rm -rf %s/replays/%s" % (VERIF, prop))


if __name__ == "__main__":
    main()
