#!/bin/sh
# tools/c19_mutants.sh [--partial] [name-pattern]  - binding demonstration for C19: every mutant of mutants/C19/ must make
# the check report a VIOLATION (exit 1); the proposed fix must make the known finding disappear (exit 0,
# STALE-FINDING).  --partial runs only the phase that can see the mutant (C19_ONLY, development aid:
# such a run ends with exit 2 and lists the rejections instead of writing verdicts).
ROOT="$(cd "$(dirname "$0")/.." && pwd)"
cd "$ROOT" || exit 2
PARTIAL=""
[ "$1" = "--partial" ] && { PARTIAL=1; shift; }
PAT="${1:-}"
fail=0
for p in mutants/C19/*${PAT}*.patch; do
  n=$(basename "$p" .patch)
  only=""
  if [ -n "$PARTIAL" ]; then
    case "$n" in C19-m1-*|C19-m2-*|C19-m3-*) only=t1 ;; *) only=t2 ;; esac
  fi
  out=$(C19_ONLY=$only tools/with_mutant.sh "$ROOT/$p" -- ./checks/run C19 --tier quick 2>&1); rc=$?
  if [ -n "$PARTIAL" ]; then
    nrej=$(printf '%s\n' "$out" | grep -c "(partial run) rejection")
    first=$(printf '%s\n' "$out" | grep "(partial run) rejection" | sed 's/.*rejection: //' | sort | uniq -c | sort -rn | head -2 | tr '\n' ';')
    if [ "$nrej" -gt 0 ]; then echo "CAUGHT   $n  ($nrej rejections) $first"; else echo "SURVIVED $n"; fail=1; fi
  else
    v=$(printf '%s\n' "$out" | grep -c "^VIOLATION")
    if [ "$rc" -eq 1 ] && [ "$v" -gt 0 ]; then echo "CAUGHT   $n  (exit 1, $v violation signatures)"; else echo "SURVIVED $n (exit $rc)"; fail=1; fi
  fi
done
exit $fail
