#!/usr/bin/env python3
"""Resolve a merge conflict in known_findings.jsonl by taking the union of both sides (order: ours, then theirs)."""
import re, sys
p = "known_findings.jsonl"
s = open(p).read()
out, seen = [], set()
for line in s.splitlines():
    if line.startswith(("<<<<<<<", "=======", ">>>>>>>")) or not line.strip():
        continue
    if line not in seen:
        seen.add(line)
        out.append(line)
open(p, "w").write("\n".join(out) + "\n")
print(len(out), "entries")
