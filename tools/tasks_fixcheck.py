#!/venv/bin/python
"""tools/tasks_fixcheck.py [--n N] [--seed S] - quick look at C13/C14 on the tree $PYSCRIPT_SRC (default /repo).

Runs the known-finding witnesses of C13 and C14 plus N random scenarios of each generator (masked
and unmasked halves, C14 with crash-point re-runs) in this process, validates them with
spec/TasksTrace.tla and prints: which witnesses are still rejected (and the explaining flags) and
the rejections of the random batch by clause, masked space separately.  Used to try proposed fixes
and mutants on a scratch copy:   tools/with_mutant.sh <patch> -- tools/tasks_fixcheck.py --n 40
Exit code 0 = nothing rejected outside the known clauses, 1 otherwise (TLC decides; this is a
development aid, not a substitute for ./checks/run).
"""
import argparse
import json
import os
import random
import sys

ROOT = os.path.dirname(os.path.dirname(os.path.abspath(__file__)))
sys.path.insert(0, ROOT)
sys.path.insert(0, os.path.join(ROOT, "harness"))

from harness import tasklib as tl  # noqa: E402
from harness.common import Ctx  # noqa: E402
from harness.drivers import c13, c14  # noqa: E402


def main():
    ap = argparse.ArgumentParser()
    ap.add_argument("--n", type=int, default=30)
    ap.add_argument("--seed", type=int, default=1)
    a = ap.parse_args()
    r = random.Random(a.seed)
    cases = []
    for s in c13.witnesses() + c14.witnesses():
        cases.append(tl.run_scenario(s))
    for i in range(a.n):
        cases.append(tl.run_scenario(c13.gen_scenario(r, "c13/%s/%d" % ("m" if i % 2 else "u", i), i % 2 == 1)))
    scns = [c14.gen_scenario(r, "c14/%s/%d" % ("m" if i % 2 else "u", i), i % 2 == 1) for i in range(a.n)]
    cases += c14.work({"scns": scns, "seed": a.seed, "cap": 4})
    ctx = Ctx("C14", "quick", a.seed)
    try:
        masked = {c["id"] for c in cases if c["scn"].get("masked")}
        rej, why, _ = tl.validate(ctx, "C14", cases, "fixcheck", masked, selftest_want=4)
    finally:
        ctx.cleanup()
    print("source under test:", os.environ.get("PYSCRIPT_SRC", "/repo"))
    print("recordings: %d (%d lines)" % (len(cases), sum(len(c["trace"]) for c in cases)))
    bad = 0
    for c in cases:
        if c["id"].startswith("witness/"):
            print("  %-55s %s" % (c["id"], why.get(c["id"], "accepted (not reproduced)")))
    tally = {}
    for c in cases:
        if c["id"] in rej and not c["id"].startswith("witness/"):
            space = "masked" if c["id"] in masked else "unmasked"
            for f in why[c["id"]]:
                tally[(space, f)] = tally.get((space, f), 0) + 1
            if space == "masked" or why[c["id"]] == ["unexplained"]:
                bad += 1
                ln = c["trace"][rej[c["id"]] - 1] if rej[c["id"]] <= len(c["trace"]) else "END"
                print("  REJECTED %s at line %d %s: %s" % (c["id"], rej[c["id"]], why[c["id"]], json.dumps(ln)[:160]))
    for k in sorted(tally):
        print("  rejections %-9s %-30s %d" % (k[0], k[1], tally[k]))
    print("verdict:", "clean outside the known clauses" if not bad else "%d rejection(s) outside the known clauses" % bad)
    return 1 if bad else 0


if __name__ == "__main__":
    sys.exit(main())
