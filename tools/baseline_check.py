#!/usr/bin/env python3
"""Runs the repository's pinned baseline (guard OFF) and compares with /root/.vp/BASELINE.json.
usage: tools/baseline_check.py [repo_dir]"""
import json, os, subprocess, sys, tempfile
import xml.etree.ElementTree as ET
repo = sys.argv[1] if len(sys.argv) > 1 else "/repo"
base = json.load(open("/root/.vp/BASELINE.json"))
fd, xml = tempfile.mkstemp(suffix=".xml"); os.close(fd)
env = dict(os.environ); env.pop("PYSCRIPT_VERIF", None)
subprocess.run(["/venv/bin/python", "-m", "pytest", "-ra", "-q", "-p", "no:cacheprovider", "--timeout=900",
                "--continue-on-collection-errors", "--junitxml=" + xml], cwd=repo, env=env,
               stdout=subprocess.DEVNULL, stderr=subprocess.DEVNULL)
passed = set()
for tc in ET.parse(xml).getroot().iter("testcase"):
    if not any(ch.tag in ("failure", "error", "skipped") for ch in tc):
        passed.add("%s::%s" % (tc.get("classname"), tc.get("name")))
os.unlink(xml)
want = set(base["stable_pass"])
missing = sorted(want - passed)
print("baseline: %d/%d stable tests pass; %d others pass" % (len(want & passed), len(want), len(passed - want)))
for m in missing:
    print("  MISSING", m)
sys.exit(1 if missing else 0)
