#!/usr/bin/env python3
"""tools/import_seed.py <PROP> <batch-letter> "<summary1>" "<needs1>" "<summary2>" "<needs2>" : copy /tmp/seed/<PROP>-<b>/seed_out into seeded/."""
import json, os, shutil, sys
prop, b, s1, n1, s2, n2 = sys.argv[1:7]
src = "/tmp/seed/%s-%s/seed_out" % (prop, b)
for k, (summ, needs) in enumerate([(s1, n1), (s2, n2)], 1):
    d = "seeded/%s-%s%d" % (prop, b, k)
    os.makedirs(d, exist_ok=True)
    shutil.copy("%s/seed%d.diff" % (src, k), d + "/patch.diff")
    shutil.copy("%s/seed%d_demo.py" % (src, k), d + "/demo.py")
    shutil.copy("%s/seed%d.md" % (src, k), d + "/notes.md")
    json.dump({"id": "%s-%s%d" % (prop, b, k), "property": prop, "summary": summ, "needs": needs,
               "source": "fresh sub-agent given only the property text (and, for -b, the summaries of the -a seeds to avoid) and a scratch worktree of /repo"},
              open(d + "/meta.json", "w"), indent=1)
os.system("git -C /repo worktree remove --force /tmp/seed/%s-%s; rm -rf /tmp/seed/%s-%s" % (prop, b, prop, b))
print("imported", prop, b)
