#!/usr/bin/env python3
"""Regenerates /verif/MANIFEST.json from the table below (single place to edit)."""
import json
import os

VERIF = os.path.dirname(os.path.dirname(os.path.abspath(__file__)))

# property -> (technique, level text, level note, design ref)
CHECKS = {
    "C04": (
        "TLC model checking of spec/Trig.tla (all trigger forms x histories x interleavings) + trace validation of "
        "recordings of the real integration against spec/TrigTrace.tla (shared operators in TrigCore.tla)",
        "The state-trigger pipeline (HA state machine, bus, State.update fan-out, per-trigger queue, qualification) is an "
        "explicit TLA+ model whose invariants are the statement written over the event history; TLC enumerates all "
        "histories/interleavings up to the bound.  The code is bound by driving the real integration (both decorator "
        "subsystems) through generated histories and letting TLC decide whether each recording is a behaviour of the same "
        "operators.",
        "Bounded model (2 entities, 2 values, 1 attribute, <= 3 operations); expressions restricted to the TrigCore grammar "
        "(comparisons, and/or/not, conditional expressions, raising int() nodes; three-valued evaluation); "
        "HA core trusted; recordings sampled (random histories), not exhaustive.",
        "DESIGN.md section 5 C04, Appendix F"),
    "C05": (
        "TLC model checking of spec/Hold.tla (hold automaton vs. declarative statement over the evaluation history, all "
        "configurations) + trace validation of timed recordings of the real integration against spec/HoldTrace.tla "
        "(shared operators in HoldCore.tla, deviations classified by named deviation flags)",
        "The check_now/hold/hold_false automaton is an explicit TLA+ specification; TLC shows on all configurations and "
        "timed histories up to the bound that it implies the statement written declaratively over the history of "
        "evaluations, and that non-evaluating changes are stuttering steps.  The real decorators and task.wait_until (both "
        "subsystems) run timed scenarios on a virtual clock; TLC folds the same operators over each recorded history and "
        "accepts or rejects the observed run times and arguments.",
        "Grid of even event times with S,H in {None,0,3} (no ties); one watched entity with expression a in ['1','2'] "
        "over the values 0,3 (false) and 1,2 (true); "
        "recordings sampled; virtual clock replaces time.monotonic/loop.time.",
        "DESIGN.md section 5 C05, Appendices B and K"),
    "C07": (
        "TLC model checking of spec/Guards.tla (guard stage vs. declarative statement) + trace validation of recorded "
        "timelines of guarded trigger functions against spec/GuardTrace.tla (shared operators in GuardCore.tla; window "
        "denotation for all range()/cron() forms bound at function level through spec/TimeSpec.tla)",
        "The guard stage (@state_active on the triggering values, @time_active positive/negated windows, hold_off from the "
        "last accepted occurrence, direct calls bypassing it) is an explicit TLA+ specification; TLC checks it against the "
        "statement written over the occurrence history for all window sets / hold_off values / occurrence timings up to the "
        "bound.  Real functions carrying state, event and time triggers (both subsystems) are driven through timelines with "
        "occurrences exactly on window end points and hold_off boundaries; TLC folds the same operators over each recording.",
        "Daily range() windows on an integer-second grid at decorator level (other forms at function level); occurrences "
        "settled one at a time except bursts of changes of one entity at one instant; every trigger type declared by one or "
        "two decorators; recordings sampled.",
        "DESIGN.md section 5 C07, Appendix G"),
    "C08": (
        "TLC model checking of spec/Msgs.tla (listener fan-out, per-trigger FIFO, filter, one task per accepted message, "
        "context lineage; all interleavings) + trace validation of recorded bursts of event/MQTT/webhook messages against "
        "spec/MsgTrace.tla (shared operators in MsgCore.tla)",
        "Message delivery is an explicit TLA+ model; TLC enumerates trigger sets x message sequences x interleavings of "
        "arrival, delivery, consumption and long-running runs and checks exactly-once, per-trigger order, independence of "
        "runs and HA context lineage.  The real integration (both subsystems) is fed bursts of events, MQTT and webhook "
        "messages at the HA hand-over boundary while earlier runs sleep; run starts, kwargs, task identities and the contexts "
        "and parameters of everything the runs emit (event.fire, state.set, service.call) are recorded and decided by TLC.",
        "MQTT/webhook injected at the hand-over boundary (fake broker, direct handler call); exact-topic matching; lineage "
        "required only for occurrences that carry a context; recordings sampled.",
        "DESIGN.md section 5 C08"),
    "C15": (
        "TLC model checking of spec/WaitUntil.tla (one-shot trigger instance with explicit resources; every exit through "
        "Release; mechanism = declarative fold) + trace validation of recorded task.wait_until calls incl. cancellation at "
        "arbitrary instants against spec/WaitTrace.tla (shared operators in WaitCore.tla)",
        "task.wait_until is specified as a one-shot instance of the trigger pipeline with the resources it creates; TLC "
        "enumerates all argument combinations x timed histories x cancellation instants up to the bound and checks that the "
        "outcome is the first qualifying condition after the call and that every exit path releases everything.  Real calls "
        "(both subsystems) are recorded with their outcome, time, returned dictionary and the resources left behind "
        "(State.notify queues, bus listeners, loop timers, pending tasks vs. a baseline) and decided by TLC.",
        "Grid avoiding ties (events at even seconds, cancellation at half seconds, timers at odd seconds); hold timing is C05's; "
        "MQTT/webhook conditions not generated here (C08 covers their delivery); recordings sampled.",
        "DESIGN.md section 5 C15"),
    "C02": (
        "TLC model checking of spec/PyFlowMC.tla (TLC-enumerated control-flow skeletons x oracle vectors; machine theorems on "
        "runs generated by the statement machine spec/PyFlowCore.tla) + trace validation: generated programs executed under "
        "CPython and under pyscript's AstEval, both recordings decided by the acceptor spec/PyFlow.tla (same rules in "
        "checking mode)",
        "Python's control flow is an explicit TLA+ completion-record statement machine (if/while/for+else, break/continue/"
        "return, try/except/else/finally, raise / bare raise / raise-from, with 1-2 managers, assert, function boundary). TLC "
        "enumerates every skeleton of nesting <= 2 with every jump placement and oracle vector and checks FinallyExactlyOnce, "
        "ExitPairsEnterLIFO, ElseIffNoBreak, JumpsStayInFunction and agreement of generator and acceptor mode. The code is "
        "bound by trace validation: bounded-exhaustive skeleton families (nesting 1-3, all oracle paths) and random programs "
        "to depth 6 are run under CPython and pyscript; TLC accepts every CPython recording (validating the specification) and "
        "decides every pyscript recording.",
        "Families of nesting 2/3 are sampled in the quick tier; TLC's own enumeration stops at nesting 2; exception identity = "
        "(class, raise site, cause class); native context managers/iterators only; one known deviation left (exceptions outside "
        "the Exception hierarchy are invisible to except/__exit__), masked: only the masked space is claimed clean there.",
        "DESIGN.md section 5 C02, Appendix D, notes/C02.md"),
    "C06": (
        "TLC model checking of spec/TimeMC.tla (metamorphic theorems of the successor function Next over the set denotation "
        "of spec/TimeSpec.tla, both DST transitions, leap day, year end) + trace validation: evaluations of the real "
        "TrigTime.timer_trigger_next / timer_active_check and recordings of running @time_trigger functions on a virtual wall "
        "clock (both subsystems) accepted or rejected by spec/TimeTrace.tla (same operators)",
        "The meaning of once()/period()/cron() specifications and @time_active windows is an explicit TLA+ denotation (sets of "
        "instants, minimum), independent of the implementation's day-offset search; TLC proves on a coarse grid that its "
        "successor function is strictly increasing, skips nothing, is idempotent between occurrences, takes the minimum over "
        "lists, follows the wall clock for cron and keeps period spacing across both DST changes. The code is bound by letting "
        "TLC decide, case by case, whether the real function's answer (next time and DST-adjusted wait) is the denotation's "
        "answer, and whether the run times / trigger_time values of running triggers are exactly the successive denoted "
        "instants, startup/shutdown once.",
        "Evaluation times and specifications are sampled from the documented grammar (two-year window, one DST time zone, "
        "boundary instants +-1 us), not exhaustive; the model's grid is coarse and bounded; astral, croniter, zoneinfo and HA "
        "core are trusted; cron field expansion by a small harness parser; statement-silent points are nondeterministic "
        "(today/tomorrow reference, period time scale across DST, now = startup coincidence).",
        "DESIGN.md section 5 C06, Appendix G, notes/C06.md"),
}

NOT_YET = {
}

# checks built by sub-agents: texts are taken from the "Proposed MANIFEST texts" section of notes/<ID>.md
AGENT_NOTES = {"C16": "C16.md", "C20": "C20.md", "C13": "C13.md", "C14": "C14.md", "C03": "C03.md", "C10": "C10.md", "C11": "C11.md", "C01": "C01.md", "C17": "C17.md", "C18": "C18.md", "C09": "C09.md", "C12": "C12.md", "C19": "C19.md"}


def grab(path):
    import re
    s = open(path).read()
    i = s.lower().find("proposed manifest")
    sec = s[i:]
    j = sec.find("\n## ", 10)
    if j > 0:
        sec = sec[:j]
    out = {}
    for key, pat in (("technique", r"technique\**\s*:?\**\s*"), ("text", r"level(?: \(model_checking\))? text\**\s*:?\**\s*"),
                     ("note", r"level note\**\s*:?\**\s*")):
        m = re.search(r"\*\s*\**" + pat + r"[:]?\s*(.+?)(?=\n\*\s|\Z)", sec, re.S | re.I)
        if m:
            out[key] = " ".join(m.group(1).split()).strip().strip('`"\u201c\u201d')
    if "technique" not in out:          # plain "technique: ... / level note: ..." paragraphs
        m = re.search(r"^technique:\s*(.+?)(?=^level)", sec, re.S | re.M | re.I)
        n = re.search(r"^level note:\s*(.+?)(?=\n\s*\n|\Z)", sec, re.S | re.M | re.I)
        if m:
            out["technique"] = " ".join(m.group(1).split())
        if n:
            out["note"] = " ".join(n.group(1).split())
    return out


for _pid, _f in AGENT_NOTES.items():
    _g = grab(os.path.join(VERIF, "notes", _f))
    CHECKS[_pid] = (_g["technique"], _g.get("text") or _g["technique"], _g["note"], "DESIGN.md section 5 %s, notes/%s" % (_pid, _f))


def main():
    props = [json.loads(l) for l in open(os.path.join(VERIF, "properties.jsonl"))]
    checks = []
    na = []
    for p in props:
        pid = p["id"]
        if pid in CHECKS:
            tech, text, note, ref = CHECKS[pid]
            checks.append({
                "property_id": pid,
                "quick_cmd": "./checks/run %s --tier quick" % pid,
                "thorough_cmd": "./checks/run %s --tier thorough" % pid,
                "evidence_file": "/verif/evidence/%s.json" % pid,
                "replay_cmd_template": "./checks/run %s --replay {path}" % pid,
                "engine": "tlc+world",
                "level_claimed": {"category": "model_checking", "text": text, "design_ref": ref},
                "level_note": note,
                "technique": tech,
            })
        else:
            na.append({"property_id": pid,
                       "reason": NOT_YET.get(pid, "check under construction in this round: specification planned in DESIGN.md "
                                                  "section 5, not yet registered (no claim made until its check runs clean)")})
    man = {
        "version": 1,
        "setup_cmd": "./checks/setup",
        "hooks": {
            "guard": "PYSCRIPT_VERIF",
            "enable": "checks export PYSCRIPT_VERIF=1 before importing /repo's custom_components (no build step: Python sources are imported from /repo's working tree)",
            "baseline_off_cmd": "cd /repo && env -u PYSCRIPT_VERIF /venv/bin/python -m pytest -ra -q -p no:cacheprovider --timeout=900 --continue-on-collection-errors",
            "source_commits": [],
            "add_only": True,
        },
        "engines": [
            {"name": "tlc+world", "path": "/verif/harness",
             "serves_properties": sorted(CHECKS),
             "kind_free_text": "explicit TLA+ specifications (spec/*.tla) checked with TLC; real pyscript inside a HomeAssistant "
                               "test instance on a deterministic virtual-time asyncio loop (harness/world.py); recordings "
                               "validated by TLC trace/acceptor specifications; TLC-generated behaviours replayed into the code"},
        ],
        "checks": checks,
        "not_applicable": na,
        "notes": "All checks: ./checks/run <id> --tier quick|thorough; exit 0 held / 1 VIOLATION / 2 machinery failure. "
                 "Known findings: /verif/known_findings.jsonl. Seeded breakages: /verif/seeded/.",
    }
    with open(os.path.join(VERIF, "MANIFEST.json"), "w") as f:
        json.dump(man, f, indent=1)
    print("MANIFEST.json: %d checks, %d not_applicable" % (len(checks), len(na)))


if __name__ == "__main__":
    main()
