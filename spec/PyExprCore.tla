----------------------------- MODULE PyExprCore -----------------------------
(* C01: evaluation-order / data-flow semantics of Python expressions and assignments over   *)
(* OPAQUE recorder values, as a recursive trace acceptor.  The machine never computes 1+2:  *)
(* it prescribes, for every node, the exact sequence of sub-evaluations and primitive       *)
(* protocol operations (events) on value identities; results, truthiness and raised         *)
(* exception types are read from the recording (they are CPython's own primitives applied   *)
(* to the operands the machine dictates).                                                   *)
(*                                                                                          *)
(* Value descriptors (harness/pyvalues.py):                                                 *)
(*   [k:"v",id,b] recorder object   [k:"b",b] bool   [k:"none"]   [k:"c",t,r,s,b] scalar     *)
(*   [k:"seq",t:"list"|"tuple"|"set",e]  [k:"dict",ks,vs]  [k:"slice",e]  [k:"fn",r] [k:"o",r]*)
(*   [k:"opq"] value the machine cannot compute (plain op plain): wildcard in comparisons    *)
(*   [k:"ref",a] REFERENCE to a plain mutable container (list / set / dict) on the machine's  *)
(*     heap st.h (Round 4): displays, comprehensions, starred targets and slices allocate a  *)
(*     new object; names, containers and in-flight values hold references; subscript / slice *)
(*     stores, del and the in-place operators mutate the object - visible through every      *)
(*     reference.  The recorder's descriptors are structural snapshots: Reify expands the    *)
(*     machine's references before anything is compared with the recording.  An object whose *)
(*     content the machine does not compute (s -= {..}, x[::2] = ..) has content Opq.        *)
(* Event: [e, op, n, xs, names, r, x].                                                      *)
(*                                                                                          *)
(* st = [l (next event), ok, kind, why, want, fl, q, ni, exc]                               *)
(*   fl : set of NAMED DEVIATION FLAGS (known defects of the pinned tree); fl = {} is Python *)
(*   q/ni : recorder modes quietstr / noinplace;  exc : recorded exception (lookahead only   *)
(*   to classify a raise inside an unrecorded plain primitive as "not-modelled").            *)
EXTENDS Integers, Sequences, FiniteSets, TLC, Json, IOUtils

NoneV   == [k |-> "none"]
Opq     == [k |-> "opq"]
NoIt    == [k |-> "noit"]
B(b)    == [k |-> "b", b |-> b]
StrC(s) == [k |-> "c", t |-> "str", r |-> s, s |-> s, b |-> s # ""]
SeqV(t, e) == [k |-> "seq", t |-> t, e |-> e]
IsRec(v) == v.k = "v"
Ref(a)   == [k |-> "ref", a |-> a]
IsRef(v) == v.k = "ref"

AllFlags == {"dict-value-first", "call-kw-first", "cmp-operand-twice", "cmp-bool-result",
             "aug-target-twice", "aug-binary-op", "fstring-conv-ignored", "uadd-noop",
             "call-callee-eq", "call-str-args", "unpack-consumes-all", "comp-leak-on-raise",
             "genexp-unsupported", "del-attr-as-state", "del-tuple-unsupported",
             "list-target-unsupported", "dstar-pairs", "star-target-nonname", "star-uses-add", "kw-dup-accepted", "matmul-unsupported"}

Builtins == {"list", "tuple", "set"}

\* ---------------------------------------------------------------- equality of descriptors
RECURSIVE Same(_, _)
SameSeq(a, b) == Len(a) = Len(b) /\ \A i \in 1..Len(a) : Same(a[i], b[i])
SameSet(a, b) == (\A i \in 1..Len(a) : \E j \in 1..Len(b) : Same(a[i], b[j]))
              /\ (\A j \in 1..Len(b) : \E i \in 1..Len(a) : Same(a[i], b[j]))
Same(a, b) ==
  IF a.k = "opq" \/ b.k = "opq" THEN TRUE
  ELSE IF a.k # b.k THEN FALSE
  ELSE CASE a.k = "v"     -> a.id = b.id /\ a.b = b.b
         [] a.k = "ref"   -> a.a = b.a
         [] a.k = "b"     -> a.b = b.b
         [] a.k = "c"     -> a.t = b.t /\ a.s = b.s
         [] a.k = "seq"   -> a.t = b.t /\ IF a.t = "set" THEN SameSet(a.e, b.e) ELSE SameSeq(a.e, b.e)
         [] a.k = "dict"  -> SameSeq(a.ks, b.ks) /\ SameSeq(a.vs, b.vs)
         [] a.k = "slice" -> SameSeq(a.e, b.e)
         [] a.k \in {"fn", "o"} -> a.r = b.r
         [] OTHER -> TRUE

\* ---------------------------------------------------------------- state and result records
NoWant == [e |-> "", op |-> "", xs |-> <<>>, names |-> <<>>, n |-> 0]
St0(fl, opts, exc) == [l |-> 1, h |-> <<>>, ok |-> TRUE, nm |-> FALSE, cut |-> FALSE, kind |-> "", why |-> "", want |-> NoWant, fl |-> fl,
                       q |-> opts.quietstr, ni |-> opts.noinplace, exc |-> exc]
Fail(st, kind, why) == IF st.ok THEN [st EXCEPT !.ok = FALSE, !.kind = kind, !.why = why] ELSE st
NotMod(st, kind, what) == IF st.ok THEN [Fail(st, kind, "not-modelled: " \o what) EXCEPT !.nm = TRUE] ELSE st
\* deviation reached whose further consequences are not modelled: the recording counts as explained
Cut(st) == IF st.ok THEN [st EXCEPT !.ok = FALSE, !.cut = TRUE, !.why = "cut"] ELSE st
Adv(st) == [st EXCEPT !.l = @ + 1]
Ok(st, v, env) == [st |-> st, v |-> v, x |-> "", env |-> env]
Ex(st, x, env) == [st |-> st, v |-> NoneV, x |-> x, env |-> env]
Stop(r) == r.x # "" \/ ~r.st.ok
L(st, vs, x, env) == [st |-> st, vs |-> vs, x |-> x, env |-> env]          \* list results
S(st, env, x) == [st |-> st, env |-> env, x |-> x]                          \* statement results
SofR(r) == [st |-> r.st, env |-> r.env, x |-> r.x]
Has(st, f) == f \in st.fl

\* ---------------------------------------------------------------- the heap
Deref(st, v) == IF v.k = "ref" THEN st.h[v.a] ELSE v
Alloc(st, obj) == [st EXCEPT !.h = Append(@, obj)]
New(st, obj, env) == IF st.ok THEN Ok(Alloc(st, obj), Ref(Len(st.h) + 1), env) ELSE Ex(st, "", env)
HPut(st, a, obj) == [st EXCEPT !.h[a] = obj]
\* structural snapshot of a value (what the recorder's desc() prints)
RECURSIVE Reify(_, _)
ReifySeq(h, e) == [i \in 1..Len(e) |-> Reify(h, e[i])]
Reify(h, v) == CASE v.k = "ref"   -> Reify(h, h[v.a])
                 [] v.k = "seq"   -> [v EXCEPT !.e = ReifySeq(h, v.e)]
                 [] v.k = "dict"  -> [v EXCEPT !.ks = ReifySeq(h, v.ks), !.vs = ReifySeq(h, v.vs)]
                 [] v.k = "slice" -> [v EXCEPT !.e = ReifySeq(h, v.e)]
                 [] OTHER -> v
ReifyEnv(h, env) == [m \in DOMAIN env |-> Reify(h, env[m])]
IsListD(d) == d.k = "seq" /\ d.t = "list"
IsTupD(d)  == d.k = "seq" /\ d.t = "tuple"

\* expect one primitive event; result = logged result / logged exception
Prim(st, tr, env, kind, e, op, xs, names, n) ==
  IF ~st.ok THEN Ex(st, "", env)
  ELSE IF st.l > Len(tr)
       THEN Ex([Fail(st, kind, "recording ends early: expected " \o e) EXCEPT
                  !.want = [e |-> e, op |-> op, xs |-> ReifySeq(st.h, xs), names |-> names, n |-> n]], "", env)
  ELSE LET got == tr[st.l] IN
       IF got.e # e THEN Ex(Fail(st, kind, "expected " \o e \o (IF op = "" THEN "" ELSE "." \o op) \o " got " \o got.e \o (IF got.op = "" THEN "" ELSE "." \o got.op)), "", env)
       ELSE IF got.op # op THEN Ex(Fail(st, kind, "expected " \o e \o "." \o op \o " got " \o e \o "." \o got.op), "", env)
       ELSE IF got.n # n \/ got.names # names \/ ~SameSeq(got.xs, ReifySeq(st.h, xs)) THEN Ex(Fail(st, kind, "operands differ for " \o e), "", env)
       ELSE IF got.x # "" THEN Ex(Adv(st), got.x, env)
       ELSE Ok(Adv(st), got.r, env)

\* lookahead: is the next event `e` (operator op, "" = any) on first operand v?
NextIs(st, tr, e, op, v) ==
  st.ok /\ st.l <= Len(tr) /\ tr[st.l].e = e /\ (op = "" \/ tr[st.l].op = op)
  /\ Len(tr[st.l].xs) >= 1 /\ Same(tr[st.l].xs[1], v)

\* a primitive on plain (non-recorder) operands: no event, result unknown; it may raise, which
\* the machine cannot see - if the recording stops here with an exception the case is not modelled
OpaqueOp(st, env, kind, tr) ==
  IF st.l > Len(tr) /\ st.exc # "" THEN Ex(NotMod(st, kind, "plain primitive that may have raised"), "", env)
  ELSE Ok(st, Opq, env)

CanTruthD(v) == v.k # "opq"
TruthOfD(v) == CASE v.k \in {"b", "c", "v"} -> v.b
                [] v.k = "none" -> FALSE
                [] v.k = "seq"  -> Len(v.e) > 0
                [] v.k = "dict" -> Len(v.ks) > 0
                [] OTHER -> TRUE
\* (truth of a container = its current content on the heap)
CanTruth(st, v) == CanTruthD(Deref(st, v))
TruthOf(st, v)  == TruthOfD(Deref(st, v))

StrOf(v)  == CASE v.k = "c" -> v.s [] v.k = "b" -> (IF v.b THEN "True" ELSE "False") [] OTHER -> "None"
ReprOf(v) == CASE v.k = "c" -> v.r [] v.k = "b" -> (IF v.b THEN "True" ELSE "False") [] OTHER -> "None"

Bind(env, id, v) == [m \in DOMAIN env \cup {id} |-> IF m = id THEN v ELSE env[m]]
Unbind(env, id)  == [m \in DOMAIN env \ {id} |-> env[m]]

RECURSIVE DictPut(_, _, _, _)
DictPut(d, k, v, i) ==
  IF i > Len(d.ks) THEN [k |-> "dict", ks |-> Append(d.ks, k), vs |-> Append(d.vs, v)]
  ELSE IF Same(d.ks[i], k) /\ k.k # "opq" THEN [d EXCEPT !.vs[i] = v]
  ELSE DictPut(d, k, v, i + 1)
EmptyDict == [k |-> "dict", ks |-> <<>>, vs |-> <<>>]

RECURSIVE Dedupe(_, _, _)
Dedupe(e, i, acc) ==
  IF i > Len(e) THEN acc
  ELSE IF e[i].k # "opq" /\ \E j \in 1..Len(acc) : acc[j].k # "opq" /\ Same(acc[j], e[i]) THEN Dedupe(e, i + 1, acc)
  ELSE Dedupe(e, i + 1, Append(acc, e[i]))

\* hashing is not an event: an unhashable element of a set / key of a dict raises TypeError inside
\* a plain primitive; the placement of that raise is not modelled
RECURSIVE Unhashable(_)
Unhashable(v) == v.k = "ref" \/ (v.k = "seq" /\ (v.t \in {"list", "set"} \/ \E i \in 1..Len(v.e) : Unhashable(v.e[i]))) \/ v.k = "dict"

RECURSIVE TargetNames(_)
TargetNames(t) ==
  CASE t.k = "Name" -> {t.id}
    [] t.k \in {"Tuple", "List"} -> UNION {TargetNames(t.elts[i]) : i \in 1..Len(t.elts)}
    [] t.k = "Starred" -> TargetNames(t.v)
    [] OTHER -> {}

\* plain values on which iter() raises TypeError (strings / bytes / sets iterate, but their items are not modelled)
NotIterable(v) == v.k \in {"none", "b", "slice", "fn"} \/ (v.k = "c" /\ v.t \in {"int", "float", "complex", "ellipsis"})
\* plain values that are not mappings (no .keys): `**v` raises TypeError
NotMapping(v) == v.k \in {"none", "b", "c", "seq", "slice"}

\* ---------------------------------------------------------------- item access on plain containers
\* (integer constants carry their value in field i - harness/pyvalues.desc - when it fits 31 bits)
IsInt(v) == v.k = "c" /\ v.t = "int" /\ "i" \in DOMAIN v
\* a[lo:hi] with constant integer / absent bounds and no step
SliceOK(s) == s.k = "slice" /\ s.e[3].k = "none" /\ \A j \in 1..2 : s.e[j].k = "none" \/ IsInt(s.e[j])
Clamp(i, n) == IF i < 0 THEN (IF i + n < 0 THEN 0 ELSE i + n) ELSE IF i > n THEN n ELSE i
SliceLo(s, n) == IF s.e[1].k = "none" THEN 0 ELSE Clamp(s.e[1].i, n)
SliceHi(s, n) == LET hi == IF s.e[2].k = "none" THEN n ELSE Clamp(s.e[2].i, n) IN IF hi < SliceLo(s, n) THEN SliceLo(s, n) ELSE hi
Idx(s, n) == IF s.i < 0 THEN s.i + n ELSE s.i              \* 0-based; valid iff 0 <= Idx < n
\* keys whose hash / equality the machine can decide structurally (no 1 == 1.0 == True coincidences)
KeyOK(k) == k.k \in {"v", "none"} \/ (k.k = "c" /\ k.t \in {"str", "bytes"}) \/ IsInt(k)
DictFind(d, k) == IF \E j \in 1..Len(d.ks) : d.ks[j].k # "opq" /\ Same(d.ks[j], k) THEN CHOOSE j \in 1..Len(d.ks) : d.ks[j].k # "opq" /\ Same(d.ks[j], k) ELSE 0
AllKeysOK(d) == \A j \in 1..Len(d.ks) : KeyOK(d.ks[j])
Without(e, lo, hi) == SubSeq(e, 1, lo) \o SubSeq(e, hi + 1, Len(e))      \* e minus the 0-based range [lo, hi)

\* the outcome of a plain primitive the machine does not compute: it may have raised (then the recording ends here)
MayRaise(st, tr) == st.l > Len(tr) /\ st.exc # ""

\* o[s] where o is not a recorder object
PlainGet(o, s, st, tr, env, kind) ==
  LET d == Deref(st, o) IN
  IF d.k = "seq" /\ d.t \in {"list", "tuple"} /\ IsInt(s) THEN
       IF Idx(s, Len(d.e)) >= 0 /\ Idx(s, Len(d.e)) < Len(d.e) THEN Ok(st, d.e[Idx(s, Len(d.e)) + 1], env) ELSE Ex(st, "IndexError", env)
  ELSE IF d.k = "seq" /\ d.t \in {"list", "tuple"} /\ SliceOK(s) THEN
       LET part == SubSeq(d.e, SliceLo(s, Len(d.e)) + 1, SliceHi(s, Len(d.e))) IN
       IF d.t = "tuple" THEN Ok(st, SeqV("tuple", part), env) ELSE New(st, SeqV("list", part), env)      \* a slice of a list is a NEW list
  ELSE IF d.k = "dict" /\ KeyOK(s) /\ DictFind(d, s) # 0 THEN Ok(st, d.vs[DictFind(d, s)], env)
  ELSE IF d.k = "dict" /\ KeyOK(s) /\ AllKeysOK(d) THEN Ex(st, "KeyError", env)
  ELSE OpaqueOp(st, env, kind, tr)

\* o[s] = v where o is a reference: the object is changed in place (every reference sees it)
PlainSet(o, s, v, st, tr, env, kind) ==
  LET d == st.h[o.a]
      unknown == IF MayRaise(st, tr) THEN S(NotMod(st, kind, "plain store that may have raised"), env, "")
                 ELSE S(HPut(st, o.a, Opq), env, "") IN
  IF IsListD(d) /\ IsInt(s) THEN
       IF Idx(s, Len(d.e)) >= 0 /\ Idx(s, Len(d.e)) < Len(d.e) THEN S(HPut(st, o.a, [d EXCEPT !.e[Idx(s, Len(d.e)) + 1] = v]), env, "")
       ELSE S(st, env, "IndexError")
  ELSE IF IsListD(d) /\ SliceOK(s) THEN
       LET dv == Deref(st, v) IN
       IF dv.k = "seq" /\ dv.t \in {"list", "tuple"} THEN
            S(HPut(st, o.a, SeqV("list", SubSeq(d.e, 1, SliceLo(s, Len(d.e))) \o dv.e \o SubSeq(d.e, SliceHi(s, Len(d.e)) + 1, Len(d.e)))), env, "")
       ELSE IF ~IsRec(dv) /\ NotIterable(dv) THEN S(st, env, "TypeError")                              \* must assign an iterable
       ELSE S(NotMod(st, kind, "slice store of a value whose items are not modelled"), env, "")
  ELSE IF d.k = "dict" /\ KeyOK(s) /\ DictFind(d, s) # 0 THEN S(HPut(st, o.a, [d EXCEPT !.vs[DictFind(d, s)] = v]), env, "")
  ELSE IF d.k = "dict" /\ KeyOK(s) /\ AllKeysOK(d) THEN S(HPut(st, o.a, [d EXCEPT !.ks = Append(@, s), !.vs = Append(@, v)]), env, "")
  ELSE unknown

\* del o[s] where o is a reference
PlainDel(o, s, st, tr, env, kind) ==
  LET d == st.h[o.a]
      unknown == IF MayRaise(st, tr) THEN S(NotMod(st, kind, "plain del that may have raised"), env, "")
                 ELSE S(HPut(st, o.a, Opq), env, "") IN
  IF IsListD(d) /\ IsInt(s) THEN
       IF Idx(s, Len(d.e)) >= 0 /\ Idx(s, Len(d.e)) < Len(d.e) THEN S(HPut(st, o.a, SeqV("list", Without(d.e, Idx(s, Len(d.e)), Idx(s, Len(d.e)) + 1))), env, "")
       ELSE S(st, env, "IndexError")
  ELSE IF IsListD(d) /\ SliceOK(s) THEN S(HPut(st, o.a, SeqV("list", Without(d.e, SliceLo(s, Len(d.e)), SliceHi(s, Len(d.e))))), env, "")
  ELSE IF d.k = "dict" /\ KeyOK(s) /\ DictFind(d, s) # 0 THEN
       LET j == DictFind(d, s) IN S(HPut(st, o.a, [d EXCEPT !.ks = Without(d.ks, j - 1, j), !.vs = Without(d.vs, j - 1, j)]), env, "")
  ELSE IF d.k = "dict" /\ KeyOK(s) /\ AllKeysOK(d) THEN S(st, env, "KeyError")
  ELSE unknown

SwapCmp(op) == CASE op = "lt" -> "gt" [] op = "gt" -> "lt" [] op = "le" -> "ge" [] op = "ge" -> "le" [] OTHER -> op

\* ---------------------------------------------------------------- the machine
RECURSIVE Eval(_, _, _, _), EvalElts(_, _, _, _, _, _), Drain(_, _, _, _, _, _), Iterate(_, _, _, _, _),
          Chain(_, _, _, _, _, _, _), BoolChain(_, _, _, _, _, _), EvalKws(_, _, _, _, _, _, _),
          MergeKeys(_, _, _, _, _, _, _, _), CallNode(_, _, _, _), FinishCall(_, _, _, _, _, _, _, _),
          ReprWalk(_, _, _, _, _, _), ReprWalkSeq(_, _, _, _, _, _), ReprWalkSet(_, _, _, _, _, _), DictDisplay(_, _, _, _, _, _),
          PairsUpdate(_, _, _, _, _, _, _), CompGen(_, _, _, _, _, _), CompLoop(_, _, _, _, _, _, _, _, _),
          CondAll(_, _, _, _, _), Comp(_, _, _, _), Joined(_, _, _, _, _, _), FmtValue(_, _, _, _),
          AssignTo(_, _, _, _, _), Unpack(_, _, _, _, _), AssignSeq(_, _, _, _, _, _),
          PullN(_, _, _, _, _, _, _), DelTarget(_, _, _, _), Exec(_, _, _, _, _)

\* all remaining items of recorder iterator `it`
Drain(it, st, tr, env, kind, acc) ==
  LET nx == Prim(st, tr, env, kind, "next", "", <<it>>, <<>>, 0) IN
  IF ~nx.st.ok THEN L(nx.st, acc, "", env)
  ELSE IF nx.x = "StopIteration" THEN L(nx.st, acc, "", env)
  ELSE IF nx.x # "" THEN L(nx.st, acc, nx.x, env)
  ELSE Drain(it, nx.st, tr, env, kind, Append(acc, nx.v))

\* all items of an iterable value (star-unpacking in displays and calls)
Iterate(val0, st, tr, env, kind) ==
  LET val == Deref(st, val0) IN
  IF IsRec(val) THEN LET it == Prim(st, tr, env, kind, "iter", "", <<val>>, <<>>, 0) IN
                     IF Stop(it) THEN L(it.st, <<>>, it.x, env) ELSE Drain(it.v, it.st, tr, env, kind, <<>>)
  ELSE IF val.k = "seq" /\ val.t # "set" THEN L(st, val.e, "", env)
  ELSE IF val.k = "dict" THEN L(st, val.ks, "", env)
  ELSE IF NotIterable(val) THEN L(st, <<>>, "TypeError", env)
  ELSE L(NotMod(st, kind, "iteration of a plain " \o val.k), <<>>, "", env)

\* display elements / positional arguments, left to right, starred ones iterated in place
EvalElts(es, i, st, tr, env, acc) ==
  IF i > Len(es) \/ ~st.ok THEN L(st, acc, "", env)
  ELSE IF es[i].k = "Starred" THEN
       LET r == Eval(es[i].v, st, tr, env) IN
       IF Stop(r) THEN L(r.st, acc, r.x, r.env) ELSE
       IF Has(st, "star-uses-add") /\ IsRec(r.v) THEN
            \* deviation: `acc += value` (binary-add protocol: value.__radd__(acc)) instead of iteration
            LET p == Prim(r.st, tr, r.env, "Starred", "op2", "radd", <<r.v, SeqV("list", acc)>>, <<>>, 0) IN
            IF Stop(p) THEN L(p.st, acc, p.x, r.env) ELSE L(Cut(p.st), acc, "", r.env)
       ELSE
       LET it == Iterate(r.v, r.st, tr, r.env, "Starred") IN
       IF it.x # "" \/ ~it.st.ok THEN L(it.st, acc, it.x, r.env)
       ELSE EvalElts(es, i + 1, it.st, tr, r.env, acc \o it.vs)
  ELSE LET r == Eval(es[i], st, tr, env) IN
       IF Stop(r) THEN L(r.st, acc, r.x, r.env)
       ELSE EvalElts(es, i + 1, r.st, tr, r.env, Append(acc, r.v))

\* one comparison  a <op> b
CmpPrim(op, a, b, st, tr, env) ==
  IF op \in {"is", "isnot"} THEN
       IF a.k = "opq" \/ b.k = "opq" THEN Ex(NotMod(st, "Compare", "identity of an unknown value"), "", env)
       ELSE IF a.k # b.k THEN Ok(st, B(op = "isnot"), env)
       ELSE IF a.k = "v" THEN Ok(st, B((a.id = b.id) = (op = "is")), env)
       ELSE IF a.k = "ref" THEN Ok(st, B((a.a = b.a) = (op = "is")), env)     \* two references: the same object?
       ELSE IF a.k = "none" THEN Ok(st, B(op = "is"), env)
       ELSE IF a.k = "b" THEN Ok(st, B((a.b = b.b) = (op = "is")), env)
       ELSE Ex(NotMod(st, "Compare", "identity of plain values"), "", env)
  ELSE IF op \in {"in", "notin"} THEN
       IF IsRec(b) THEN LET p == Prim(st, tr, env, "Compare", "contains", "", <<b, a>>, <<>>, 0) IN
                        IF Stop(p) THEN p
                        ELSE IF ~CanTruth(p.st, p.v) THEN Ex(NotMod(p.st, "Compare", "truth of opaque"), "", env)
                        ELSE Ok(p.st, B(TruthOf(p.st, p.v) = (op = "in")), env)
       ELSE Ex(NotMod(st, "Compare", "membership in a plain container"), "", env)
  ELSE IF IsRec(a) THEN Prim(st, tr, env, "Compare", "cmp", op, <<a, b>>, <<>>, 0)
  ELSE IF IsRec(b) THEN Prim(st, tr, env, "Compare", "cmp", SwapCmp(op), <<b, a>>, <<>>, 0)
  ELSE OpaqueOp(st, env, "Compare", tr)

\* a op1 b op2 c ...: middle operands evaluated once; short-circuit on a falsy comparison;
\* the value is the last comparison result.
\*   flag cmp-operand-twice: operand i (i>=2's left) is evaluated again before the next comparison
\*   flag cmp-bool-result:   the value is True/False
Chain(left, n, i, st, tr, env, dummy) ==
  LET r == Eval(n.cs[i], st, tr, env) IN
  IF Stop(r) THEN r ELSE
  LET c == CmpPrim(n.ops[i], left, r.v, r.st, tr, r.env) IN
  IF Stop(c) THEN c ELSE
  LET last == i = Len(n.ops)
      boolres == Has(st, "cmp-bool-result") IN
  IF last /\ ~boolres THEN c
  ELSE IF ~CanTruth(c.st, c.v) THEN Ex(NotMod(c.st, "Compare", "truth of opaque"), "", c.env)
  ELSE IF ~TruthOf(c.st, c.v) THEN Ok(c.st, IF boolres THEN B(FALSE) ELSE c.v, c.env)
  ELSE IF last THEN Ok(c.st, B(TRUE), c.env)
  ELSE IF Has(st, "cmp-operand-twice")
       THEN LET again == Eval(n.cs[i], c.st, tr, c.env) IN
            IF Stop(again) THEN again ELSE Chain(again.v, n, i + 1, again.st, tr, again.env, dummy)
       ELSE Chain(r.v, n, i + 1, c.st, tr, c.env, dummy)

BoolChain(isAnd, vals, i, st, tr, env) ==
  LET r == Eval(vals[i], st, tr, env) IN
  IF Stop(r) \/ i = Len(vals) THEN r
  ELSE IF ~CanTruth(r.st, r.v) THEN Ex(NotMod(r.st, "BoolOp", "truth of opaque"), "", r.env)
  ELSE IF TruthOf(r.st, r.v) # isAnd THEN r
  ELSE BoolChain(isAnd, vals, i + 1, r.st, tr, r.env)

\* a <op> b on two plain values.  Computed: list + list (a NEW list), tuple + tuple, and the in-place
\* protocol on a mutable object: `x += [..]` / `x += (..)` EXTEND the object x refers to (every reference sees
\* it) and yield x itself; any other in-place operator on a list / set / dict yields the object itself with a
\* content the machine does not compute (Opq).   flag aug-binary-op: the binary operator - a new object.
PlainBin(op, a, b, inplace, st, tr, env, kind) ==
  LET da == Deref(st, a)
      db == Deref(st, b)
      inpl == inplace /\ ~Has(st, "aug-binary-op") IN
  IF inplace /\ a.k = "opq" THEN Ex(NotMod(st, kind, "in-place operator on an unknown object"), "", env)
  ELSE IF op = "add" /\ IsListD(da) /\ IsListD(db) THEN
       IF inpl /\ IsRef(a) THEN Ok(HPut(st, a.a, SeqV("list", da.e \o db.e)), a, env)
       ELSE New(st, SeqV("list", da.e \o db.e), env)
  ELSE IF op = "add" /\ IsListD(da) /\ IsTupD(db) /\ inpl /\ IsRef(a) THEN Ok(HPut(st, a.a, SeqV("list", da.e \o db.e)), a, env)
  ELSE IF op = "add" /\ IsTupD(da) /\ IsTupD(db) THEN Ok(st, SeqV("tuple", da.e \o db.e), env)
  ELSE IF op = "mul" /\ IsListD(da) /\ IsInt(db) /\ db.i <= 4 THEN                      \* repetition (small counts)
       LET RECURSIVE Rep(_)
           Rep(k) == IF k <= 0 THEN <<>> ELSE da.e \o Rep(k - 1) IN
       IF inpl /\ IsRef(a) THEN Ok(HPut(st, a.a, SeqV("list", Rep(db.i))), a, env) ELSE New(st, SeqV("list", Rep(db.i)), env)
  ELSE IF op = "or" /\ da.k = "seq" /\ da.t = "set" /\ db.k = "seq" /\ db.t = "set" THEN  \* union
       IF inpl /\ IsRef(a) THEN Ok(HPut(st, a.a, SeqV("set", Dedupe(da.e \o db.e, 1, <<>>))), a, env)
       ELSE New(st, SeqV("set", Dedupe(da.e \o db.e, 1, <<>>)), env)
  ELSE IF inpl /\ IsRef(a) THEN
       IF st.l > Len(tr) /\ st.exc # "" THEN Ex(NotMod(st, kind, "plain in-place primitive that may have raised"), "", env)
       ELSE Ok(HPut(st, a.a, Opq), a, env)
  ELSE OpaqueOp(st, env, kind, tr)

\* a <op> b  (inplace: the augmented-assignment protocol)
BinPrim(op, a, b, inplace, st, tr, env, kind) ==
  IF IsRec(a) THEN Prim(st, tr, env, kind, "op2", IF inplace /\ ~st.ni /\ ~Has(st, "aug-binary-op") THEN "i" \o op ELSE op, <<a, b>>, <<>>, 0)
  ELSE IF a.k = "c" /\ a.t \in {"str", "bytes"} /\ op = "mod" THEN Ex(NotMod(st, kind, "printf-style formatting"), "", env)
  ELSE IF IsRec(b) THEN
       \* (dict.__ior__ accepts any iterable of pairs: `d |= recorder` iterates instead of calling __ror__)
       IF inplace /\ op = "or" /\ Deref(st, a).k \in {"dict", "opq"} THEN Ex(NotMod(st, kind, "dict |= recorder object"), "", env)
       ELSE Prim(st, tr, env, kind, "op2", "r" \o op, <<b, a>>, <<>>, 0)
  ELSE PlainBin(op, a, b, inplace, st, tr, env, kind)

\* str()/repr() of a plain container: repr of every nested recorder object, in order
ReprWalk(val0, top, st, tr, env, kind) ==
  LET val == Deref(st, val0) IN
  IF ~st.ok THEN S(st, env, "")
  ELSE IF IsRef(val0) /\ val.k = "opq" /\ ~st.q THEN S(NotMod(st, kind, "repr of an object with unknown content"), env, "")
  ELSE IF IsRec(val) THEN IF st.q THEN S(st, env, "")
                          ELSE SofR(Prim(st, tr, env, kind, "conv", IF top THEN "s" ELSE "r", <<val>>, <<>>, 0))
  ELSE IF val.k = "seq" THEN
       IF val.t = "set" /\ Len(val.e) > 1 /\ ~st.q THEN
            \* iteration order of a set is not modelled: the recorder elements' repr events in ANY order
            IF \A j \in 1..Len(val.e) : val.e[j].k \in {"v", "c", "b", "none"}
            THEN ReprWalkSet({j \in 1..Len(val.e) : IsRec(val.e[j])}, val.e, st, tr, env, kind)
            ELSE S(NotMod(st, kind, "repr of a set of containers"), env, "")
       ELSE ReprWalkSeq(val.e, 1, st, tr, env, kind)
  ELSE IF val.k = "dict" THEN ReprWalkSeq([j \in 1..(2 * Len(val.ks)) |-> IF j % 2 = 1 THEN val.ks[(j + 1) \div 2] ELSE val.vs[j \div 2]], 1, st, tr, env, kind)
  ELSE IF val.k = "slice" THEN ReprWalkSeq(val.e, 1, st, tr, env, kind)
  ELSE S(st, env, "")
ReprWalkSet(rem, e, st, tr, env, kind) ==
  IF rem = {} \/ ~st.ok THEN S(st, env, "")
  ELSE LET hit == {j \in rem : NextIs(st, tr, "conv", "r", e[j])} IN
       IF hit = {} THEN SofR(Prim(st, tr, env, kind, "conv", "r", <<e[CHOOSE j \in rem : TRUE]>>, <<>>, 0))
       ELSE LET j == CHOOSE j \in hit : TRUE
                r == Prim(st, tr, env, kind, "conv", "r", <<e[j]>>, <<>>, 0) IN
            IF Stop(r) THEN SofR(r) ELSE ReprWalkSet(rem \ {j}, e, r.st, tr, env, kind)
ReprWalkSeq(e, i, st, tr, env, kind) ==
  IF i > Len(e) \/ ~st.ok THEN S(st, env, "")
  ELSE LET r == ReprWalk(e[i], FALSE, st, tr, env, kind) IN
       IF r.x # "" THEN r ELSE ReprWalkSeq(e, i + 1, r.st, tr, env, kind)

\* keyword arguments in order; `**m` merged in place (keys, then getitem per key)
KwPos(names, key) == IF \E j \in 1..Len(names) : Same(names[j], key) THEN CHOOSE j \in 1..Len(names) : Same(names[j], key) ELSE 0
MergeKeys(m, keys, i, st, tr, env, names, vals) ==
  IF i > Len(keys) \/ ~st.ok THEN [st |-> st, names |-> names, vs |-> vals, x |-> "", env |-> env]
  ELSE LET dup == KwPos(names, keys[i]) IN
       IF dup # 0 /\ ~Has(st, "kw-dup-accepted") THEN [st |-> st, names |-> names, vs |-> vals, x |-> "TypeError", env |-> env]
       ELSE LET g == Prim(st, tr, env, "DStar", "getitem", "", <<m, keys[i]>>, <<>>, 0) IN
            IF Stop(g) THEN [st |-> g.st, names |-> names, vs |-> vals, x |-> g.x, env |-> env]
            ELSE IF dup # 0 THEN MergeKeys(m, keys, i + 1, g.st, tr, env, names, [vals EXCEPT ![dup] = g.v])
            ELSE MergeKeys(m, keys, i + 1, g.st, tr, env, Append(names, keys[i]), Append(vals, g.v))

\* names: sequence of key descriptors (c-kind str for real keywords)
EvalKws(kws, i, st, tr, env, names, vals) ==
  IF i > Len(kws) \/ ~st.ok THEN [st |-> st, names |-> names, vs |-> vals, x |-> "", env |-> env]
  ELSE LET r == Eval(kws[i].v, st, tr, env) IN
       IF Stop(r) THEN [st |-> r.st, names |-> names, vs |-> vals, x |-> r.x, env |-> r.env]
       ELSE IF kws[i].name # "" THEN
            LET dup == KwPos(names, StrC(kws[i].name)) IN
            IF dup # 0 /\ ~Has(st, "kw-dup-accepted") THEN [st |-> r.st, names |-> names, vs |-> vals, x |-> "TypeError", env |-> r.env]
            ELSE IF dup # 0 THEN EvalKws(kws, i + 1, r.st, tr, r.env, names, [vals EXCEPT ![dup] = r.v])
            ELSE EvalKws(kws, i + 1, r.st, tr, r.env, Append(names, StrC(kws[i].name)), Append(vals, r.v))
       ELSE IF IsRec(r.v) THEN
            IF NextIs(r.st, tr, "keys", "", r.v) \/ (r.st.l > Len(tr) /\ r.st.exc = "") THEN
                 LET ks == Prim(r.st, tr, r.env, "DStar", "keys", "", <<r.v>>, <<>>, 0) IN
                 IF Stop(ks) THEN [st |-> ks.st, names |-> names, vs |-> vals, x |-> ks.x, env |-> r.env]
                 ELSE IF ks.v.k # "seq" THEN [st |-> NotMod(ks.st, "DStar", "keys() result"), names |-> names, vs |-> vals, x |-> "", env |-> r.env]
                 ELSE LET mk == MergeKeys(r.v, ks.v.e, 1, ks.st, tr, r.env, names, vals) IN
                      IF mk.x # "" \/ ~mk.st.ok THEN mk ELSE EvalKws(kws, i + 1, mk.st, tr, mk.env, mk.names, mk.vs)
            ELSE IF Has(st, "dstar-pairs") THEN
                 LET pu == PairsUpdate(r.v, NoIt, r.st, tr, r.env, EmptyDict, "DStar") IN
                 IF pu.x # "" \/ ~pu.st.ok THEN [st |-> pu.st, names |-> names, vs |-> vals, x |-> pu.x, env |-> r.env]
                 ELSE EvalKws(kws, i + 1, pu.st, tr, r.env, names \o pu.d.ks, vals \o pu.d.vs)   \* non-string keys fail at the call
            ELSE [st |-> r.st, names |-> names, vs |-> vals, x |-> "TypeError", env |-> r.env]       \* not a mapping
       ELSE LET rv == Deref(r.st, r.v) IN
            IF rv.k = "dict" THEN
            IF \E j \in 1..Len(rv.ks) : KwPos(names, rv.ks[j]) # 0
            THEN [st |-> NotMod(r.st, "DStar", "duplicate keyword from a dict display"), names |-> names, vs |-> vals, x |-> "", env |-> r.env]
            ELSE EvalKws(kws, i + 1, r.st, tr, r.env, names \o rv.ks, vals \o rv.vs)
       ELSE IF NotMapping(rv) /\ ~Has(st, "dstar-pairs") THEN [st |-> r.st, names |-> names, vs |-> vals, x |-> "TypeError", env |-> r.env]
       ELSE [st |-> NotMod(r.st, "DStar", "** of a plain " \o rv.k), names |-> names, vs |-> vals, x |-> "", env |-> r.env]

\* deviation dstar-pairs: dict.update(iterable of pairs) instead of "not a mapping"
PairsUpdate(m, it, st, tr, env, d, kind) ==
  IF it = NoIt THEN LET i0 == Prim(st, tr, env, kind, "iter", "", <<m>>, <<>>, 0) IN
                    IF Stop(i0) THEN [st |-> i0.st, d |-> d, x |-> i0.x] ELSE PairsUpdate(m, i0.v, i0.st, tr, env, d, kind)
  ELSE LET nx == Prim(st, tr, env, kind, "next", "", <<it>>, <<>>, 0) IN
       IF ~nx.st.ok THEN [st |-> nx.st, d |-> d, x |-> ""]
       ELSE IF nx.x = "StopIteration" THEN [st |-> nx.st, d |-> d, x |-> ""]
       ELSE IF nx.x # "" THEN [st |-> nx.st, d |-> d, x |-> nx.x]
       ELSE LET pr == Iterate(nx.v, nx.st, tr, env, kind) IN
            IF pr.x # "" \/ ~pr.st.ok THEN [st |-> pr.st, d |-> d, x |-> pr.x]
            ELSE IF Len(pr.vs) # 2 THEN [st |-> pr.st, d |-> d, x |-> "ValueError"]
            ELSE PairsUpdate(m, it, pr.st, tr, env, DictPut(d, pr.vs[1], pr.vs[2], 1), kind)

NameOf(kd) == IF kd.k = "c" THEN kd.s ELSE "?"
\* TypeError raised by keyword processing: CPython's message formats the callee (str(f) is an event
\* for a recorder callee); the event is accepted when present, never required
KwErr(st, tr, env, fv) == Ex(IF NextIs(st, tr, "conv", "s", fv) THEN Adv(st) ELSE st, "TypeError", env)

\* the same for a SOLE starred argument that is a plain non-iterable ("f() argument after * must be an iterable")
StarErr(a, sval, fv, tr, env) ==
  IF a.st.ok /\ a.x = "TypeError" /\ ~IsRec(sval) THEN KwErr(a.st, tr, env, fv) ELSE Ex(a.st, a.x, env)

\* str(arg) of every positional argument (deviation call-str-args)
ReprWalkStr(args, st, tr, env) ==
  LET RECURSIVE W(_, _)
      W(i, s) == IF i > Len(args) \/ ~s.ok THEN S(s, env, "")
                 ELSE LET r == ReprWalk(args[i], TRUE, s, tr, env, "Call") IN
                      IF r.x # "" THEN r ELSE W(i + 1, r.st)
  IN W(1, st)

FinishCall(fv, args, names, kvals, st, tr, env, dummy) ==
  LET s1 == IF Has(st, "call-str-args") THEN ReprWalkStr(args, st, tr, env) ELSE S(st, env, "") IN
  IF s1.x # "" \/ ~s1.st.ok THEN Ex(s1.st, s1.x, env) ELSE
  LET s2 == IF Has(st, "call-callee-eq") /\ IsRec(fv)
            THEN Prim(s1.st, tr, env, "Call", "cmp", "eq", <<fv, Opq>>, <<>>, 0) ELSE Ok(s1.st, NoneV, env) IN
  IF Stop(s2) THEN s2 ELSE
  IF \E j \in 1..Len(names) : ~(names[j].k = "c" /\ names[j].t = "str") THEN KwErr(s2.st, tr, env, fv) ELSE
  IF IsRec(fv) \/ fv.k = "fn"
  THEN Prim(s2.st, tr, env, "Call", "call", "", <<fv>> \o args \o kvals, [j \in 1..Len(names) |-> NameOf(names[j])], Len(args))
  ELSE Ex(NotMod(s2.st, "Call", "call of a plain callee"), "", env)

CallNode(n, st, tr, env) ==
  LET f == Eval(n.f, st, tr, env) IN IF Stop(f) THEN f ELSE
  IF Len(n.args) = 1 /\ n.args[1].k = "GeneratorExp" THEN
       IF Has(st, "genexp-unsupported") THEN Ex(f.st, "NotImplementedError", f.env)
       ELSE IF n.f.k = "Name" /\ n.f.id \in Builtins /\ n.f.id \notin DOMAIN env /\ Len(n.kws) = 0
            THEN LET c == Comp(n.args[1], f.st, tr, f.env) IN
                 IF Stop(c) THEN c
                 ELSE LET ce == Deref(c.st, c.v).e IN
                      IF n.f.id = "tuple" THEN Ok(c.st, SeqV("tuple", ce), c.env)
                      ELSE New(c.st, SeqV(n.f.id, IF n.f.id = "set" THEN Dedupe(ce, 1, <<>>) ELSE ce), c.env)
            ELSE Ex(NotMod(f.st, "GeneratorExp", "lazy generator"), "", f.env)
  ELSE IF n.f.k = "Name" /\ n.f.id \in Builtins /\ n.f.id \notin DOMAIN env /\ Len(n.args) = 0 /\ Len(n.kws) = 0
       THEN (IF n.f.id = "tuple" THEN Ok(f.st, SeqV("tuple", <<>>), f.env) ELSE New(f.st, SeqV(n.f.id, <<>>), f.env))   \* list() / tuple() / set(): the empty container
  ELSE IF Has(st, "call-kw-first") THEN
       LET kw == EvalKws(n.kws, 1, f.st, tr, f.env, <<>>, <<>>) IN
       IF kw.x = "TypeError" /\ kw.st.ok THEN KwErr(kw.st, tr, kw.env, f.v) ELSE IF kw.x # "" \/ ~kw.st.ok THEN Ex(kw.st, kw.x, kw.env) ELSE
       LET a == EvalElts(n.args, 1, kw.st, tr, kw.env, <<>>) IN
       IF a.x # "" \/ ~a.st.ok THEN Ex(a.st, a.x, a.env) ELSE
       FinishCall(f.v, a.vs, kw.names, kw.vs, a.st, tr, a.env, 0)
  ELSE IF Len(n.args) = 1 /\ n.args[1].k = "Starred" /\ ~Has(st, "star-uses-add") THEN
       \* a sole starred argument: CPython 3.12 converts it to a tuple at the call, i.e. AFTER the
       \* keywords; the language does not fix this - both placements are accepted (lookahead)
       LET sv == Eval(n.args[1].v, f.st, tr, f.env) IN IF Stop(sv) THEN sv ELSE
       \* (a plain value that is not iterable: TypeError in place = the recording ends here, or after the keywords)
       IF Len(n.kws) = 0 \/ NextIs(sv.st, tr, "iter", "", sv.v) \/ (~IsRec(sv.v) /\ NotIterable(sv.v) /\ sv.st.l > Len(tr)) THEN
            LET a == Iterate(sv.v, sv.st, tr, sv.env, "Starred") IN
            IF a.x # "" \/ ~a.st.ok THEN StarErr(a, sv.v, f.v, tr, sv.env) ELSE
            LET kw == EvalKws(n.kws, 1, a.st, tr, sv.env, <<>>, <<>>) IN
            IF kw.x = "TypeError" /\ kw.st.ok THEN KwErr(kw.st, tr, kw.env, f.v) ELSE IF kw.x # "" \/ ~kw.st.ok THEN Ex(kw.st, kw.x, kw.env) ELSE
            FinishCall(f.v, a.vs, kw.names, kw.vs, kw.st, tr, kw.env, 0)
       ELSE LET kw == EvalKws(n.kws, 1, sv.st, tr, sv.env, <<>>, <<>>) IN
            IF kw.x = "TypeError" /\ kw.st.ok THEN KwErr(kw.st, tr, kw.env, f.v) ELSE IF kw.x # "" \/ ~kw.st.ok THEN Ex(kw.st, kw.x, kw.env) ELSE
            LET a == Iterate(sv.v, kw.st, tr, kw.env, "Starred") IN
            IF a.x # "" \/ ~a.st.ok THEN StarErr(a, sv.v, f.v, tr, kw.env) ELSE
            FinishCall(f.v, a.vs, kw.names, kw.vs, a.st, tr, kw.env, 0)
  ELSE LET a == EvalElts(n.args, 1, f.st, tr, f.env, <<>>) IN
       IF a.x # "" \/ ~a.st.ok THEN Ex(a.st, a.x, a.env) ELSE
       LET kw == EvalKws(n.kws, 1, a.st, tr, a.env, <<>>, <<>>) IN
       IF kw.x = "TypeError" /\ kw.st.ok THEN KwErr(kw.st, tr, kw.env, f.v) ELSE IF kw.x # "" \/ ~kw.st.ok THEN Ex(kw.st, kw.x, kw.env) ELSE
       FinishCall(f.v, a.vs, kw.names, kw.vs, kw.st, tr, kw.env, 0)

\* {k1: v1, **m, ...}: key before value, pairs left to right (flag dict-value-first: value first)
DictDisplay(n, i, st, tr, env, d) ==
  IF ~st.ok THEN Ex(st, "", env)
  ELSE IF i > Len(n.keys) THEN New(st, d, env)          \* a new dict object
  ELSE IF n.keys[i].k = "DStar" THEN
       LET m == Eval(n.vals[i], st, tr, env) IN IF Stop(m) THEN m ELSE
       IF IsRec(m.v) THEN
            IF NextIs(m.st, tr, "keys", "", m.v) \/ (m.st.l > Len(tr) /\ m.st.exc = "") THEN
                 LET ks == Prim(m.st, tr, m.env, "DStar", "keys", "", <<m.v>>, <<>>, 0) IN IF Stop(ks) THEN ks ELSE
                 IF ks.v.k # "seq" THEN Ex(NotMod(ks.st, "DStar", "keys() result"), "", m.env) ELSE
                 LET mk == MergeKeys(m.v, ks.v.e, 1, ks.st, tr, m.env, <<>>, <<>>) IN
                 IF mk.x # "" \/ ~mk.st.ok THEN Ex(mk.st, mk.x, m.env) ELSE
                 LET RECURSIVE Put(_, _)
                     Put(j, dd) == IF j > Len(mk.names) THEN dd ELSE Put(j + 1, DictPut(dd, mk.names[j], mk.vs[j], 1))
                 IN DictDisplay(n, i + 1, mk.st, tr, m.env, Put(1, d))
            ELSE IF Has(st, "dstar-pairs") THEN
                 LET pu == PairsUpdate(m.v, NoIt, m.st, tr, m.env, d, "DStar") IN
                 IF pu.x # "" \/ ~pu.st.ok THEN Ex(pu.st, pu.x, m.env) ELSE DictDisplay(n, i + 1, pu.st, tr, m.env, pu.d)
            ELSE Ex(m.st, "TypeError", m.env)
       ELSE LET mv == Deref(m.st, m.v) IN
            IF mv.k = "dict" THEN
            LET RECURSIVE Put2(_, _)
                Put2(j, dd) == IF j > Len(mv.ks) THEN dd ELSE Put2(j + 1, DictPut(dd, mv.ks[j], mv.vs[j], 1))
            IN DictDisplay(n, i + 1, m.st, tr, m.env, Put2(1, d))
       ELSE IF NotMapping(mv) /\ ~Has(st, "dstar-pairs") THEN Ex(m.st, "TypeError", m.env)
       ELSE Ex(NotMod(m.st, "DStar", "** of a plain " \o mv.k), "", m.env)
  ELSE IF Has(st, "dict-value-first") THEN
       LET v == Eval(n.vals[i], st, tr, env) IN IF Stop(v) THEN v ELSE
       LET k == Eval(n.keys[i], v.st, tr, v.env) IN IF Stop(k) THEN k ELSE
       IF Unhashable(k.v) THEN Ex(NotMod(k.st, "Dict", "unhashable key"), "", k.env) ELSE
       DictDisplay(n, i + 1, k.st, tr, k.env, DictPut(d, k.v, v.v, 1))
  ELSE LET k == Eval(n.keys[i], st, tr, env) IN IF Stop(k) THEN k ELSE
       LET v == Eval(n.vals[i], k.st, tr, k.env) IN IF Stop(v) THEN v ELSE
       IF Unhashable(k.v) THEN Ex(NotMod(v.st, "Dict", "unhashable key"), "", v.env) ELSE
       DictDisplay(n, i + 1, v.st, tr, v.env, DictPut(d, k.v, v.v, 1))

\* ---------------------------------------------------------------- comprehensions
\* result of the loops: [st, vs (items; for dicts records [k, v]), x, env]
CondAll(ifs, i, st, tr, env) ==
  IF i > Len(ifs) \/ ~st.ok THEN [st |-> st, b |-> TRUE, x |-> "", env |-> env]
  ELSE LET c == Eval(ifs[i], st, tr, env) IN
       IF Stop(c) THEN [st |-> c.st, b |-> FALSE, x |-> c.x, env |-> c.env]
       ELSE IF ~CanTruth(c.st, c.v) THEN [st |-> NotMod(c.st, "comprehension", "truth of opaque"), b |-> FALSE, x |-> "", env |-> c.env]
       ELSE IF ~TruthOf(c.st, c.v) THEN [st |-> c.st, b |-> FALSE, x |-> "", env |-> c.env]
       ELSE CondAll(ifs, i + 1, c.st, tr, c.env)

CompGen(n, gi, st, tr, env, acc) ==
  LET itv == Eval(n.gens[gi].iter, st, tr, env) IN
  IF Stop(itv) THEN L(itv.st, acc, itv.x, itv.env)
  ELSE IF IsRec(itv.v) THEN
       LET it == Prim(itv.st, tr, itv.env, n.k, "iter", "", <<itv.v>>, <<>>, 0) IN
       IF Stop(it) THEN L(it.st, acc, it.x, itv.env) ELSE CompLoop(n, gi, it.v, NoneV, 1, it.st, tr, itv.env, acc)
  ELSE LET d == Deref(itv.st, itv.v) IN
       \* a list is iterated LIVE (by index into its current content: a loop target may store into it); a tuple
       \* is immutable; of a dict the keys at the start (a size change while iterating is not modelled)
       IF d.k = "seq" /\ d.t # "set" THEN CompLoop(n, gi, NoIt, itv.v, 1, itv.st, tr, itv.env, acc)
       ELSE IF d.k = "dict" THEN CompLoop(n, gi, NoIt, SeqV("tuple", d.ks), 1, itv.st, tr, itv.env, acc)
       ELSE IF NotIterable(d) THEN L(itv.st, acc, "TypeError", itv.env)
       ELSE L(NotMod(itv.st, n.k, "iteration of a plain " \o d.k), acc, "", itv.env)

CompLoop(n, gi, it, items, j, st, tr, env, acc) ==
  IF ~st.ok THEN L(st, acc, "", env) ELSE
  IF it = NoIt /\ Deref(st, items).k # "seq" THEN L(NotMod(st, n.k, "iteration of an object with unknown content"), acc, "", env) ELSE
  LET cur == Deref(st, items).e
      nx == IF it = NoIt THEN (IF j > Len(cur) THEN Ex(st, "StopIteration", env) ELSE Ok(st, cur[j], env))
            ELSE Prim(st, tr, env, n.k, "next", "", <<it>>, <<>>, 0) IN
  IF ~nx.st.ok THEN L(nx.st, acc, "", env)
  ELSE IF nx.x = "StopIteration" THEN L(nx.st, acc, "", env)
  ELSE IF nx.x # "" THEN L(nx.st, acc, nx.x, env)
  ELSE LET g  == n.gens[gi]
           a  == AssignTo(g.target, nx.v, nx.st, tr, env) IN
       IF a.x # "" \/ ~a.st.ok THEN L(a.st, acc, a.x, a.env) ELSE
       LET c == CondAll(g.ifs, 1, a.st, tr, a.env) IN
       IF c.x # "" \/ ~c.st.ok THEN L(c.st, acc, c.x, c.env)
       ELSE IF ~c.b THEN CompLoop(n, gi, it, items, j + 1, c.st, tr, c.env, acc)
       ELSE IF gi < Len(n.gens) THEN
            LET inner == CompGen(n, gi + 1, c.st, tr, c.env, acc) IN
            IF inner.x # "" \/ ~inner.st.ok THEN inner
            ELSE CompLoop(n, gi, it, items, j + 1, inner.st, tr, inner.env, inner.vs)
       ELSE IF n.k = "DictComp" THEN
            LET k == Eval(n.key, c.st, tr, c.env) IN IF Stop(k) THEN L(k.st, acc, k.x, k.env) ELSE
            LET v == Eval(n.val, k.st, tr, k.env) IN IF Stop(v) THEN L(v.st, acc, v.x, v.env) ELSE
            IF Unhashable(k.v) THEN L(NotMod(v.st, "DictComp", "unhashable key"), acc, "", v.env) ELSE
            CompLoop(n, gi, it, items, j + 1, v.st, tr, v.env, Append(acc, [k |-> k.v, v |-> v.v]))
       ELSE LET e == Eval(n.elt, c.st, tr, c.env) IN IF Stop(e) THEN L(e.st, acc, e.x, e.env) ELSE
            IF n.k = "SetComp" /\ Unhashable(e.v) THEN L(NotMod(e.st, "SetComp", "unhashable element"), acc, "", e.env) ELSE
            CompLoop(n, gi, it, items, j + 1, e.st, tr, e.env, Append(acc, e.v))

\* the loop targets live in the comprehension's own scope; walrus targets bind outside
Comp(n, st, tr, env) ==
  LET r == CompGen(n, 1, st, tr, env, <<>>)
      names == UNION {TargetNames(n.gens[i].target) : i \in 1..Len(n.gens)}
      back == [m \in (DOMAIN r.env \ names) \cup (DOMAIN env \cap names) |-> IF m \in names THEN env[m] ELSE r.env[m]]
  IN IF ~r.st.ok THEN Ex(r.st, "", env)
     ELSE IF r.x # "" THEN Ex(r.st, r.x, IF Has(st, "comp-leak-on-raise") THEN r.env ELSE back)
     ELSE IF n.k = "DictComp" THEN
          LET RECURSIVE Put(_, _)
              Put(j, d) == IF j > Len(r.vs) THEN d ELSE Put(j + 1, DictPut(d, r.vs[j].k, r.vs[j].v, 1))
          IN New(r.st, Put(1, EmptyDict), back)
     ELSE IF n.k = "SetComp" THEN New(r.st, SeqV("set", Dedupe(r.vs, 1, <<>>)), back)
     ELSE New(r.st, SeqV("list", r.vs), back)                       \* (a comprehension builds a new object)

\* ---------------------------------------------------------------- f-strings
ConvOp(c) == IF c = "s" THEN "s" ELSE "r"         \* ascii() calls __repr__
DoConv(conv, val, st, tr, env) ==
  IF IsRec(val) THEN IF st.q THEN Ok(st, Opq, env) ELSE Prim(st, tr, env, "FormattedValue", "conv", ConvOp(conv), <<val>>, <<>>, 0)
  ELSE IF val.k \in {"c", "b", "none"} THEN Ok(st, StrC(IF conv = "s" THEN StrOf(val) ELSE ReprOf(val)), env)
  ELSE IF val.k = "opq" THEN Ok(st, Opq, env)
  ELSE LET w == ReprWalk(val, FALSE, st, tr, env, "FormattedValue") IN IF w.x # "" \/ ~w.st.ok THEN Ex(w.st, w.x, env) ELSE Ok(w.st, Opq, env)

FormatPrim(val, spec, st, tr, env) ==
  IF IsRec(val) THEN Prim(st, tr, env, "FormattedValue", "format", "", <<val, spec>>, <<>>, 0)
  ELSE IF val.k = "opq" THEN OpaqueOp(st, env, "FormattedValue", tr)
  ELSE IF spec.k = "c" /\ spec.s = "" THEN
       IF val.k \in {"c", "b", "none"} THEN Ok(st, StrC(StrOf(val)), env)
       ELSE LET w == ReprWalk(val, FALSE, st, tr, env, "FormattedValue") IN IF w.x # "" \/ ~w.st.ok THEN Ex(w.st, w.x, env) ELSE Ok(w.st, Opq, env)
  ELSE IF val.k \in {"c", "b", "none"} THEN OpaqueOp(st, env, "FormattedValue", tr)
  ELSE Ex(NotMod(st, "FormattedValue", "format spec on a plain container"), "", env)

FmtValue(n, st, tr, env) ==
  LET v == Eval(n.v, st, tr, env) IN IF Stop(v) THEN v ELSE
  LET conv  == IF Has(st, "fstring-conv-ignored") THEN "" ELSE n.conv
      \* CPython 3.12 converts after the format spec has been evaluated (3.13: before); both accepted
      early == conv # "" /\ n.spec.k # "Absent" /\ IsRec(v.v) /\ ~st.q /\ NextIs(v.st, tr, "conv", ConvOp(conv), v.v)
      c1 == IF early THEN DoConv(conv, v.v, v.st, tr, v.env) ELSE v IN
  IF Stop(c1) THEN c1 ELSE
  LET sp == IF n.spec.k = "Absent" THEN Ok(c1.st, StrC(""), c1.env) ELSE Eval(n.spec, c1.st, tr, c1.env) IN
  IF Stop(sp) THEN sp ELSE
  LET c2 == IF conv # "" /\ ~early THEN DoConv(conv, v.v, sp.st, tr, sp.env) ELSE Ok(sp.st, c1.v, sp.env) IN
  IF Stop(c2) THEN c2 ELSE FormatPrim(c2.v, sp.v, c2.st, tr, c2.env)

Joined(vals, i, st, tr, env, acc) ==
  IF i > Len(vals) \/ ~st.ok THEN Ok(st, acc, env)
  ELSE LET p == IF vals[i].k = "FormattedValue" THEN FmtValue(vals[i], st, tr, env) ELSE Eval(vals[i], st, tr, env) IN
       IF Stop(p) THEN p
       ELSE Joined(vals, i + 1, p.st, tr, p.env,
                   IF acc.k = "opq" \/ p.v.k # "c" THEN Opq ELSE StrC(acc.s \o p.v.s))

\* ---------------------------------------------------------------- expressions
Eval(n, st, tr, env) ==
  IF ~st.ok THEN Ex(st, "", env)
  ELSE CASE n.k = "T" -> Prim(st, tr, env, "T", "t", "", <<>>, <<>>, n.n)
    [] n.k = "Name" -> IF n.id \in DOMAIN env THEN Ok(st, env[n.id], env)
                       ELSE IF n.id \in Builtins THEN Ok(st, [k |-> "o", r |-> "type"], env)
                       ELSE Ex(st, "NameError", env)
    [] n.k = "Const" -> Ok(st, n.v, env)
    [] n.k = "Absent" -> Ok(st, NoneV, env)
    [] n.k = "BinOp" ->
         IF n.op = "matmul" /\ Has(st, "matmul-unsupported") THEN Ex(st, "NotImplementedError", env) ELSE
         LET l == Eval(n.l, st, tr, env) IN IF Stop(l) THEN l ELSE
         LET r == Eval(n.r, l.st, tr, l.env) IN IF Stop(r) THEN r ELSE
         BinPrim(n.op, l.v, r.v, FALSE, r.st, tr, r.env, "BinOp")
    [] n.k = "UnaryOp" ->
         LET o == Eval(n.v, st, tr, env) IN IF Stop(o) THEN o ELSE
         IF n.op = "not" THEN IF CanTruth(o.st, o.v) THEN Ok(o.st, B(~TruthOf(o.st, o.v)), o.env)
                              ELSE Ex(NotMod(o.st, "UnaryOp", "truth of opaque"), "", o.env)
         ELSE IF n.op = "pos" /\ Has(st, "uadd-noop") THEN o
         ELSE IF IsRec(o.v) THEN Prim(o.st, tr, o.env, "UnaryOp", "op1", n.op, <<o.v>>, <<>>, 0)
         ELSE OpaqueOp(o.st, o.env, "UnaryOp", tr)
    [] n.k = "BoolOp" -> BoolChain(n.op = "and", n.vals, 1, st, tr, env)
    [] n.k = "Compare" ->
         LET l == Eval(n.l, st, tr, env) IN IF Stop(l) THEN l ELSE Chain(l.v, n, 1, l.st, tr, l.env, 0)
    [] n.k = "IfExp" ->
         LET c == Eval(n.test, st, tr, env) IN IF Stop(c) THEN c ELSE
         IF ~CanTruth(c.st, c.v) THEN Ex(NotMod(c.st, "IfExp", "truth of opaque"), "", c.env)
         ELSE Eval(IF TruthOf(c.st, c.v) THEN n.body ELSE n.orelse, c.st, tr, c.env)
    [] n.k = "Subscript" ->
         LET o == Eval(n.v, st, tr, env) IN IF Stop(o) THEN o ELSE
         LET s == Eval(n.s, o.st, tr, o.env) IN IF Stop(s) THEN s ELSE
         IF IsRec(o.v) THEN Prim(s.st, tr, s.env, "Subscript", "getitem", "", <<o.v, s.v>>, <<>>, 0)
         ELSE PlainGet(o.v, s.v, s.st, tr, s.env, "Subscript")
    [] n.k = "Slice" ->
         LET r == EvalElts(<<n.lo, n.hi, n.step>>, 1, st, tr, env, <<>>) IN
         IF r.x # "" \/ ~r.st.ok THEN Ex(r.st, r.x, r.env) ELSE Ok(r.st, [k |-> "slice", e |-> r.vs], r.env)
    [] n.k = "Attribute" ->
         LET o == Eval(n.v, st, tr, env) IN IF Stop(o) THEN o ELSE
         IF IsRec(o.v) THEN Prim(o.st, tr, o.env, "Attribute", "getattr", n.attr, <<o.v>>, <<>>, 0)
         ELSE OpaqueOp(o.st, o.env, "Attribute", tr)
    [] n.k = "Call" -> CallNode(n, st, tr, env)
    [] n.k \in {"List", "Tuple", "Set"} ->
         LET r == EvalElts(n.elts, 1, st, tr, env, <<>>) IN
         IF r.x # "" \/ ~r.st.ok THEN Ex(r.st, r.x, r.env)
         ELSE IF n.k = "Set" /\ \E j \in 1..Len(r.vs) : Unhashable(r.vs[j]) THEN Ex(NotMod(r.st, "Set", "unhashable element"), "", r.env)
         ELSE IF n.k = "Tuple" THEN Ok(r.st, SeqV("tuple", r.vs), r.env)
         ELSE New(r.st, IF n.k = "List" THEN SeqV("list", r.vs) ELSE SeqV("set", Dedupe(r.vs, 1, <<>>)), r.env)   \* a new object per evaluation
    [] n.k = "Dict" -> DictDisplay(n, 1, st, tr, env, EmptyDict)
    [] n.k \in {"ListComp", "SetComp", "DictComp"} -> Comp(n, st, tr, env)
    [] n.k = "GeneratorExp" -> Ex(NotMod(st, "GeneratorExp", "lazy generator"), "", env)
    [] n.k = "JoinedStr" -> Joined(n.vals, 1, st, tr, env, StrC(""))
    [] n.k = "FormattedValue" -> FmtValue(n, st, tr, env)
    [] n.k = "NamedExpr" ->
         LET r == Eval(n.v, st, tr, env) IN IF Stop(r) THEN r ELSE Ok(r.st, r.v, Bind(r.env, n.id, r.v))
    [] OTHER -> Ex(Fail(st, n.k, "unknown expression kind"), "", env)

\* ---------------------------------------------------------------- assignment targets
\* pull up to cnt items from recorder iterator; result [st, vs, x ("" | "short" | exc)]
PullN(it, cnt, st, tr, env, acc, kind) ==
  IF cnt = 0 \/ ~st.ok THEN L(st, acc, "", env)
  ELSE LET nx == Prim(st, tr, env, kind, "next", "", <<it>>, <<>>, 0) IN
       IF ~nx.st.ok THEN L(nx.st, acc, "", env)
       ELSE IF nx.x = "StopIteration" THEN L(nx.st, acc, "short", env)
       ELSE IF nx.x # "" THEN L(nx.st, acc, nx.x, env)
       ELSE PullN(it, cnt - 1, nx.st, tr, env, Append(acc, nx.v), kind)

StarPos(ts) == IF \E i \in 1..Len(ts) : ts[i].k = "Starred" THEN CHOOSE i \in 1..Len(ts) : ts[i].k = "Starred" ELSE 0

\* distribute the pulled values over the targets, left to right
\* (vals is the SNAPSHOT of the items taken before the first store: a target that stores into the very object
\* being unpacked does not change what the later targets receive; the starred target gets a NEW list)
AssignSeq(ts, vals, i, st, tr, env) ==
  IF i > Len(ts) \/ ~st.ok THEN S(st, env, "")
  ELSE LET sp == StarPos(ts)
           after == Len(ts) - sp
           star == ts[i].k = "Starred"
           st1 == IF star THEN Alloc(st, SeqV("list", SubSeq(vals, sp, Len(vals) - after))) ELSE st
           v == IF sp = 0 \/ i < sp THEN vals[i]
                ELSE IF i = sp THEN Ref(Len(st.h) + 1)
                ELSE vals[Len(vals) - (Len(ts) - i)]
           t == IF star THEN ts[i].v ELSE ts[i]
       IN IF star /\ t.k # "Name" /\ Has(st, "star-target-nonname") THEN S(st, env, "AttributeError")
          ELSE LET a == AssignTo(t, v, st1, tr, env) IN
               IF a.x # "" THEN a ELSE AssignSeq(ts, vals, i + 1, a.st, tr, a.env)

Unpack(ts, v, st, tr, env) ==
  LET sp == StarPos(ts)
      need == IF sp = 0 THEN Len(ts) ELSE Len(ts) - 1 IN
  IF IsRec(v) THEN
       LET it == Prim(st, tr, env, "Unpack", "iter", "", <<v>>, <<>>, 0) IN
       IF ~it.st.ok THEN S(it.st, env, "")
       ELSE IF it.x # "" THEN S(it.st, env, IF Has(st, "unpack-consumes-all") THEN "TypeError" ELSE it.x)
       ELSE IF Has(st, "unpack-consumes-all") THEN
            LET all == Drain(it.v, it.st, tr, env, "Unpack", <<>>) IN
            IF all.x # "" \/ ~all.st.ok THEN S(all.st, env, IF all.x = "" THEN "" ELSE "TypeError")
            ELSE IF Len(all.vs) < need \/ (sp = 0 /\ Len(all.vs) > need) THEN S(all.st, env, "ValueError")
            ELSE AssignSeq(ts, all.vs, 1, all.st, tr, env)
       ELSE IF sp = 0 THEN
            LET p == PullN(it.v, need, it.st, tr, env, <<>>, "Unpack") IN
            IF ~p.st.ok THEN S(p.st, env, "")
            ELSE IF p.x = "short" THEN S(p.st, env, "ValueError")
            ELSE IF p.x # "" THEN S(p.st, env, p.x)
            ELSE LET e == PullN(it.v, 1, p.st, tr, env, <<>>, "Unpack") IN
                 IF ~e.st.ok THEN S(e.st, env, "")
                 ELSE IF e.x = "short" THEN AssignSeq(ts, p.vs, 1, e.st, tr, env)
                 ELSE IF e.x # "" THEN S(e.st, env, e.x)
                 ELSE S(e.st, env, "ValueError")
       ELSE LET p == PullN(it.v, sp - 1, it.st, tr, env, <<>>, "Unpack") IN
            IF ~p.st.ok THEN S(p.st, env, "")
            ELSE IF p.x = "short" THEN S(p.st, env, "ValueError")
            ELSE IF p.x # "" THEN S(p.st, env, p.x)
            ELSE LET rest == Drain(it.v, p.st, tr, env, "Unpack", <<>>) IN
                 IF rest.x # "" \/ ~rest.st.ok THEN S(rest.st, env, rest.x)
                 ELSE IF Len(rest.vs) < Len(ts) - sp THEN S(rest.st, env, "ValueError")
                 ELSE AssignSeq(ts, p.vs \o rest.vs, 1, rest.st, tr, env)
  ELSE LET d == Deref(st, v) IN
       IF (d.k = "seq" /\ d.t # "set") \/ d.k = "dict" THEN
       LET items == IF d.k = "dict" THEN d.ks ELSE d.e IN           \* the items NOW, before any target is stored
       IF Len(items) < need \/ (sp = 0 /\ Len(items) > need) THEN S(st, env, "ValueError")
       ELSE AssignSeq(ts, items, 1, st, tr, env)
  ELSE IF NotIterable(d) THEN S(st, env, "TypeError")
  ELSE S(NotMod(st, "Unpack", "unpacking a plain " \o d.k), env, "")

AssignTo(t, v, st, tr, env) ==
  IF ~st.ok THEN S(st, env, "")
  ELSE CASE t.k = "Name" -> S(st, Bind(env, t.id, v), "")
    [] t.k = "Subscript" ->
         LET o == Eval(t.v, st, tr, env) IN IF Stop(o) THEN SofR(o) ELSE
         LET s == Eval(t.s, o.st, tr, o.env) IN IF Stop(s) THEN SofR(s) ELSE
         IF IsRec(o.v) THEN SofR(Prim(s.st, tr, s.env, "Subscript", "setitem", "", <<o.v, s.v, v>>, <<>>, 0))
         ELSE IF IsRef(o.v) THEN PlainSet(o.v, s.v, v, s.st, tr, s.env, "Subscript")
         ELSE IF o.v.k \in {"none", "b", "c"} \/ IsTupD(o.v) THEN S(s.st, s.env, "TypeError")       \* no item assignment
         ELSE S(NotMod(s.st, "Subscript", "store into a plain value without identity"), s.env, "")
    [] t.k = "Attribute" ->
         LET o == Eval(t.v, st, tr, env) IN IF Stop(o) THEN SofR(o) ELSE
         IF IsRec(o.v) THEN SofR(Prim(o.st, tr, o.env, "Attribute", "setattr", t.attr, <<o.v, v>>, <<>>, 0))
         ELSE S(NotMod(o.st, "Attribute", "store into a plain object"), o.env, "")
    [] t.k \in {"Tuple", "List"} ->
         IF t.k = "List" /\ Has(st, "list-target-unsupported") THEN S(st, env, "NotImplementedError")
         ELSE Unpack(t.elts, v, st, tr, env)
    [] OTHER -> S(Fail(st, t.k, "unknown target kind"), env, "")

DelTarget(t, st, tr, env) ==
  IF ~st.ok THEN S(st, env, "")
  ELSE CASE t.k = "Name" -> IF t.id \in DOMAIN env THEN S(st, Unbind(env, t.id), "") ELSE S(st, env, "NameError")
    [] t.k = "Subscript" ->
         LET o == Eval(t.v, st, tr, env) IN IF Stop(o) THEN SofR(o) ELSE
         LET s == Eval(t.s, o.st, tr, o.env) IN IF Stop(s) THEN SofR(s) ELSE
         IF IsRec(o.v) THEN SofR(Prim(s.st, tr, s.env, "Delete", "delitem", "", <<o.v, s.v>>, <<>>, 0))
         ELSE IF IsRef(o.v) THEN PlainDel(o.v, s.v, s.st, tr, s.env, "Delete")
         ELSE IF o.v.k \in {"none", "b", "c"} \/ IsTupD(o.v) THEN S(s.st, s.env, "TypeError")       \* no item deletion
         ELSE S(NotMod(s.st, "Delete", "del on a plain value without identity"), s.env, "")
    [] t.k = "Attribute" ->
         IF Has(st, "del-attr-as-state") THEN S(st, env, "NameError") ELSE
         LET o == Eval(t.v, st, tr, env) IN IF Stop(o) THEN SofR(o) ELSE
         IF IsRec(o.v) THEN SofR(Prim(o.st, tr, o.env, "Delete", "delattr", t.attr, <<o.v>>, <<>>, 0))
         ELSE S(NotMod(o.st, "Delete", "del on a plain object"), o.env, "")
    [] t.k \in {"Tuple", "List"} ->
         IF Has(st, "del-tuple-unsupported") THEN S(st, env, "NotImplementedError") ELSE
         LET RECURSIVE D(_, _, _)
             D(i, s, e) == IF i > Len(t.elts) \/ ~s.ok THEN S(s, e, "")
                           ELSE LET r == DelTarget(t.elts[i], s, tr, e) IN IF r.x # "" THEN r ELSE D(i + 1, r.st, r.env)
         IN D(1, st, env)
    [] OTHER -> S(Fail(st, t.k, "unknown del target"), env, "")

\* ---------------------------------------------------------------- statements
ExecStmt(s, st, tr, env) ==
  CASE s.k = "Expr" -> SofR(Eval(s.v, st, tr, env))
    [] s.k = "Assign" ->
         LET e == Eval(s.v, st, tr, env) IN IF Stop(e) THEN SofR(e) ELSE
         LET RECURSIVE Targets(_, _, _)
             Targets(j, st1, env1) ==
               IF j > Len(s.targets) \/ ~st1.ok THEN S(st1, env1, "")
               ELSE LET a == AssignTo(s.targets[j], e.v, st1, tr, env1) IN
                    IF a.x # "" THEN a ELSE Targets(j + 1, a.st, a.env)
         IN Targets(1, e.st, e.env)
    [] s.k = "AugAssign" ->
         IF s.op = "matmul" /\ Has(st, "matmul-unsupported") THEN S(st, env, "NotImplementedError") ELSE
         IF s.t.k = "Name" THEN
              IF s.t.id \notin DOMAIN env THEN S(st, env, "NameError") ELSE
              LET e == Eval(s.v, st, tr, env) IN IF Stop(e) THEN SofR(e) ELSE
              LET p == BinPrim(s.op, env[s.t.id], e.v, TRUE, e.st, tr, e.env, "AugAssign") IN
              IF Stop(p) THEN SofR(p) ELSE S(p.st, Bind(p.env, s.t.id, p.v), "")
         ELSE \* subscript / attribute target: container (and index) evaluated ONCE
              LET isSub == s.t.k = "Subscript"
                  o  == Eval(s.t.v, st, tr, env) IN IF Stop(o) THEN SofR(o) ELSE
              LET ix == IF isSub THEN Eval(s.t.s, o.st, tr, o.env) ELSE Ok(o.st, NoneV, o.env) IN IF Stop(ix) THEN SofR(ix) ELSE
              IF ~IsRec(o.v) /\ ~(isSub /\ IsRef(o.v)) THEN S(NotMod(ix.st, "AugAssign", "plain container"), ix.env, "") ELSE
              LET g == IF ~IsRec(o.v) THEN PlainGet(o.v, ix.v, ix.st, tr, ix.env, "AugAssign")
                       ELSE IF isSub THEN Prim(ix.st, tr, ix.env, "AugAssign", "getitem", "", <<o.v, ix.v>>, <<>>, 0)
                       ELSE Prim(ix.st, tr, ix.env, "AugAssign", "getattr", s.t.attr, <<o.v>>, <<>>, 0) IN
              IF Stop(g) THEN SofR(g) ELSE
              LET e == Eval(s.v, g.st, tr, g.env) IN IF Stop(e) THEN SofR(e) ELSE
              LET p == BinPrim(s.op, g.v, e.v, TRUE, e.st, tr, e.env, "AugAssign") IN IF Stop(p) THEN SofR(p) ELSE
              IF Has(st, "aug-target-twice") THEN
                   LET o2  == Eval(s.t.v, p.st, tr, p.env) IN IF Stop(o2) THEN SofR(o2) ELSE
                   LET ix2 == IF isSub THEN Eval(s.t.s, o2.st, tr, o2.env) ELSE Ok(o2.st, NoneV, o2.env) IN IF Stop(ix2) THEN SofR(ix2) ELSE
                   IF ~IsRec(o2.v) /\ ~(isSub /\ IsRef(o2.v)) THEN S(NotMod(ix2.st, "AugAssign", "plain container"), ix2.env, "") ELSE
                   IF ~IsRec(o2.v) THEN PlainSet(o2.v, ix2.v, p.v, ix2.st, tr, ix2.env, "AugAssign") ELSE
                   IF isSub THEN SofR(Prim(ix2.st, tr, ix2.env, "AugAssign", "setitem", "", <<o2.v, ix2.v, p.v>>, <<>>, 0))
                   ELSE SofR(Prim(ix2.st, tr, ix2.env, "AugAssign", "setattr", s.t.attr, <<o2.v, p.v>>, <<>>, 0))
              ELSE IF ~IsRec(o.v) THEN PlainSet(o.v, ix.v, p.v, p.st, tr, p.env, "AugAssign")
              ELSE IF isSub THEN SofR(Prim(p.st, tr, p.env, "AugAssign", "setitem", "", <<o.v, ix.v, p.v>>, <<>>, 0))
              ELSE SofR(Prim(p.st, tr, p.env, "AugAssign", "setattr", s.t.attr, <<o.v, p.v>>, <<>>, 0))
    [] s.k = "Delete" ->
         LET RECURSIVE D(_, _, _)
             D(i, s1, e1) == IF i > Len(s.targets) \/ ~s1.ok THEN S(s1, e1, "")
                             ELSE LET r == DelTarget(s.targets[i], s1, tr, e1) IN IF r.x # "" THEN r ELSE D(i + 1, r.st, r.env)
         IN D(1, st, env)
    [] OTHER -> S(Fail(st, s.k, "unknown statement kind"), env, "")

Exec(body, i, st, tr, env) ==
  IF i > Len(body) \/ ~st.ok THEN S(st, env, "")
  ELSE LET r == ExecStmt(body[i], st, tr, env) IN
       IF r.x # "" THEN r ELSE Exec(body, i + 1, r.st, tr, r.env)

\* ---------------------------------------------------------------- verdict on one recording
SameEnv(a, b) == DOMAIN a = DOMAIN b /\ \A m \in DOMAIN a : Same(a[m], b[m])
\* which binding differs (a = the machine's final environment, b = the recorded one)
EnvDiff(a, b) ==
  LET bad == {m \in DOMAIN a \cup DOMAIN b : IF m \in DOMAIN a /\ m \in DOMAIN b THEN ~Same(a[m], b[m]) ELSE TRUE}
      m == CHOOSE m \in bad : TRUE
  IN IF m \notin DOMAIN b THEN "a name is bound in Python and not in the recording"
     ELSE IF m \notin DOMAIN a THEN "a name is unbound in Python and bound in the recording"
     ELSE "a name is bound to another value than in Python"

\* rec = [trace, exc, final, heap];  result [ok, kind, why, at, nm]
Accept(c, rec, fl) ==
  LET r == Exec(c.body, 1, St0(fl, c.opts, rec.exc), rec.trace, c.env0)
      bad(kind, why) == [ok |-> FALSE, kind |-> kind, why |-> why, at |-> r.st.l, nm |-> FALSE]
  IN IF r.st.cut THEN [ok |-> TRUE, kind |-> "", why |-> "cut", at |-> r.st.l, nm |-> FALSE]
     ELSE IF ~r.st.ok THEN [ok |-> FALSE, kind |-> r.st.kind, why |-> r.st.why, at |-> r.st.l,
                       nm |-> r.st.nm]
     ELSE IF r.st.l # Len(rec.trace) + 1 THEN bad("program", "extra events after the program completed: " \o rec.trace[r.st.l].e)
     ELSE IF r.x # rec.exc THEN bad("program", "exception differs: machine '" \o r.x \o "' recorded '" \o rec.exc \o "'")
     ELSE IF ~SameEnv(ReifyEnv(r.st.h, r.env), rec.final) THEN bad("program", "final bindings differ: " \o EnvDiff(ReifyEnv(r.st.h, r.env), rec.final))
     ELSE [ok |-> TRUE, kind |-> "", why |-> "", at |-> r.st.l, nm |-> FALSE]
=============================================================================
