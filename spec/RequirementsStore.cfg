SPECIFICATION Spec
CONSTANTS
 Pkgs = {"aa"}
 MaxRuns = 3
 Vers <- V3
 Mode = "store"
 MaxLinesPerPkg = 2
VIEW View
INVARIANT TypeOK
INVARIANT LabelsOk
INVARIANT RecordEqualsWhatWasInstalled
INVARIANT StoredRecordCurrent
INVARIANT StoredEqualsWhatWasInstalled
PROPERTY NothingInstalledUnlessAllowed
PROPERTY ForeignNeverTouched
PROPERTY OwnUpdatedOnlyOnPinChange
PROPERTY MissingInstalledAsSelected
PROPERTY OnlyDecidedMove
PROPERTY RecordFollowsInstall
PROPERTY RestartKeepsRecord
CHECK_DEADLOCK FALSE
