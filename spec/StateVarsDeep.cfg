SPECIFICATION Spec
CONSTANTS
 Ent = {"e1", "e3"}
 AttrSeq <- XC
 SVals <- OneS
 AVals <- OneA
 Vias = {"name", "get"}
 Scopes = {"top"}
 PyDoms = {"pyscript"}
 SvcEnt = {"e1"}
 MaxOps = 3
 Staged = FALSE
 InitAll = {}
 SnapModes = {"keep", "copy"}
 DelUnderShadow = TRUE
VIEW View
INVARIANT TypeOK
INVARIANT StampsOrdered
PROPERTY SnapshotImmutable
PROPERTY ReadIsCurrentSnapshot
PROPERTY MissingRaises
PROPERTY VirtualFieldsWin
PROPERTY AssignKeepsAttributes
PROPERTY SetattrChangesOnlyThatAttribute
PROPERTY NewAttributesReplaceAll
PROPERTY KeywordsMerge
PROPERTY OmittedValueKept
PROPERTY DeleteRemoves
PROPERTY ExistNamesGetattrAgreeWithHA
PROPERTY Priority
PROPERTY SnapshotAsValue
PROPERTY TouchOnlyReports
CHECK_DEADLOCK FALSE
