SPECIFICATION Spec
CONSTANTS
  K = 3
  Deep = 0
INVARIANT Theorems
CHECK_DEADLOCK FALSE
