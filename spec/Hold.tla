-------------------------------- MODULE Hold --------------------------------
(* C05 model: the check_now / hold / hold_false automaton (HoldCore, flags = {}) against a  *)
(* declarative reading of the property statement over the history of evaluations.           *)
(* Time is discrete; evaluations happen at even instants, S and H are odd or 0 ("a grid     *)
(* that avoids ties").  All configurations are explored in one run (chosen in Init).        *)
(* Actions:  Start (definition time), Eval(ok) (a watched change evaluated to ok),          *)
(*           NonEvalChange (unwatched entity / attribute-only update), Expire, Tick.        *)
EXTENDS HoldCore, FiniteSets, TLC

CONSTANTS MaxT, MaxEvals
Durations == {NoneT, 0, 3}

VARIABLES c, initTruth, now, started, m, evals, nextId, lastCh
vars == <<c, initTruth, now, started, m, evals, nextId, lastCh>>

Init == /\ c \in [S : Durations, H : Durations, check : BOOLEAN, mode : {"dec", "wait"}, t0 : {0}, flags : {{}}]
        /\ initTruth \in BOOLEAN
        /\ now = 0 /\ started = FALSE /\ m = M0(0) /\ evals = <<>> /\ nextId = 1 /\ lastCh = 0

Returned == c.mode = "wait" /\ Len(m.runs) > 0          \* wait_until has returned: nothing more happens
Due == m.waiting /\ m.hs + c.S <= now

Start == /\ ~started /\ started' = TRUE
         /\ evals' = IF c.check \/ c.H # NoneT
                     THEN Append(evals, [t |-> now, ok |-> initTruth, a |-> 0, init |-> TRUE]) ELSE evals
         /\ m' = HStart(c, m, initTruth, 0)
         /\ UNCHANGED <<c, initTruth, now, nextId, lastCh>>

Eval(ok) ==
  /\ started /\ ~Returned /\ now % 2 = 0 /\ now > 0 /\ Len(evals) < MaxEvals
  /\ lastCh < now /\ lastCh' = now                         \* at most one change per instant
  /\ ~Due                                                   \* expiry first
  /\ evals' = Append(evals, [t |-> now, ok |-> ok, a |-> nextId, init |-> FALSE])
  /\ nextId' = nextId + 1
  /\ m' = HEval(c, m, now, ok, nextId)
  /\ UNCHANGED <<c, initTruth, now, started>>

NonEvalChange ==
  /\ started /\ ~Returned /\ now % 2 = 0 /\ now > 0 /\ ~Due /\ lastCh < now /\ lastCh' = now
  /\ m' = HNonEval(c, m, now, nextId) /\ nextId' = nextId + 1
  /\ UNCHANGED <<c, initTruth, now, started, evals>>

Expire == /\ Due /\ ~Returned /\ m' = HExpire(c, m, now, FALSE)
          /\ UNCHANGED <<c, initTruth, now, started, evals, nextId, lastCh>>

Tick == /\ started /\ now < MaxT /\ (~Due \/ Returned) /\ now' = now + 1
        /\ UNCHANGED <<c, initTruth, started, m, evals, nextId, lastCh>>

Next == Start \/ (\E ok \in BOOLEAN : Eval(ok)) \/ NonEvalChange \/ Expire \/ Tick
Spec == Init /\ [][Next]_vars

\* ---------------- the statement, over the history of evaluations ----------------
N == Len(evals)
AllFalse(i, j) == \A k \in i..j : ~evals[k].ok
\* start of the maximal run of false evaluations ending at j (evals[j] is false)
FalseRunStart(j) == CHOOSE f \in 1..j : AllFalse(f, j) /\ (f = 1 \/ evals[f - 1].ok)
\* a true evaluation that counts: the initial check (iff check_now), or - with hold_false - one whose
\* predecessor was false, the expression having been false for at least H
Counted(j) ==
  /\ evals[j].ok
  /\ IF evals[j].init THEN c.check
     ELSE \/ c.H = NoneT
          \/ /\ j > 1 /\ ~evals[j - 1].ok
             /\ evals[j].t - evals[FalseRunStart(j - 1)].t >= c.H
NoFalseIn(lo, hi) == ~\E k \in 1..N : ~evals[k].ok /\ evals[k].t > lo /\ evals[k].t < hi
RECURSIVE HoldStart(_)
PendingBefore(j) == \E i \in 1..(j - 1) : HoldStart(i) /\ evals[i].t + c.S > evals[j].t
                                          /\ NoFalseIn(evals[i].t, evals[j].t)
HoldStart(j) == Counted(j) /\ ~PendingBefore(j)          \* "first true evaluation"

ExpectedAll ==
  IF c.S = NoneT THEN { [t |-> evals[j].t, a |-> evals[j].a] : j \in { k \in 1..N : Counted(k) } }
  ELSE { [t |-> evals[j].t + c.S, a |-> evals[j].a] :
           j \in { k \in 1..N : HoldStart(k) /\ evals[k].t + c.S <= now
                                 /\ NoFalseIn(evals[k].t, evals[k].t + c.S) } }
First(S) == CHOOSE r \in S : \A r2 \in S : r.t <= r2.t
RunSet == { m.runs[i] : i \in 1..Len(m.runs) }
Settled == ~Due \/ Returned
\* decorators: exactly the expected runs; wait_until: returns for the first expected one
RunsMatchStatement ==
  Settled => IF c.mode = "dec" THEN RunSet = ExpectedAll /\ Cardinality(RunSet) = Len(m.runs)
             ELSE IF Len(m.runs) = 0 THEN ExpectedAll = {}
                  ELSE Len(m.runs) = 1 /\ m.runs[1] \in ExpectedAll /\ \A r \in ExpectedAll : m.runs[1].t <= r.t
RunsInTimeOrder == \A i \in 1..(Len(m.runs) - 1) : m.runs[i].t <= m.runs[i + 1].t
\* trigger at definition time exactly when check_now is set and the expression is already true
DefinitionTimeTrigger ==
  (started /\ c.S = NoneT) => ((\E i \in 1..Len(m.runs) : m.runs[i].a = 0) <=> (c.check /\ initTruth))
\* non-evaluating changes affect none of the timers
NonEvalIsStuttering == [][NonEvalChange => m' = m]_vars

\* witnesses (must be violated)
W_NoRun == Len(m.runs) = 0
W_NoTwoRuns == Len(m.runs) < 2
W_NoCancel == ~(\E j \in 1..N : HoldStart(j) /\ ~NoFalseIn(evals[j].t, evals[j].t + c.S) /\ c.S > 0)
W_NoTooSoon == ~(\E j \in 2..N : evals[j].ok /\ ~evals[j - 1].ok /\ c.H > 0 /\ ~Counted(j))
=============================================================================
