----------------------------- MODULE ZmtpTrace -----------------------------
(* Acceptor for real round trips through ZmqSocket (C19, T1).  A case is                      *)
(*   [id, items, wire, got, left]                                                                 *)
(*   items : what was handed to the send routines, in order:                                  *)
(*           [k |-> "msg", frames]            send_multipart(frames)                          *)
(*           [k |-> "single", body]           send(body)           (REP-style, read by recv())*)
(*           [k |-> "cmd", name, params]      send_cmd(name, params)                          *)
(*   wire  : the octets the capturing writer received                                         *)
(*   got   : what recv_multipart()/recv() returned on the other side, the stream having been  *)
(*           fed in the case's fragmentation: [k |-> "msg", frames] / [k |-> "single", body]  *)
(*           / [k |-> "err"] (exception, EOF or starvation)                                   *)
(* Byte strings are run-length encoded (ZmtpCore).  Verdict clauses:                          *)
(*   wire   the octets written are the ZMTP encoding of the items (Encode of the model)       *)
(*   dec    what was read back is what was sent (Lossless of the model, on the code)          *)
(*   model  the model's decoder, run on the octets the code wrote, yields what was sent       *)
EXTENDS ZmtpCore, TLC, Json, IOUtils

\* the case file is parsed once (TLC re-evaluates a definition over IOEnv at every use)
ASSUME TLCSet(1, JsonDeserialize(IOEnv.CASES))
Cases == TLCGet(1)

RECURSIVE EncItems(_, _), ExpGot(_, _), ExpMsgs(_, _)
EncItems(its, i) ==
  IF i > Len(its) THEN <<>>
  ELSE (CASE its[i].k = "msg"    -> Encode(its[i].frames, 1)
          [] its[i].k = "single" -> EncodeSingle(its[i].body)
          [] its[i].k = "cmd"    -> EncodeCmd(its[i].name, its[i].params)) \o EncItems(its, i + 1)
\* what the receive routines must hand back, in order (commands are consumed silently)
ExpGot(its, i) ==
  IF i > Len(its) THEN <<>>
  ELSE (CASE its[i].k = "msg"    -> << [k |-> "msg", v |-> NormF(its[i].frames)] >>
          [] its[i].k = "single" -> << [k |-> "single", v |-> Norm(its[i].body)] >>
          [] its[i].k = "cmd"    -> <<>>) \o ExpGot(its, i + 1)
\* the messages (frame lists) the stream consists of
ExpMsgs(its, i) ==
  IF i > Len(its) THEN <<>>
  ELSE (CASE its[i].k = "msg"    -> << NormF(its[i].frames) >>
          [] its[i].k = "single" -> << <<<<>>, Norm(its[i].body)>> >>
          [] its[i].k = "cmd"    -> <<>>) \o ExpMsgs(its, i + 1)

GotView(g) == CASE g.k = "msg"    -> [k |-> "msg", v |-> NormF(g.frames)]
                [] g.k = "single" -> [k |-> "single", v |-> Norm(g.body)]
                [] OTHER          -> [k |-> "err", v |-> <<>>]

OkWire(c) == Norm(EncItems(c.items, 1)) = Norm(c.wire)
OkDec(c)  == LET e == ExpGot(c.items, 1) IN
             /\ Len(c.got) = Len(e)
             /\ c.left = 0                                   \* nothing of the stream is left unread
             /\ \A j \in 1..Len(e) : LET g == GotView(c.got[j]) IN g.k = e[j].k /\ g.v = e[j].v
OkModel(c) == LET d == Decode(c.wire) IN d.ok /\ d.msgs = ExpMsgs(c.items, 1)

VARIABLE i
Init == i = 1
Next == i <= Len(Cases) /\ i' = i + 1
Spec == Init /\ [][Next]_i
Report == i <= Len(Cases) =>
  LET c == Cases[i]
      w == OkWire(c)  d == OkDec(c)
      m == IF w THEN OkModel(c) ELSE TRUE      \* the model's decoder is only run on octets that are a ZMTP encoding
  IN IF w /\ d /\ m THEN TRUE
     ELSE PrintT("REJECT " \o ToJson([id |-> c.id, wire |-> w, dec |-> d, model |-> m,
                                      why |-> IF ~d THEN "lossy" ELSE IF ~w THEN "wire-format" ELSE "model-decoder"]))
=============================================================================
