----------------------------- MODULE ZmtpTrace -----------------------------
(* Acceptor for real round trips through ZmqSocket (C19, T1).  A case is                      *)
(*   [id, senders, recv, wire, got, left]                                                     *)
(*   senders : one sequence of items per sending task, all tasks sending on the SAME socket;  *)
(*           what each task handed to the send routines, in its order:                        *)
(*           [k |-> "msg", frames]            send_multipart(frames)                          *)
(*           [k |-> "single", body]           send(body)           (REP-style, read by recv())*)
(*           [k |-> "cmd", name, params]      send_cmd(name, params)                          *)
(*           One sender = the sequential round trip.  Several senders: the tasks run          *)
(*           concurrently and the writer's drain() suspends them according to the case's      *)
(*           schedule (a paused transport), so they overtake each other at every drain().     *)
(*   recv  : "match"     the receiver calls recv_multipart() for a msg, recv() for a single   *)
(*           "multipart" the receiver calls recv_multipart() only (the order of arrival is    *)
(*                       not known to it); a single then arrives as <<empty frame, body>>     *)
(*   wire  : the octets the capturing writer received                                         *)
(*   got   : what recv_multipart()/recv() returned on the other side, the stream having been  *)
(*           fed in the case's fragmentation: [k |-> "msg", frames] / [k |-> "single", body]  *)
(*           / [k |-> "err"] (exception, EOF or starvation)                                   *)
(* Byte strings are run-length encoded (ZmtpCore).  Verdict clauses:                          *)
(*   wire   the octets written are the ZMTP encodings of the items, back to back: each        *)
(*          sender's in its order, no write of one sender inside another sender's item        *)
(*          (WireIsMerge; Encode of the model)                                                *)
(*   dec    what was read back is what was sent: an interleaving of the senders' sequences at *)
(*          the granularity of whole messages (IsMerge; Lossless / MessagesIntact of the      *)
(*          models, on the code)                                                              *)
(*   model  the model's decoder, run on the octets the code wrote, yields what was sent       *)
EXTENDS ZmtpCore, TLC, Json, IOUtils

\* the case file is parsed once (TLC re-evaluates a definition over IOEnv at every use)
ASSUME TLCSet(1, JsonDeserialize(IOEnv.CASES))
Cases == TLCGet(1)

EncItem(it) == CASE it.k = "msg"    -> Encode(it.frames, 1)
                 [] it.k = "single" -> EncodeSingle(it.body)
                 [] it.k = "cmd"    -> EncodeCmd(it.name, it.params)
EncsOf(its) == [j \in 1..Len(its) |-> Norm(EncItem(its[j]))]

RECURSIVE ExpGot(_, _, _), ExpMsgs(_, _)
\* what the receive routines must hand back for one sender's items, in order (commands are consumed silently)
ExpGot(its, i, recv) ==
  IF i > Len(its) THEN <<>>
  ELSE (CASE its[i].k = "msg"    -> << [k |-> "msg", v |-> NormF(its[i].frames)] >>
          [] its[i].k = "single" -> IF recv = "multipart" THEN << [k |-> "msg", v |-> <<<<>>, Norm(its[i].body)>>] >>
                                    ELSE << [k |-> "single", v |-> Norm(its[i].body)] >>
          [] its[i].k = "cmd"    -> <<>>) \o ExpGot(its, i + 1, recv)
\* the messages (frame lists) one sender contributes to the stream
ExpMsgs(its, i) ==
  IF i > Len(its) THEN <<>>
  ELSE (CASE its[i].k = "msg"    -> << NormF(its[i].frames) >>
          [] its[i].k = "single" -> << <<<<>>, Norm(its[i].body)>> >>
          [] its[i].k = "cmd"    -> <<>>) \o ExpMsgs(its, i + 1)

GotView(g) == CASE g.k = "msg"    -> [k |-> "msg", v |-> NormF(g.frames)]
                [] g.k = "single" -> [k |-> "single", v |-> Norm(g.body)]
                [] OTHER          -> [k |-> "err", v |-> <<>>]

Snd(c) == DOMAIN c.senders
OkWire(c) == WireIsMerge(c.wire, [s \in Snd(c) |-> EncsOf(c.senders[s])])
OkDec(c)  == /\ c.left = 0                                   \* nothing of the stream is left unread
             /\ IsMerge([j \in 1..Len(c.got) |-> GotView(c.got[j])], [s \in Snd(c) |-> ExpGot(c.senders[s], 1, c.recv)])
OkModel(c) == LET d == Decode(c.wire) IN d.ok /\ IsMerge(AsMsgItems(d.msgs), [s \in Snd(c) |-> AsMsgItems(ExpMsgs(c.senders[s], 1))])

VARIABLE i
Init == i = 1
Next == i <= Len(Cases) /\ i' = i + 1
Spec == Init /\ [][Next]_i
Report == i <= Len(Cases) =>
  LET c == Cases[i]
      w == OkWire(c)  d == OkDec(c)
      m == IF w THEN OkModel(c) ELSE TRUE      \* the model's decoder is only run on octets that are a ZMTP encoding
  IN IF w /\ d /\ m THEN TRUE
     ELSE PrintT("REJECT " \o ToJson([id |-> c.id, wire |-> w, dec |-> d, model |-> m,
                                      why |-> IF ~d THEN "lossy" ELSE IF ~w THEN "wire-format" ELSE "model-decoder"]))
=============================================================================
