--------------------------------- MODULE Msgs ---------------------------------
(* C08 model: messages handed over by Home Assistant -> (shared listener, per-trigger FIFO)  *)
(* -> filter on the message's own data -> one new independent task per accepted message.     *)
(* Runs may sleep for any length of time; they never delay later runs.  Each run gets an HA   *)
(* context whose parent is the occurrence's context; what the run emits carries the run's    *)
(* context.  Actions: Arrive(m), Deliver, Consume(t), RunSleepEnd(r), Emit(r).               *)
EXTENDS MsgCore, TLC

CONSTANTS MaxMsgs
Keys == {"e1", "e2"}
Empty == [x \in {} |-> ""]
Data == [v : {"0", "1"}] \cup {Empty}         \* a message need not carry the field a filter reads
Flt1 == [k |-> "eq", f |-> "v", c |-> "1"]
Not0 == [k |-> "not", a |-> [k |-> "eq", f |-> "v", c |-> "0"]]
HdrE1 == [k |-> "and", l |-> [k |-> "heq", f |-> "event_type", c |-> "e1"], r |-> [k |-> "heq", f |-> "trigger_type", c |-> "event"]]
NoF  == [k |-> "none"]
\* trigger sets: shared and distinct event types, with and without filter, two decorators on one function
TrigSets == {
  << [fid |-> "f", tag |-> "d1", kind |-> "event", key |-> "e1", flt |-> NoF,  kw |-> Empty] >>,
  << [fid |-> "f", tag |-> "d1", kind |-> "event", key |-> "e1", flt |-> Flt1, kw |-> Empty],
     [fid |-> "g", tag |-> "d1", kind |-> "event", key |-> "e1", flt |-> NoF,  kw |-> Empty] >>,
  << [fid |-> "f", tag |-> "d1", kind |-> "event", key |-> "e1", flt |-> Not0, kw |-> Empty] >>,
  << [fid |-> "f", tag |-> "d1", kind |-> "event", key |-> "e1", flt |-> HdrE1, kw |-> Empty],
     [fid |-> "f", tag |-> "d2", kind |-> "event", key |-> "e2", flt |-> HdrE1, kw |-> Empty] >>,
  << [fid |-> "f", tag |-> "d1", kind |-> "event", key |-> "e1", flt |-> Flt1, kw |-> Empty],
     [fid |-> "f", tag |-> "d2", kind |-> "event", key |-> "e2", flt |-> NoF,  kw |-> [tagk |-> "x"]] >>,
  << [fid |-> "f", tag |-> "d1", kind |-> "event", key |-> "e1", flt |-> NoF,  kw |-> Empty],
     [fid |-> "g", tag |-> "d1", kind |-> "event", key |-> "e2", flt |-> Flt1, kw |-> Empty],
     [fid |-> "h", tag |-> "d1", kind |-> "event", key |-> "e1", flt |-> Flt1, kw |-> [v |-> "ovr"]] >> }

Topics == {<<"t", "1">>, <<"t", "2">>}
MqttSet == << [fid |-> "f", tag |-> "d1", kind |-> "mqtt", key |-> "t/+", lv |-> <<"t", "+">>, flt |-> NoF,  kw |-> Empty],
              [fid |-> "g", tag |-> "d1", kind |-> "mqtt", key |-> "t/1", lv |-> <<"t", "1">>, flt |-> Flt1, kw |-> Empty],
              [fid |-> "g", tag |-> "d2", kind |-> "mqtt", key |-> "#",   lv |-> <<"#">>,      flt |-> NoF,  kw |-> Empty] >>

VARIABLES trigs, msgs, bus, q, runs, emitted
vars == <<trigs, msgs, bus, q, runs, emitted>>
TI == 1..Len(trigs)

Init == /\ trigs \in TrigSets \cup {MqttSet} /\ msgs = <<>> /\ bus = <<>>
        /\ q = [t \in 1..3 |-> <<>>] /\ runs = <<>> /\ emitted = <<>>

Arrive(key, d) == /\ Len(msgs) < MaxMsgs /\ trigs # MqttSet
                  /\ msgs' = Append(msgs, [kind |-> "event", key |-> key, d |-> d, ctx |-> "c" \o ToString(Len(msgs) + 1)])
                  /\ bus' = Append(bus, Len(msgs) + 1)
                  /\ UNCHANGED <<trigs, q, runs, emitted>>
ArriveMqtt(lv, d) == /\ Len(msgs) < MaxMsgs /\ trigs = MqttSet
                     /\ msgs' = Append(msgs, [kind |-> "mqtt", key |-> lv[1] \o "/" \o lv[2], lv |-> lv, d |-> d, ctx |-> "-"])
                     /\ bus' = Append(bus, Len(msgs) + 1)
                     /\ UNCHANGED <<trigs, q, runs, emitted>>
\* the listener fans the message out to every trigger subscribed to its key (its own copy of the data)
Deliver == /\ bus # <<>>
           /\ LET i == Head(bus) IN
              /\ bus' = Tail(bus)
              /\ q' = [t \in 1..3 |-> IF t \in TI /\ Matches(trigs[t], msgs[i]) THEN Append(q[t], i) ELSE q[t]]
           /\ UNCHANGED <<trigs, msgs, runs, emitted>>
\* the trigger evaluates the filter and starts a new task; state "run" = started, maybe sleeping
Consume(t) == /\ t \in TI /\ q[t] # <<>>
              /\ LET i == Head(q[t]) IN
                 /\ q' = [q EXCEPT ![t] = Tail(@)]
                 /\ runs' = IF EvalF(trigs[t].flt, msgs[i].d, Header(msgs[i]))
                            THEN Append(runs, [t |-> t, i |-> i, kw |-> RunKw(trigs[t], msgs[i]), parent |-> msgs[i].ctx,
                                               ctx |-> "r" \o ToString(Len(runs) + 1), st |-> "sleeping"])
                            ELSE runs
              /\ UNCHANGED <<trigs, msgs, bus, emitted>>
\* a run emits an event / state change / service call: it carries the run's own context
Emit(r) == /\ r \in 1..Len(runs) /\ runs[r].st = "sleeping" /\ Len(emitted) < 2
           /\ emitted' = Append(emitted, [r |-> r, ctx |-> runs[r].ctx])
           /\ UNCHANGED <<trigs, msgs, bus, q, runs>>
RunEnd(r) == /\ r \in 1..Len(runs) /\ runs[r].st = "sleeping"
             /\ runs' = [runs EXCEPT ![r].st = "done"]
             /\ UNCHANGED <<trigs, msgs, bus, q, emitted>>

Next == (\E key \in Keys, d \in Data : Arrive(key, d)) \/ (\E lv \in Topics, d \in Data : ArriveMqtt(lv, d)) \/ Deliver \/ (\E t \in 1..3 : Consume(t))
        \/ (\E r \in 1..4 : Emit(r) \/ RunEnd(r))
Spec == Init /\ [][Next]_vars

\* ---------------- the statement ----------------
RunsOf(t)     == SelectSeq(runs, LAMBDA r : r.t = t)
AcceptedOf(t) == SelectSeq([i \in 1..Len(msgs) |-> i], LAMBDA i : Accepts(trigs[t], msgs[i]))
IsPrefix(a, b) == Len(a) <= Len(b) /\ \A k \in 1..Len(a) : a[k] = b[k]
Idx(rs) == [k \in 1..Len(rs) |-> rs[k].i]
Quiescent == bus = <<>> /\ \A t \in TI : q[t] = <<>>
\* exactly one run per accepted message, in order, none for other types or failing the filter
RunsArePrefixOfAccepted == \A t \in TI : IsPrefix(Idx(RunsOf(t)), AcceptedOf(t))
NoLossAtQuiescence      == Quiescent => \A t \in TI : Idx(RunsOf(t)) = AcceptedOf(t)
RunCarriesOwnMessage    == \A k \in 1..Len(runs) : runs[k].kw = RunKw(trigs[runs[k].t], msgs[runs[k].i])
\* independence: a sleeping run never prevents the next message from being consumed
NoRunBlocksAnother      == \A t \in TI : q[t] # <<>> => ENABLED Consume(t)
ContextLineage          == /\ \A k \in 1..Len(runs) : runs[k].parent = msgs[runs[k].i].ctx
                           /\ \A k \in 1..Len(emitted) : emitted[k].ctx = runs[emitted[k].r].ctx
DistinctTasks           == \A a, b \in 1..Len(runs) : a # b => runs[a].ctx # runs[b].ctx
W_NoOverlap == ~\E a, b \in 1..Len(runs) : a < b /\ runs[a].t = runs[b].t /\ runs[a].st = "sleeping" /\ runs[b].st = "sleeping"
W_NoWildcardRun == \A k \in 1..Len(runs) : trigs[runs[k].t].key = msgs[runs[k].i].key
W_NoFilterError == \A t \in TI : \A i \in 1..Len(msgs) : EvalR(trigs[t].flt, msgs[i].d, Header(msgs[i])) # "E"
W_NoFiltered == \A t \in TI : \A i \in 1..Len(msgs) : Matches(trigs[t], msgs[i]) => Accepts(trigs[t], msgs[i])
=============================================================================
