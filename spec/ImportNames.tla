------------------------------ MODULE ImportNames ------------------------------
(* C17 (M2): how a plain name is resolved in text executed directly or through eval / exec    *)
(* with namespace arguments - as the mechanism does it (eval_func in eval.py builds a new     *)
(* evaluator: local mapping, global mapping, the table of context-bound functions print /     *)
(* log.* / ..., then AstEval.ast_name walks them and the filtered builtins) - against the     *)
(* declarative rule ImportCore!NameResolves:                                                  *)
(*   CtxBoundEverywhere    print / log.* resolve to the function bound to the script's        *)
(*                         context (its logger) on every route and with every namespace form, *)
(*                         unless the user's own mappings define the name                     *)
(*   ExcludedNeverBuiltin  open, compile, input, breakpoint, memoryview, print never resolve  *)
(*                         to the builtin object                                              *)
(*   MechanismMatchesRule  the mechanism's answer is one the rule admits                      *)
(* Routes: where (module level / inside a function) x via (direct, exec, eval, eval of exec)  *)
(* x ImportCore!NsForms x which of the user's mappings defines the name itself.               *)
(* Constant Mutant injects code defects to show the invariants can fail:                      *)
(*   "ns-drops-ctx"      the table of context-bound functions is only handed to the new       *)
(*                       evaluator when no namespace is passed                                *)
(*   "ns-native-builtins" with an explicit globals mapping the builtins are unfiltered (what   *)
(*                       CPython's exec does through __builtins__)                            *)
(*   "nested-drops-ctx"  an exec inside eval'd text does not inherit the table                *)
EXTENDS ImportCore, TLC, Json
CONSTANT Mutant

Names == {"print", "log.info", "log.error", "open", "compile", "len", "nosuch_zz"}
Builtins == {"print", "open", "compile", "len"}
Wheres == {"module", "func"}
Vias == {"direct", "exec", "eval", "evalexec"}
\* which mapping of the user defines the name itself: none, the script's globals, the globals / locals passed
UDefs == {"none", "script", "g", "l"}

VARIABLES n, where, via, ns, udef, phase, symt, globt, ctxf, depth, res
vars == <<n, where, via, ns, udef, phase, symt, globt, ctxf, depth, res>>

Init == /\ n \in Names /\ where \in Wheres /\ via \in Vias /\ udef \in UDefs
        /\ ns \in (IF via = "direct" THEN {NsNone} ELSE NsForms)
        /\ (udef = "g" => ns.g \in {"data", "copy"}) /\ (udef = "l" => ns.l = "data")
        /\ phase = "call"
        \* the running evaluator: at module level its local mapping is the script's table, in a function the
        \* function's locals ("f"); it has the context-bound functions
        /\ symt = IF where = "module" THEN "script" ELSE "f"
        /\ globt = "script" /\ ctxf = TRUE /\ depth = 0 /\ res = "-"

\* the mappings of the new evaluator for eval / exec called from the running one (same derivation as Imports!Setup)
NewG == IF ns.g = "-" THEN globt ELSE IF ns.g = "globals" THEN "script" ELSE "g"
NewL == IF ns.g = "-" THEN symt
        ELSE IF ns.l \in {"-", "same"} THEN NewG
        ELSE IF ns.l = "locals" THEN (IF where = "module" THEN "script" ELSE "lsnap")
        ELSE "l"
\* direct: no new evaluator.  exec / eval: one set-up with the namespace arguments.  evalexec: the eval is set
\* up with the arguments, the exec inside its text with none (it inherits the eval's evaluator)
Setup == /\ phase = "call"
         /\ IF via = "direct" THEN phase' = "lookup" /\ UNCHANGED <<symt, globt, ctxf, depth>>
            ELSE /\ depth' = depth + 1
                 /\ IF depth = 0
                    THEN /\ globt' = NewG /\ symt' = NewL
                         /\ ctxf' = (IF Mutant = "ns-drops-ctx" THEN ns.g = "-" ELSE ctxf)
                    ELSE /\ UNCHANGED <<globt, symt>>                  \* nested call without arguments
                         /\ ctxf' = (IF Mutant = "nested-drops-ctx" THEN FALSE ELSE ctxf)
                 /\ phase' = IF via = "evalexec" /\ depth = 0 THEN "call" ELSE "lookup"
         /\ UNCHANGED <<n, where, via, ns, udef, res>>

\* the user's mapping `t` defines the name
Defines(t) == \/ udef = "script" /\ t = "script"
              \/ udef = "g" /\ t = "g"
              \/ udef = "l" /\ t = "l"
NativeBuiltins == Mutant = "ns-native-builtins" /\ ns.g # "-"
Lookup == /\ phase = "lookup"
          /\ res' = IF Defines(symt) THEN "user"
                    ELSE IF ctxf /\ n \in CtxBound THEN "replacement"
                    ELSE IF Defines(globt) THEN "user"
                    ELSE IF n \in Builtins /\ (n \notin Excluded \/ NativeBuiltins) THEN "builtin"
                    ELSE "NameError"
          /\ phase' = "done"
          /\ UNCHANGED <<n, where, via, ns, udef, symt, globt, ctxf, depth>>
Next == Setup \/ Lookup
Spec == Init /\ [][Next]_vars

Done == phase = "done"
CtxBoundEverywhere   == Done /\ n \in CtxBound /\ udef = "none" => res = "replacement"
ExcludedNeverBuiltin == Done /\ n \in Excluded => res # "builtin"
MechanismMatchesRule == Done => res \in NameResolves(n, udef # "none", FALSE)
\* a name the user does not define never resolves to "user"; an ordinary builtin stays reachable on every route
NoPhantomUser        == Done /\ udef = "none" => res # "user"
OrdinaryBuiltinKept  == Done /\ n = "len" /\ udef = "none" => res = "builtin"

\* one row per final state; w_* = witnesses that the antecedents are not vacuous (the driver requires each)
Table == Done =>
   PrintT("INFO " \o ToJson([n |-> n, where |-> where, via |-> via, ns |-> ns, udef |-> udef, res |-> res,
                             w_ctx_ns     |-> n \in CtxBound /\ ns.g # "-" /\ res = "replacement",
                             w_ctx_nested |-> n \in CtxBound /\ via = "evalexec" /\ ns.g # "-" /\ res = "replacement",
                             w_excl_ns    |-> n \in Excluded \ CtxBound /\ ns.g # "-" /\ res = "NameError",
                             w_user       |-> res = "user",
                             w_user_loses |-> n \in CtxBound /\ udef # "none" /\ res = "replacement"]))
=============================================================================
