SPECIFICATION Spec
CONSTANTS MaxT = 8
INVARIANT ReleasedOnEveryExit
INVARIANT ReturnIsFirstQualifying
PROPERTY NoEffectOutsideTheCall
CHECK_DEADLOCK FALSE
