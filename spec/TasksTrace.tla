----------------------------- MODULE TasksTrace -----------------------------
(* Trace validation with silent steps (C13, C14): recordings of the real integration against  *)
(* the Tasks model.  Batch form (DESIGN appendix L): one initial state per recorded case       *)
(* (cid), the furthest consumed line per case kept in a TLC register from a CONSTRAINT, the     *)
(* verdicts printed by a POSTCONDITION; run with -workers 1 and the depth-first state queue.    *)
(*                                                                                            *)
(* Every logged line is ONE action of Tasks with the arguments taken from the line.  Not       *)
(* logged, hence inferred by TLC: the reaper's dequeue+cancel and its wake-up, the delivery of *)
(* CancelledError, timer expiry / task.wait wake-ups (only directly before the line that shows  *)
(* the resumption), the refusal of a kill_me-decorated run, and the final Cleanup.              *)
(*                                                                                            *)
(* A case: [id, flags : <<deviation flags>>, trace : <<lines>>].  Lines (field k):             *)
(*   spawn t kind c dn dkm ts | spawnf t c ts | envcancel t | start t ts                        *)
(*   op t op ...  (unique c n km [c = global context of the calling code] | sleep d ts | raise | fin | create ch | cancel v | addcb v f a  *)
(*                 | rmcb v f | wait v | call ch c bl)                                          *)
(*   n2i t c view             task.name2id() called by t from code of global context c: owner of every name   *)
(*   exc t                    the API call of the preceding op line raised in the caller        *)
(*   res t ts w               resumed after sleep (w = "-") / task.wait (w = what it saw) /     *)
(*                            a blocking service call (w = "called")                            *)
(*   cb t f a | cbop t f b ts d | cbres t ts                                                    *)
(*   cbx t f x v g a          the running done-callback f of t calls task.add_done_callback     *)
(*                            (x = "add") / remove_done_callback (x = "rm") of function g for   *)
(*                            task v (v = t: task.current_task(), the ending task itself)       *)
(*   snap owner live ours cbk ctxk extra     registries projected at a quiescent point          *)
EXTENDS Tasks, Json, IOUtils

Cases == JsonDeserialize(IOEnv.CASES)
VARIABLES cid, l, due
tvars == <<vars, cid, l, due>>

Trace == Cases[cid].trace
SeqToSet(s) == {s[i] : i \in 1..Len(s)}
HaveLine == l <= Len(Trace)
Line == Trace[l]
IsLine(k) == HaveLine /\ Line.k = k
Adv == l' = l + 1 /\ UNCHANGED cid
Keep == UNCHANGED <<cid, l, due>>

TInit == /\ cid \in 1..Len(Cases) /\ l = 1 /\ due = [t \in All |-> 0]
         /\ InitWith(SeqToSet(Cases[cid].flags))

\* ---------------------------------------------------------------- logged lines
SpawnLine ==
  /\ IsLine("spawn") /\ Adv
  /\ Spawn(Line.t, Line.kind, Line.c, [n |-> Line.dn, km |-> Line.dkm])
  /\ due' = [due EXCEPT ![Line.t] = Line.ts]
SpawnFLine ==
  /\ IsLine("spawnf") /\ Adv /\ SpawnForeign(Line.t, Line.c)
  /\ due' = [due EXCEPT ![Line.t] = Line.ts]
EnvCancelLine == IsLine("envcancel") /\ Adv /\ EnvCancel(Line.t) /\ UNCHANGED due
\* the body of t starts, in the very instant the task was created (nothing delays a run)
StartLine ==
  /\ IsLine("start") /\ Adv /\ Start(Line.t) /\ st'[Line.t] = "run"
  /\ Line.ts = due[Line.t] /\ UNCHANGED due
OpLine ==
  /\ IsLine("op") /\ Adv
  /\ LET L == Line  t == Line.t IN
     CASE L.op = "unique" -> OpUnique(t, L.c, L.n, L.km) /\ UNCHANGED due
       [] L.op = "sleep"  -> OpSleep(t) /\ due' = [due EXCEPT ![t] = L.ts + L.d]
       [] L.op = "raise"  -> OpRaise(t) /\ UNCHANGED due
       [] L.op = "fin"    -> OpFinish(t) /\ UNCHANGED due
       [] L.op = "create" -> OpCreate(t, L.ch) /\ due' = [due EXCEPT ![L.ch] = L.ts]
       [] L.op = "cancel" -> OpCancel(t, L.v) /\ UNCHANGED due
       [] L.op = "addcb"  -> OpAddCb(t, L.v, L.f, L.a) /\ UNCHANGED due
       [] L.op = "rmcb"   -> OpRmCb(t, L.v, L.f) /\ UNCHANGED due
       [] L.op = "wait"   -> OpWait(t, L.v) /\ UNCHANGED due
       [] L.op = "exec"   -> OpExec(t) /\ UNCHANGED due
       \* the called run starts in the instant of the call, like every other run
       [] L.op = "call"   -> OpCall(t, L.ch, L.c, L.bl) /\ due' = [due EXCEPT ![L.ch] = L.ts]
\* task.name2id(), asked by the running task t from code of global context c (right after a task.unique there):
\* every name of that context with its owner - "the caller becomes the name's owner as reported by task.name2id"
N2iLine ==
  /\ IsLine("n2i") /\ Adv /\ cur = Line.t /\ Line.c \in CodeCtx(Line.t)
  /\ \A n \in Name : View(Line.c)[n] = Line.view[n]
  /\ UNCHANGED <<vars, due>>
\* the preceding API call raised: only a deviation flag makes the model do that
ExcLine ==
  /\ IsLine("exc") /\ Adv
  /\ cur = Line.t /\ phase[Line.t] = "exit" /\ outcome[Line.t] = "raised" /\ apiErr # {}
  /\ UNCHANGED <<vars, due>>
\* task.executor: the value of the plain function, or its exception, reaches the caller
ExecResult(mode, x) == CASE mode \in {"ret", "kw"} -> x + 1 [] mode = "raise" -> 0 - 1 [] OTHER -> 0 - 2
XresLine ==
  /\ IsLine("xres") /\ Adv /\ l > 1 /\ cur = Line.t
  /\ LET P == Trace[l - 1] IN P.k = "op" /\ P.op = "exec" /\ P.t = Line.t /\ Line.r = ExecResult(P.mode, P.x)
  /\ UNCHANGED <<vars, due>>
\* the worker found its target finished (asyncio done()) or never created and skipped the operation
\* (the id of a trigger / service task is unknown to everybody before its first step)
SkipLine ==
  /\ IsLine("skip") /\ Adv /\ cur = Line.t
  /\ ~Live(Line.v) \/ (st[Line.v] = "new" /\ kind[Line.v] # "create")
  /\ UNCHANGED <<vars, due>>
EnvSkipLine == IsLine("envskip") /\ Adv /\ cur = None /\ ~Live(Line.t) /\ UNCHANGED <<vars, due>>
\* what task.wait({v}) shows of v: cancelled / a value / None
Seen(v) == IF outcome[v] = "cancelled" THEN "cancelled"
           ELSE IF outcome[v] = "ok" /\ kind[v] # "trig" THEN "value" ELSE "none"
ResLine ==
  /\ IsLine("res") /\ Adv /\ phase[Line.t] = "body" /\ Continue(Line.t)
  /\ CASE Line.w = "-" -> Line.ts = due[Line.t]
       \* a blocking call returns when the called run is done, in that very instant (the line before this
       \* one - the last step of that run or the cancellation that ended it - carries the same instant)
       [] Line.w = "called" -> /\ waitOn[Line.t] # None /\ Done(waitOn[Line.t]) /\ kind[waitOn[Line.t]] = "svc"
                               /\ l > 1 /\ Line.ts = Trace[l - 1].ts
       [] OTHER -> waitOn[Line.t] # None /\ Done(waitOn[Line.t]) /\ Line.w = Seen(waitOn[Line.t])
  /\ UNCHANGED due
CbLine == /\ IsLine("cb") /\ Adv /\ UNCHANGED due
          /\ \/ CbStart(Line.t, Line.f) /\ cbs[Line.t][Line.f] = Line.a
             \/ CbStartStale(Line.t, Line.f) /\ StaleArg(Line.t, Line.f) = Line.a
             \/ CbStartLoose(Line.t, Line.f, Line.a)
CbXLine == /\ IsLine("cbx") /\ Adv /\ cbcur[Line.t] = Line.f /\ UNCHANGED due
           /\ CASE Line.x = "add" -> CbAdd(Line.t, Line.v, Line.g, Line.a)
                [] Line.x = "rm"  -> CbRm(Line.t, Line.v, Line.g)
CbOpLine ==
  /\ IsLine("cbop") /\ Adv /\ cbcur[Line.t] = Line.f
  /\ CASE Line.b = "ret"   -> CbFinish(Line.t) /\ UNCHANGED due
       [] Line.b = "raise" -> CbRaise(Line.t) /\ UNCHANGED due
       [] Line.b = "sleep" -> CbSuspend(Line.t) /\ due' = [due EXCEPT ![Line.t] = Line.ts + Line.d]
CbResLine ==
  /\ IsLine("cbres") /\ Adv /\ phase[Line.t] = "cb" /\ Continue(Line.t)
  /\ Line.ts = due[Line.t] /\ UNCHANGED due

SnapLine ==
  /\ IsLine("snap") /\ Adv /\ Settled
  /\ \A k \in Key : n2t[k] = Line.owner[k[1]][k[2]]
  /\ {t \in All : Live(t)} = SeqToSet(Line.live)
  /\ ours = SeqToSet(Line.ours)
  /\ ctxKeys = SeqToSet(Line.ctxk)
  \* task2cb: never an entry the model has forgotten; service tasks have none in the code (no requirement)
  /\ SeqToSet(Line.cbk) \subseteq cbKeys
  /\ \A t \in cbKeys \ SeqToSet(Line.cbk) : kind[t] = "svc"
  /\ Line.extra = 0
  /\ UNCHANGED <<vars, due>>

\* ---------------------------------------------------------------- silent steps
NextIsResumeOf(t) == HaveLine /\ Line.k \in {"res", "cbres"} /\ Line.t = t
S_ReaperTake    == Keep /\ ReaperTake
S_ReaperDone    == Keep /\ ReaperDone
S_DeliverCancel == Keep /\ \E t \in All : DeliverCancel(t)
S_Cleanup       == Keep /\ \E t \in All : Cleanup(t)
S_Refuse        == Keep /\ \E t \in All : Start(t) /\ st'[t] = "done"      \* kill_me decoration refuses the run
S_Wake          == Keep /\ \E t \in All : NextIsResumeOf(t) /\ Wake(t)
S_WaitWake      == Keep /\ \E t \in All : NextIsResumeOf(t) /\ WaitWake(t)
\* only under "call-couples-cancel": the blocked caller of a cancelled run is woken to be cancelled (no line shows it)
S_CalleeKills   == Keep /\ \E t \in All : CalleeKills(t) /\ WaitWake(t)
Silent == S_ReaperTake \/ S_ReaperDone \/ S_DeliverCancel \/ S_Cleanup \/ S_Refuse \/ S_Wake \/ S_WaitWake \/ S_CalleeKills

TNext == SpawnLine \/ SpawnFLine \/ EnvCancelLine \/ N2iLine \/ XresLine \/ SkipLine \/ EnvSkipLine \/ StartLine \/ OpLine \/ ExcLine \/ ResLine
         \/ CbLine \/ CbXLine \/ CbOpLine \/ CbResLine \/ SnapLine
         \/ S_ReaperTake \/ S_ReaperDone \/ S_DeliverCancel \/ S_Cleanup \/ S_Refuse \/ S_Wake \/ S_WaitWake \/ S_CalleeKills
TSpec == TInit /\ [][TNext]_tvars

\* furthest line consumed per case (needs -workers 1); registers initialised by the ASSUME
ASSUME \A c \in 1..Len(Cases) : TLCSet(c + 1000, 1)
Track == TLCSet(cid + 1000, IF l > TLCGet(cid + 1000) THEN l ELSE TLCGet(cid + 1000))
Accepted == \A c \in 1..Len(Cases) :
              IF TLCGet(c + 1000) = Len(Cases[c].trace) + 1 THEN TRUE
              ELSE PrintT("REJECT " \o ToJson([id |-> Cases[c].id, line |-> TLCGet(c + 1000)]))
=============================================================================
