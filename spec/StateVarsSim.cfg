SPECIFICATION Spec
CONSTANTS
 Ent = {"e1", "e2", "e3"}
 AttrSeq <- XE
 SVals <- SimS
 AVals <- SimA
 Vias = {"name", "get"}
 Scopes = {"top", "func"}
 PyDoms = {"pyscript", "sensor"}
 SvcEnt = {"e2", "e3"}
 MaxOps = 1000
 Staged = TRUE
 InitAll = {}
 SnapModes = {"copy"}
 DelUnderShadow = TRUE
CHECK_DEADLOCK FALSE
