------------------------------- MODULE PyFlow -------------------------------
(* C02 - batch trace acceptor: every case [id, funcs, trace] of IOEnv.CASES is accepted     *)
(* silently or REJECTed with the position, the expected event, the event found, the          *)
(* construct and clause of the rule that expected it, and the unobserved decisions the       *)
(* machine took since the last agreed event.  The rules are PyFlowCore's.                    *)
EXTENDS PyFlowCore, Json, IOUtils

CONSTANT Chains        \* the cases are visited in Chains independent chains (one TLC worker each)

Cases == JsonDeserialize(IOEnv.CASES)

VARIABLE i
Init == i \in 1..Chains
Next == i + Chains <= Len(Cases) /\ i' = i + Chains
Spec == Init /\ [][Next]_i
Report == i <= Len(Cases) =>
  LET c == Cases[i]
      v == Accept(c.funcs, c.trace)
  IN IF v.ok THEN TRUE
     ELSE PrintT("REJECT " \o ToJson([id |-> c.id, at |-> v.at, why |-> v.why, construct |-> v.w.k, clause |-> v.w.cl,
                                      want |-> v.want, got |-> IF v.at <= Len(c.trace) THEN c.trace[v.at] ELSE NoEv,
                                      decs |-> v.decs, b1 |-> v.b1, unb |-> v.unb]))
=============================================================================
