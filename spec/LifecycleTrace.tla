--------------------------- MODULE LifecycleTrace ---------------------------
(* Acceptor for recordings of the real integration (C09 / C12).                             *)
(* Input (JSON, env CASES): [flagsets |-> <<<<flag, ...>>, ...>>, cases |-> <<case, ...>>]  *)
(*   case = [id, sub ("dm" | "legacy"), started (BOOLEAN: was HA started before step 1),    *)
(*           ctxs |-> <<contexts that exist>>,                                              *)
(*           steps |-> << [act |-> abstract action with arguments, obs |-> observation,      *)
(*                         rush |-> BOOLEAN: no observation, next action issued at once,      *)
(*                         tick |-> BOOLEAN: no observation of its own - the SAME SCRIPT goes  *)
(*                                  on, without yielding, with the occurrence of the next step;*)
(*                                  that step's observation holds the runs of both] >> ]        *)
(* Every step is taken with the action of Lifecycle.tla (Eager = TRUE: the code is sampled  *)
(* at quiescence) and the recorded observation must equal the projection Proj of the        *)
(* model's next state:  obs = Proj'.  One behaviour per (case, flag set); it ends with      *)
(*   ACCEPT {id, fs, cut}                 every step matched under flag set number fs (cut  *)
(*                                        > 0: up to step cut - 1, where the behaviour left *)
(*                                        the specified region because of the deviation)    *)
(*   REJECT {id, fs, step, exp, obs}      first step whose observation differs              *)
(* A (case, flag set) with neither verdict stopped at an action the model does not enable;  *)
(* the driver treats that as a machinery failure for fs = {} (generator / harness defect).  *)
(* flags = {} is the specification; the other flag sets are tried by the driver only for    *)
(* rejected recordings, to classify a rejection by the named deviations that explain it.    *)
EXTENDS Lifecycle, Json, IOUtils

Input == JsonDeserialize(IOEnv.CASES)
Cases == Input.cases
FlagSeqs == Input.flagsets
ToSet(q) == { q[i] : i \in 1..Len(q) }

VARIABLES cid, fs, k, ok, cut,
          carry        \* runs made by a tick step (startup / shutdown runs): observed together with the occurrence's
VARIABLE shown         \* the runs expected in the observation of the last step (for the REJECT line)
tvars == <<vars, cid, fs, k, ok, cut, carry, shown>>

DeclOf(j) == [st |-> ToSet(j.st), ev |-> ToSet(j.ev), tt |-> ToSet(j.tt), svc |-> ToSet(j.svc), resp |-> j.resp, sf |-> j.sf, alt |-> j.alt, dup |-> ToSet(j.dup)]
DefsOf(q) == [i \in 1..Len(q) |-> [n |-> q[i].n, d |-> DeclOf(q[i].d)]]

TInit == /\ cid \in 1..Len(Cases) /\ fs \in 1..Len(FlagSeqs) /\ k = 0 /\ ok = TRUE /\ cut = 0 /\ carry = {} /\ shown = {}
         /\ flags = ToSet(FlagSeqs[fs]) /\ sub = Cases[cid].sub /\ started = Cases[cid].started
         /\ unloaded = FALSE /\ loaded = ToSet(Cases[cid].ctxs)
         /\ G = <<>> /\ bind = [c \in Ctx |-> [n \in Name |-> 0]] /\ cont = [c \in Ctx |-> EmptyCont]
         /\ cnt = [s \in Svc |-> 0] /\ own = [s \in Svc |-> NoOwner] /\ hd = [s \in Svc |-> 0]
         /\ subs = [x \in Ent |-> {}] /\ lst = [e \in Ev |-> {}] /\ tm = {}
         /\ runs = {} /\ res = NoRes /\ quiet = TRUE /\ hot = {} /\ steps = 0 /\ lastAct = [a |-> "init"]
         /\ imp = {} /\ tick = FALSE /\ cold = {}

Do(a) == CASE a.a = "define" -> Define(a.c, a.n, DeclOf(a.d))
           [] a.a = "del"    -> Del(a.c, a.n)
           [] a.a = "rebind" -> Rebind(a.c, a.n, a.m)
           [] a.a = "push"   -> Push(a.c, DeclOf(a.d), a.where, a.via)
           [] a.a = "pop"    -> Pop(a.c)
           [] a.a = "clear"  -> Clear(a.c, a.where)
           [] a.a = "reload" -> Reload(a.c, DefsOf(a.defs), a.fail, a.im, DefsOf(a.mdefs))
           [] a.a = "import" -> Import(a.c, DefsOf(a.mdefs), a.via, a.fail)
           [] a.a = "close"  -> Close(a.c)
           [] a.a = "unload" -> Unload
           [] a.a = "boot"   -> Boot(DefsOf(a.d1), DefsOf(a.d2), a.f1, a.f2)
           [] a.a = "fire"   -> Fire(a.e)
           [] a.a = "set"    -> SetState(a.x)
           [] a.a = "call"   -> Call(a.s, a.data, a.rr)
           [] a.a = "out"    -> Out(a.c, a.form, a.give)

\* the recording as a value comparable with Proj: runs as a set (the count is compared separately)
ObsVal(o) == [o EXCEPT !.runs = ToSet(o.runs)]
Matches(o) == ObsVal(o) = [Proj' EXCEPT !.runs = runs' \cup carry] /\ Len(o.runs) = Cardinality(runs' \cup carry)

\* The guards that keep the generators inside the specified region (cross-context conflicts only with one
\* service, contents, no plain call of a response-only service) are evaluated on the model's state.  The
\* generators respect them for flags = {}; under a deviation the state differs (e.g. a definition that should be
\* gone still owns a service name) and a later action may fall outside the specified region: what the code does
\* then is not specified, the recording is judged up to that step only (cut = that step).
\* (the same for the named deviation "service-bookkeeping-keyed-by-spelling": from the first declaration that
\* spells a registered name differently on, what the code does is not modelled)
BySpelling == "service-bookkeeping-keyed-by-spelling" \in flags
InRegion(a) == CASE a.a \in {"define", "push"} -> ConflictOK(a.c, DeclOf(a.d)) /\ ~(BySpelling /\ SpellingCollision(DeclOf(a.d)))
                 [] a.a = "reload" -> /\ ContentOK(a.c, DefsOf(a.defs)) /\ ContentOK(Module, DefsOf(a.mdefs))
                                      /\ ~(BySpelling /\ SpellingCollisionIn(DefsOf(a.defs) \o DefsOf(a.mdefs), {a.c}))
                 [] a.a = "boot" -> ~(BySpelling /\ SpellingCollisionIn(DefsOf(a.d1) \o DefsOf(a.d2), {}))
                 \* what a module that was imported by a session cell and never started does later is not modelled
                 \* (named deviation): the recording is judged up to that import
                 [] a.a = "import" -> /\ ContentOK(Module, DefsOf(a.mdefs)) /\ ~(BySpelling /\ SpellingCollisionIn(DefsOf(a.mdefs), {}))
                                      /\ ~(SessionImportDelays(a.c, a.via) /\ Module \notin loaded /\ ~a.fail)
                 [] a.a = "call"   -> (hd[a.s] # 0 /\ G[hd[a.s]].d.resp = "only") => a.rr
                 [] OTHER -> TRUE
TNext == /\ ok /\ cut = 0 /\ k < Len(Cases[cid].steps)
         /\ IF InRegion(Cases[cid].steps[k + 1].act)
            THEN \* (fixed BEFORE the action is taken: the action then only tests its own choice of quiet' / tick')
                 /\ quiet' = ~Cases[cid].steps[k + 1].rush
                 /\ tick' = Cases[cid].steps[k + 1].tick
                 /\ Do(Cases[cid].steps[k + 1].act)
                 /\ k' = k + 1
                 \* a "rush" step carries no observation (the next action was issued before quiescence); it must
                 \* not run anything by itself: what was run is compared at the next observed step
                 \* a "tick" step carries no observation either: the script goes on at once with the occurrence of
                 \* the next step, whose observation (at quiescence) shows what both have run
                 /\ ok' = IF Cases[cid].steps[k + 1].rush THEN runs' = {}
                          ELSE IF Cases[cid].steps[k + 1].tick THEN TRUE
                          ELSE Matches(Cases[cid].steps[k + 1].obs)
                 /\ carry' = IF Cases[cid].steps[k + 1].tick THEN runs' ELSE {}
                 /\ shown' = runs' \cup carry
                 /\ cut' = 0
            ELSE /\ cut' = k + 1 /\ UNCHANGED <<vars, k, ok, carry, shown>>
         /\ UNCHANGED <<cid, fs>>
TSpec == TInit /\ [][TNext]_tvars

SetToSeq(S) == LET RECURSIVE F(_)
                   F(T) == IF T = {} THEN <<>> ELSE LET x == CHOOSE y \in T : TRUE IN <<x>> \o F(T \ {x})
               IN F(S)
Report ==
  IF ~ok THEN PrintT("REJECT " \o ToJson([id |-> Cases[cid].id, fs |-> fs, step |-> k,
                                           act |-> Cases[cid].steps[k].act.a,
                                           exp |-> [Proj EXCEPT !.runs = SetToSeq(shown)],
                                           obs |-> Cases[cid].steps[k].obs]))
  ELSE IF k = Len(Cases[cid].steps) \/ cut > 0
       THEN PrintT("ACCEPT " \o ToJson([id |-> Cases[cid].id, fs |-> fs, cut |-> cut]))
  ELSE TRUE
=============================================================================
