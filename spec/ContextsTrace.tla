--------------------------- MODULE ContextsTrace ---------------------------
(* Acceptor for C11: a case is a generated multi-file program (description + the real files    *)
(* rendered from it) and what the real integration did with it:                                *)
(*   [id, prog : [files, order, events],                                                       *)
(*    obs : [tabs : ctx -> (name -> value), log : << [tag, v] >>, inst : ctx -> executions]]   *)
(* The expected global tables of all contexts, the observation log and the number of           *)
(* executions of every file are COMPUTED by the ContextsCore machine from the description      *)
(* (flags = {}: the statement); a recording that differs is rejected with the first differing  *)
(* component and the smallest set of known deviations of the pinned tree that explains it.     *)
EXTENDS ContextsCore, Json, IOUtils
Cases == JsonDeserialize(IOEnv.CASES)
Fuel == 20000
KnownDev == {"rel-sibling-name"}

ShowTab(t) == [x \in DOMAIN t |-> Show(t[x])]
SameTab(t, o) == DOMAIN t = DOMAIN o /\ \A x \in DOMAIN t : Show(t[x]) = o[x]
SameLog(l, o) == Len(l) = Len(o) /\ \A i \in 1..Len(l) : l[i].tag = o[i].tag /\ l[i].v = o[i].v
Diff(S, o) ==
  IF ~S.ok THEN "machine: a generated file raises at top level"
  ELSE IF DOMAIN S.inst # DOMAIN o.inst THEN "contexts"
  ELSE IF \E c \in DOMAIN S.inst : S.inst[c] # o.inst[c] THEN "instances"
  ELSE IF ~SameLog(S.log, o.log) THEN "log"
  ELSE IF DOMAIN S.tabs # DOMAIN o.tabs \/ \E c \in DOMAIN S.tabs : ~SameTab(S.tabs[c], o.tabs[c]) THEN "tables"
  ELSE "ok"
Expected(P, fl) == RunAll(P, Start(P), fl, Fuel)
Explaining(P, o) == { fl \in SUBSET KnownDev : Diff(Expected(P, fl), o) = "ok" }
SetToSeq(T) == LET RECURSIVE F(_)
                   F(U) == IF U = {} THEN <<>> ELSE LET x == CHOOSE y \in U : TRUE IN <<x>> \o F(U \ {x})
               IN F(T)
FirstLogDiff(l, o) == IF \E i \in 1..Len(l) : i > Len(o) \/ l[i].tag # o[i].tag \/ l[i].v # o[i].v
                      THEN CHOOSE i \in 1..Len(l) : (i > Len(o) \/ l[i].tag # o[i].tag \/ l[i].v # o[i].v)
                                                   /\ \A j \in 1..(i - 1) : j <= Len(o) /\ l[j].tag = o[j].tag /\ l[j].v = o[j].v
                      ELSE Len(l) + 1

\* what the machine did on the way (coverage, measured by TLC): kinds of unwinding - <exception>-<frame popped | clean-up code
\* started>-<direct: nothing popped before | same: the frame popped before belongs to the same context | across: to another> - and
\* cancellations requested through task names
Cov(S) == { x.exc \o (IF x.fin THEN "-fin" ELSE "-pop") \o (IF x.from = "" THEN "-direct" ELSE IF x.from = x.to THEN "-same" ELSE "-across") : x \in S.cx }
          \cup { IF k.self THEN "kill-me" ELSE "kill-other" : k \in S.kills }

VARIABLE i
Init == i = 1
Next == i <= Len(Cases) /\ i' = i + 1
Spec == Init /\ [][Next]_i
Report == i <= Len(Cases) =>
  LET c == Cases[i]
      S == Expected(c.prog, {})
      d == Diff(S, c.obs)
  IN /\ (Cov(S) # {} => PrintT("INFO " \o ToJson([id |-> c.id, cov |-> Cov(S)])))
     /\ d # "ok" =>
       LET ex == Explaining(c.prog, c.obs)
           k  == FirstLogDiff(S.log, c.obs.log)
       IN PrintT("REJECT " \o ToJson([id |-> c.id, clause |-> d,
                    why |-> IF ex = {} THEN <<"unexplained">> ELSE SetToSeq(CHOOSE fs \in ex : \A g \in ex : Cardinality(fs) <= Cardinality(g)),
                    logpos |-> k,
                    exp |-> IF d = "log" /\ k <= Len(S.log) THEN <<S.log[k]>> ELSE <<>>,
                    expinst |-> S.inst]))
=============================================================================
