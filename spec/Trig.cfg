SPECIFICATION Spec
CONSTANTS MaxOps = 3
 WithScriptSet = FALSE
VIEW View
INVARIANT RunsOrderedNoDup
INVARIANT NoSpuriousRun
INVARIANT NoLostRun
INVARIANT RunCarriesOwnEvent
INVARIANT ExactWhenSettled
CHECK_DEADLOCK FALSE
