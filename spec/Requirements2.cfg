SPECIFICATION Spec
CONSTANTS
 Pkgs = {"aa", "bb"}
 MaxRuns = 2
 Vers <- V2
 Mode = "text"
 MaxLinesPerPkg = 1
VIEW View
INVARIANT TypeOK
INVARIANT LabelsOk
INVARIANT RecordEqualsWhatWasInstalled
INVARIANT StoredRecordCurrent
INVARIANT StoredEqualsWhatWasInstalled
PROPERTY NothingInstalledUnlessAllowed
PROPERTY ForeignNeverTouched
PROPERTY OwnUpdatedOnlyOnPinChange
PROPERTY MissingInstalledAsSelected
PROPERTY OnlyDecidedMove
PROPERTY RecordFollowsInstall
PROPERTY RestartKeepsRecord
CHECK_DEADLOCK FALSE
