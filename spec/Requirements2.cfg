SPECIFICATION Spec
CONSTANTS
 Pkgs = {"aa", "bb"}
 MaxRuns = 2
 Vers <- V2
 MaxLinesPerPkg = 1
VIEW View
INVARIANT TypeOK
INVARIANT LabelsOk
INVARIANT RecordEqualsWhatWasInstalled
PROPERTY NothingInstalledUnlessAllowed
PROPERTY ForeignNeverTouched
PROPERTY OwnUpdatedOnlyOnPinChange
PROPERTY MissingInstalledAsSelected
PROPERTY OnlyDecidedMove
PROPERTY RecordFollowsInstall
CHECK_DEADLOCK FALSE
