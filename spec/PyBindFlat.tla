----------------------------- MODULE PyBindFlat -----------------------------
(* (M) for C03, call-site side: every way of writing a call with at most 4 positional      *)
(* values and 3 keywords using *seq and **map, and the theorem that Flatten preserves the  *)
(* positional count and the multiset of keywords.                                          *)
EXTENDS PyBind, TLC
Names == {"a", "value", "context", "d", "qos", "g", "zz", "trigger_type"}
SetToSeq(S) == LET RECURSIVE F(_)
                   F(T) == IF T = {} THEN <<>> ELSE LET x == CHOOSE y \in T : TRUE IN <<x>> \o F(T \ {x})
               IN F(S)
KwSets == { K \in SUBSET Names : Cardinality(K) <= 3 }
(* ---- every way of writing a call: a plain values, *seq of b values, c plain values;     *)
(* keywords split between explicit ones and one **map (names may occur on both sides) ---- *)
Plain(k) == [i \in 1..k |-> [star |-> FALSE, n |-> 1]]
PosShapes == { Plain(a) : a \in 0..4 }
  \cup { Plain(t[1]) \o <<[star |-> TRUE, n |-> t[2]]>> \o Plain(t[3]) :
           t \in { u \in (0..4) \X (0..4) \X (0..4) : u[1] + u[2] + u[3] <= 4 } }
Explicit(e) == [i \in 1..Len(e) |-> [star |-> FALSE, names |-> <<e[i]>>]]
KwShapes == { Explicit(SetToSeq(E)) : E \in KwSets }
  \cup { Explicit(SetToSeq(t[1])) \o <<[star |-> TRUE, names |-> SetToSeq(t[2])]>> :
           t \in { u \in KwSets \X KwSets : Cardinality(u[1]) + Cardinality(u[2]) <= 3 } }
VARIABLES ph, pos, kws
vars == <<ph, pos, kws>>
Init == ph = 0 /\ pos = <<>> /\ kws = <<>>
PickPos == ph = 0 /\ ph' = 1 /\ pos' \in PosShapes /\ UNCHANGED kws
PickKws == ph = 1 /\ ph' = 2 /\ kws' \in KwShapes /\ UNCHANGED pos
Spec == Init /\ [][PickPos \/ PickKws]_vars
Count(s, x) == Cardinality({ i \in 1..Len(s) : s[i] = x })
T_Flatten == ph = 2 =>
  LET f == Flatten([pos |-> pos, kws |-> kws]) IN
  /\ f.npos = Cardinality({ i \in 1..Len(pos) : ~pos[i].star })
              + (IF \E i \in 1..Len(pos) : pos[i].star THEN pos[CHOOSE i \in 1..Len(pos) : pos[i].star].n ELSE 0)
  /\ f.npos <= 4 /\ Len(f.kws) <= 3
  /\ \A x \in Names : Count(f.kws, x) = Cardinality({ i \in 1..Len(kws) : Count(kws[i].names, x) > 0 })
W_NoRepeat == ph = 2 => ~Repeated(Flatten([pos |-> pos, kws |-> kws]).kws)
=============================================================================
