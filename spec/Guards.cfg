SPECIFICATION Spec
CONSTANTS MaxT = 6
 MaxOcc = 3
INVARIANT RunIffGuardsPass
INVARIANT AcceptedSpacing
PROPERTY GuardsNeverStartRuns
PROPERTY DirectIsTransparent
CHECK_DEADLOCK FALSE
