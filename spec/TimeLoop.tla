------------------------------ MODULE TimeLoop ------------------------------
(* (M) A trigger loop that multiplexes a time source with a state source (plain or with      *)
(* state_hold) and an event source, on a small tick line, against the statement of            *)
(* TimeLoopCore: the runs are those of the sources taken alone (time: once at every denoted   *)
(* instant d \in D with trigger_time = d).                                                     *)
(*                                                                                            *)
(* The environment applies stimuli (at most one per tick, MaxStim in all) in every order TLC  *)
(* can interleave them with the loop - in particular at the tick of a time instant before     *)
(* the loop's own timer has fired (the clock already reads the instant) and after it.         *)
(* The loop is the single-deadline wait loop of the legacy subsystem                          *)
(* (trigger.py TrigInfo.trigger_watch): top: deadline := next time instant, or the end of a   *)
(* pending hold if that comes first (kept in the same variable `tn`); wait for a              *)
(* notification or the deadline; handle it; back to top.  Three ways to obtain "the next time  *)
(* instant" at the top (constant Modes):                                                      *)
(*   "legacy"   from the clock reading of every wake-up (the pinned code)                      *)
(*   "pending"  as legacy, but an instant that was computed and has not been delivered stays   *)
(*              due (notes/C06-fixes/E-legacy-pending-instant.patch)                            *)
(*   "cached"   recomputed only once the loop's deadline variable has passed (the class of     *)
(*              seeded defect C06-c2: the variable also carries hold deadlines)                *)
(* Theorems: "pending" is the statement; "legacy" is the statement unless a notification is    *)
(* handled at a clock reading at which a computed instant is already due (history variable     *)
(* `tie`, the mask of the known finding).  The same statement read as a theorem about the        *)
(* "cached" loop, and about "legacy" without the mask, must be VIOLATED (witnesses            *)
(* W_CachedIsProduct, W_CachedDenoted, W_LegacyIsProduct: reported as INFO lines).             *)
EXTENDS TimeLoopCore, TLC

CONSTANTS Horizon, MaxStim, Modes, Entries      \* Entries: the catalogue entries to explore

None == 0 - 1
L(t) == <<t, 0>>
Off(n) == [neg |-> FALSE, s |-> n, u |-> 0]
Co(hold, h, ev) == [state |-> TRUE, hold |-> hold, H |-> Off(h), check |-> FALSE, event |-> ev, plain |-> TRUE]
\* catalogue: denoted instants, the other sources
Cat == << [D |-> {3, 6, 9},  h |-> 2, co |-> Co(TRUE, 2, TRUE)],      \* hold shorter than the spacing
          [D |-> {4, 5, 10}, h |-> 3, co |-> Co(TRUE, 3, FALSE)],     \* hold spans / ends at instants
          [D |-> {2, 8},     h |-> 4, co |-> Co(TRUE, 4, TRUE)],
          [D |-> {3, 4, 8},  h |-> 0, co |-> Co(FALSE, 0, TRUE)],     \* state trigger without hold
          [D |-> {5},        h |-> 2, co |-> Co(TRUE, 2, FALSE)] >>   \* no instant after the last one

VARIABLES ci, mode, clk, pc, tn, pend, stt, w, hs, q, stims, runs, tie
vars == <<ci, mode, clk, pc, tn, pend, stt, w, hs, q, stims, runs, tie>>
E == Cat[ci]
NextT(now) == LET S == { d \in E.D : d > now } IN IF S = {} THEN None ELSE MinN(S)

Init == /\ ci \in Entries /\ mode \in Modes /\ (mode = "cached" => ci = 1)     \* (the cached loop only serves as a witness)
        /\ clk = 0 /\ pc = "top" /\ tn = None /\ pend = None /\ stt = FALSE
        /\ w = FALSE /\ hs = 0 /\ q = <<>> /\ stims = <<>> /\ runs = <<>> /\ tie = FALSE

\* ---------------------------------------------------------------- environment
Stim(k) ==
  /\ pc = "wait" /\ q = <<>> /\ Len(stims) < MaxStim
  /\ IF stims = <<>> THEN TRUE ELSE stims[Len(stims)].at # L(clk)          \* one per tick
  /\ k \in {"T", "F"} => E.co.state /\ ~(E.co.hold /\ w /\ hs + E.h = clk)  \* (ambiguous: at the end of a pending hold)
  /\ k = "E" => E.co.event
  /\ stims' = Append(stims, [at |-> L(clk), k |-> k])
  /\ q' = Append(q, k)
  /\ UNCHANGED <<ci, mode, clk, pc, tn, pend, stt, w, hs, runs, tie>>
Tick ==
  /\ pc = "wait" /\ q = <<>> /\ (tn = None \/ clk < tn) /\ clk < Horizon
  /\ clk' = clk + 1
  /\ UNCHANGED <<ci, mode, pc, tn, pend, stt, w, hs, q, stims, runs, tie>>
\* ---------------------------------------------------------------- the loop
LoopTop ==
  /\ pc = "top"
  /\ LET genuine == CASE mode = "cached"  -> IF tn # None /\ tn > clk THEN tn ELSE NextT(clk)
                      [] mode = "pending" -> IF pend # None /\ pend <= clk THEN pend ELSE NextT(clk)
                      [] OTHER            -> NextT(clk)
         useHold == w /\ (genuine = None \/ hs + E.h < genuine)
     IN /\ tn' = IF useHold THEN hs + E.h ELSE genuine
        /\ stt' = useHold
        /\ pend' = genuine
  /\ pc' = "wait"
  /\ UNCHANGED <<ci, mode, clk, w, hs, q, stims, runs, tie>>
Run(type, tt) == runs' = Append(runs, [at |-> L(clk), type |-> type, tt |-> L(tt)])
LoopNotify ==
  /\ pc = "wait" /\ q # <<>>
  /\ q' = Tail(q)
  /\ tie' = (tie \/ (pend # None /\ pend <= clk))        \* handled although a computed instant is already due
  /\ stt' = FALSE
  /\ IF Head(q) = "T"
     THEN IF E.co.hold THEN /\ w' = TRUE /\ hs' = (IF w THEN hs ELSE clk) /\ UNCHANGED runs     \* starts / continues a hold
                       ELSE Run("state", 0) /\ UNCHANGED <<w, hs>>
     ELSE IF Head(q) = "F" THEN w' = FALSE /\ UNCHANGED <<hs, runs>>                           \* abandons a pending hold
     ELSE Run("event", 0) /\ UNCHANGED <<w, hs>>
  /\ pc' = "top"
  /\ UNCHANGED <<ci, mode, clk, tn, pend, stims>>
LoopTimeout ==
  /\ pc = "wait" /\ tn # None /\ clk >= tn
  /\ IF stt THEN Run("state", 0) /\ w' = FALSE /\ UNCHANGED pend
            ELSE Run("time", tn) /\ pend' = None /\ UNCHANGED w
  /\ pc' = "top"
  /\ UNCHANGED <<ci, mode, clk, tn, stt, hs, q, stims, tie>>

Next == Tick \/ LoopTop \/ LoopNotify \/ LoopTimeout \/ \E k \in {"T", "F", "E"} : Stim(k)
Spec == Init /\ [][Next]_vars

\* ---------------------------------------------------------------- the statement
Quiescent == pc = "wait" /\ q = <<>> /\ (tn = None \/ clk < tn)
Z == L(0)
Product ==
  { [at |-> L(d), type |-> "time", tt |-> L(d)] : d \in { x \in E.D : x <= clk } }
  \cup { [at |-> x, type |-> "state", tt |-> Z] : x \in Range(HoldFold(E.co, stims, L(clk)).runs) }
  \cup (IF E.co.event THEN { [at |-> x, type |-> "event", tt |-> Z] : x \in EventRunsAt(stims) } ELSE {})
LoopIsProduct == Quiescent => Range(runs) = Product /\ Len(runs) = Cardinality(Product)

\* ---------------------------------------------------------------- theorems
T_PendingIsProduct == mode = "pending" => LoopIsProduct
T_LegacyOffTie     == mode = "legacy" /\ ~tie => LoopIsProduct
\* (even at a tie the legacy loop only loses instants: what it delivers is denoted and at its instant)
T_LegacyDenoted    == mode = "legacy" => \A i \in 1..Len(runs) : IsTime(runs[i]) => runs[i].tt = runs[i].at /\ runs[i].at[1] \in E.D
\* the theorem tells the other two loops from the statement: each of these must be VIOLATED
Small == clk = Horizon /\ Len(stims) <= 2 /\ ci = 1
W_CachedIsProduct == mode = "cached" /\ Small => LoopIsProduct
W_LegacyIsProduct == mode = "legacy" /\ Small => LoopIsProduct
W_CachedDenoted   == mode = "cached" /\ Small => \A i \in 1..Len(runs) : IsTime(runs[i]) => runs[i].at[1] \in E.D

\* ---------------------------------------------------------------- witnesses (each must be VIOLATED in some state)
Final == Quiescent /\ clk = Horizon /\ mode = "pending" /\ Len(stims) <= 2
H  == HoldFold(E.co, stims, L(clk))
TR == TimeRuns(runs)
W_NoAbandonBeforeInstant == ~(Final /\ E.co.hold /\ AbandonedBeforeInstant(H, TR))
W_NoHoldSpansInstant     == ~(Final /\ E.co.hold /\ HoldSpansInstant(H, TR))
W_NoHoldEndsAtInstant    == ~(Final /\ E.co.hold /\ HoldEndsAtInstant(H, TR, 0))
W_NoWakeAtInstant        == ~(Final /\ \E j \in 1..Len(TR) : WakeJustBefore(stims, TR[j].at, 0))
W_NoWakeBetween          == ~(Final /\ Len(stims) = 2 /\ Cardinality(WakesBetween(stims, TR)) = 2)
Note(x) == PrintT("INFO {\"w\":\"" \o x \o "\"}")
Witnesses == /\ W_CachedIsProduct \/ Note("W_CachedIsProduct")
             /\ W_LegacyIsProduct \/ Note("W_LegacyIsProduct")
             /\ W_CachedDenoted \/ Note("W_CachedDenoted")
             /\ W_NoAbandonBeforeInstant \/ Note("W_NoAbandonBeforeInstant")
             /\ W_NoHoldSpansInstant \/ Note("W_NoHoldSpansInstant")
             /\ W_NoHoldEndsAtInstant \/ Note("W_NoHoldEndsAtInstant")
             /\ W_NoWakeAtInstant \/ Note("W_NoWakeAtInstant")
             /\ W_NoWakeBetween \/ Note("W_NoWakeBetween")
=============================================================================
