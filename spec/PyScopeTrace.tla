---------------------------- MODULE PyScopeTrace ----------------------------
(* Acceptor for tracer logs of generated programs (C03 scoping / closures / definition-time *)
(* order / classes).  A case: [id, names, codes, fuel, logs : Seq([who, log])] with log the  *)
(* recorded sequence of [s (site), k (value kind or exception family), n] under interpreter *)
(* who ("cpython" | "pyscript" | "corrupt-.." = self-test).  Verdict per log: ACCEPT iff it is the one the PyScope      *)
(* machine computes (flags = {}).  Otherwise the acceptor prints                            *)
(* the first differing position and the smallest set of named deviations (PyScope flags)   *)
(* that explains the whole log ("unexplained" if none does).  Runs in which Python raises    *)
(* NameError for `name.attr` on an unbound name (pyscript: a state variable, documented), or *)
(* in which an except-handler deletes its own target (handler exit protocol: C02), are not   *)
(* demanded of pyscript (INFO line); CPython's own log must match in every case.             *)
EXTENDS PyScope, Json, IOUtils
Cases == JsonDeserialize(IOEnv.CASES)
AllFlags == {"defaults-first", "weak-self", "native-no-enclosing", "class-no-enclosing", "global-decl-leaks",
             "del-global-silent"}
MarkNames == {"comp", "excas", "ndflt", "dyncap"}      \* "ucap", "nldyn", "annloc" are no longer excusing loci: repaired in /repo (61bc182, 197a1eb, annotated assignments)
NotDemanded == {"sv", "xdel"}

RECURSIVE FirstDiff(_, _, _)
FirstDiff(a, b, j) == IF j > Len(a) \/ j > Len(b) THEN j ELSE IF a[j] = b[j] THEN FirstDiff(a, b, j + 1) ELSE j
At(s, j) == IF j <= Len(s) THEN s[j] ELSE [s |-> 0, k |-> "end", n |-> 0]
SetToSeq(S) == LET RECURSIVE F(_)
                   F(T) == IF T = {} THEN <<>> ELSE LET x == CHOOSE y \in T : TRUE IN <<x>> \o F(T \ {x})
               IN F(S)
Smallest(S) == CHOOSE fs \in S : \A g \in S : Cardinality(fs) <= Cardinality(g)

\* Explanation of a rejected log: (1) a single flag under which the machine computes exactly this log; (2) else
\* the marked loci reached not after the first difference; (3) else the smallest flag set giving exactly this log;
\* (4) else the flag set with the longest matching prefix, provided the first difference does not lie before
\* the point where a marked locus was reached (why = flags + marks); (5) else "unexplained".
Explain(c, obs) ==
  LET r0    == Expected(c, {})
      p0    == FirstDiff(r0.log, obs, 1)
      one   == { fl \in AllFlags : Expected(c, {fl}).log = obs }
      hit0  == { m \in MarkNames : r0.marks[m] # 0 /\ r0.marks[m] <= p0 }
  IN IF one # {} THEN <<CHOOSE fl \in one : TRUE>>
     ELSE IF hit0 # {} THEN SetToSeq(hit0)
     ELSE LET runs  == [fs \in SUBSET AllFlags |-> Expected(c, fs)]
              exact == { fs \in SUBSET AllFlags : runs[fs].log = obs }
              pre(fs) == FirstDiff(runs[fs].log, obs, 1)
              best  == CHOOSE fs \in SUBSET AllFlags : \A g \in SUBSET AllFlags :
                         pre(fs) > pre(g) \/ (pre(fs) = pre(g) /\ Cardinality(fs) <= Cardinality(g))
              hit   == { m \in MarkNames : runs[best].marks[m] # 0 /\ runs[best].marks[m] <= pre(best) }
          IN IF exact # {} THEN SetToSeq(Smallest(exact))
             ELSE IF hit # {} THEN SetToSeq(best) \o SetToSeq(hit)
             ELSE <<"unexplained">>

NB == 16
VARIABLES b, i
Init == b = 0 /\ i = 0
PickBlock == b = 0 /\ b' \in 1..NB /\ UNCHANGED i
PickCase == b > 0 /\ i = 0 /\ i' \in { k \in 1..Len(Cases) : k % NB = b - 1 } /\ UNCHANGED b
Spec == Init /\ [][PickBlock \/ PickCase]_<<b, i>>
\* every case: INFO line with the marks reached (locus census); rejected logs: REJECT line
Report == i > 0 =>
  LET c == Cases[i]  r == Expected(c, {})  e == r.log
  IN /\ ((\A m \in DOMAIN r.marks : r.marks[m] = 0)
         \/ PrintT("INFO " \o ToJson([id |-> c.id, marks |-> SetToSeq({ mm \in DOMAIN r.marks : r.marks[mm] # 0 })])))
     /\ \A k \in 1..Len(c.logs) :
          LET who == c.logs[k].who  obs == c.logs[k].log IN
          IF e = obs THEN TRUE
          ELSE IF who = "pyscript" /\ \E m \in NotDemanded : r.marks[m] # 0 THEN TRUE     \* not demanded: see header
          ELSE LET j == FirstDiff(e, obs, 1) IN
               PrintT("REJECT " \o ToJson([id |-> c.id, who |-> who, pos |-> j, exp |-> At(e, j), obs |-> At(obs, j),
                                           why |-> IF who = "pyscript" THEN Explain(c, obs) ELSE <<"unexplained">>]))
=============================================================================
