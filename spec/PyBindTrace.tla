----------------------------- MODULE PyBindTrace -----------------------------
(* Acceptor for recorded outcomes of calls (C03 argument binding).  The case file is         *)
(*   [shapes : Seq(shape), obs : Seq(outcome), groups : Seq(group)]; a group holds the calls  *)
(* made to one signature by one interpreter:                                                *)
(*   [id, who, sig, res : Seq(STRING), val : Seq(<<source tag, value tag>>) (the valuation:  *)
(*    which values the definition and the calls of the group were written with),             *)
(*    calls : Seq(<<shape index, outcome index>>)]                                           *)
(* shape: the call as written (PyBind shape); outcome: what was observed                    *)
(*   [k : "ok" | exception type name, b : Seq(STRING) (the VALUE every parameter received,   *)
(*    in the order of AllParams, as a value tag: under the empty valuation "p<i>" positional *)
(*    value i, "k:<name>" keyword, "d:<name>" default; else e.g. "NoneType:None", "int:0"),  *)
(*    va : Seq(STRING) (values in *va), kw : Seq(STRING) (names in **kw), kwv (their values)]*)
(* Verdict: ACCEPT iff o is the outcome of Bind (flags = {}, Reserved = res).  Otherwise the *)
(* acceptor looks for the smallest set of named deviations that explains o and prints it    *)
(* (the signature of a known finding), "unexplained" if there is none.                      *)
EXTENDS PyBind, TLC, Json, IOUtils
File == JsonDeserialize(IOEnv.CASES)
Cases == File.groups
AllFlags == {"posonly-kw", "dup-kw"}

\* val: the valuation of the group (PyBind: which value is written at which source; <<>> = every source carries
\* its own tag).  The observed VALUE of every parameter, of every element of *va and of every entry of **kw
\* must be the value written at the source Bind assigns.
Same(sig, e, o, val) ==
  IF e.k # o.k THEN FALSE
  ELSE IF e.k # "ok" THEN TRUE
  ELSE /\ Values(sig, e, val) = o.b /\ VaValues(e, val) = o.va
       /\ e.kwmap = Range(o.kw) /\ Len(o.kw) = Cardinality(e.kwmap)
       /\ Len(o.kwv) = Len(o.kw) /\ \A j \in 1..Len(o.kw) : o.kwv[j] = ValOf(val, "k:" \o o.kw[j])

SetToSeq(S) == LET RECURSIVE F(_)
                   F(T) == IF T = {} THEN <<>> ELSE LET x == CHOOSE y \in T : TRUE IN <<x>> \o F(T \ {x})
               IN F(S)
Smallest(S) == CHOOSE fs \in S : \A g \in S : Cardinality(fs) <= Cardinality(g)
Flat == [k \in 1..Len(File.shapes) |-> Flatten(File.shapes[k])]       \* evaluated once per file
Check(g, j) ==
  LET call == Flat[g.calls[j][1]]
      o    == File.obs[g.calls[j][2]]
      R    == Range(g.res)
      e    == Bind(g.sig, call, R, {})
  IN IF Same(g.sig, e, o, g.val) THEN TRUE
     ELSE LET ex == { fs \in SUBSET AllFlags : fs # {} /\ Same(g.sig, Bind(g.sig, call, R, fs), o, g.val) } IN
          PrintT("REJECT " \o ToJson([g |-> g.id, j |-> j, who |-> g.who, exp |-> e.k, obs |-> o.k,
                                      why |-> IF ex = {} THEN <<"unexplained">> ELSE SetToSeq(Smallest(ex))]))

\* one state per group; groups are dealt to NB blocks so that TLC's workers share the file
NB == 16
VARIABLES b, i
Init == b = 0 /\ i = 0
PickBlock == b = 0 /\ b' \in 1..NB /\ UNCHANGED i
PickGroup == b > 0 /\ i = 0 /\ i' \in { k \in 1..Len(Cases) : k % NB = b - 1 } /\ UNCHANGED b
Spec == Init /\ [][PickBlock \/ PickGroup]_<<b, i>>
Report == i > 0 => \A j \in 1..Len(Cases[i].calls) : Check(Cases[i], j)
=============================================================================
