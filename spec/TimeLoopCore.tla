---------------------------- MODULE TimeLoopCore ----------------------------
(* A function with @time_trigger AND other trigger sources (C06, round 4).                   *)
(*                                                                                            *)
(* Statement: the runs of a function are the union of the runs of each of its trigger         *)
(* sources taken alone - the time source runs it once at every denoted instant with           *)
(* trigger_time = that instant, whatever the other sources do in between (state changes that  *)
(* trigger, that start / continue / abandon / complete a state_hold, events, notifications    *)
(* that trigger nothing).  An implementation multiplexes the sources in one wait loop; every  *)
(* notification is a *wake-up* of that loop between two time instants.                        *)
(*                                                                                            *)
(* Pure operators on limbs <<sec, usec>> (Calendar), shared by the model TimeLoop.tla (M) and *)
(* by the acceptor of real recordings TimeTrace.tla (T, case kind "mix").                     *)
(*   run       [at, type, tt]     type \in {"time", "state", "event"}; tt only for "time"      *)
(*   stimulus  [at, k]            k = "T" watched state variable changes, trigger expression   *)
(*                                    true | "F" changes, expression false | "E" the event    *)
(*                                    of @event_trigger | "O" an unwatched variable / another *)
(*                                    event (no wake-up)                                      *)
(*   co        [state, hold, H, check, event, plain]   the other sources: @state_trigger       *)
(*                                    present, state_hold given and its length H (an offset    *)
(*                                    record), state_check_now in effect, @event_trigger       *)
(*                                    present; plain = the state source is in the domain of    *)
(*                                    HoldFold below (no state_hold_false, no state_check_now) *)
EXTENDS Calendar

IsTime(r)    == r.type = "time"
NotTime(r)   == r.type # "time"
TimeRuns(rs)  == SelectSeq(rs, IsTime)
OtherRuns(rs) == SelectSeq(rs, NotTime)
WakesUp(s)   == s.k \in {"T", "F", "E"}

Near(a, b, tol) == LET o == [neg |-> FALSE, s |-> 0, u |-> tol] IN Le(a, AddOff(b, o)) /\ Le(b, AddOff(a, o))

\* ---------------------------------------------------------------- causes of the runs of the other sources
\* (C06 is silent about *which* of these runs happen - that is C05's automaton; it only needs every
\* run that is not a time run to be accounted for by another source.)
\* t0 = definition instant (state_check_now); a state run happens at a "T" stimulus, or one hold later
StateCauses(co, stims, t0) ==
  LET base == { stims[i].at : i \in { j \in 1..Len(stims) : stims[j].k = "T" } } \cup (IF co.check THEN {t0} ELSE {})
  IN IF co.hold THEN base \cup { AddOff(x, co.H) : x \in base } ELSE base
EventCauses(stims) == { stims[i].at : i \in { j \in 1..Len(stims) : stims[j].k = "E" } }
Caused(r, co, stims, t0, tol) ==
  CASE r.type = "state" -> co.state /\ \E x \in StateCauses(co, stims, t0) : Near(r.at, x, tol)
    [] r.type = "event" -> co.event /\ \E x \in EventCauses(stims) : Near(r.at, x, tol)
    [] OTHER -> FALSE

\* ---------------------------------------------------------------- the state source alone (plain or with state_hold)
\* m = [w (a hold is pending), hs (its start), runs (instants of the state runs), ab (abandoned
\* holds: <<[hs, exp, at]>> start, would-be expiry, instant of the false evaluation)]
H0 == [w |-> FALSE, hs |-> <<0, 0>>, runs |-> <<>>, ab |-> <<>>, done |-> <<>>]
HExp(co, m) == AddOff(m.hs, co.H)
\* a pending hold that ends at or before `upto` has run the function (a stimulus at the very instant
\* of the expiry is ambiguous: generators and the model avoid it)
HExpire(co, m, upto) ==
  IF m.w /\ Le(HExp(co, m), upto)
  THEN [m EXCEPT !.w = FALSE, !.runs = Append(@, HExp(co, m)), !.done = Append(@, [hs |-> m.hs, exp |-> HExp(co, m)])]
  ELSE m
HStim(co, m0, s) ==
  LET m == IF co.hold THEN HExpire(co, m0, s.at) ELSE m0
  IN CASE s.k = "T" -> IF co.hold THEN (IF m.w THEN m ELSE [m EXCEPT !.w = TRUE, !.hs = s.at])
                                  ELSE [m EXCEPT !.runs = Append(@, s.at)]
       [] s.k = "F" -> IF m.w THEN [m EXCEPT !.w = FALSE, !.ab = Append(@, [hs |-> m.hs, exp |-> HExp(co, m), at |-> s.at])]
                              ELSE m
       [] OTHER -> m
RECURSIVE HFoldFrom(_, _, _, _)
HFoldFrom(co, m, stims, i) == IF i > Len(stims) THEN m ELSE HFoldFrom(co, HStim(co, m, stims[i]), stims, i + 1)
\* the state source's history after the stimuli, observed until `upto`
HoldFold(co, stims, upto) ==
  LET m == HFoldFrom(co, H0, stims, 1) IN IF co.hold THEN HExpire(co, m, upto) ELSE m
EventRunsAt(stims) == EventCauses(stims)

\* ---------------------------------------------------------------- facts about a history (coverage / witnesses)
\* tr = the time runs (sequence of [at, ...]), in order
FirstTimeAfter(tr, x) ==        \* index of the first time run strictly after instant x, 0 if none
  LET S == { j \in 1..Len(tr) : Lt(x, tr[j].at) } IN IF S = {} THEN 0 ELSE MinN(S)
\* an abandoned hold whose would-be expiry lies before the next time instant: while it was pending the
\* loop's next deadline was the hold's, not the time trigger's - and that deadline never came
AbandonedBeforeInstant(h, tr) ==
  \E i \in 1..Len(h.ab) : LET j == FirstTimeAfter(tr, h.ab[i].hs) IN j # 0 /\ Lt(h.ab[i].exp, tr[j].at) /\ Lt(h.ab[i].at, tr[j].at)
\* a hold (completed or abandoned) that was pending across a time instant
HoldSpansInstant(h, tr) ==
  \/ \E i \in 1..Len(h.done) : \E j \in 1..Len(tr) : Lt(h.done[i].hs, tr[j].at) /\ Lt(tr[j].at, h.done[i].exp)
  \/ \E i \in 1..Len(h.ab)   : \E j \in 1..Len(tr) : Lt(h.ab[i].hs, tr[j].at) /\ Lt(tr[j].at, h.ab[i].at)
HoldEndsAtInstant(h, tr, tol) == \E i \in 1..Len(h.done) : \E j \in 1..Len(tr) : Near(h.done[i].exp, tr[j].at, tol)
\* a wake-up at the very clock reading of a time instant, or up to `win` microseconds before it: it is
\* handled when (or so shortly before) the clock reads the instant, before the loop's own timer for it
WakeJustBefore(stims, x, win) ==
  \E i \in 1..Len(stims) : WakesUp(stims[i]) /\ Le(AddOff(x, [neg |-> TRUE, s |-> 0, u |-> win]), stims[i].at) /\ Le(stims[i].at, x)
\* wake-ups strictly between two consecutive time runs
WakesBetween(stims, tr) ==
  { i \in 1..Len(stims) : WakesUp(stims[i]) /\ \E j \in 1..Len(tr) : Lt(stims[i].at, tr[j].at) /\ (j = 1 \/ Lt(tr[j - 1].at, stims[i].at)) }
=============================================================================
