----------------------------- MODULE StateVars -----------------------------
(* C16 - sequential dictionary model of pyscript's state variables as a state machine.     *)
(* Every action applies one operation through StateVarsCore!Apply (the operator the trace  *)
(* acceptor uses as its oracle).  The properties below restate the clauses of the property *)
(* statement directly over (h, h', lastAct', res') - independently of Apply's definition - *)
(* so the model-checking run validates the oracle against the statement.                   *)
(* lastAct/res make behaviours replayable into the real code (tlc -simulate); they are     *)
(* hidden from exhaustive runs by VIEW.                                                    *)
EXTENDS StateVarsCore

CONSTANTS Ent,            \* subset of AllEnt
          AttrSeq,        \* attribute names, as a sequence (fixes the order of keyword arguments)
          SVals, AVals,   \* values a script uses for states / attributes
          Vias, Scopes,   \* replay-only arguments: "name"/"get" access, top-level/function scope
          PyDoms, SvcEnt, \* domains that may be shadowed by a Python variable / entities with a service twin
          MaxOps,
          Staged,         \* simulation only: TRUE = an action kind is drawn first (uniform over kinds, not over arguments)
          InitAll,        \* entities that start in every possible state (the others: absent or one fixed state);
                          \* {} = start from the empty state machine
          SnapModes,      \* how a snapshot used as value treats the target's attributes: subset of {"keep", "copy"}
          DelUnderShadow  \* generator mask: FALSE = no `del` while the name is a Python variable
VARIABLES h, snap, py, svc, clk, res, lastAct, want
vars == <<h, snap, py, svc, clk, res, lastAct, want>>
View == <<h, snap, py, svc, clk>>

\* value universes used by the configurations (cfg files cannot write records)
V(t, s) == [t |-> t, s |-> s]
SmallS == {V("s", "a"), V("i", "7")}
SmallA == {V("s", "p"), V("i", "7")}
OneS   == {V("i", "7")}
OneA   == {V("b", "True")}
SimS   == {V("s", "a"), V("i", "7"), V("l", "[1, 2]")}           \* (all value kinds: the random tier of the driver)
SimA   == {V("s", "p"), V("n", "None")}
XY == <<"x", "y">>
\* attribute names that collide with the virtual fields (group.* entities carry an `entity_id` attribute)
XYE == <<"x", "y", "entity_id">>
XE  == <<"x", "entity_id">>
XC  == <<"x", "last_changed">>
YR  == <<"y", "last_reported">>

Attrs == { AttrSeq[i] : i \in 1..Len(AttrSeq) }
W == [h |-> h, snap |-> snap, py |-> py, svc |-> svc]
\* attribute dictionaries as ordered lists of pairs (what the script writes as dict / keywords)
AttrMaps == [Attrs -> AVals \cup {NoVal}]
RECURSIVE ListOf(_, _)
ListOf(m, i) == IF i > Len(AttrSeq) THEN <<>>
                ELSE (IF m[AttrSeq[i]] = NoVal THEN <<>> ELSE << <<AttrSeq[i], m[AttrSeq[i]]>> >>) \o ListOf(m, i + 1)
AttrLists == { ListOf(m, 1) : m \in AttrMaps }
PYV == V("s", "PY")
PyObjs(d) == { SelectSeq(<< <<"e1", PYV>>, <<"e2", PYV>>, <<"e3", PYV>> >>, LAMBDA p : p[1] \in S) :
               S \in SUBSET { e \in Ent : DomOf(e) = d } }

InitStates == {Absent} \cup { [v |-> Str(v), a |-> Pairs(l), lc |-> 0, lu |-> 0, lr |-> 0] : v \in SVals, l \in AttrLists }
SomeState == CHOOSE s \in InitStates : s # Absent /\ s.a # {}
InitOf(e) == IF e \in InitAll THEN InitStates ELSE IF InitAll = {} THEN {Absent} ELSE {Absent, SomeState}
Init == /\ h \in { f \in [Ent -> InitStates] : \A e \in Ent : f[e] \in InitOf(e) }
        /\ snap = NoSnap /\ py = [d \in AllDom |-> Unbound] /\ svc = {} /\ clk = 0
        /\ res = NoneR /\ lastAct = [k |-> "init"] /\ want = ""

Turn(k) == clk < MaxOps /\ (Staged => want = k)
Do(op) == /\ want' = ""
          /\ Specified(W, op)
          /\ (op.k \in {"del", "localdel"} /\ ~DelUnderShadow => op.k = "del" /\ Resolve(W, op.e) = "state")
          /\ \E r \in {Apply(W, op, clk + 1)} :              \* (a singleton: evaluates Apply once)
               /\ h' = r.w.h /\ snap' = r.w.snap /\ py' = r.w.py /\ svc' = r.w.svc /\ res' = r.r
          /\ clk' = clk + 1 /\ lastAct' = op

Read       == Turn("read") /\ \E e \in Ent, via \in Vias, sc \in Scopes : Do([k |-> "read", e |-> e, via |-> via, sc |-> sc])
ReadAttr   == Turn("readattr") /\ \E e \in Ent, n \in Attrs \cup Virtual, via \in Vias, sc \in Scopes :
                 Do([k |-> "readattr", e |-> e, n |-> n, via |-> via, sc |-> sc])
Assign     == Turn("assign") /\ \E e \in Ent, v \in SVals, sc \in Scopes : Do([k |-> "assign", e |-> e, v |-> v, sc |-> sc])
AssignAttr == Turn("assignattr") /\ \E e \in Ent, n \in Attrs, v \in AVals, sc \in Scopes :
                 Do([k |-> "assignattr", e |-> e, n |-> n, v |-> v, sc |-> sc])
SetAttr    == Turn("setattr") /\ \E e \in Ent, n \in Attrs, v \in AVals : Do([k |-> "setattr", e |-> e, n |-> n, v |-> v])
\* state.set with every argument combination: value given / omitted x new_attributes given / omitted x keywords
StateSet   == Turn("set") /\ \E e \in Ent, hasv \in BOOLEAN, v \in SVals, hasnew \in BOOLEAN, new \in AttrLists, kw \in AttrLists :
                 /\ (~hasv => v = CHOOSE x \in SVals : TRUE) /\ (~hasnew => new = <<>>)
                 /\ Do([k |-> "set", e |-> e, hasv |-> hasv, v |-> v, hasnew |-> hasnew, new |-> new, kw |-> kw])
Del        == Turn("del") /\ \E e \in Ent, sc \in Scopes : Do([k |-> "del", e |-> e, sc |-> sc])
Delete     == Turn("delete") /\ \E e \in Ent : Do([k |-> "delete", e |-> e])
DelAttr    == Turn("delattr") /\ \E e \in Ent, n \in Attrs, sc \in Scopes : Do([k |-> "delattr", e |-> e, n |-> n, sc |-> sc])
DeleteAttr == Turn("deleteattr") /\ \E e \in Ent, n \in Attrs : Do([k |-> "deleteattr", e |-> e, n |-> n])
Exist      == Turn("exist") /\ \E e \in Ent : Do([k |-> "exist", e |-> e])
ExistAttr  == Turn("existattr") /\ \E e \in Ent, n \in Attrs \cup Virtual : Do([k |-> "existattr", e |-> e, n |-> n])
GetAttr    == Turn("getattr") /\ \E e \in Ent : Do([k |-> "getattr", e |-> e])
Names      == Turn("names") /\ \E d \in AllDom \cup {"*"} : Do([k |-> "names", d |-> d])
ExtSet     == Turn("extset") /\ \E e \in Ent, v \in SVals, new \in AttrLists : Do([k |-> "extset", e |-> e, v |-> v, new |-> new])
ExtRemove  == Turn("extremove") /\ \E e \in Ent : Has(h, e) /\ Do([k |-> "extremove", e |-> e])
Capture    == Turn("capture") /\ \E e \in Ent, via \in Vias : Do([k |-> "capture", e |-> e, via |-> via])
\* the snapshot as the value of a write, a field of the snapshot read later, an identical re-write
UseSnap    == Turn("usesnap") /\ \E e \in Ent, how \in {"assign", "set", "setkw", "setnew"}, l \in AttrLists, mode \in SnapModes :
                 /\ (how \in {"assign", "set"} => l = <<>>) /\ (how = "setkw" => l # <<>>) /\ (how = "setnew" => mode = "copy")
                 /\ Do([k |-> "usesnap", e |-> e, how |-> how, mode |-> mode,
                        new |-> IF how = "setnew" THEN l ELSE <<>>, kw |-> IF how = "setkw" THEN l ELSE <<>>])
SnapField  == Turn("snapfield") /\ \E n \in Attrs \cup Virtual : Do([k |-> "snapfield", n |-> n])
Touch      == Turn("touch") /\ \E e \in Ent, how \in {"assign", "setnone", "setall", "ext"} : Do([k |-> "touch", e |-> e, how |-> how])
CheckSnap  == Turn("checksnap") /\ Do([k |-> "checksnap"])
BindVar    == Turn("bindvar") /\ \E d \in PyDoms : \E o \in PyObjs(d) : Do([k |-> "bindvar", d |-> d, at |-> o])
UnbindVar  == Turn("unbindvar") /\ \E d \in PyDoms : Do([k |-> "unbindvar", d |-> d])
RegSvc     == Turn("regsvc") /\ \E e \in SvcEnt : e \notin svc /\ Do([k |-> "regsvc", e |-> e])
UnregSvc   == Turn("unregsvc") /\ \E e \in SvcEnt : e \in svc /\ Do([k |-> "unregsvc", e |-> e])
LocalRead  == Turn("localread") /\ \E e \in Ent : DomOf(e) \in PyDoms /\ Do([k |-> "localread", e |-> e, v |-> V("s", "LOC")])
LocalAssign == Turn("localassign") /\ \E e \in Ent : DomOf(e) \in PyDoms /\ Do([k |-> "localassign", e |-> e, v |-> V("i", "9")])
LocalDel   == Turn("localdel") /\ \E e \in Ent : DomOf(e) \in PyDoms /\ Do([k |-> "localdel", e |-> e])

OpStep == \/ Read \/ ReadAttr \/ Assign \/ AssignAttr \/ SetAttr \/ StateSet \/ Del \/ Delete \/ DelAttr
          \/ DeleteAttr \/ Exist \/ ExistAttr \/ GetAttr \/ Names \/ ExtSet \/ ExtRemove \/ Capture \/ CheckSnap
          \/ BindVar \/ UnbindVar \/ RegSvc \/ UnregSvc \/ LocalRead \/ LocalAssign \/ LocalDel
          \/ UseSnap \/ SnapField \/ Touch
\* simulation only: draw the kind of the next operation first (redrawn when nothing of that kind is enabled)
Kinds == {"read", "readattr", "assign", "assignattr", "setattr", "set", "del", "delete", "delattr", "deleteattr",
          "exist", "existattr", "getattr", "names", "extset", "extremove", "capture", "checksnap", "bindvar",
          "unbindvar", "regsvc", "unregsvc", "localread", "localassign", "localdel", "usesnap", "snapfield", "touch"}
Choose == /\ Staged /\ clk < MaxOps /\ (want = "" \/ ~ENABLED OpStep)
          /\ \E k \in Kinds : want' = k
          /\ lastAct' = [k |-> "choose"] /\ UNCHANGED <<h, snap, py, svc, clk, res>>
Next == Choose \/ OpStep
Spec == Init /\ [][Next]_vars

\* ------------------------------------------------------------------ the statement, clause by clause
Op == lastAct'
Ok == res'.k # "exc"
OthersSame(e) == \A f \in Ent \ {e} : h'[f] = h[f]
ToState(e) == Resolve(W, e) = "state"
AttrOf(s, n) == IF n \in AttrNames(s) THEN AttrVal(s, n) ELSE NoVal
ByString == {"setattr", "set", "delete", "deleteattr"}            \* string-named entry points ignore Python names

\* a captured snapshot never changes afterwards, whatever happens to the entity
SnapshotImmutable == [][ (Op.k # "capture" \/ ~Ok => snap' = snap) /\ (Op.k = "checksnap" => res' = snap) ]_vars
\* ... also after it was used as a value; every field read from it later is the captured one
SnapshotAsValue ==
  [][ /\ (Op.k = "usesnap" => snap' = snap /\ h'[Op.e].v = snap.v /\ OthersSame(Op.e) /\ res' = NoneR
                              /\ (Op.how = "setnew" => h'[Op.e].a = Pairs(Op.new)))
      /\ (Op.k = "snapfield" => snap' = snap /\ h' = h /\
            res' = IF Op.n = "entity_id" THEN [k |-> "id", e |-> snap.id]
                   ELSE IF Op.n = "last_changed" THEN [k |-> "stamp", n |-> snap.lc]
                   ELSE IF Op.n = "last_updated" THEN [k |-> "stamp", n |-> snap.lu]
                   ELSE IF Op.n = "last_reported" THEN [k |-> "stamp", n |-> snap.lr]
                   ELSE IF \E p \in snap.a : p[1] = Op.n THEN [k |-> "val", v |-> (CHOOSE p \in snap.a : p[1] = Op.n)[2]]
                   ELSE [k |-> "exc", x |-> "AttributeError"]) ]_vars
\* an identical re-write is HA's "reported" case: only last_reported moves (and a later read shows exactly that)
TouchOnlyReports ==
  [][ Op.k = "touch" => h'[Op.e] = [h[Op.e] EXCEPT !.lr = clk'] /\ OthersSame(Op.e) /\ snap' = snap ]_vars
\* a read yields the current value as a snapshot carrying attributes and the virtual fields
\* (the four virtual fields are the entity's id and HA's stamps even when the entity has attributes of those
\*  names; such attributes are not reachable through the snapshot)
ReadIsCurrentSnapshot ==
  [][ Op.k = "read" /\ (Op.via = "get" \/ ToState(Op.e)) =>
        IF Has(h, Op.e) THEN res' = [k |-> "state", v |-> h[Op.e].v, a |-> { p \in h[Op.e].a : p[1] \notin Virtual }, id |-> Op.e,
                                     lc |-> h[Op.e].lc, lu |-> h[Op.e].lu, lr |-> h[Op.e].lr]
        ELSE res' = [k |-> "exc", x |-> "NameError"] ]_vars
MissingRaises ==
  [][ Op.k = "readattr" => (~Has(h, Op.e) => res' = [k |-> "exc", x |-> "NameError"])
                        /\ (Has(h, Op.e) /\ Op.n \notin AttrNames(h[Op.e]) \cup Virtual => res' = [k |-> "exc", x |-> "AttributeError"])
                        /\ (Has(h, Op.e) /\ Op.n \in AttrNames(h[Op.e]) \ Virtual => res' = [k |-> "val", v |-> AttrVal(h[Op.e], Op.n)]) ]_vars
\* DOMAIN.name.<virtual> / state.get("DOMAIN.name.<virtual>") is the virtual field whatever the attributes are;
\* a captured snapshot's virtual fields likewise (the capture-time id and stamps, never an attribute value);
\* the attribute of that name stays an ordinary attribute of HA's state machine: state.getattr shows it
VirtualFieldsWin ==
  [][ /\ (Op.k = "readattr" /\ Op.n \in Virtual /\ Has(h, Op.e) =>
            h' = h /\ res' = IF Op.n = "entity_id" THEN [k |-> "id", e |-> Op.e]
                             ELSE [k |-> "stamp", n |-> IF Op.n = "last_changed" THEN h[Op.e].lc
                                                         ELSE IF Op.n = "last_updated" THEN h[Op.e].lu ELSE h[Op.e].lr])
      /\ (Op.k = "capture" /\ Ok => snap'.id = Op.e /\ snap'.lc = h[Op.e].lc /\ snap'.lu = h[Op.e].lu /\ snap'.lr = h[Op.e].lr
                                     /\ \A p \in snap'.a : p[1] \notin Virtual)
      /\ (Op.k = "getattr" /\ Has(h, Op.e) => \A n \in Virtual \cap Attrs : (n \in AttrNames(h[Op.e])) = (\E p \in res'.a : p[1] = n)) ]_vars
AssignKeepsAttributes ==
  [][ Op.k = "assign" /\ ToState(Op.e) =>
        h'[Op.e].v = Str(Op.v) /\ h'[Op.e].a = h[Op.e].a /\ OthersSame(Op.e) ]_vars
SetattrChangesOnlyThatAttribute ==
  [][ Op.k \in {"assignattr", "setattr"} /\ Ok =>
        /\ h'[Op.e].v = h[Op.e].v /\ OthersSame(Op.e)
        /\ \A n \in Attrs : AttrOf(h'[Op.e], n) = IF n = Op.n THEN Op.v ELSE AttrOf(h[Op.e], n) ]_vars
NewAttributesReplaceAll ==
  [][ Op.k = "set" /\ Op.hasnew =>
        \A n \in Attrs : AttrOf(h'[Op.e], n) =
           IF \E i \in 1..Len(Op.kw) : Op.kw[i][1] = n THEN (CHOOSE p \in Pairs(Op.kw) : p[1] = n)[2]
           ELSE IF \E i \in 1..Len(Op.new) : Op.new[i][1] = n THEN (CHOOSE p \in Pairs(Op.new) : p[1] = n)[2]
           ELSE NoVal ]_vars
KeywordsMerge ==
  [][ Op.k = "set" /\ ~Op.hasnew =>
        \A n \in Attrs : AttrOf(h'[Op.e], n) =
           IF \E i \in 1..Len(Op.kw) : Op.kw[i][1] = n THEN (CHOOSE p \in Pairs(Op.kw) : p[1] = n)[2]
           ELSE AttrOf(h[Op.e], n) ]_vars
OmittedValueKept ==
  [][ Op.k = "set" => h'[Op.e].v = (IF Op.hasv THEN Str(Op.v) ELSE h[Op.e].v) /\ OthersSame(Op.e) ]_vars
DeleteRemoves ==
  [][ (Op.k = "delete" \/ (Op.k = "del" /\ ToState(Op.e))) =>
        /\ OthersSame(Op.e) /\ ~Has(h', Op.e)
        /\ res' = IF Has(h, Op.e) THEN NoneR ELSE [k |-> "exc", x |-> "NameError"] ]_vars
ExistNamesGetattrAgreeWithHA ==
  [][ /\ (Op.k = "exist" => res' = [k |-> "bool", b |-> Has(h, Op.e)] /\ h' = h)
      /\ (Op.k = "existattr" /\ Op.n \notin Virtual =>
            res' = [k |-> "bool", b |-> Has(h, Op.e) /\ Op.n \in AttrNames(h[Op.e])] /\ h' = h)
      /\ (Op.k = "getattr" => h' = h /\ IF Has(h, Op.e) THEN res' = [k |-> "dict", a |-> h[Op.e].a] ELSE res' = NoneV)
      /\ (Op.k = "names" => h' = h /\ res'.s = { e \in Ent : Has(h, e) /\ (Op.d = "*" \/ DomOf(e) = Op.d) }) ]_vars
\* Python variable > service > state
Priority ==
  [][ /\ (Op.k = "read" /\ Op.via = "name" /\ py[DomOf(Op.e)].b => res'.k \in {"val", "exc"} /\ h' = h)
      /\ (Op.k = "read" /\ Op.via = "name" /\ ~py[DomOf(Op.e)].b /\ Op.e \in svc => res'.k = "callable")
      /\ (Op.k \in {"assign", "del"} /\ py[DomOf(Op.e)].b => h' = h)
      /\ (Op.k \in {"localread", "localassign", "localdel"} => h' = h /\ py' = py /\ res'.k \in {"val", "bool"})
      /\ (Op.k \in ByString => py' = py) ]_vars
\* HA's own bookkeeping: the virtual time stamps are ordered and never move backwards
StampsOrdered == \A e \in Ent : h[e].lc <= h[e].lu /\ h[e].lu <= h[e].lr /\ h[e].lr <= clk
TypeOK == /\ \A e \in Ent : h[e] = Absent \/ (h[e].v.t = "s" /\ AttrNames(h[e]) \subseteq Attrs)
          /\ svc \subseteq SvcEnt

\* ------------------------------------------------------------------ witnesses (each must be VIOLATED)
W_SnapNeverStale   == snap = NoSnap \/ ~Has(h, snap.id) \/ snap = Snap(h[snap.id], snap.id)
W_NoReplaceDrops   == ~(lastAct.k = "set" /\ lastAct.hasnew /\ lastAct.new = <<>> /\ lastAct.kw = <<>> /\ res = NoneR /\ clk >= 1)
W_NoReportedOnly   == \A e \in Ent : h[e].lr = h[e].lu
W_NoShadowedState  == ~(\E e \in Ent : py[DomOf(e)].b /\ e \in svc /\ Has(h, e))
W_NoAttrError      == ~(res.k = "exc" /\ res.x = "AttributeError")
W_NoKeptValue      == ~(lastAct.k = "set" /\ ~lastAct.hasv /\ lastAct.kw # <<>>)
W_NoStaleReportRead == ~(lastAct.k = "read" /\ res.k = "state" /\ res.lr # res.lu)
W_NoSnapUsedAsValue == ~(lastAct.k = "usesnap" /\ res = NoneR)
\* a virtual field is read while an attribute of the same name exists; a snapshot is taken of such an entity
W_NoShadowedFieldRead == ~(lastAct.k = "readattr" /\ lastAct.n \in Virtual /\ res.k \in {"id", "stamp"}
                           /\ lastAct.n \in AttrNames(h[lastAct.e]))
W_NoShadowedSnapshot == ~(lastAct.k = "read" /\ res.k = "state" /\ \E p \in h[lastAct.e].a : p[1] \in Virtual)
\* all witnesses in one run (-workers 1, no VIEW): a register per witness, set when its negation is reached
Witnesses == <<W_SnapNeverStale, W_NoReplaceDrops, W_NoReportedOnly, W_NoShadowedState, W_NoAttrError, W_NoKeptValue,
              W_NoStaleReportRead, W_NoSnapUsedAsValue, W_NoShadowedFieldRead, W_NoShadowedSnapshot>>
ASSUME \A i \in 1..10 : TLCSet(i, 0)
WitnessTrack == \A i \in 1..10 : Witnesses[i] \/ TLCSet(i, 1)
WitnessPost  == \A i \in 1..10 : TLCGet(i) = 1 \/ PrintT("WITNESS-MISSING " \o ToString(i))
=============================================================================
