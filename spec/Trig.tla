-------------------------------- MODULE Trig --------------------------------
(* C04 model: HA state machine -> state_changed bus -> State.update fan-out -> per-trigger  *)
(* queue -> qualification -> run.  One action per linearization point of the code:          *)
(*   EnvSet     hass.states.async_set / async_remove by anybody (no event on identical set) *)
(*   ScriptSet  State.set from a script: as EnvSet, but notify_var_last is refreshed eagerly*)
(*   Deliver    the state_changed listener + State.update (queue.put per subscribed trigger)*)
(*   Consume    the trigger task takes one notification, evaluates, starts the run          *)
(* The property is stated over the history of events, independently of the mechanism.       *)
EXTENDS TrigCore, TLC, Json, IOUtils

CONSTANTS MaxOps, WithScriptSet
Forms == JsonDeserialize(IOEnv.FORMS)          \* spec/trig_forms.json
Val  == {"0", "1"}
AVal == {"p", "q", "-"}          \* "-": the entity exists but has no attribute x
St   == [v : Val, x : AVal] \cup {Absent}

VARIABLES fi, hass, bus, notifyLast, q, runs, hist, snap, consAt, nops
vars == <<fi, hass, bus, notifyLast, q, runs, hist, snap, consAt, nops>>
F == Forms[fi]

Init == /\ fi \in 1..Len(Forms)
        /\ hass \in [Ent -> St] /\ bus = <<>> /\ notifyLast = [e \in Ent |-> Unset]
        /\ q = <<>> /\ runs = <<>> /\ hist = <<>> /\ snap = <<>> /\ consAt = <<>> /\ nops = 0

DoSet(e, s, eager) ==
  /\ nops < MaxOps /\ nops' = nops + 1
  /\ IF s = hass[e] THEN UNCHANGED <<hass, bus, hist, snap>>
     ELSE /\ hass' = [hass EXCEPT ![e] = s]
          /\ hist' = Append(hist, [e |-> e, new |-> s, old |-> hass[e]])
          /\ snap' = Append(snap, hass')
          /\ bus'  = Append(bus, Len(hist) + 1)
  /\ notifyLast' = IF eager /\ (e \in SubscribedEnts(F) \/ notifyLast[e] # Unset)
                   THEN [notifyLast EXCEPT ![e] = s] ELSE notifyLast
  /\ UNCHANGED <<fi, q, runs, consAt>>
EnvSet(e, s)    == DoSet(e, s, FALSE)
ScriptSet(e, s) == WithScriptSet /\ s # Absent /\ DoSet(e, s, TRUE)

\* state_changed listener + State.update: remembers the last notified value, enqueues the event
\* with the *last notified* value of the other entity (Unset if it was never notified)
Deliver ==
  /\ bus # <<>>
  /\ LET i == Head(bus)  ev == hist[i]  o == Other(ev.e) IN
     /\ bus' = Tail(bus)
     /\ IF ev.e \in SubscribedEnts(F)
        THEN /\ notifyLast' = [notifyLast EXCEPT ![ev.e] = ev.new]
             /\ q' = Append(q, [i |-> i, e |-> ev.e, new |-> ev.new, old |-> ev.old, ov |-> notifyLast[o]])
        ELSE UNCHANGED <<notifyLast, q>>
  /\ UNCHANGED <<fi, hass, runs, hist, snap, nops, consAt>>

\* the trigger task consumes one notification; a never-notified other entity is read from hass *now*
Consume ==
  /\ q # <<>>
  /\ LET n  == Head(q)
         ov == IF n.ov # Unset THEN n.ov ELSE hass[Other(n.e)]
     IN /\ q' = Tail(q)
        /\ consAt' = Append(consAt, [i |-> n.i, at |-> Len(hist)])
        /\ runs' = IF Fires(F, n, ov) THEN Append(runs, [i |-> n.i, kw |-> RunKw(F, n)]) ELSE runs
  /\ UNCHANGED <<fi, hass, bus, notifyLast, hist, snap, nops>>

Next == (\E e \in Ent, s \in St : EnvSet(e, s) \/ ScriptSet(e, s)) \/ Deliver \/ Consume
Spec == Init /\ [][Next]_vars
View == <<fi, hass, bus, notifyLast, q, runs, hist, snap, consAt>>

\* ---------------- the statement, over the history ----------------
\* the values the unchanged entity may legitimately be seen with for event i: any state it had from
\* the moment before event i up to the moment the event's evaluation is made (burst ambiguity)
EvalAt(i) == LET S == { k \in 1..Len(consAt) : consAt[k].i = i } IN
             IF S = {} THEN Len(hist) ELSE consAt[CHOOSE k \in S : TRUE].at
Adm(i) == { snap[j][Other(hist[i].e)] : j \in i..EvalAt(i) }
May(i)  == AnyMatch(F, hist[i]) \/ (WatchedChanged(F, hist[i]) /\ HasExpr(F) /\
             \E ov \in Adm(i) : EvalE(F.expr, Valuation(hist[i], ov)))
Must(i) == AnyMatch(F, hist[i]) \/ (WatchedChanged(F, hist[i]) /\ HasExpr(F) /\
             \A ov \in Adm(i) : EvalE(F.expr, Valuation(hist[i], ov)))
Quiescent == bus = <<>> /\ q = <<>>

RunsOrderedNoDup   == \A j \in 1..(Len(runs) - 1) : runs[j].i < runs[j + 1].i
NoSpuriousRun      == \A j \in 1..Len(runs) : May(runs[j].i)
NoLostRun          == Quiescent => \A i \in 1..Len(hist) : Must(i) => \E j \in 1..Len(runs) : runs[j].i = i
RunCarriesOwnEvent == \A j \in 1..Len(runs) : runs[j].kw = RunKw(F, hist[runs[j].i])
\* when every event is evaluated before the next one happens the ambiguity disappears
ExactWhenSettled   == \A k \in 1..Len(consAt) : consAt[k].at = consAt[k].i => Cardinality(Adm(consAt[k].i)) = 1

\* witnesses (expected to be VIOLATED: they show the antecedents are not vacuous)
W_NoAmbiguity   == \A i \in 1..Len(hist) : Cardinality(Adm(i)) = 1
W_NoTwoRuns     == Len(runs) < 2
W_MayEqualsMust == \A i \in 1..Len(hist) : May(i) = Must(i)
=============================================================================
