SPECIFICATION Spec
CONSTANTS Mech = "spec"
 SessionKey = "K"
 HqBound = 0
 MaxReqs = 3
 Burst = 3
 Tags = {"ok", "stmt", "print", "err", "perr", "syntax", "complete_request", "is_complete_request", "kernel_info_request", "forged-key", "forged-sig", "forged-content"}
 TwoClients = TRUE
 Stores = {TRUE, FALSE}
 Pipelining = TRUE
INVARIANT ExactlyOneReplyPerValidRequest
INVARIANT ReplyCorrelated
INVARIANT AllSigned
INVARIANT BusyIdleBracket
INVARIANT NoEffectOfForgedRequest
INVARIANT CounterMonotone
INVARIANT OutputsReflectCells
INVARIANT StdoutInOrder
INVARIANT StdoutAttributed
CHECK_DEADLOCK FALSE
