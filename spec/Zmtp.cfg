SPECIFICATION Spec
CONSTANTS ShortMax = 2
 MaxLen = 4
 MaxFrames = 3
 Byte = {0, 1}
 Chunks = "byte"
 WithCmd = FALSE
INVARIANT Lossless
INVARIANT NothingEarly
INVARIANT Sane
INVARIANT DecoderAgrees
CHECK_DEADLOCK FALSE
