------------------------------ MODULE ImportCore ------------------------------
(* The import rule of pyscript (C17) as pure operators, shared by Imports.tla (model) and    *)
(* ImportTrace.tla (acceptor of recordings of the real interpreter).                         *)
(*                                                                                            *)
(* Environment E = [allow : set of module names (pyscript's allow-list, read from the code's  *)
(*                  const.ALLOWED_IMPORTS at run time),                                       *)
(*                  pys   : set of [name, ctxname, scope] - modules that exist as files below *)
(*                          pyscript/modules (scope "any") or pyscript/apps (scope "app":     *)
(*                          importable by absolute name from app contexts)]                   *)
(* Statement cs = [form  : "import" | "from",                                                 *)
(*                 clauses : << [mod, parts, as, name] >>   import: one clause per module     *)
(*                           (name = "-"); from: one clause per imported name ("*" = star),   *)
(*                           all with the same mod;  as = "-" when there is no alias          *)
(*                 truth : << [imp, has, star, pub] >>  per clause, what plain CPython does   *)
(*                           with that module: imp = "ok" | exception class of importing it,  *)
(*                           has = the module has attribute `name`, star = names bound by     *)
(*                           CPython's own `from mod import *`, pub = all names of the module *)
(*                           namespace not starting with "_"                                  *)
(*                 via : "direct" | "func" | "exec" | "evalexec" | "eval" | "compiled",       *)
(*                 ctx : "file" | "app", allow_all : BOOLEAN ]                                *)
(* Outcome = [exc : "ok" | exception class, bound : set of names bound by the statement].     *)
(* flags = named deviations of the code ({} = the property statement).                        *)
EXTENDS Naturals, Sequences, FiniteSets

ToSet(s) == { s[i] : i \in 1..Len(s) }
Refusal == "ModuleNotFoundError"
Excluded == {"open", "compile", "input", "breakpoint", "memoryview", "print"}

IsStub(c) == c.parts[1] = "stubs"
PysOf(c, ctx, E)  == { p \in E.pys : p.name = c.mod /\ (p.scope = "any" \/ ctx = "app") }
IsPyscriptModule(c, ctx, E) == PysOf(c, ctx, E) # {}
\* an app package named from a context outside apps/: the statement does not say whether it resolves
AppFromOutside(c, ctx, E) == ctx # "app" /\ \E p \in E.pys : p.name = c.mod /\ p.scope = "app"

\* THE RULE
Allowed(c, ctx, allowAll, E) == allowAll \/ c.mod \in E.allow \/ IsPyscriptModule(c, ctx, E)

\* alternative sets of names one clause binds when it succeeds
NamesOf(form, c, t, flags) ==
  IF form = "import"
  THEN IF c.as # "-" THEN {{c.as}}
       ELSE IF Len(c.parts) = 1 THEN {{c.mod}}
       ELSE {{c.mod}, {c.parts[1]}}     \* `import a.b`: the dotted name (pyscript's name scheme) or the top package (CPython)
  ELSE IF c.name = "*" THEN {IF "star-ignores-all" \in flags THEN ToSet(t.pub) ELSE ToSet(t.star)}
       ELSE {{IF c.as # "-" THEN c.as ELSE c.name}}

Out(e, b) == [exc |-> e, bound |-> b]

\* sequential execution of the clauses: the set of admissible final outcomes
RECURSIVE Run(_, _, _, _, _)
Run(cs, E, k, bound, flags) ==
  IF k > Len(cs.clauses) THEN {Out("ok", bound)}
  ELSE
    LET c == cs.clauses[k]
        t == cs.truth[k]
        Bind == UNION { Run(cs, E, k + 1, bound \cup ns, flags) : ns \in NamesOf(cs.form, c, t, flags) }
        Missing == cs.form = "from" /\ c.name # "*" /\ ~t.has
        Succeed == IF t.imp # "ok" THEN {Out(t.imp, bound)}
                   ELSE IF Missing THEN {Out(IF "from-missing-attributeerror" \in flags THEN "AttributeError" ELSE "ImportError", bound)}
                   ELSE Bind
    IN IF cs.form = "from" /\ IsStub(c)
         THEN IF "stubs-as-refused" \in flags /\ \E j \in 1..Len(cs.clauses) : cs.clauses[j].as # "-"
              THEN {Out(Refusal, {})} ELSE {Out("ok", {})}              \* from-imports below stubs are no-ops
       ELSE IF IsPyscriptModule(c, cs.ctx, E) THEN Succeed
       ELSE IF AppFromOutside(c, cs.ctx, E) THEN {Out(Refusal, bound)} \cup Succeed
       ELSE IF ~Allowed(c, cs.ctx, cs.allow_all, E) THEN {Out(Refusal, bound)}      \* refused: nothing more is bound
       ELSE Succeed

\* what plain CPython does with the statement (no rule, no pyscript modules): used for the
\* deviation "compiled-native" (a @pyscript_compile body is native Python)
NativeCs(cs) == [cs EXCEPT !.allow_all = TRUE]
NoPys(E) == [E EXCEPT !.pys = {}]

Outcomes(cs, E, flags) ==
  IF cs.via = "eval"                                   \* an import statement is not an expression
    THEN {Out("SyntaxError", {})} \cup
         (IF \E k \in 1..Len(cs.clauses) : ~Allowed(cs.clauses[k], cs.ctx, cs.allow_all, E) THEN {Out(Refusal, {})} ELSE {})
  ELSE IF cs.via = "compiled" /\ "compiled-native" \in flags
    THEN { o \in Run(NativeCs(cs), NoPys(E), 1, {}, flags) : TRUE }
  ELSE Run(cs, E, 1, {}, flags)

\* identity class of the object a clause binds under a name
ClassOf(cs, E, c) ==
  LET P == PysOf(c, cs.ctx, E) \cup (IF AppFromOutside(c, cs.ctx, E) THEN { p \in E.pys : p.name = c.mod } ELSE {})
      owner == IF P # {} /\ ~(cs.via = "compiled") THEN "pysmod:" \o (CHOOSE p \in P : TRUE).ctxname ELSE "module:" \o c.mod
  IN IF cs.form = "import" THEN owner ELSE "attr:" \o owner
=============================================================================
