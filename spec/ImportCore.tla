------------------------------ MODULE ImportCore ------------------------------
(* The import rule of pyscript (C17) as pure operators, shared by Imports.tla (model) and    *)
(* ImportTrace.tla (acceptor of recordings of the real interpreter).                         *)
(*                                                                                            *)
(* Environment E = [allow : set of module names (pyscript's allow-list, read from the code's  *)
(*                  const.ALLOWED_IMPORTS at run time),                                       *)
(*                  pys   : set of [name, ctxname, scope] - modules that exist as files below *)
(*                          pyscript/modules (scope "any") or pyscript/apps (scope "app":     *)
(*                          importable by absolute name from app contexts)]                   *)
(* Statement cs = [form  : "import" | "from",                                                 *)
(*                 clauses : << [mod, parts, as, name] >>   import: one clause per module     *)
(*                           (name = "-"); from: one clause per imported name ("*" = star),   *)
(*                           all with the same mod;  as = "-" when there is no alias          *)
(*                 truth : << [imp, has, star, pub] >>  per clause, what plain CPython does   *)
(*                           with that module: imp = "ok" | exception class of importing it,  *)
(*                           has = the module has attribute `name`, star = names bound by     *)
(*                           CPython's own `from mod import *`, pub = all names of the module *)
(*                           namespace not starting with "_"                                  *)
(*                 via : "direct" | "func" | "exec" | "evalexec" | "eval" | "compiled" |      *)
(*                       "funcexec" (exec called inside a function body),                     *)
(*                 ns  : [g, l] the namespace arguments of the eval/exec call (NsForms below),*)
(*                 ctx : "file" | "app", allow_all : BOOLEAN,                                 *)
(*                 level : 0 = absolute | n > 0 = the number of leading dots of a relative      *)
(*                         from-import (`from .m import b`: form "from"; `from . import m [as x], n`:*)
(*                         form "frompkg", one clause per module named, name = "-"),           *)
(*                 pkg : the package the executing code belongs to, as the parts of its        *)
(*                       context name (<<"apps","app1">>, <<"modules","pk","deep">>; <<>> = a   *)
(*                       script file that belongs to no package) ]                             *)
(* E.pys entries also carry pub / star (the public names of that file, the names its star       *)
(* import binds): for a relative clause the truth about the member comes from there.            *)
(* Outcome = [exc : "ok" | exception class, bound : set of names bound by the statement].     *)
(* flags = named deviations of the code ({} = the property statement).                        *)
EXTENDS Naturals, Sequences, FiniteSets

ToSet(s) == { s[i] : i \in 1..Len(s) }
Refusal == "ModuleNotFoundError"
Excluded == {"open", "compile", "input", "breakpoint", "memoryview", "print"}

IsStub(c) == c.parts[1] = "stubs"
PysOf(c, ctx, E)  == { p \in E.pys : p.name = c.mod /\ (p.scope = "any" \/ ctx = "app") }
IsPyscriptModule(c, ctx, E) == PysOf(c, ctx, E) # {}
\* an app package named from a context outside apps/: the statement does not say whether it resolves
AppFromOutside(c, ctx, E) == ctx # "app" /\ \E p \in E.pys : p.name = c.mod /\ p.scope = "app"

\* THE RULE
Allowed(c, ctx, allowAll, E) == allowAll \/ c.mod \in E.allow \/ IsPyscriptModule(c, ctx, E)

\* ---------------------------------------------------------------------------------------------
\* relative imports (level > 0).  The module a clause names is <package of the code, level - 1 parts dropped>.mod;
\* it is a pyscript module exactly when a file of that context name exists.  No absolute module is ever meant by a
\* relative clause: neither the allow-list nor allow_all_imports ("everything installed imports") speaks about it.
RECURSIVE JoinDots(_)
JoinDots(s) == IF Len(s) = 0 THEN "" ELSE IF Len(s) = 1 THEN s[1] ELSE s[1] \o "." \o JoinDots(Tail(s))
IsRel(cs) == cs.level > 0
\* code outside any package / more dots than the package is deep (pkg[1] is the folder: modules | apps)
NoParent(cs) == Len(cs.pkg) = 0
AboveParent(cs) == Len(cs.pkg) < cs.level + 1
RelBase(cs) == IF NoParent(cs) \/ AboveParent(cs) THEN <<>> ELSE SubSeq(cs.pkg, 1, Len(cs.pkg) + 1 - cs.level)
RelTarget(cs, c) == JoinDots(RelBase(cs)) \o "." \o c.mod
RelPys(cs, c, E) == IF NoParent(cs) \/ AboveParent(cs) THEN {} ELSE { p \in E.pys : p.ctxname = RelTarget(cs, c) }
\* absolute names: app packages resolve from code below apps/ only
AbsScope(cs) == IF Len(cs.pkg) > 0 /\ cs.pkg[1] = "apps" THEN "app" ELSE "file"
\* what is known about clause k's module: for a member named relatively, the scenario's file; else what CPython says
TruthOf(cs, k, E) ==
  LET c == cs.clauses[k]  P == IF IsRel(cs) THEN RelPys(cs, c, E) ELSE {}
  IN IF P # {} THEN LET p == CHOOSE p \in P : TRUE
                    IN [imp |-> "ok", has |-> c.name \in ToSet(p.pub), star |-> p.star, pub |-> p.pub]
     ELSE cs.truth[k]

\* alternative sets of names one clause binds when it succeeds
NamesOf(form, c, t, flags) ==
  IF form = "frompkg" THEN {{IF c.as # "-" THEN c.as ELSE c.mod}}
  ELSE IF form = "import"
  THEN IF c.as # "-" THEN {{c.as}}
       ELSE IF Len(c.parts) = 1 THEN {{c.mod}}
       ELSE {{c.mod}, {c.parts[1]}}     \* `import a.b`: the dotted name (pyscript's name scheme) or the top package (CPython)
  ELSE IF c.name = "*" THEN {IF "star-ignores-all" \in flags THEN ToSet(t.pub) ELSE ToSet(t.star)}
       ELSE {{IF c.as # "-" THEN c.as ELSE c.name}}

Out(e, b) == [exc |-> e, bound |-> b]

\* sequential execution of the clauses: the set of admissible final outcomes
RECURSIVE Run(_, _, _, _, _)
Run(cs, E, k, bound, flags) ==
  IF k > Len(cs.clauses) THEN {Out("ok", bound)}
  ELSE
    LET c == cs.clauses[k]
        t == TruthOf(cs, k, E)
        Bind == UNION { Run(cs, E, k + 1, bound \cup ns, flags) : ns \in NamesOf(cs.form, c, t, flags) }
        Missing == cs.form = "from" /\ c.name # "*" /\ ~t.has
        Succeed == IF t.imp # "ok" THEN {Out(t.imp, bound)}
                   ELSE IF Missing THEN {Out(IF "from-missing-attributeerror" \in flags THEN "AttributeError" ELSE "ImportError", bound)}
                   ELSE Bind
        \* the deviation "relative-falls-back-absolute": a relative from-import of a non-member is treated as the
        \* absolute from-import of the same name, straight through the allow-list (no pyscript module looked up)
        FallsBack == "relative-falls-back-absolute" \in flags /\ cs.form = "from" /\ (cs.allow_all \/ c.mod \in E.allow)
    IN IF cs.form = "from" /\ IsStub(c)
         THEN IF "stubs-as-refused" \in flags /\ \E j \in 1..Len(cs.clauses) : cs.clauses[j].as # "-"
              THEN {Out(Refusal, {})} ELSE {Out("ok", {})}              \* from-imports below stubs are no-ops
       ELSE IF IsRel(cs)
         THEN IF NoParent(cs) \/ AboveParent(cs) THEN {Out("ImportError", bound), Out(Refusal, bound)}   \* Python: ImportError
              ELSE IF RelPys(cs, c, E) # {} THEN Succeed
              ELSE IF FallsBack THEN Succeed
              ELSE {Out(Refusal, bound)}                 \* not a member of the package: refused, whatever the configuration
       ELSE IF IsPyscriptModule(c, cs.ctx, E) THEN Succeed
       ELSE IF AppFromOutside(c, cs.ctx, E) THEN {Out(Refusal, bound)} \cup Succeed
       ELSE IF ~Allowed(c, cs.ctx, cs.allow_all, E) THEN {Out(Refusal, bound)}      \* refused: nothing more is bound
       ELSE Succeed

\* what plain CPython does with the statement (no rule, no pyscript modules): used for the
\* deviation "compiled-native" (a @pyscript_compile body is native Python)
NativeCs(cs) == [cs EXCEPT !.allow_all = TRUE]
NoPys(E) == [E EXCEPT !.pys = {}]

OutcomesStrict(cs, E, flags) ==
  IF cs.via = "eval"                                   \* an import statement is not an expression
    THEN {Out("SyntaxError", {})} \cup
         (IF \E k \in 1..Len(cs.clauses) : ~Allowed(cs.clauses[k], cs.ctx, cs.allow_all, E) THEN {Out(Refusal, {})} ELSE {})
  ELSE IF cs.via = "compiled" /\ "compiled-native" \in flags
    THEN { o \in Run(NativeCs(cs), NoPys(E), 1, {}, flags) : TRUE }
  ELSE Run(cs, E, 1, {}, flags)

\* ---------------------------------------------------------------------------------------------
\* eval / exec namespace arguments: eval(text[, globals[, locals]]).
\*   g : "-" no argument | "empty" {} | "data" a mapping with unrelated names | "globals" globals() |
\*       "copy" dict(globals())
\*   l : "-" no argument | "empty" | "data" | "same" (the very mapping passed as globals) | "locals" locals()
NsNone == [g |-> "-", l |-> "-"]
NsExplicit == { [g |-> g, l |-> l] : g \in {"empty", "data", "globals", "copy"}, l \in {"-", "empty", "data", "same", "locals"} }
NsForms == {NsNone} \cup NsExplicit
ModuleLevelVias == {"direct", "exec", "evalexec", "eval"}
\* the mapping in which a statement at the top level of the executed text binds its names, by identity:
\* "script" = the script's global table, "g" / "l" = the globals / locals mapping passed (when it is another object)
GObj(ns) == IF ns.g = "globals" THEN "script" ELSE "g"
LObj(via, ns) == IF ns.l \in {"-", "same"} THEN GObj(ns)
                 ELSE IF ns.l = "locals" /\ via \in ModuleLevelVias THEN "script"   \* locals() at module level is globals()
                 ELSE "l"
Place(via, ns) == IF ns.g = "-" THEN "script" ELSE LObj(via, ns)
Places == {"script", "g", "l"}
\* eval(text, g, l) whose text calls exec(stmt) WITHOUT arguments: the inner exec runs with "default locals" that are
\* not the global mapping.  The language leaves the effect of exec on default locals open ("modifications to the
\* default locals dictionary should not be attempted"): the names land in the designated mapping or are not visible
\* afterwards; everything else (refusal, exception, nothing bound by a refused clause) is demanded as usual.
DefaultLocalsOpen(via, ns) == via = "evalexec" /\ ns.g # "-" /\ LObj(via, ns) # GObj(ns)

\* ---------------------------------------------------------------------------------------------
\* plain names that must reach the script: print / log.* are functions bound to the script's context
\* (they write to the script's logger) wherever the text that names them is executed - directly or through
\* eval / exec with any namespace arguments; an excluded builtin is never the builtin object.
\*   udef  = the user's own mappings define the name (then the statement is silent about which wins)
\*   gdecl = the enclosing function declares the name `global` (the script's globals do not define it)
CtxBound == {"print", "log.debug", "log.info", "log.warning", "log.error"}
Resolutions == {"replacement", "NameError", "user", "builtin"}
NameResolves(n, udef, gdecl) ==
  IF n \in CtxBound /\ ~udef /\ ~gdecl THEN {"replacement"}
  ELSE IF n \in Excluded \cup CtxBound THEN {"replacement", "NameError"} \cup (IF udef THEN {"user"} ELSE {})
  ELSE Resolutions

Outcomes(cs, E, flags) ==
  LET X == OutcomesStrict(cs, E, flags)
  IN IF DefaultLocalsOpen(cs.via, cs.ns) THEN X \cup { Out(x.exc, {}) : x \in X } ELSE X

\* identity class of the object a clause binds under a name
ClassOf(cs, E, c, flags) ==
  IF IsRel(cs) THEN
    LET R == RelPys(cs, c, E)
        owner == IF R # {} THEN "pysmod:" \o (CHOOSE p \in R : TRUE).ctxname
                 ELSE IF "relative-falls-back-absolute" \in flags THEN "module:" \o c.mod ELSE "nothing"
    IN IF cs.form = "frompkg" THEN owner ELSE "attr:" \o owner
  ELSE
  LET P == PysOf(c, cs.ctx, E) \cup (IF AppFromOutside(c, cs.ctx, E) THEN { p \in E.pys : p.name = c.mod } ELSE {})
      owner == IF P # {} /\ ~(cs.via = "compiled") THEN "pysmod:" \o (CHOOSE p \in P : TRUE).ctxname ELSE "module:" \o c.mod
  IN IF cs.form = "import" THEN owner ELSE "attr:" \o owner
=============================================================================
