SPECIFICATION Spec
CONSTANTS
 MaxGen = 4
 MaxSteps = 6
 Ctx = {"c1", "c2"}
 Name = {"f", "g"}
 FlagSets = {{}}
 SubSet = {"dm"}
 StartedSet = {TRUE}
 Eager = TRUE
 DeclSet = {1, 2, 3}
 MaxDefs = 2
 Vias = {"exec", "run"}
 Acts = {"define", "del", "rebind", "push", "pop", "clear", "reload", "close", "unload", "boot", "fire", "set", "call", "out"}
VIEW View
INVARIANT ActiveIffReferencedAndLoaded
INVARIANT TablesEqualUnionOfActive
INVARIANT AfterUnloadBaseline
INVARIANT StartupOncePerDefine
INVARIANT ShutdownOncePerRemoval
INVARIANT RegisteredIffCounted
INVARIANT CountIsLiveDeclarations
INVARIANT HandlerIsLatestLiveDeclaration
INVARIANT NoTakeoverAcrossContexts
PROPERTY RefusedLeavesRegistry
PROPERTY NoRunOfDeadGeneration
PROPERTY CallDeliversDataAndTriggerType
PROPERTY ResponseReturnedWhenSupported
PROPERTY OutgoingCallDeliversGivenKeywords
CHECK_DEADLOCK FALSE
