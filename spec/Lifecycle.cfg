\* Reference configuration (the drivers c09.py / c12.py generate their own, see notes/C09.md "Bounds"):
\* two contexts, two names, one- and two-alias services, flags = {} : every invariant must hold.
SPECIFICATION Spec
CONSTANTS
 MaxGen = 4
 MaxSteps = 4
 Ctx = {"c1", "c2"}
 Name = {"f", "g"}
 FlagSets = {{}}
 SubSet = {"dm"}
 StartedSet = {TRUE}
 Eager = TRUE
 DeclSet = {1, 3}
 MaxDefs = 1
 Vias = {"exec"}
 Rush = FALSE
 Acts = {"define", "del", "rebind", "close", "unload", "call"}
VIEW View
INVARIANT ActiveIffReferencedAndLoaded
INVARIANT TablesEqualUnionOfActive
INVARIANT AfterUnloadBaseline
INVARIANT StartupOncePerDefine
INVARIANT ShutdownOncePerRemoval
INVARIANT RegisteredIffCounted
INVARIANT CountIsLiveDeclarations
INVARIANT HandlerIsLatestLiveDeclaration
INVARIANT NoTakeoverAcrossContexts
PROPERTY NoRunOfDeadGeneration
PROPERTY RefusedLeavesRegistry
PROPERTY CallDeliversDataAndTriggerType
PROPERTY ResponseReturnedWhenSupported
PROPERTY OutgoingCallDeliversGivenKeywords
CHECK_DEADLOCK FALSE
