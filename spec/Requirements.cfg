SPECIFICATION Spec
CONSTANTS
 Pkgs = {"aa"}
 MaxRuns = 3
 Vers <- V3
 MaxLinesPerPkg = 2
VIEW View
INVARIANT TypeOK
INVARIANT LabelsOk
INVARIANT RecordEqualsWhatWasInstalled
PROPERTY NothingInstalledUnlessAllowed
PROPERTY ForeignNeverTouched
PROPERTY OwnUpdatedOnlyOnPinChange
PROPERTY MissingInstalledAsSelected
PROPERTY OnlyDecidedMove
PROPERTY RecordFollowsInstall
CHECK_DEADLOCK FALSE
