\* C13 exhaustive: 3 tasks x 2 names x 2 contexts, statement (flags = {})
SPECIFICATION Spec
CONSTANTS
  Task = {t1, t2, t3}
  Foreign = {}
  Name = {n1, n2}
  Ctx = {c1, c2}
  Fn = {}
  MaxArg = 1
  MaxOps = 2
  MaxEnv = 0
  Ops = {"unique", "sleep", "raise"}
  Kinds = {"svc"}
  Decos = {}
  Flags = {}
  None = None
INVARIANT TypeOK
INVARIANT MapsConsistent
INVARIANT OwnerIsLastLiveClaimant
INVARIANT OwnerIsLiveOurs
INVARIANT OneLiveClaimantAtQuiescence
INVARIANT ReleasedWhenOwnerEnds
INVARIANT ContextsIndependent
INVARIANT ForeignNeverCancelled
INVARIANT KillMeKillsCallerIffOtherLiveOwner
INVARIANT DoneInNoRegistry
SYMMETRY Sym
CHECK_DEADLOCK FALSE
