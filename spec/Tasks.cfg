\* C13, statement (flags = {}): 3 tasks x 2 names x 2 contexts, all programs of <= 2 operations.
\* Manual run:  timeout 600 tlc -workers 1 -deadlock -config Tasks.cfg Tasks.tla
\* (the drivers generate this and the other configurations into their scratch directory: harness/tasklib.py mc_cfg)
SPECIFICATION Spec
CONSTANTS
  Task = {t1, t2, t3}
  Foreign = {}
  Name = {n1, n2}
  Ctx = {c1, c2}
  Roam = TRUE
  Fn = {}
  MethFn = {}
  MaxArg = 1
  MaxOps = 2
  MaxEnv = 0
  Ops = {"unique", "sleep", "raise"}
  Kinds = {"svc"}
  Decos = {}
  Flags = {}
  None = None
INVARIANT TypeOK
INVARIANT MapsConsistent
INVARIANT OwnerIsLastLiveClaimant
INVARIANT OwnerIsLiveOurs
INVARIANT OneLiveClaimantAtQuiescence
INVARIANT ReleasedWhenOwnerEnds
INVARIANT ContextsIndependent
INVARIANT ForeignNeverCancelled
INVARIANT KillMeKillsCallerIffOtherLiveOwner
INVARIANT DoneInNoRegistry
INVARIANT Witness
POSTCONDITION WitnessReport
SYMMETRY Sym
CHECK_DEADLOCK FALSE
