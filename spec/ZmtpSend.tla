------------------------------ MODULE ZmtpSend ------------------------------
(* C19 framing, sending side: several tasks send on ONE connection.  The kernel does this on  *)
(* every iopub connection (shell handler: status / execute_input / execute_result / error;    *)
(* housekeeping task: stream), and `await writer.drain()` inside a send routine suspends the  *)
(* sender whenever the transport is paused (slow peer), so another sender may run at every    *)
(* drain().  A send routine is a sequence of write() calls; the octets of one write() reach   *)
(* the stream contiguously, the writes of different senders interleave arbitrarily.           *)
(*                                                                                            *)
(*   Grain = "message"   one write() per message (ZmqSocket.send_multipart / send / send_cmd  *)
(*                       of the code: the whole encoding is built first)                      *)
(*   Grain = "frame"     one write() + drain() per frame: NOT what the statement allows; this *)
(*                       configuration must violate MessagesIntact (it shows that the         *)
(*                       invariant, and the acceptor clause built from the same operators,    *)
(*                       is not vacuous)                                                      *)
(*                                                                                            *)
(* "Read back identically" for several senders: what the receive routine returns for the      *)
(* stream (Decode of ZmtpCore, proved equal to the reader state machine in Zmtp.tla) is an    *)
(* interleaving of the senders' message sequences at the granularity of whole messages.       *)
EXTENDS ZmtpCore, FiniteSets, TLC, Json

CONSTANTS MaxLen, MaxFrames, Byte,
          NSenders,      \* 2 or 3
          MaxMsgs1,      \* sender 1 sends 1..MaxMsgs1 messages, every other sender exactly one
          Grain

Bodies == UNION { [1..l -> Byte] : l \in 0..MaxLen }
Msgs   == UNION { [1..n -> Bodies] : n \in 1..MaxFrames }
Progs1 == UNION { [1..k -> Msgs] : k \in 1..MaxMsgs1 }
Progs  == [1..1 -> Msgs]

VARIABLES prog,    \* prog[s]: the messages sender s hands to send_multipart, in order
          mi, fi,  \* mi[s], fi[s]: message / frame sender s writes next
          wire,
          torn     \* some write landed between two writes of one message (a sender was suspended mid-message)
vars == <<prog, mi, fi, wire, torn>>
S == 1..NSenders

Init == /\ \E p1 \in Progs1 : \E rest \in [S \ {1} -> Progs] : prog = [s \in S |-> IF s = 1 THEN p1 ELSE rest[s]]
        /\ mi = [s \in S |-> 1] /\ fi = [s \in S |-> 1] /\ wire = <<>> /\ torn = FALSE

RawMsg(m) == [i \in 1..Len(m) |-> Raw(m[i])]
Active(s) == mi[s] <= Len(prog[s])
MidMsg(s) == Active(s) /\ fi[s] > 1
\* one write() of sender s; between two writes of s anything may happen (its drain() yielded)
Write(s) ==
  /\ Active(s)
  /\ LET m == prog[s][mi[s]] IN
     IF Grain = "message"
     THEN /\ wire' = wire \o Expand(Encode(RawMsg(m), 1))
          /\ mi' = [mi EXCEPT ![s] = @ + 1] /\ UNCHANGED fi
     ELSE /\ wire' = wire \o Expand(EncFrame(Raw(m[fi[s]]), fi[s] < Len(m)))
          /\ IF fi[s] < Len(m) THEN fi' = [fi EXCEPT ![s] = @ + 1] /\ UNCHANGED mi
             ELSE fi' = [fi EXCEPT ![s] = 1] /\ mi' = [mi EXCEPT ![s] = @ + 1]
  /\ torn' = (torn \/ \E o \in S \ {s} : MidMsg(o))
  /\ UNCHANGED prog
Next == \E s \in S : Write(s)
Spec == Init /\ [][Next]_vars

AllDone   == \A s \in S : ~Active(s)
Boundary  == \A s \in S : ~MidMsg(s)
SentSoFar == [s \in S |-> AsMsgItems([j \in 1..(mi[s] - 1) |-> NormF(RawMsg(prog[s][j]))])]
\* the statement: at every moment at which no sender is inside a message, the stream decodes to the
\* messages sent so far, each intact, each sender's in its order
MessagesIntact ==
  Boundary => LET d == Decode(Raw(wire)) IN d.ok /\ IsMerge(AsMsgItems(d.msgs), SentSoFar)
\* and the octets are the canonical encodings, back to back (what the acceptor's `wire` clause states)
WireIntact ==
  Boundary => WireIsMerge(Raw(wire), [s \in S |-> [j \in 1..(mi[s] - 1) |-> Norm(Encode(RawMsg(prog[s][j]), 1))]])

\* witnesses (expected FALSE somewhere): the senders' messages come in either order; a sender is overtaken mid-message
W_NoOvertaking  == ~(mi[1] = 1 /\ fi[1] = 1 /\ mi[2] > 1)        \* sender 2 completed a message before sender 1 wrote anything
W_NeverTorn     == ~torn
W_NoLongFrame   == ~(AllDone /\ \E s \in S : \E j \in 1..Len(prog[s]) : \E f \in 1..Len(prog[s][j]) : Len(prog[s][j][f]) > ShortMax)
WNames == <<"W_NoOvertaking", "W_NoLongFrame">> \o (IF Grain = "frame" THEN <<"W_NeverTorn">> ELSE <<>>)
WVal(k) == CASE k = 1 -> W_NoOvertaking [] k = 2 -> W_NoLongFrame [] k = 3 -> W_NeverTorn
ASSUME \A k \in 1..3 : TLCSet(k, FALSE)
TrackW == \A k \in 1..Len(WNames) : IF TLCGet(k) THEN TRUE ELSE IF ~WVal(k) THEN TLCSet(k, TRUE) ELSE TRUE
WitnessesSeen == PrintT("INFO " \o ToJson([unseen |-> { WNames[k] : k \in { j \in 1..Len(WNames) : ~TLCGet(j) } }]))
=============================================================================
