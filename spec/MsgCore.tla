------------------------------- MODULE MsgCore -------------------------------
(* Shared operators for event / MQTT / webhook triggers (C08).                               *)
(* A trigger T = [fid, tag, kind, key, flt, kw]: function id, decorator tag, source kind     *)
(* ("event" | "mqtt" | "webhook"), key (event type / topic / webhook id), filter expression  *)
(* over the message's own data ([k |-> "none"] if absent), decorator kwargs.                 *)
(* A message M = [kind, key, d, ctx]: d is the data record (string fields), ctx the id of    *)
(* the HA context of the occurrence ("-" when the source has none: MQTT, webhook).           *)
EXTENDS Naturals, Sequences, FiniteSets

\* A filter is Python source evaluated on the message's OWN variables only (type header h + data d): "T" truthy, "F" falsy, "E" it raises (a name
\* the message does not carry - NameError / KeyError -, int() of a non-number); and / or / not short-circuit as in
\* Python, so an operand that is never reached cannot raise.  A raising filter starts no run for that message.
RECURSIVE EvalR(_, _, _)
EvalR(x, d, h) ==
  CASE x.k = "none" -> "T"
    [] x.k = "eq"   -> IF x.f \notin DOMAIN d THEN "E" ELSE IF d[x.f] = x.c THEN "T" ELSE "F"
    [] x.k = "ne"   -> IF x.f \notin DOMAIN d THEN "E" ELSE IF d[x.f] # x.c THEN "T" ELSE "F"
    [] x.k = "nz"   -> IF x.f \notin DOMAIN d THEN "E"                  \* int(field): truthy but not a bool
                       ELSE IF d[x.f] \in {"1", "2"} THEN "T" ELSE IF d[x.f] = "0" THEN "F" ELSE "E"
    [] x.k = "heq"  -> IF x.f \notin DOMAIN h THEN "E" ELSE IF h[x.f] = x.c THEN "T" ELSE "F"   \* a variable of the type header
    [] x.k = "and"  -> LET l == EvalR(x.l, d, h) IN IF l # "T" THEN l ELSE EvalR(x.r, d, h)
    [] x.k = "or"   -> LET l == EvalR(x.l, d, h) IN IF l # "F" THEN l ELSE EvalR(x.r, d, h)
    [] x.k = "not"  -> LET a == EvalR(x.a, d, h) IN IF a = "E" THEN "E" ELSE IF a = "T" THEN "F" ELSE "T"
    [] OTHER        -> "E"
EvalF(x, d, h) == EvalR(x, d, h) = "T"

\* MQTT: the trigger's key is a topic FILTER (levels T.lv, "+" = exactly one level, "#" = the rest), the message
\* carries a concrete topic (levels M.lv); every matching subscription is served, and served once
RECURSIVE TopicMatch(_, _)
TopicMatch(f, t) == IF f = <<>> THEN t = <<>>
                    ELSE IF Head(f) = "#" THEN TRUE
                    ELSE t # <<>> /\ (Head(f) = "+" \/ Head(f) = Head(t)) /\ TopicMatch(Tail(f), Tail(t))
Matches(T, M)  == T.kind = M.kind /\ IF T.kind = "mqtt" THEN TopicMatch(T.lv, M.lv) ELSE T.key = M.key
Header(M) == CASE M.kind = "event"   -> [trigger_type |-> "event", event_type |-> M.key]
               [] M.kind = "mqtt"    -> [trigger_type |-> "mqtt", topic |-> M.key]
               [] M.kind = "webhook" -> [trigger_type |-> "webhook", webhook_id |-> M.key]
\* the filter sees the variables the function would get: the type header (trigger_type, event_type / topic /
\* webhook_id) besides the message's own data
\* (an event's own data are variables too and win over the header where the names collide; MQTT and webhook
\* payloads are nested below payload_obj / payload)
Vars(M) == IF M.kind = "event" THEN [k \in DOMAIN Header(M) \cup DOMAIN M.d |-> IF k \in DOMAIN M.d THEN M.d[k] ELSE Header(M)[k]]
           ELSE Header(M)
Accepts(T, M)  == Matches(T, M) /\ EvalF(T.flt, M.d, Vars(M))

Merged(args, kw) == [k \in DOMAIN args \cup DOMAIN kw |-> IF k \in DOMAIN kw THEN kw[k] ELSE args[k]]
\* the keyword arguments of the run: type-specific header + the message's data + decorator kwargs
RunKw(T, M) == Merged(Merged(Header(M), M.d), T.kw)
=============================================================================
