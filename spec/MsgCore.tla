------------------------------- MODULE MsgCore -------------------------------
(* Shared operators for event / MQTT / webhook triggers (C08).                               *)
(* A trigger T = [fid, tag, kind, key, flt, kw]: function id, decorator tag, source kind     *)
(* ("event" | "mqtt" | "webhook"), key (event type / topic / webhook id), filter expression  *)
(* over the message's own data ([k |-> "none"] if absent), decorator kwargs.                 *)
(* A message M = [kind, key, d, ctx]: d is the data record (string fields), ctx the id of    *)
(* the HA context of the occurrence ("-" when the source has none: MQTT, webhook).           *)
EXTENDS Naturals, Sequences, FiniteSets

RECURSIVE EvalF(_, _)
EvalF(x, d) ==
  CASE x.k = "none" -> TRUE
    [] x.k = "eq"   -> x.f \in DOMAIN d /\ d[x.f] = x.c
    [] x.k = "ne"   -> x.f \in DOMAIN d /\ d[x.f] # x.c
    [] x.k = "nz"   -> x.f \in DOMAIN d /\ d[x.f] \in {"1", "2"}  \* int(field): truthy but not a bool; a field that is
                                                              \* not a number makes the filter RAISE: no run for that message
    [] x.k = "and"  -> EvalF(x.l, d) /\ EvalF(x.r, d)
    [] x.k = "or"   -> EvalF(x.l, d) \/ EvalF(x.r, d)
    [] x.k = "not"  -> ~EvalF(x.a, d)
    [] OTHER        -> FALSE

Matches(T, M)  == T.kind = M.kind /\ T.key = M.key
Accepts(T, M)  == Matches(T, M) /\ EvalF(T.flt, M.d)

Merged(args, kw) == [k \in DOMAIN args \cup DOMAIN kw |-> IF k \in DOMAIN kw THEN kw[k] ELSE args[k]]
\* the keyword arguments of the run: type-specific header + the message's data + decorator kwargs
Header(M) == CASE M.kind = "event"   -> [trigger_type |-> "event", event_type |-> M.key]
               [] M.kind = "mqtt"    -> [trigger_type |-> "mqtt", topic |-> M.key]
               [] M.kind = "webhook" -> [trigger_type |-> "webhook", webhook_id |-> M.key]
RunKw(T, M) == Merged(Merged(Header(M), M.d), T.kw)
=============================================================================
