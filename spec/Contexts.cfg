SPECIFICATION Spec
CONSTANTS
 Flags = {}
 OpsA = 1
 Mode = "plain"
INVARIANT InvWrites
INVARIANT InvPointer
INVARIANT InvInstance
INVARIANT InvCtxFuncs
INVARIANT InvNames
INVARIANT InvOk
CHECK_DEADLOCK FALSE
