SPECIFICATION Spec
CONSTANTS
 Flags = {}
 OpsA = 1
 Rel = FALSE
INVARIANT InvWrites
INVARIANT InvPointer
INVARIANT InvInstance
INVARIANT InvOk
CHECK_DEADLOCK FALSE
