------------------------------ MODULE PyFlowMC ------------------------------
(* C02 (M): TLC enumerates every skeleton of a bounded family (nesting <= 2, every placement  *)
(* of a jump / raise / fall-through in every block slot, 2 contexts) and every oracle vector, *)
(* lets the statement machine of PyFlowCore GENERATE the run (events + ghost spans) and       *)
(* checks machine theorems on it.  The rules are exactly those the acceptor PyFlow.tla uses.  *)
EXTENDS PyFlowCore, FiniteSets

CONSTANTS K,          \* length of the oracle vector
          Deep        \* 0: nesting 1, every leaf; 1: nesting 2 with the small leaf set; 2: nesting 2, every leaf

\* ---------------------------------------------------------------- the family
Tr(n)      == [k |-> "t", n |-> n]
Rs(e)      == [k |-> "raise", exc |-> e, n |-> 8, cause |-> ""]
Leaf(inloop) == IF Deep = 1
                THEN {<<Tr(9)>>, <<Rs("E1")>>} \cup (IF inloop THEN {<<[k |-> "break"]>>} ELSE {})
                ELSE {<<Tr(9)>>, <<Rs("E1")>>, <<Rs("E3")>>, <<[k |-> "return", n |-> 7]>>, <<[k |-> "reraise"]>>}
                     \cup (IF inloop THEN {<<[k |-> "break"]>>, <<[k |-> "continue"]>>} ELSE {})
LeafE(inloop) == Leaf(inloop) \cup {<<>>}
ItA(n, sup, xr, tg, ev, sx) == [n |-> n, sup |-> sup, er |-> "", xr |-> xr, q |-> FALSE, ev |-> ev, tg |-> tg, sx |-> sx]
It(n, sup, er, xr) == [n |-> n, sup |-> sup, er |-> er, xr |-> xr, q |-> FALSE, ev |-> "self", tg |-> "", sx |-> ""]
Hd(ty, body) == [types |-> <<ty>>, bind |-> FALSE, name |-> "ex", n |-> 3, body |-> body]
ItemSets == {<<It(1, s, "", "")>> : s \in BOOLEAN} \cup
            {<<It(1, s1, "", ""), It(2, s2, "", "")>> : s1 \in BOOLEAN, s2 \in BOOLEAN} \cup
            {<<It(1, TRUE, "E1", "")>>, <<It(1, FALSE, "", ""), It(2, TRUE, "E1", "")>>,
             <<It(1, FALSE, "", ""), It(2, FALSE, "", "E3")>>, <<It(1, FALSE, "", "E3")>>}
\* `with ... as TARGET`: <<target form, value of __enter__, exception of the recording holder's store>>
\* (nesting 2 with the small leaf set: one representative per way of succeeding / raising)
AsOk   == IF Deep = 1 THEN {<<"name", "self", "">>, <<"tupst", "t2", "">>}
          ELSE {<<"name", "self", "">>, <<"tup", "t2", "">>, <<"star", "t3", "">>, <<"star", "t1", "">>, <<"attr", "int", "">>,
                <<"tupst", "t2", "">>}
AsFail == IF Deep = 1 THEN {<<"tup", "int", "">>, <<"attr", "self", "E1">>, <<"tupst", "t2", "E1">>}
          ELSE {<<"tup", "self", "">>, <<"tup", "t3", "">>, <<"lst", "t1", "">>, <<"star", "t0", "">>, <<"star", "int", "">>,
                <<"attr", "self", "E1">>, <<"sub", "t2", "E3">>, <<"tupst", "t2", "E1">>, <<"tupst", "t3", "E1">>,
                <<"slot", "self", "">>, <<"idx", "int", "">>}
AsOkItems   == {<<ItA(1, s, "", a[1], a[2], a[3])>> : s \in BOOLEAN, a \in AsOk}
\* the binding raises in the only / the second / the first item (then the second item is never constructed);
\* also with an __exit__ that raises in turn
AsFailItems == {<<ItA(1, s, "", a[1], a[2], a[3])>> : s \in BOOLEAN, a \in AsFail} \cup
               {<<ItA(1, s1, "", "name", "self", ""), ItA(2, s2, "", a[1], a[2], a[3])>> : s1 \in BOOLEAN, s2 \in BOOLEAN, a \in AsFail} \cup
               {<<ItA(1, s1, "", a[1], a[2], a[3]), It(2, TRUE, "", "")>> : s1 \in BOOLEAN, a \in AsFail} \cup
               {<<ItA(1, FALSE, "E3", a[1], a[2], a[3])>> : a \in AsFail}

\* compounds of nesting 1; d = 1..2 offsets the site numbers
D1(inloop) ==
     {[k |-> "if", n |-> 1, body |-> b, orelse |-> o] : b \in Leaf(inloop), o \in LeafE(inloop)}
\cup {[k |-> "while", n |-> 1, body |-> b, orelse |-> o] : b \in Leaf(TRUE), o \in LeafE(inloop)}
\cup {[k |-> "for", n |-> 1, count |-> 2, body |-> b, orelse |-> o] : b \in Leaf(TRUE), o \in LeafE(inloop)}
\cup {[k |-> "try", body |-> b, handlers |-> <<Hd("E1", h)>>, orelse |-> o, final |-> f] :
         b \in Leaf(inloop), h \in Leaf(inloop), o \in {<<>>, <<Tr(6)>>}, f \in LeafE(inloop)}
\cup {[k |-> "try", body |-> b, handlers |-> <<>>, orelse |-> <<>>, final |-> f] : b \in Leaf(inloop), f \in Leaf(inloop)}
\cup {[k |-> "with", items |-> it, body |-> b] : it \in ItemSets \cup AsOkItems, b \in Leaf(inloop)}
\cup {[k |-> "with", items |-> it, body |-> <<Tr(9)>>] : it \in AsFailItems}                  \* the body is never reached
\cup {[k |-> "call", f |-> 2, n |-> 5]}

\* outer constructs with a hole h (h is a block); each with the loop status of the hole
T1 == <<Tr(11)>>
Holes(inloop) ==
  {[mk |-> "if-body", il |-> inloop], [mk |-> "if-orelse", il |-> inloop], [mk |-> "while-body", il |-> TRUE],
   [mk |-> "while-orelse", il |-> inloop], [mk |-> "for-body", il |-> TRUE], [mk |-> "for-orelse", il |-> inloop],
   [mk |-> "try-body", il |-> inloop], [mk |-> "try-handler", il |-> inloop], [mk |-> "try-orelse", il |-> inloop],
   [mk |-> "finally-after-norm", il |-> inloop], [mk |-> "finally-after-raise", il |-> inloop],
   [mk |-> "finally-after-return", il |-> inloop],
   [mk |-> "with1", il |-> inloop], [mk |-> "with1-sup", il |-> inloop], [mk |-> "with2", il |-> inloop]}
Fill(mk, h) ==
  CASE mk = "if-body"      -> [k |-> "if", n |-> 21, body |-> h, orelse |-> T1]
    [] mk = "if-orelse"    -> [k |-> "if", n |-> 21, body |-> T1, orelse |-> h]
    [] mk = "while-body"   -> [k |-> "while", n |-> 21, body |-> h, orelse |-> T1]
    [] mk = "while-orelse" -> [k |-> "while", n |-> 21, body |-> T1, orelse |-> h]
    [] mk = "for-body"     -> [k |-> "for", n |-> 21, count |-> 2, body |-> h, orelse |-> T1]
    [] mk = "for-orelse"   -> [k |-> "for", n |-> 21, count |-> 1, body |-> T1, orelse |-> h]
    [] mk = "try-body"     -> [k |-> "try", body |-> h, handlers |-> <<Hd("E1", T1)>>, orelse |-> <<>>, final |-> <<Tr(12)>>]
    [] mk = "try-handler"  -> [k |-> "try", body |-> <<Rs("E1")>>, handlers |-> <<Hd("E1", h)>>, orelse |-> <<>>, final |-> <<Tr(12)>>]
    [] mk = "try-orelse"   -> [k |-> "try", body |-> T1, handlers |-> <<Hd("E1", T1)>>, orelse |-> h, final |-> <<Tr(12)>>]
    [] mk = "finally-after-norm"   -> [k |-> "try", body |-> T1, handlers |-> <<>>, orelse |-> <<>>, final |-> h]
    [] mk = "finally-after-raise"  -> [k |-> "try", body |-> <<Rs("E3")>>, handlers |-> <<>>, orelse |-> <<>>, final |-> h]
    [] mk = "finally-after-return" -> [k |-> "try", body |-> <<[k |-> "return", n |-> 22]>>, handlers |-> <<>>, orelse |-> <<>>, final |-> h]
    [] mk = "with1"        -> [k |-> "with", items |-> <<It(23, FALSE, "", "")>>, body |-> h]
    [] mk = "with1-sup"    -> [k |-> "with", items |-> <<It(23, TRUE, "", "")>>, body |-> h]
    [] mk = "with2"        -> [k |-> "with", items |-> <<It(23, FALSE, "", ""), It(24, TRUE, "", "")>>, body |-> h]

\* contexts: A = function body, B = body of a for loop with else (jumps allowed)
Wrap(cx, s) == IF cx = "A" THEN <<Tr(31), s, Tr(32)>>
               ELSE <<[k |-> "for", n |-> 30, count |-> 2, body |-> <<Tr(31), s, Tr(32)>>, orelse |-> <<Tr(33)>>], Tr(34)>>
F2s == Leaf(FALSE) \cup {<<[k |-> "return", n |-> 7]>>}                                     \* bodies of the callee f2
Seeds == IF Deep = 0 THEN {[cx |-> cx, mk |-> "none", il |-> cx = "B"] : cx \in {"A", "B"}}
         ELSE {[cx |-> "A", mk |-> h.mk, il |-> h.il] : h \in Holes(FALSE)} \cup
              {[cx |-> "B", mk |-> h.mk, il |-> h.il] : h \in Holes(TRUE)}
\* only programs that call f2 need to vary it
UsesCall(s) == s.k = "call"
ProgsOf(seed) == {<< Wrap(seed.cx, IF seed.mk = "none" THEN s ELSE Fill(seed.mk, <<Tr(13), s, Tr(14)>>)), f2 >> :
                    s \in {x \in D1(seed.il) : ~UsesCall(x)}, f2 \in {<<Tr(9)>>}}
                 \cup {<< Wrap(seed.cx, IF seed.mk = "none" THEN s ELSE Fill(seed.mk, <<Tr(13), s, Tr(14)>>)), f2 >> :
                    s \in {x \in D1(seed.il) : UsesCall(x)}, f2 \in F2s}

\* ---------------------------------------------------------------- well-formedness (what CPython's compiler demands)
RECURSIVE WFB(_, _), WFS(_, _)
WFB(b, il) == \A i \in 1..Len(b) : WFS(b[i], il)
WFS(s, il) ==
  CASE s.k \in {"break", "continue"} -> il
    [] s.k = "if"               -> WFB(s.body, il) /\ WFB(s.orelse, il)
    [] s.k \in {"while", "for"} -> WFB(s.body, TRUE) /\ WFB(s.orelse, il)
    [] s.k = "try"              -> WFB(s.body, il) /\ WFB(s.orelse, il) /\ WFB(s.final, il) /\
                                   \A h \in 1..Len(s.handlers) : WFB(s.handlers[h].body, il)
    [] s.k = "with"             -> WFB(s.body, il)
    [] OTHER                    -> TRUE
WellFormed(funcs) == \A f \in 1..Len(funcs) : WFB(funcs[f], FALSE)

\* ---------------------------------------------------------------- theorems over a generated run
IsG(ev, g) == ev.e = "g" /\ ev.g = g
\* the S- closing the statement activation opened at i (no recursion: the first one with the same path)
RECURSIVE FindClose(_, _, _)
FindClose(o, p, j) == IF j > Len(o) THEN 0 ELSE IF IsG(o[j], "S-") /\ o[j].p = p THEN j ELSE FindClose(o, p, j + 1)
Opened(o, kinds) == {i \in 1..Len(o) : IsG(o[i], "S+") /\ o[i].kind \in kinds}
Spans(o, kinds) == {sp \in {<<i, FindClose(o, o[i].p, i + 1)>> : i \in Opened(o, kinds)} : sp[2] > 0}
In(o, sp, g, slot) == {m \in sp[1]..sp[2] : IsG(o[m], g) /\ o[m].p = o[sp[1]].p /\ o[m].kind = slot}

\* every statement that starts also completes (runs are total)
AllClosed(o) == \A i \in 1..Len(o) : IsG(o[i], "S+") => FindClose(o, o[i].p, i + 1) > 0

\* a try statement with a finally clause runs it exactly once per activation, as the last thing it does
FinallyExactlyOnce(o) ==
  \A sp \in Spans(o, {"try"}) :
    o[sp[1]].x = "final" =>
      /\ Cardinality(In(o, sp, "B+", "final")) = 1
      /\ Cardinality(In(o, sp, "B-", "final")) = 1
      /\ \A m \in In(o, sp, "B-", "final") : m + 1 = sp[2]

\* enter/exit events obey a stack discipline; a manager whose __enter__ raised is never exited
RECURSIVE Lifo(_, _, _)
Lifo(o, k, stk) ==
  IF k > Len(o) THEN stk = <<>>
  ELSE IF o[k].e = "enter" THEN Lifo(o, k + 1, Append(stk, o[k].n))
  ELSE IF IsG(o[k], "EF") THEN stk # <<>> /\ Lifo(o, k + 1, SubSeq(stk, 1, Len(stk) - 1))
  ELSE IF o[k].e = "exit" THEN stk # <<>> /\ stk[Len(stk)] = o[k].n /\ Lifo(o, k + 1, SubSeq(stk, 1, Len(stk) - 1))
  ELSE Lifo(o, k + 1, stk)
ExitPairsEnterLIFO(o) == Lifo(o, 1, <<>>)

\* a binding of an `as` target that raises lies inside the region its manager protects: the very next thing is that
\* manager's __exit__ (innermost entered one by ExitPairsEnterLIFO) receiving the binding's exception - no later
\* item, no statement of the body in between; and the body of a with statement never starts after a failed binding
NextReal(o, m) == CHOOSE j \in (m + 1)..Len(o) : o[j].e # "g" /\ \A k \in (m + 1)..(j - 1) : o[k].e = "g"
BindFailureIsProtected(o) ==
  \A m \in 1..Len(o) : IsG(o[m], "BF") =>
     /\ \E j \in (m + 1)..Len(o) : o[j].e # "g"
     /\ LET j == NextReal(o, m) IN o[j].e = "exit" /\ o[j].x = o[m].x
     /\ \A sp \in Spans(o, {"with"}) : (o[sp[1]].p = o[m].p /\ sp[1] < m /\ m < sp[2]) => In(o, sp, "B+", "body") = {}

\* the else clause of a loop runs iff no round of the loop ended in break / return / raise;
\* a break makes the loop complete normally
ElseIffNoBreak(o) ==
  \A sp \in Spans(o, {"while", "for"}) :
    LET bodies == In(o, sp, "B-", "body")
        elses  == In(o, sp, "B+", "orelse")
    IN /\ (elses # {}) <=> (\A m \in bodies : o[m].x \in {"norm", "continue"})
       /\ Cardinality(elses) <= 1
       /\ (\E m \in bodies : o[m].x = "break") => o[sp[2]].x = "norm"

\* break/continue never leave their loop, nothing but a value or an exception leaves a function
JumpsStayInFunction(o) ==
  \A m \in 1..Len(o) :
    /\ (IsG(o[m], "S-") /\ o[m].kind \in {"while", "for"} /\ o[m].x \in {"break", "continue"}) =>
          \E b \in 1..m : IsG(o[b], "B-") /\ o[b].p = o[m].p /\ o[b].kind = "orelse" /\ o[b].x = o[m].x /\ b + 1 = m
    /\ (IsG(o[m], "S-") /\ o[m].kind = "call") => o[m].x \in {"norm", "raise"}
    /\ (IsG(o[m], "B-") /\ o[m].kind = "func") => o[m].x \in {"norm", "return", "raise"}

\* the acceptor accepts what the generator produces (both modes of the machine agree)
SelfAccept(funcs, o) ==
  LET tr == Strip(o)
  IN /\ Accept(funcs, tr).ok
     /\ tr[Len(tr)].e = "end"

VARIABLES seed, prog, orc
vars == <<seed, prog, orc>>
Init == seed \in Seeds /\ prog = <<>> /\ orc = <<>>
Next == /\ prog = <<>>
        /\ prog' \in ProgsOf(seed)
        /\ orc' \in [1..K -> BOOLEAN]
        /\ seed' = seed
Spec == Init /\ [][Next]_vars

TheRun == Run(prog, orc, TRUE)
Theorems ==
  prog # <<>> =>
    LET r == TheRun
        o == r.out
    IN /\ WellFormed(prog)
       /\ r.ok
       /\ AllClosed(o)
       /\ FinallyExactlyOnce(o)
       /\ ExitPairsEnterLIFO(o)
       /\ BindFailureIsProtected(o)
       /\ ElseIffNoBreak(o)
       /\ JumpsStayInFunction(o)
       /\ SelfAccept(prog, o)

\* ---------------------------------------------------------------- witnesses: the antecedents of the theorems occur
\* (evaluated once at startup over the nesting-1 family inside a loop; a false assumption stops TLC = machinery failure)
WProgs == ProgsOf([cx |-> "B", mk |-> "none", il |-> TRUE])
Occurs(P(_)) == \E pr \in WProgs : \E oc \in [1..2 -> BOOLEAN] : P(Run(pr, oc, TRUE).out)
FinallyAfterRaise(o) == \E m \in 2..Len(o) : IsG(o[m], "B+") /\ o[m].kind = "final" /\ IsG(o[m - 1], "B-") /\ o[m - 1].x = "raise"
Suppressed(o) == \E sp \in Spans(o, {"with"}) : o[sp[2]].x = "norm" /\ \E m \in In(o, sp, "B-", "body") : o[m].x = "raise"
BreakSkipsElse(o) == \E sp \in Spans(o, {"while", "for"}) : \E m \in In(o, sp, "B-", "body") : o[m].x = "break"
ReturnThroughCall(o) == \E m \in 1..Len(o) : IsG(o[m], "B-") /\ o[m].kind = "func" /\ o[m].p # <<>> /\ o[m].x = "return"
FinallyOverrides(o) == \E sp \in Spans(o, {"try"}) : \E m \in In(o, sp, "B-", "final") : o[m].x \in {"return", "break", "continue"} /\
                          \E b \in In(o, sp, "B-", "body") : o[b].x = "raise"
EnterFails(o) == \E m \in 1..Len(o) : IsG(o[m], "EF")
ASSUME Deep = 1 \/ Occurs(FinallyAfterRaise)
ASSUME Deep = 1 \/ Occurs(Suppressed)
ASSUME Deep = 1 \/ Occurs(BreakSkipsElse)
ASSUME Deep = 1 \/ Occurs(ReturnThroughCall)
ASSUME Deep = 1 \/ Occurs(FinallyOverrides)
ASSUME Deep = 1 \/ Occurs(EnterFails)
\* a binding fails; the manager swallows it and the with statement completes normally; an outer manager sees a normal
\* exit after the inner one swallowed the binding's exception; a successful binding is observed in the body
BindFails(o) == \E m \in 1..Len(o) : IsG(o[m], "BF")
BindFailSwallowed(o) == \E sp \in Spans(o, {"with"}) : o[sp[2]].x = "norm" /\ \E m \in sp[1]..sp[2] : IsG(o[m], "BF") /\ o[m].p = o[sp[1]].p
BindFailOuterSeesNone(o) == \E m \in 1..Len(o) : IsG(o[m], "BF") /\ \E j \in (m + 1)..Len(o) : o[j].e = "exit" /\ o[j].n = 1 /\ o[j].x = "None"
                                /\ \A k \in (m + 1)..(j - 1) : o[k].e \in {"g", "exit"}
BindFailPropagates(o) == \E m \in 1..Len(o) : IsG(o[m], "BF") /\ o[Len(o)].e = "end" /\ o[Len(o)].k = "raise" /\ o[Len(o)].x = o[m].x
BoundObserved(o) == \E m \in 1..Len(o) : o[m].e = "b"
StoreObserved(o) == \E m \in 1..Len(o) : o[m].e = "st"
ASSUME Deep = 1 \/ Occurs(BindFails)
ASSUME Deep = 1 \/ Occurs(BindFailSwallowed)
ASSUME Deep = 1 \/ Occurs(BindFailOuterSeesNone)
ASSUME Deep = 1 \/ Occurs(BindFailPropagates)
ASSUME Deep = 1 \/ Occurs(BoundObserved)
ASSUME Deep = 1 \/ Occurs(StoreObserved)
=============================================================================
