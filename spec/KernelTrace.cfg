SPECIFICATION Spec
CONSTANTS Mech = "spec"
 SessionKey = "K"
 HqBound = 0
CONSTRAINT Track
POSTCONDITION Accepted
CHECK_DEADLOCK FALSE
