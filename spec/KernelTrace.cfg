SPECIFICATION Spec
CONSTANTS Mech = "spec"
 SessionKey = "K"
CONSTRAINT Track
POSTCONDITION Accepted
CHECK_DEADLOCK FALSE
