---------------------------- MODULE ReloadTrace ----------------------------
(* Acceptor for recordings of the real integration on a real directory (C10).  A case:        *)
(*   [id, files : path -> [ex, hash, gen, mtime, imps], hdirs, cfg,                            *)
(*    steps : << edit | [a |-> "reload", arg, obs] >>]                                         *)
(* The first step is the initial load (a reload with arg "" from no contexts).  obs is the     *)
(* projection of the real state after the reload and one "ping" / "tick" event:                *)
(*   ctx : name -> [path, gen, mtime, cfg, seen, wr, now, imports, inst, started], n, log (contexts executed *)
(*   by this reload, in order), hits / ticks : name -> counter kept in the context's globals   *)
(*   by its event trigger / by the task it started when it was loaded.                         *)
(* Every reload step is judged on its own, from the OBSERVED state before it:                  *)
(*   post   = PostClause (the statement: ReloadCore part 3)                                    *)
(*   faith  = the observed state, execution order and counters are those of Mechanism(fl) for  *)
(*            some set fl of named deviations (ReloadCore part 2); the smallest such set is    *)
(*            the "why" of a rejection, "unexplained" if there is none                         *)
(*   state  = an untouched context kept its variables, its trigger and its task (counters      *)
(*            continue), a re-executed one starts from scratch                                 *)
EXTENDS ReloadCore, Json, IOUtils
Cases == JsonDeserialize(IOEnv.CASES)

ToSet(s) == { s[i] : i \in 1..Len(s) }
ConvFile(x) == [ex |-> x.ex, hash |-> x.hash, gen |-> x.gen, mtime |-> x.mtime, imps |-> ToSet(x.imps), wr |-> x.wr]
ConvFiles(fs) == [p \in PathSet |-> ConvFile(fs[p])]
ConvCtx(x) == [path |-> x.path, gen |-> x.gen, mtime |-> x.mtime, cfg |-> x.cfg, seen |-> x.seen, wr |-> x.wr, now |-> x.now, imports |-> ToSet(x.imports),
               inst |-> x.inst, started |-> x.started]
ConvObs(o) == [ctx |-> OverCtx([c \in CtxNames |-> ConvCtx(o.ctx[c])]), n |-> o.n, log |-> o.log,
               hits |-> OverCtx([c \in CtxNames |-> o.hits[c]]), ticks |-> OverCtx([c \in CtxNames |-> o.ticks[c]])]
ConvAct(a) == IF a.a \in {"modify", "create"} THEN [a |-> a.a, p |-> a.p, gen |-> a.gen, mtime |-> a.mtime, imps |-> ToSet(a.imps), wr |-> a.wr] ELSE a
Obs0 == [ctx |-> NoCtx, n |-> 0, log |-> <<>>, hits |-> [c \in CtxNames |-> 0], ticks |-> [c \in CtxNames |-> 0]]

Matches(r, o) == r.ctx = o.ctx /\ r.n = o.n /\ r.log = o.log
Explaining(F, H, G, pre, arg, o) == { fl \in SUBSET AllFlags : Matches(Mechanism(F, H, G, pre.ctx, pre.n, arg, fl), o) }
\* (a step that the deviations of the current tree explain is attributed to those, not to a hypothetical one)
Smallest(S) == LET T == IF \E fs \in S : fs \subseteq CodeFlags THEN { fs \in S : fs \subseteq CodeFlags } ELSE S
               IN CHOOSE fs \in T : \A g \in T : Cardinality(fs) <= Cardinality(g)
SetToSeq(S) == LET RECURSIVE F(_)
                   F(T) == IF T = {} THEN <<>> ELSE LET x == CHOOSE y \in T : TRUE IN <<x>> \o F(T \ {x})
               IN F(S)
StateKept(pre, o) ==
  \A c \in LoadedIn(o.ctx) :
     LET new == o.ctx[c].inst > pre.n IN
     /\ o.hits[c]  = (IF new THEN 0 ELSE pre.hits[c]) + (IF o.ctx[c].started THEN 1 ELSE 0)
     /\ o.ticks[c] = (IF new THEN 0 ELSE pre.ticks[c]) + 1
     \* its variable pyscript.app_config holds what it was handed and what its own code wrote into it since
     /\ o.ctx[c].now = NowOf(o.ctx[c].seen, o.ctx[c].wr, o.ctx[c].started)

\* verdict on one reload step
Judge(F, H, G, pre, arg, o, s1on) ==
  LET post == PostClause(pre.ctx, pre.n, F, H, G, arg, o.ctx, s1on)
      code == Matches(Mechanism(F, H, G, pre.ctx, pre.n, arg, CodeFlags), o)     \* the common case, tried first
      ex   == Explaining(F, H, G, pre, arg, o)
      why  == IF ex = {} THEN <<"unexplained">> ELSE SetToSeq(Smallest(ex))
  IN IF post # "ok" THEN [clause |-> post, why |-> why]
     ELSE IF ~StateKept(pre, o) THEN [clause |-> "untouched-state-lost", why |-> why]
     ELSE IF ~code /\ ex = {} THEN [clause |-> "mechanism-mismatch", why |-> why]
     ELSE [clause |-> "ok", why |-> <<>>]

\* fold over the steps; acc = [F, H, G, pre, s1on, fails, reloads]
RECURSIVE Run(_, _, _)
Run(c, k, acc) ==
  IF k > Len(c.steps) THEN acc
  ELSE LET st == c.steps[k] IN
       IF st.a = "reload"
       THEN LET o == ConvObs(st.obs)
                j == Judge(acc.F, acc.H, acc.G, acc.pre, st.arg, o, acc.s1on)
                exp == Mechanism(acc.F, acc.H, acc.G, acc.pre.ctx, acc.pre.n, st.arg, CodeFlags)      \* only evaluated for a rejection
            IN Run(c, k + 1, [acc EXCEPT !.pre = o,
                                        !.s1on = IF st.arg = "*" THEN TRUE ELSE (@ /\ j.clause # "changed-not-discarded"),
                                        !.skipped = @ + (IF acc.s1on \/ st.arg \notin {"", "*"} THEN 0 ELSE 1),
                                        !.fails = IF j.clause = "ok" THEN @
                                                  ELSE Append(@, [k |-> k, arg |-> st.arg, clause |-> j.clause, why |-> j.why,
                                                                  explog |-> exp.log, obslog |-> o.log])])
       ELSE LET a == ConvAct(st) IN
            Run(c, k + 1, [acc EXCEPT !.F = ApplyFiles(@, a), !.H = ApplyDirs(@, a), !.G = ApplyCfg(@, a)])

Verdict(c) == Run(c, 1, [F |-> ConvFiles(c.files), H |-> ToSet(c.hdirs), G |-> c.cfg, pre |-> Obs0, s1on |-> TRUE,
                          skipped |-> 0, fails |-> <<>>])

VARIABLE i
Init == i = 1
Next == i <= Len(Cases) /\ i' = i + 1
Spec == Init /\ [][Next]_i
Report == i <= Len(Cases) =>
  LET c == Cases[i]  v == Verdict(c)
  IN /\ (v.skipped > 0 => PrintT("INFO " \o ToJson([id |-> c.id, s1skipped |-> v.skipped])))
     /\ (v.fails # <<>> => PrintT("REJECT " \o ToJson([id |-> c.id, fails |-> v.fails])))
=============================================================================
