------------------------------ MODULE FaultCore ------------------------------
(* C18, shared operators.                                                                     *)
(*                                                                                            *)
(* Part 1 - frame attribution.  A program is a sequence of units (code objects as Python sees  *)
(* them); unit u = [id, kind, name, file, ctx, wraps, body]:                                   *)
(*   kind  "module" (module level of a file; Python calls the frame <module>, pyscript names   *)
(*         it after the global context: the recordings carry the context name for both - the   *)
(*         name is mapped, not compared), "func", "method", "nested", "wrapper" (the inner      *)
(*         function a user decorator returns; wraps = name of the decorated function),         *)
(*         "lambda", "classbody", "expr" (a trigger / active / filter expression: no frame in   *)
(*         Python; pyscript's frame for it is dropped from the recording), "waitexpr" (an       *)
(*         expression evaluated on behalf of a function that waits in task.wait_until: its      *)
(*         exception is delivered to the waiting function at the wait statement, which is a     *)
(*         "call" of this unit.  Python's counterpart is eval(compile(text, ..)): one frame     *)
(*         whose file and name are pseudo names - mapped, not compared - and whose line is the  *)
(*         line within the expression text)                                                    *)
(*   body  sequence of statements st:                                                         *)
(*         [k |-> "plain", line]                executes normally                             *)
(*         [k |-> "fault", line, exc]           raises exc; optional field cause (a fresh       *)
(*                                              exception given as `from`)                     *)
(*         [k |-> "call" | "classdef" | "import", line, callee]  runs unit callee (a call, the  *)
(*                                              body of a class statement, the load of an      *)
(*                                              imported module) and continues if that returns *)
(*         [k |-> "try", body, h, hline, exc]   try: body / except Exception as e: with handler *)
(*                                              h = "reraise" (bare raise) | "none" (raise exc  *)
(*                                              from None: nothing of the caught exception is  *)
(*                                              printed) | "from" (raise exc                   *)
(*                                              from e) | "ctx" (raise exc) | "swallow" (the    *)
(*                                              script handles the exception itself: nothing   *)
(*                                              is raised, execution continues after the try)  *)
(*   line  the line Python reports for the statement (generator's belief, checked against      *)
(*         CPython itself)                                                                    *)
(* Exec is Python's semantics of tracebacks: a frame per active unit from the entry down to    *)
(* the raise; a chained exception keeps its own traceback, which starts at the unit that        *)
(* caught it.  Printed = what gets printed: the chain oldest first, each part                    *)
(* [rel, exc, frames] with rel = "cause" | "context" (how it relates to the next) | "final".   *)
EXTENDS Naturals, Sequences, FiniteSets

Wild == "*"
Frame(u, line) == IF u.kind = "waitexpr" THEN [file |-> Wild, name |-> Wild, line |-> line, kind |-> u.kind, wraps |-> u.wraps]
                  ELSE [file |-> u.file, name |-> u.name, line |-> line, kind |-> u.kind, wraps |-> u.wraps]
Ok == [k |-> "ok"]
Raised(e, tb, chain) == [k |-> "exc", exc |-> e, tb |-> tb, chain |-> chain]

RECURSIVE ExecBody(_, _, _, _), ExecUnit(_, _)
ExecUnit(P, uid) == ExecBody(P, P[uid], P[uid].body, 1)
ExecBody(P, u, body, i) ==
  IF i > Len(body) THEN Ok
  ELSE LET st == body[i] IN
    CASE st.k = "plain" -> ExecBody(P, u, body, i + 1)
      [] st.k = "fault" ->
           LET own == IF u.kind = "expr" THEN <<>> ELSE <<Frame(u, st.line)>> IN
           IF "cause" \in DOMAIN st THEN Raised(st.exc, own, <<[rel |-> "cause", exc |-> st.cause, frames |-> <<>>]>>)
           ELSE Raised(st.exc, own, <<>>)
      [] st.k \in {"call", "classdef", "import"} ->
           LET r == ExecUnit(P, st.callee) IN
           IF r.k = "ok" THEN ExecBody(P, u, body, i + 1)
           ELSE Raised(r.exc, (IF u.kind = "expr" THEN <<>> ELSE <<Frame(u, st.line)>>) \o r.tb, r.chain)
      [] st.k = "try" ->
           LET r == ExecBody(P, u, st.body, 1) IN
           IF r.k = "ok" THEN ExecBody(P, u, body, i + 1)
           ELSE IF st.h = "swallow" THEN ExecBody(P, u, body, i + 1)                     \* handled by the script: nothing escapes
           ELSE IF st.h = "reraise" THEN r
           ELSE IF st.h = "none" THEN Raised(st.exc, <<Frame(u, st.hline)>>, <<>>)      \* raise exc from None: __suppress_context__
           ELSE Raised(st.exc, <<Frame(u, st.hline)>>,
                       r.chain \o <<[rel |-> IF st.h = "from" THEN "cause" ELSE "context", exc |-> r.exc, frames |-> r.tb]>>)

\* what is printed for an exception that leaves the entry unit
Printed(P, entry) ==
  LET r == ExecUnit(P, entry) IN
  IF r.k = "ok" THEN <<>> ELSE r.chain \o <<[rel |-> "final", exc |-> r.exc, frames |-> r.tb]>>
\* does the fault leave user code (FALSE: the script handled it itself, or nothing faulted)
Escapes(P, entry) == ExecUnit(P, entry).k # "ok"

(* ---- named deviations of the code (flags); {} = the property statement ------------------- *)
(*  "wrapper-renamed"   the frame of a decorator wrapper carries the decorated function's name *)
(*                      and merges into the frame of the function it calls                     *)
(*  "same-name-merge"   adjacent frames with equal file and name collapse into the deeper one  *)
(*                      (recursion, equally named methods)                                    *)
(*  "classbody-inline"  a class body has no frame of its own: it is named like the enclosing   *)
(*                      frame and merges with it                                              *)
(*  "lambda-name"       a lambda's frame is called __lambda_defn_temp__ and its file is the     *)
(*                      evaluation context's name (file not compared under this flag)          *)
(*  "chained-ctx-name"  in the traceback of a chained (cause / context) exception the frames   *)
(*                      of the unit that caught it carry the evaluation context's name and     *)
(*                      the entry script's file instead of the function's name and file        *)
(*                      (neither is compared under this flag; the line is)                     *)
(*  "import-frame"      the module-level frame of a module loaded by an import statement       *)
(*                      carries the importer's file (and the importer's function name when     *)
(*                      the import statement is inside a function)                             *)
(*  "stopiteration"     StopIteration leaving a function is replaced by RuntimeError           *)
(*                      ("coroutine raised StopIteration") with the original as its cause      *)
FrameFlags == <<"wrapper-renamed", "same-name-merge", "classbody-inline", "lambda-name", "chained-ctx-name", "import-frame", "stopiteration">>

RECURSIVE Rename(_, _, _, _)
\* frames with deviant names / files, left to right (prev = the already renamed previous frame)
Rename(tb, i, acc, flags) ==
  IF i > Len(tb) THEN acc
  ELSE LET f == tb[i]
           prev == IF Len(acc) > 0 THEN acc[Len(acc)] ELSE f
           g == IF f.kind = "wrapper" /\ "wrapper-renamed" \in flags THEN [f EXCEPT !.name = f.wraps]
                ELSE IF f.kind = "classbody" /\ "classbody-inline" \in flags /\ Len(acc) > 0 THEN [f EXCEPT !.name = prev.name, !.file = prev.file]
                ELSE IF f.kind = "lambda" /\ "lambda-name" \in flags THEN [f EXCEPT !.name = "__lambda_defn_temp__", !.file = Wild]
                ELSE IF f.kind = "module" /\ "import-frame" \in flags /\ Len(acc) > 0
                     THEN LET fn == { j \in 1..Len(acc) : acc[j].kind # "module" } IN      \* function activations entered so far
                          [f EXCEPT !.file = prev.file,
                                    !.name = IF fn = {} THEN f.name ELSE acc[CHOOSE j \in fn : \A k \in fn : k <= j].name]
                ELSE f
       IN Rename(tb, i + 1, Append(acc, g), flags)

\* a mapped name / file (Wild: the frame of an expression a function waits for, which pyscript names after the waiting
\* function or "wait_until"; the context-named leading frame of a chained part) is not known to equal anything: such
\* frames belong to another evaluation and never merge - two Wild frames are NOT "equally named"
Mergeable(a, b, flags) ==
  /\ a.name # Wild /\ b.name # Wild /\ a.file # Wild /\ b.file # Wild
  /\ a.file = b.file /\ a.name = b.name /\ b.kind # "module"
  /\ \/ "same-name-merge" \in flags
     \/ "wrapper-renamed" \in flags /\ a.kind = "wrapper"
     \/ "classbody-inline" \in flags /\ b.kind = "classbody"
RECURSIVE Merge(_, _, _, _)
Merge(tb, i, acc, flags) ==
  IF i > Len(tb) THEN acc
  ELSE IF Len(acc) > 0 /\ Mergeable(acc[Len(acc)], tb[i], flags)
       THEN Merge(tb, i + 1, [acc EXCEPT ![Len(acc)] = tb[i]], flags)          \* the deeper frame replaces the other
       ELSE Merge(tb, i + 1, Append(acc, tb[i]), flags)

\* a chained traceback starts with the activation that caught the exception: that one frame is affected
\* (deeper activations of an equally named function are entered through a call and named properly)
Leading(tb, i) == IF Len(tb) = 0 \/ tb[1].kind = "module" THEN 0 ELSE 1
Chained(tb, flags) == IF "chained-ctx-name" \in flags
                      THEN [i \in 1..Len(tb) |-> IF i <= Leading(tb, 1) THEN [tb[i] EXCEPT !.name = Wild, !.file = Wild] ELSE tb[i]]
                      ELSE tb

DevPart(p, flags) == [p EXCEPT !.frames = Merge(Rename(IF p.rel = "final" THEN p.frames ELSE Chained(p.frames, flags), 1, <<>>, flags), 1, <<>>, flags)]
RECURSIVE DevParts(_, _, _)
DevParts(rep, i, flags) ==
  IF i > Len(rep) THEN <<>>
  ELSE LET p == DevPart(rep[i], flags) IN
       (IF p.exc = "StopIteration" /\ "stopiteration" \in flags /\ Len(p.frames) > 0
        THEN <<[rel |-> "cause", exc |-> "StopIteration", frames |-> <<>>], [p EXCEPT !.exc = "RuntimeError"]>>
        ELSE <<p>>) \o DevParts(rep, i + 1, flags)
Expected(P, entry, flags) == DevParts(Printed(P, entry), 1, flags)

\* comparison with an observed report: parts [rel, exc, frames : << [file, name, line] >>]
FrameEq(e, o) == (e.file = Wild \/ e.file = o.file) /\ e.line = o.line /\ (e.name = Wild \/ e.name = o.name)
PartEq(e, o) == /\ e.rel = o.rel /\ e.exc = o.exc /\ Len(e.frames) = Len(o.frames)
                /\ \A i \in 1..Len(e.frames) : FrameEq(e.frames[i], o.frames[i])
ReportEq(E, O) == Len(E) = Len(O) /\ \A i \in 1..Len(E) : PartEq(E[i], O[i])

(* Part 2 - containment.  Entry points of user code and the layer that must catch an           *)
(* exception raised there.  Layers, innermost first:                                           *)
(*   "user"     a handler in the script's own code on the way (try / except that does not       *)
(*              re-raise): the script handled its own error - nothing is logged, the run goes   *)
(*              on (Escapes = FALSE)                                                            *)
(*   "deliver"  wait expressions only: the wait machinery hands the exception to the waiting    *)
(*              function (raises it at the wait statement); it is not a handler: logs nothing   *)
(*   "waiter"   wait expressions only: a handler of the waiting function around the wait        *)
(*              statement (user code again)                                                     *)
(*   "entry"    the wrapper pyscript puts around that entry point: logs on the script's logger *)
(*   "runcoro"  Function.run_coro's catch-all: logs one line on the integration's own logger   *)
(*   "loop"     the trigger's watch loop: logs on the integration's logger and ENDS the loop   *)
(*   "ha"       nothing caught it: the exception reaches Home Assistant / the event loop       *)
Entries == {"load", "import-load", "trigger-func", "trigger-func-state", "service-func", "trigger-expr", "filter-expr",
            "active-expr", "done-callback", "created-task", "wait-expr", "wait-filter-expr"}
\* expressions evaluated on behalf of a function that waits (task.wait_until): their exception is delivered to the waiter
WaitEntries == {"wait-expr", "wait-filter-expr"}
Subsystems == {"dm", "legacy"}
\* named deviation: in the dm subsystem nothing wraps the call of a trigger function
ContainFlags == <<"dm-trigger-func-uncaught">>
CatchLayer(e, sub, flags) ==
  IF e \in {"trigger-func", "trigger-func-state"} /\ sub = "dm" /\ "dm-trigger-func-uncaught" \in flags THEN "runcoro" ELSE "entry"
LogsOnOwnLogger(layer) == layer = "entry"
KeepsServing(layer)    == layer \in {"entry", "runcoro"}
ReachesHA(layer)       == layer = "ha"
=============================================================================
