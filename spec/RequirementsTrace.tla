------------------------- MODULE RequirementsTrace -------------------------
(* Batch acceptor for recordings of the real requirements code (C20).  A case is a history  *)
(*   [id, runs : << run >>]   of starts of pyscript against one environment; a run is        *)
(*   lines : the requirement lines of all files (any order), each [f, p, v, toks]: toks is   *)
(*           the text written to the file as a token sequence (RequirementsCore!Classify     *)
(*           says what it means), f, p, v the generator's label (cross-checked: "bridge")   *)
(*   sels  : tables returned by process_all_requirements, one per tried permutation of the  *)
(*           files and lines:  << [p |-> name, r |-> [k |-> "pin", v] | [k |-> "unpinned"]   *)
(*           | [k |-> "garbage"]] >>                                                         *)
(*   allow, inst, rec : allow_all_imports, environment and pyscript's record before the run *)
(*   calls : requirements handed to Home Assistant's installer (same shape as a table)      *)
(*   after, rec2 : environment and record after the run;  extra : record keys that are not  *)
(*           package names;  exc : exception class escaping install_requirements ("" none)  *)
(*   how   : what led to this run - "first" | "again" (install_requirements called again on  *)
(*           the same entry) | "reload" (pyscript.reload service) | "restart" (Home          *)
(*           Assistant stopped and started; the entry was re-created from storage)           *)
(*   rec   : the record the previous run left in the entry (first run: the initial record); *)
(*   loaded: the record read from the entry right before this run (after a restart: from    *)
(*           the entry HA re-created from storage)                                           *)
(*   disk2 : the record in HA's storage after the run, once HA has written what was pending *)
(*           (virtual time passes);  diskextra : stored record keys that are not packages   *)
(* Versions are sequences of naturals, <<>> = none, <<-1>> = not a version.                  *)
(* Same Select / Decide / RecordsOk as the model.  Verdicts are total.                       *)
EXTENDS RequirementsCore, Integers, Json, IOUtils

Cases == JsonDeserialize(IOEnv.CASES)
P4 == {"aa", "bb", "cc", "dd"}

Names(t) == { t[i].p : i \in 1..Len(t) }
Entry(t, p) == t[CHOOSE i \in 1..Len(t) : t[i].p = p].r
\* a table (selection or installer calls) agrees with what is wanted for the packages in S
Matches(t, L, S) ==
  /\ Names(t) = S /\ Cardinality(Names(t)) = Len(t)                    \* exactly these packages, one entry each
  /\ \A p \in S : LET e == Select(L, p)  o == Entry(t, p) IN
        IF e.k = "unpinned" THEN o.k = "unpinned" ELSE o.k = "pin" /\ VEq(o.v, e.v)

RunVerdict(r) ==
  LET L == LineSet(r.lines)
      want == [p \in P4 |-> Select(L, p)]
      ins == { p \in P4 : Decide(r.inst[p], r.rec[p], want[p], r.allow) }
  IN IF \E l \in L : ~LabelOk(l) THEN "bridge"                                 \* the generator wrote something else than it meant
     ELSE IF ~CarryOk(r.rec, r.loaded, P4) THEN "carry"                        \* the record did not survive to this run
     ELSE IF \E i \in 1..Len(r.sels) : ~Matches(r.sels[i], L, Mentioned(L)) THEN "selection"
     ELSE IF r.exc # "" THEN "exception"
     ELSE IF ~Matches(r.calls, L, ins) THEN "install"
     ELSE IF r.extra # 0 \/ \E p \in P4 :
               ~\E ok \in RecordsOk(r.inst[p], r.rec[p], want[p], r.allow, r.after[p]) : SameVer(ok, r.rec2[p]) THEN "record"
     ELSE IF r.diskextra # 0 \/ ~PersistOk(r.rec2, r.disk2, P4) THEN "persist"   \* storage does not hold the record
     ELSE ""

RECURSIVE Runs(_, _)
Runs(c, k) == IF k > Len(c.runs) THEN [ok |-> TRUE, at |-> 0, why |-> ""]
              ELSE LET w == RunVerdict(c.runs[k]) IN
                   IF w = "" THEN Runs(c, k + 1) ELSE [ok |-> FALSE, at |-> k, why |-> w]

VARIABLE i
Init == i = 1
Next == i <= Len(Cases) /\ i' = i + 1
Spec == Init /\ [][Next]_i
Report == i <= Len(Cases) =>
  LET v == Runs(Cases[i], 1)
  IN IF v.ok THEN TRUE ELSE PrintT("REJECT " \o ToJson([id |-> Cases[i].id, at |-> v.at, why |-> v.why]))
=============================================================================
