SPECIFICATION Spec
INVARIANTS T_EveryParameterBoundExactlyOnce T_NoExtraNames T_ErrorIffNoValidAssignment T_ReservedOnlyDrops
CHECK_DEADLOCK FALSE
