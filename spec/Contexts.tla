------------------------------ MODULE Contexts ------------------------------
(* C11 state machine: the ContextsCore machine run, step by step, on every program of a small *)
(* grammar over three contexts (two script files a, b and a module m, imported in every form: *)
(* import m / from m import f, g, x / from m import * ), with overlapping global names, a      *)
(* function that writes its own globals, one that raises, cross-file call chains, a trigger    *)
(* and a created task.  (M) TLC checks the invariants at every step of every program:          *)
(*   WritesOnlyToOwnGlobals, PointerRestoredOnEveryExit, OneInstancePerModule                  *)
(* with Flags = {} ; with each mutant flag the corresponding invariant must be violated        *)
(* (witness that the invariants are not vacuous).                                              *)
EXTENDS ContextsCore, Json

CONSTANTS Flags,        \* deviations built into the machine ({} = the statement)
          OpsA,         \* number of free statements in file a (1..2)
          Mode          \* "plain": files a, b + module m; "rel": package k (__init__ + members u, v) with relative imports;
                        \* "conc": two activations of one module function at a time - suspended callers from two files,
                        \*         a re-entrant callback chain a -> m.apply -> a.cb -> m.apply, recursion across a file boundary

VARIABLES P, S
vars == <<P, S>>

Set(x, v) == [op |-> "set", x |-> x, v |-> v]
Loc(x, v) == [op |-> "loc", x |-> x, v |-> v]
Read(x, tag) == [op |-> "read", x |-> x, tag |-> tag]
ReadAttr(m, x, tag) == [op |-> "readattr", m |-> m, x |-> x, tag |-> tag]
SetAttr(m, x, v) == [op |-> "setattr", m |-> m, x |-> x, v |-> v]
Raise == [op |-> "raise"]
Def(f, body, trig) == [op |-> "def", f |-> f, body |-> body, trig |-> trig]
Call(f, via) == [op |-> "call", f |-> f, via |-> via]
TryCall(f, via, tag) == [op |-> "trycall", f |-> f, via |-> via, tag |-> tag]
Task(f) == [op |-> "task", f |-> f]
Sleep(t) == [op |-> "sleep", t |-> t]
DCall(f, via, cb) == [op |-> "dcall", f |-> f, via |-> via, cb |-> cb]
Import(form, target, alt, as, names) == [op |-> "import", form |-> form, target |-> target, alt |-> alt, as |-> as, names |-> names]
ImportM(form) == Import(form, "modules.m", "modules.m", "m", <<"f", "g", "x">>)

\* module m: data x, private _p, f (variable body), g raises
FBodies == { <<Set("x", "m1")>>, <<Read("x", "f.x")>>, <<Loc("x", "fl"), Read("x", "f.x")>>, <<Call("g", "")>>,
             <<Set("x", "m1"), Call("g", "")>> }
MBody(fb) == << Set("WHO", "m"), Set("x", "m0"), Set("_p", "mp"), Def("g", <<Raise>>, ""), Def("f", fb, "") >>
\* statements a file may run after importing m in the given form
Ops(form, who) ==
  { Set("x", who), Read("x", "r.x"), Read("f", "r.f"), TryCall("g", IF form = "mod" THEN "m" ELSE "", "t.g"),
    TryCall("f", IF form = "mod" THEN "m" ELSE "", "t.f"), TryCall("w", "", "t.w") }          \* w: defined in file b only
  \cup (IF form = "mod" THEN { ReadAttr("m", "x", "r.mx"), SetAttr("m", "x", who) } ELSE {})
  \cup (IF form = "star" THEN { Read("_p", "r.p") } ELSE {})
Forms == {"mod", "from", "star"}
Seqs(A, n) == IF n = 1 THEN { <<a>> : a \in A } ELSE { <<a, b>> : a \in A, b \in A }
ABody(form, ops) == << Set("WHO", "a"), Set("x", "a0") >> \o << ImportM(form) >> \o ops \o << Read("x", "a.x") >>
\* file b: imports m as well, defines a trigger function that calls across files, catches the raise, then
\* reads its own x and starts a task
BBody(form, op) ==
  << Set("WHO", "b"), Set("x", "b0"), ImportM(form), op,
     Def("w", << Read("x", "w.x") >>, ""),
     Def("t", << TryCall("g", IF form = "mod" THEN "m" ELSE "", "t.g"), Read("x", "t.x"), Set("x", "b2"), Task("w") >>, "e1") >>

\* package grammar: k/__init__.py, k/u.py, k/v.py; a imports k; relative imports of every form
KInit(f1, f2) == << Set("WHO", "k"), Set("x", "k0"), Import(f1, "modules.k.u", "modules.k.u", "u", <<"fu">>),
                    Import(f2, "modules.k.v", "modules.k.v", "v", <<"fv">>) >>
KU(f3) == << Set("WHO", "u"), Set("x", "u0"), Import(f3, "modules.k.v", "modules.k.u.v", "v", <<"fv">>),
             Def("fu", << Set("x", "u1"), TryCall("fv", IF f3 = "mod" THEN "v" ELSE "", "fu.fv"), Read("x", "fu.x") >>, "") >>
KV == << Set("WHO", "v"), Set("x", "v0"), Def("fv", << Set("x", "v1") >>, "") >>
ARel == << Set("WHO", "a"), Set("x", "a0"), Import("mod", "modules.k", "modules.k", "k", <<>>), ReadAttr("k", "x", "a.kx"),
           Read("x", "a.x") >>

\* concurrency / re-entrancy grammar.  m: slow() suspends between a write and a read of its own global; apply() calls
\* the callback it was given (passing it on); rec() calls itself.  a and b import m (any form), each has a trigger
\* function that runs one of {slow, apply with its own callback cb, rec} and then reads its own global and context;
\* a.cb / b.cb call m.apply again (depth-guarded): a -> m.apply -> a.cb -> m.apply -> a.cb.
MConc == << Set("WHO", "m"), Set("x", "m0"),
            Def("slow", << Set("x", "m1"), Sleep(8), Read("x", "slow.x"), Sleep(16), Read("WHO", "slow.who") >>, ""),
            Def("apply", << DCall("_cb", "", "_cb"), Read("WHO", "apply.who") >>, ""),
            Def("rec", << DCall("rec", "", ""), Read("WHO", "rec.who") >>, "") >>
UseOps(form, tag) == LET via == IF form = "mod" THEN "m" ELSE "" IN
  { << TryCall("slow", via, tag \o ".slow") >>, << DCall("apply", via, "cb") >>, << DCall("rec", via, "") >>,
    << TryCall("slow", via, tag \o ".slow"), DCall("apply", via, "cb") >> }
ConcBody(who, form, use, ev, eps) ==
  << Set("WHO", who), Set("x", who \o "0"), Import(form, "modules.m", "modules.m", "m", <<"slow", "apply", "rec">>),
     Def("cb", << DCall("apply", IF form = "mod" THEN "m" ELSE "", "cb"), Read("WHO", who \o ".cb.who") >>, ""),
     Def("t", << Sleep(eps), Loc("y", who \o "l") >> \o use \o << Read("WHO", who \o ".t.who"), Read("y", who \o ".t.y"),
                 [op |-> "getctx", tag |-> who \o ".t.ctx"] >>, ev) >>

File(body, auto) == [body |-> body, auto |-> auto]
Progs ==
  IF Mode = "conc"
  THEN { [files |-> ("file.a" :> File(ConcBody("a", fa, ua, "e1", 1), TRUE)) @@ ("file.b" :> File(ConcBody("b", fb, ub, "e2", 2), TRUE)) @@
                    ("modules.m" :> File(MConc, FALSE)),
          order |-> <<"file.a", "file.b">>, events |-> <<"e1", "e2">>]
         : <<fa, ua>> \in UNION { { <<f, u>> : u \in UseOps(f, "a") } : f \in Forms },
           <<fb, ub>> \in UNION { { <<f, u>> : u \in UseOps(f, "b") } : f \in Forms } }
  ELSE IF Mode = "rel"
  THEN { [files |-> ("file.a" :> File(ARel, TRUE)) @@ ("modules.k" :> File(KInit(f1, f2), FALSE)) @@
                    ("modules.k.u" :> File(KU(f3), FALSE)) @@ ("modules.k.v" :> File(KV, FALSE)),
          order |-> <<"file.a">>, events |-> <<>>] : f1 \in Forms, f2 \in Forms, f3 \in Forms }
  ELSE { [files |-> ("file.a" :> File(ABody(fa, ops), TRUE)) @@ ("file.b" :> File(BBody(fb, op), TRUE)) @@
                    ("modules.m" :> File(MBody(body), FALSE)),
          order |-> <<"file.a", "file.b">>, events |-> <<"e1">>]
         : <<fa, ops>> \in UNION { { <<f, o>> : o \in Seqs(Ops(f, "a1"), OpsA) } : f \in Forms },
           <<fb, op>> \in UNION { { <<f, o>> : o \in Ops(f, "b1") } : f \in Forms }, body \in FBodies }

Init == P \in Progs /\ S = Start(P)
\* any suspended evaluator may be the next to run: all interleavings of the activations
Next == ~Done(S) /\ \E i \in Choices(S) : S' = StepPick(P, S, Flags, i) /\ UNCHANGED P
Spec == Init /\ [][Next]_vars

InvWrites   == WritesOnlyToOwnGlobals(S)
InvPointer  == PointerRestoredOnEveryExit(S)
InvInstance == OneInstancePerModule(S) /\ OneContextPerFile(P, S)
InvOk       == S.ok
\* witnesses (expected to be violated): calls across contexts happen, exceptions cross contexts, modules are shared
W_NoCrossCall  == ~(Len(S.stack) >= 2 /\ Top(S).kind = "call" /\ Top(S).own # S.stack[Len(S.stack) - 1].own)
W_NoCaught     == ~(\E i \in 1..Len(S.log) : S.log[i].v = Data("caught"))
W_NoSharedSeen == ~(\E i \in 1..Len(S.log) : S.log[i].tag = "r.mx" /\ S.log[i].v = Data("a1") /\ S.ptr = "file.b")
W_NoTask       == ~(S.stack # <<>> /\ Top(S).kind = "call" /\ Len(S.stack) = 1 /\ Top(S).src = "file.b" /\ \E i \in 1..Len(S.log) : S.log[i].tag = "w.x")
\* two activations of one function at the same time: in two evaluators (one suspended inside it) / nested in one stack
FKeys(st) == { st[i].fkey : i \in { j \in 1..Len(st) : st[j].kind = "call" } }
W_NoInterleave == ~(S.stack # <<>> /\ \E i \in 1..Len(S.sleepers) : \E k \in FKeys(S.stack) \cap FKeys(S.sleepers[i].stack) : k.ctx = "modules.m")
W_NoReentry    == ~(\E i, j \in 1..Len(S.stack) : i + 1 < j /\ S.stack[i].kind = "call" /\ S.stack[j].kind = "call"
                      /\ S.stack[i].fkey = S.stack[j].fkey /\ S.stack[i].fkey.name = "apply" /\ S.stack[i + 1].own # S.stack[i].own)
W_NoRecursion  == ~(\E i \in 1..Len(S.stack) : i > 1 /\ i < Len(S.stack) /\ S.stack[i].kind = "call" /\ S.stack[i].fkey.name = "rec"
                      /\ S.stack[i + 1].kind = "call" /\ S.stack[i + 1].fkey = S.stack[i].fkey /\ S.stack[i - 1].own # S.stack[i].own)
\* all witnesses in one run (workers = 1): registers set by the invariant WitTrack, printed by the post-condition
WitNames == << "W_NoCrossCall", "W_NoCaught", "W_NoSharedSeen", "W_NoTask", "W_NoInterleave", "W_NoReentry", "W_NoRecursion" >>
WitVal(k) == CASE k = 1 -> ~W_NoCrossCall [] k = 2 -> ~W_NoCaught [] k = 3 -> ~W_NoSharedSeen [] k = 4 -> ~W_NoTask
               [] k = 5 -> ~W_NoInterleave [] k = 6 -> ~W_NoReentry [] k = 7 -> ~W_NoRecursion
ASSUME \A k \in 1..Len(WitNames) : TLCSet(k, FALSE)
WitTrack  == \A k \in 1..Len(WitNames) : WitVal(k) => TLCSet(k, TRUE)
WitReport == PrintT("INFO " \o ToJson([seen |-> { WitNames[k] : k \in { j \in 1..Len(WitNames) : TLCGet(j) } }]))
=============================================================================
