------------------------------ MODULE Contexts ------------------------------
(* C11 state machine: the ContextsCore machine run, step by step, on every program of a small *)
(* grammar over three contexts (two script files a, b and a module m, imported in every form: *)
(* import m / from m import f, g, x / from m import * ), with overlapping global names, a      *)
(* function that writes its own globals, one that raises, cross-file call chains, a trigger    *)
(* and a created task.  (M) TLC checks the invariants at every step of every program:          *)
(*   WritesOnlyToOwnGlobals, PointerRestoredOnEveryExit, OneInstancePerModule                  *)
(* with Flags = {} ; with each mutant flag the corresponding invariant must be violated        *)
(* (witness that the invariants are not vacuous).                                              *)
EXTENDS ContextsCore, Json

CONSTANTS Flags,        \* deviations built into the machine ({} = the statement)
          OpsA,         \* number of free statements in file a (1..2)
          Mode          \* "plain": files a, b + module m; "rel": package k (__init__ + members u, v) with relative imports;
                        \* "conc": two activations of one module function at a time - suspended callers from two files,
                        \*         a re-entrant callback chain a -> m.apply -> a.cb -> m.apply, recursion across a file boundary
                        \* "deco": function values made by another file's code - a decorator / factory of m returning a closure,
                        \*         applied by a and b with decorator syntax (also below @event_trigger), explicitly, or as a factory
                        \* "task": context-bound functions (current context, task.wait_until expression) in created tasks whose
                        \*         code belongs to another file than their creator's, creator alive elsewhere or finished
                        \* "cancel": evaluators cancelled (task.unique, also kill_me) while suspended inside a function of another
                        \*         file, with clean-up code (try / finally, nested, in caller and callee) that reads and writes globals

VARIABLES P, S
vars == <<P, S>>

Set(x, v) == [op |-> "set", x |-> x, v |-> v]
Loc(x, v) == [op |-> "loc", x |-> x, v |-> v]
Read(x, tag) == [op |-> "read", x |-> x, tag |-> tag]
ReadAttr(m, x, tag) == [op |-> "readattr", m |-> m, x |-> x, tag |-> tag]
SetAttr(m, x, v) == [op |-> "setattr", m |-> m, x |-> x, v |-> v]
Raise == [op |-> "raise"]
DDef(f, body, trig, deco, dvia) == [op |-> "def", f |-> f, body |-> body, trig |-> trig, deco |-> deco, dvia |-> dvia, kind |-> "std"]
Def(f, body, trig) == DDef(f, body, trig, "", "")
Deco(f, body) == [op |-> "def", f |-> f, body |-> body, trig |-> "", deco |-> "", dvia |-> "", kind |-> "deco"]
LDef(f, body) == [op |-> "ldef", f |-> f, body |-> body]
Ret(x) == [op |-> "ret", x |-> x]
FCall == [op |-> "fcall"]
BindCall(x, f, via, arg) == [op |-> "bindcall", x |-> x, f |-> f, via |-> via, arg |-> arg]
GetCtx(tag) == [op |-> "getctx", tag |-> tag]
ListCtx(tag) == [op |-> "listctx", tag |-> tag]
WExpr(x, v, t, tag) == [op |-> "wexpr", x |-> x, v |-> v, t |-> t, tag |-> tag]
Call(f, via) == [op |-> "call", f |-> f, via |-> via]
TryCall(f, via, tag) == [op |-> "trycall", f |-> f, via |-> via, tag |-> tag]
TaskV(f, via) == [op |-> "task", f |-> f, via |-> via]
Task(f) == TaskV(f, "")
Sleep(t) == [op |-> "sleep", t |-> t]
DCall(f, via, cb) == [op |-> "dcall", f |-> f, via |-> via, cb |-> cb]
Try(body, fin) == [op |-> "try", body |-> body, fin |-> fin]
Unique(n, km) == [op |-> "unique", n |-> n, killme |-> km]
Import(form, target, alt, as, names) == [op |-> "import", form |-> form, target |-> target, alt |-> alt, as |-> as, names |-> names]
ImportM(form) == Import(form, "modules.m", "modules.m", "m", <<"f", "g", "x">>)

\* module m: data x, private _p, f (variable body), g raises
FBodies == { <<Set("x", "m1")>>, <<Read("x", "f.x")>>, <<Loc("x", "fl"), Read("x", "f.x")>>, <<Call("g", "")>>,
             <<Set("x", "m1"), Call("g", "")>> }
MBody(fb) == << Set("WHO", "m"), Set("x", "m0"), Set("_p", "mp"), Def("g", <<Raise>>, ""), Def("f", fb, "") >>
\* statements a file may run after importing m in the given form
Ops(form, who) ==
  { Set("x", who), Read("x", "r.x"), Read("f", "r.f"), TryCall("g", IF form = "mod" THEN "m" ELSE "", "t.g"),
    TryCall("f", IF form = "mod" THEN "m" ELSE "", "t.f"), TryCall("w", "", "t.w") }          \* w: defined in file b only
  \cup (IF form = "mod" THEN { ReadAttr("m", "x", "r.mx"), SetAttr("m", "x", who) } ELSE {})
  \cup (IF form = "star" THEN { Read("_p", "r.p") } ELSE {})
Forms == {"mod", "from", "star"}
Seqs(A, n) == IF n = 1 THEN { <<a>> : a \in A } ELSE { <<a, b>> : a \in A, b \in A }
ABody(form, ops) == << Set("WHO", "a"), Set("x", "a0") >> \o << ImportM(form) >> \o ops \o << Read("x", "a.x") >>
\* file b: imports m as well, defines a trigger function that calls across files, catches the raise, then
\* reads its own x and starts a task
BBody(form, op) ==
  << Set("WHO", "b"), Set("x", "b0"), ImportM(form), op,
     Def("w", << Read("x", "w.x") >>, ""),
     Def("t", << TryCall("g", IF form = "mod" THEN "m" ELSE "", "t.g"), Read("x", "t.x"), Set("x", "b2"), Task("w") >>, "e1") >>

\* package grammar: k/__init__.py, k/u.py, k/v.py; a imports k; relative imports of every form
KInit(f1, f2) == << Set("WHO", "k"), Set("x", "k0"), Import(f1, "modules.k.u", "modules.k.u", "u", <<"fu">>),
                    Import(f2, "modules.k.v", "modules.k.v", "v", <<"fv">>) >>
KU(f3) == << Set("WHO", "u"), Set("x", "u0"), Import(f3, "modules.k.v", "modules.k.u.v", "v", <<"fv">>),
             Def("fu", << Set("x", "u1"), TryCall("fv", IF f3 = "mod" THEN "v" ELSE "", "fu.fv"), Read("x", "fu.x") >>, "") >>
KV == << Set("WHO", "v"), Set("x", "v0"), Def("fv", << Set("x", "v1") >>, "") >>
ARel == << Set("WHO", "a"), Set("x", "a0"), Import("mod", "modules.k", "modules.k", "k", <<>>), ReadAttr("k", "x", "a.kx"),
           Read("x", "a.x") >>

\* concurrency / re-entrancy grammar.  m: slow() suspends between a write and a read of its own global; apply() calls
\* the callback it was given (passing it on); rec() calls itself.  a and b import m (any form), each has a trigger
\* function that runs one of {slow, apply with its own callback cb, rec} and then reads its own global and context;
\* a.cb / b.cb call m.apply again (depth-guarded): a -> m.apply -> a.cb -> m.apply -> a.cb.
MConc == << Set("WHO", "m"), Set("x", "m0"),
            Def("slow", << Set("x", "m1"), Sleep(8), Read("x", "slow.x"), Sleep(16), Read("WHO", "slow.who") >>, ""),
            Def("apply", << DCall("_cb", "", "_cb"), Read("WHO", "apply.who") >>, ""),
            Def("rec", << DCall("rec", "", ""), Read("WHO", "rec.who") >>, "") >>
UseOps(form, tag) == LET via == IF form = "mod" THEN "m" ELSE "" IN
  { << TryCall("slow", via, tag \o ".slow") >>, << DCall("apply", via, "cb") >>, << DCall("rec", via, "") >>,
    << TryCall("slow", via, tag \o ".slow"), DCall("apply", via, "cb") >> }
ConcBody(who, form, use, ev, eps) ==
  << Set("WHO", who), Set("x", who \o "0"), Import(form, "modules.m", "modules.m", "m", <<"slow", "apply", "rec">>),
     Def("cb", << DCall("apply", IF form = "mod" THEN "m" ELSE "", "cb"), Read("WHO", who \o ".cb.who") >>, ""),
     Def("t", << Sleep(eps), Loc("y", who \o "l") >> \o use \o << Read("WHO", who \o ".t.who"), Read("y", who \o ".t.y"),
                 GetCtx(who \o ".t.ctx") >>, ev) >>

\* decorator grammar.  m: decorator d (returns a closure w over _fn that reads / writes m's global x before or after calling
\* the wrapped function, or returns _fn itself).  a binds f through d in one of three ways, calls it, reads its own x; a has
\* a trigger function - decorated itself (the trigger runs m's closure, which runs a's function) or plain (calls f).  b
\* decorates a function of its own with the same decorator.
WBodies == { << Set("x", "mw"), FCall >>, << Read("x", "w.x"), FCall, GetCtx("w.ctx") >>, << FCall, Set("x", "mw") >>,
             << Loc("x", "wl"), FCall, Read("x", "w.x") >>, << WExpr("x", "m0", 8, "w.wx"), FCall >> }
DBodies == { << LDef("w", wb), Ret("w") >> : wb \in WBodies } \cup { << Set("x", "md"), LDef("w", wb), Ret("w") >> : wb \in WBodies }
           \cup { << Ret("_fn") >> }
MDeco(db) == << Set("WHO", "m"), Set("x", "m0"), Deco("d", db) >>
FBs == { << Set("x", "af") >>, << Read("x", "f.x"), GetCtx("f.ctx") >>, << Raise >> }
Hows == {"syntax", "explicit", "factory"}
ImportD(form) == Import(form, "modules.m", "modules.m", "m", <<"d">>)
ADeco(form, how, fb, trigdeco) ==
  LET via == IF form = "mod" THEN "m" ELSE "" IN
  << Set("WHO", "a"), Set("x", "a0"), ImportD(form) >>
  \o (IF how = "syntax" THEN << DDef("f", fb, "", "d", via) >>
      ELSE IF how = "explicit" THEN << Def("f", fb, ""), BindCall("f", "d", via, "f") >> ELSE << BindCall("f", "d", via, "") >>)
  \o << TryCall("f", "", "a.f"), Read("f", "a.rf"), Read("x", "a.x"), GetCtx("a.ctx") >>
  \o (IF trigdeco THEN << DDef("t", << Sleep(1), Read("x", "t.x"), GetCtx("t.ctx") >>, "e1", "d", via) >>
      ELSE << Def("t", << Sleep(1), TryCall("f", "", "t.f"), Read("x", "t.x"), GetCtx("t.ctx") >>, "e1") >>)
BDeco(form) == << Set("WHO", "b"), Set("x", "b0"), ImportD(form), DDef("f", << Set("x", "bf") >>, "", "d", IF form = "mod" THEN "m" ELSE ""),
                  TryCall("f", "", "b.f"), Read("x", "b.x") >>

\* created-task grammar.  m: job j (suspends, asks for its context, waits on an expression over m's x, reads x), slow (suspends
\* inside m).  a and b: own job ja / jb, a trigger function that creates a task (m's job - code of another file - or its own)
\* and then ends, asks for its context, or stays suspended inside m.slow while the task runs.
MTask == << Set("WHO", "m"), Set("x", "m0"),
            Def("j", << Sleep(16), GetCtx("j.ctx"), WExpr("x", "m0", 1024, "j.wx"), Read("x", "j.x") >>, ""),
            Def("slow", << Sleep(1024), GetCtx("slow.ctx") >>, "") >>
Afters(via) == { <<>>, << Call("slow", via) >>, << GetCtx("t.ctx") >> }
TBody(who, form, own, aft, ev, eps) ==
  LET via == IF form = "mod" THEN "m" ELSE "" IN
  << Set("WHO", who), Set("x", who \o "0"), Import(form, "modules.m", "modules.m", "m", <<"j", "slow">>),
     Def("jo", << Sleep(32 * eps), ListCtx(who \o ".jo.ctx"), WExpr("x", "m0", 2048, who \o ".jo.wx") >>, ""),
     Def("t", << Sleep(eps), IF own THEN Task("jo") ELSE TaskV("j", via) >> \o aft, ev) >>

\* cancellation grammar.  m: slow (suspends inside its own try / finally), hold (takes the task name "u" - in m's name space - and
\* suspends), km (task.unique("u", kill_me=True) in m's name space), boom (raises).  a: trigger function t1 (the victim: takes "u" in
\* a's name space or lets m take it in m's, then runs a function of m inside try / finally - plain, nested, through a try-call,
\* or suspends itself) and trigger function t2 (takes the same names later); b: trigger function t3 doing the same from another file
\* (its own "u" is another name; m's is the same).  All interleavings of the three.
MCancel == << Set("WHO", "m"), Set("x", "m0"),
              Def("slow", << Try(<< Sleep(64) >>, << Read("x", "slow.fx"), GetCtx("slow.fctx") >>), Read("x", "slow.x") >>, ""),
              Def("hold", << Unique("u", FALSE), Sleep(64), Read("x", "hold.x") >>, ""),
              Def("km", << Unique("u", TRUE), Sleep(32), Read("x", "km.x") >>, ""),
              Def("boom", << Raise >>, "") >>
Fin(who) == << Read("x", who \o ".fx"), GetCtx(who \o ".fctx"), Set("x", who \o "f") >>
Victims(who, via) ==
  { << Unique("u", FALSE), Try(<< Call("slow", via) >>, Fin(who)), Read("x", who \o ".after") >>,
    << Try(<< Call("hold", via) >>, Fin(who)) >>,
    << Unique("u", FALSE), Try(<< Try(<< Call("slow", via) >>, << Read("WHO", who \o ".in") >>), Read("x", who \o ".mid") >>, Fin(who)) >>,
    << Unique("u", FALSE), Try(<< Sleep(64) >>, Fin(who)) >>,
    << Unique("u", FALSE), Try(<< TryCall("slow", via, who \o ".try") >>, Fin(who)) >>,
    << Try(<< Call("km", via) >>, Fin(who)) >>,
    << Try(<< Call("boom", via) >>, Fin(who)) >> }
Killers(who, via) == { <<>>, << Unique("u", FALSE) >>, << Call("hold", via) >>, << Try(<< Call("km", via) >>, Fin(who)) >> }
CTrig(name, who, body, ev, eps) == Def(name, << Sleep(eps) >> \o body \o << Read("x", who \o ".x"), GetCtx(who \o ".ctx") >>, ev)
ImportC(form) == Import(form, "modules.m", "modules.m", "m", <<"slow", "hold", "km", "boom">>)
OptTrig(name, who, body, ev, eps) == IF body = <<>> THEN <<>> ELSE << CTrig(name, who, body, ev, eps) >>      \* no body: no such trigger function
ACancel(form, vb, kb) == << Set("WHO", "a"), Set("x", "a0"), ImportC(form), CTrig("t1", "a1", vb, "e1", 1) >> \o OptTrig("t2", "a2", kb, "e2", 2)
BCancel(form, kb) == << Set("WHO", "b"), Set("x", "b0"), ImportC(form) >> \o OptTrig("t3", "b3", kb, "e3", 3)

Vias(f) == LET via == IF f = "mod" THEN "m" ELSE "" IN { <<f, v, ka, kb>> : v \in Victims("a1", via), ka \in Killers("a2", via), kb \in Killers("b3", "m") }
File(body, auto) == [body |-> body, auto |-> auto]
Progs ==
  IF Mode = "deco"
  THEN { [files |-> ("file.a" :> File(ADeco(fa, how, fb, td), TRUE)) @@ ("file.b" :> File(BDeco(fa), TRUE)) @@
                    ("modules.m" :> File(MDeco(db), FALSE)),
          order |-> <<"file.a", "file.b">>, events |-> <<"e1">>]
         : fa \in Forms, <<how, db>> \in { hd \in Hows \X DBodies : ~(hd[1] = "factory" /\ hd[2] = << Ret("_fn") >>) },     \* d() returns no function
           fb \in FBs, td \in BOOLEAN }
  ELSE IF Mode = "cancel"
  THEN { [files |-> ("file.a" :> File(ACancel(q[1], q[2], q[3]), TRUE)) @@ ("file.b" :> File(BCancel("mod", q[4]), TRUE)) @@
                    ("modules.m" :> File(MCancel, FALSE)),
          order |-> <<"file.a", "file.b">>, events |-> <<"e1", "e2", "e3">>]
         : q \in { r \in UNION { Vias(f) : f \in Forms } : OpsA > 1 \/ (r[3] = <<>>) # (r[4] = <<>>) } }   \* OpsA = 1: one more trigger function, in a or in b
  ELSE IF Mode = "task"
  THEN { [files |-> ("file.a" :> File(TBody("a", fa, oa, aa, "e1", 1), TRUE)) @@ ("file.b" :> File(TBody("b", fb, ob, <<>>, "e2", 2), TRUE)) @@
                    ("modules.m" :> File(MTask, FALSE)),
          order |-> <<"file.a", "file.b">>, events |-> <<"e1", "e2">>]
         : <<fa, aa>> \in UNION { { <<f, x>> : x \in Afters(IF f = "mod" THEN "m" ELSE "") } : f \in Forms },
           oa \in BOOLEAN, fb \in {"mod", "star"}, ob \in BOOLEAN }
  ELSE IF Mode = "conc"
  THEN { [files |-> ("file.a" :> File(ConcBody("a", fa, ua, "e1", 1), TRUE)) @@ ("file.b" :> File(ConcBody("b", fb, ub, "e2", 2), TRUE)) @@
                    ("modules.m" :> File(MConc, FALSE)),
          order |-> <<"file.a", "file.b">>, events |-> <<"e1", "e2">>]
         : <<fa, ua>> \in UNION { { <<f, u>> : u \in UseOps(f, "a") } : f \in Forms },
           <<fb, ub>> \in UNION { { <<f, u>> : u \in UseOps(f, "b") } : f \in Forms } }
  ELSE IF Mode = "rel"
  THEN { [files |-> ("file.a" :> File(ARel, TRUE)) @@ ("modules.k" :> File(KInit(f1, f2), FALSE)) @@
                    ("modules.k.u" :> File(KU(f3), FALSE)) @@ ("modules.k.v" :> File(KV, FALSE)),
          order |-> <<"file.a">>, events |-> <<>>] : f1 \in Forms, f2 \in Forms, f3 \in Forms }
  ELSE { [files |-> ("file.a" :> File(ABody(fa, ops), TRUE)) @@ ("file.b" :> File(BBody(fb, op), TRUE)) @@
                    ("modules.m" :> File(MBody(body), FALSE)),
          order |-> <<"file.a", "file.b">>, events |-> <<"e1">>]
         : <<fa, ops>> \in UNION { { <<f, o>> : o \in Seqs(Ops(f, "a1"), OpsA) } : f \in Forms },
           <<fb, op>> \in UNION { { <<f, o>> : o \in Ops(f, "b1") } : f \in Forms }, body \in FBodies }

Init == P \in Progs /\ S = Start(P)
\* any suspended evaluator may be the next to run: all interleavings of the activations
Next == ~Done(S) /\ \E i \in Choices(S) : S' = StepPick(P, S, Flags, i) /\ UNCHANGED P
Spec == Init /\ [][Next]_vars

InvWrites   == WritesOnlyToOwnGlobals(S)
InvPointer  == PointerRestoredOnEveryExit(S)
InvInstance == OneInstancePerModule(S) /\ OneContextPerFile(P, S)
InvCtxFuncs == ContextFunctionsFollowTheCode(S)
InvNames    == TaskNamesPerContext(S)
InvOk       == S.ok
\* witnesses (expected to be violated): calls across contexts happen, exceptions cross contexts, modules are shared
W_NoCrossCall  == ~(Len(S.stack) >= 2 /\ Top(S).kind = "call" /\ Top(S).own # S.stack[Len(S.stack) - 1].own)
W_NoCaught     == ~(\E i \in 1..Len(S.log) : S.log[i].v = Data("caught"))
W_NoSharedSeen == ~(\E i \in 1..Len(S.log) : S.log[i].tag = "r.mx" /\ S.log[i].v = Data("a1") /\ S.ptr = "file.b")
W_NoTask       == ~(S.stack # <<>> /\ Top(S).kind = "call" /\ Len(S.stack) = 1 /\ Top(S).src = "file.b" /\ \E i \in 1..Len(S.log) : S.log[i].tag = "w.x")
\* two activations of one function at the same time: in two evaluators (one suspended inside it) / nested in one stack
FKeys(st) == { st[i].fkey : i \in { j \in 1..Len(st) : st[j].kind = "call" } }
W_NoInterleave == ~(S.stack # <<>> /\ \E i \in 1..Len(S.sleepers) : \E k \in FKeys(S.stack) \cap FKeys(S.sleepers[i].stack) : k.ctx = "modules.m")
W_NoReentry    == ~(\E i, j \in 1..Len(S.stack) : i + 1 < j /\ S.stack[i].kind = "call" /\ S.stack[j].kind = "call"
                      /\ S.stack[i].fkey = S.stack[j].fkey /\ S.stack[i].fkey.name = "apply" /\ S.stack[i + 1].own # S.stack[i].own)
W_NoRecursion  == ~(\E i \in 1..Len(S.stack) : i > 1 /\ i < Len(S.stack) /\ S.stack[i].kind = "call" /\ S.stack[i].fkey.name = "rec"
                      /\ S.stack[i + 1].kind = "call" /\ S.stack[i + 1].fkey = S.stack[i].fkey /\ S.stack[i - 1].own # S.stack[i].own)
\* a closure made by m's decorator runs on behalf of a (m's globals), and calls back the function of a it wraps (a's globals);
\* a trigger evaluator whose entry point is m's closure around a's function
IsW(fr) == fr.kind = "call" /\ fr.fkey.name = "w" /\ fr.own = "modules.m"
W_NoWrapperCall == ~(Len(S.stack) >= 2 /\ IsW(Top(S)) /\ S.stack[Len(S.stack) - 1].own = "file.a" /\ Top(S).fn.k = "func" /\ Top(S).fn.ctx = "file.a")
W_NoWrappedBack == ~(Len(S.stack) >= 3 /\ Top(S).kind = "call" /\ Top(S).own = "file.a" /\ IsW(S.stack[Len(S.stack) - 1])
                      /\ S.stack[Len(S.stack) - 2].own = "file.a")
W_NoDecoTrigger == ~(Len(S.stack) = 2 /\ IsW(S.stack[1]) /\ S.stack[1].saved = "" /\ S.stack[2].fkey.name = "t")
W_NoFactory     == ~(S.stack # <<>> /\ IsW(Top(S)) /\ Top(S).fn = NoCb)
\* a created task running code of another file than the one that created it; a task running while its creator is suspended in
\* another context than the task's code; an expression handed to task.wait_until that times out in a task
W_NoTaskCrossing    == ~(S.stack # <<>> /\ S.ev.by # 0 /\ S.stack[1].saved # S.stack[1].own /\ Top(S).pc <= Len(Top(S).code) /\ Cur(S).op = "getctx")
W_NoCreatorElsewhere == ~(S.stack # <<>> /\ S.ev.by # 0 /\ Top(S).pc <= Len(Top(S).code) /\ Cur(S).op \in {"listctx", "wexpr"}
                           /\ \E i \in 1..Len(S.sleepers) : S.sleepers[i].ev.id = S.ev.by /\ S.sleepers[i].ptr # S.ptr)
W_NoTimeout         == ~(\E i \in 1..Len(S.log) : S.log[i].v = Data("timeout"))
\* clean-up code of a.py running after a cancellation that hit inside a function of m; an evaluator cancelling itself (kill_me); a
\* cancellation passing a try-call (except Exception); a task name taken while the same name of ANOTHER context is held by a live
\* evaluator (no cancellation); the inner and the outer clean-up code of one activation both running for one cancellation; clean-up
\* code running for an ordinary exception of a callee of another file
FinRunning(exc) == S.stack # <<>> /\ Top(S).hs # <<>> /\ Top(S).hs[Len(Top(S).hs)].st = "fin" /\ Top(S).hs[Len(Top(S).hs)].pend = exc
W_NoCancelAcross   == ~(FinRunning("cancel") /\ Top(S).own = "file.a" /\ [exc |-> "cancel", from |-> "modules.m", to |-> "file.a", catch |-> FALSE, fin |-> TRUE] \in S.cx)
W_NoSelfCancel     == ~(S.cancels # <<>> /\ Head(S.cancels).self /\ S.sleepers[Len(S.sleepers)].ptr = "modules.m")
W_NoCancelPastTry  == ~(FinRunning("cancel") /\ [exc |-> "cancel", from |-> "modules.m", to |-> "file.a", catch |-> TRUE, fin |-> FALSE] \in S.cx)
W_NoForeignName    == ~(S.stack # <<>> /\ Top(S).pc <= Len(Top(S).code) /\ Cur(S).op = "unique" /\ ~Has(S.uniq, [c |-> S.ptr, n |-> Cur(S).n])
                          /\ \E k \in DOMAIN S.uniq : k.n = Cur(S).n /\ k.c # S.ptr /\ S.uniq[k].id # S.ev.id)
W_NoNestedFin      == ~(FinRunning("cancel") /\ Len(Top(S).hs) >= 2)
W_NoErrorFin       == ~(FinRunning("error") /\ Top(S).own = "file.a" /\ [exc |-> "error", from |-> "modules.m", to |-> "file.a", catch |-> FALSE, fin |-> TRUE] \in S.cx)
\* all witnesses in one run (workers = 1): registers set by the invariant WitTrack, printed by the post-condition
WitNames == << "W_NoCrossCall", "W_NoCaught", "W_NoSharedSeen", "W_NoTask", "W_NoInterleave", "W_NoReentry", "W_NoRecursion",
              "W_NoWrapperCall", "W_NoWrappedBack", "W_NoDecoTrigger", "W_NoFactory", "W_NoTaskCrossing", "W_NoCreatorElsewhere", "W_NoTimeout",
              "W_NoCancelAcross", "W_NoSelfCancel", "W_NoCancelPastTry", "W_NoForeignName", "W_NoNestedFin", "W_NoErrorFin" >>
WitVal(k) == CASE k = 1 -> ~W_NoCrossCall [] k = 2 -> ~W_NoCaught [] k = 3 -> ~W_NoSharedSeen [] k = 4 -> ~W_NoTask
               [] k = 5 -> ~W_NoInterleave [] k = 6 -> ~W_NoReentry [] k = 7 -> ~W_NoRecursion
               [] k = 8 -> ~W_NoWrapperCall [] k = 9 -> ~W_NoWrappedBack [] k = 10 -> ~W_NoDecoTrigger [] k = 11 -> ~W_NoFactory
               [] k = 12 -> ~W_NoTaskCrossing [] k = 13 -> ~W_NoCreatorElsewhere [] k = 14 -> ~W_NoTimeout
               [] k = 15 -> ~W_NoCancelAcross [] k = 16 -> ~W_NoSelfCancel [] k = 17 -> ~W_NoCancelPastTry [] k = 18 -> ~W_NoForeignName
               [] k = 19 -> ~W_NoNestedFin [] k = 20 -> ~W_NoErrorFin
ASSUME \A k \in 1..Len(WitNames) : TLCSet(k, FALSE)
WitOf == IF Mode = "plain" THEN 1..4 ELSE IF Mode = "conc" THEN 5..7 ELSE IF Mode = "deco" THEN 8..11 ELSE IF Mode = "task" THEN 12..14 ELSE IF Mode = "cancel" THEN 15..20 ELSE {}
WitTrack  == \A k \in WitOf : (~TLCGet(k) /\ WitVal(k)) => TLCSet(k, TRUE)       \* only the witnesses of the grammar in use, until seen
WitReport == PrintT("INFO " \o ToJson([seen |-> { WitNames[k] : k \in { j \in 1..Len(WitNames) : TLCGet(j) } }]))
=============================================================================
