------------------------------ MODULE Contexts ------------------------------
(* C11 state machine: the ContextsCore machine run, step by step, on every program of a small *)
(* grammar over three contexts (two script files a, b and a module m, imported in every form: *)
(* import m / from m import f, g, x / from m import * ), with overlapping global names, a      *)
(* function that writes its own globals, one that raises, cross-file call chains, a trigger    *)
(* and a created task.  (M) TLC checks the invariants at every step of every program:          *)
(*   WritesOnlyToOwnGlobals, PointerRestoredOnEveryExit, OneInstancePerModule                  *)
(* with Flags = {} ; with each mutant flag the corresponding invariant must be violated        *)
(* (witness that the invariants are not vacuous).                                              *)
EXTENDS ContextsCore, Json

CONSTANTS Flags,        \* deviations built into the machine ({} = the statement)
          OpsA,         \* number of free statements in file a (1..2)
          Rel           \* TRUE: the grammar with a package k (__init__ + members u, v) and relative imports

VARIABLES P, S
vars == <<P, S>>

Set(x, v) == [op |-> "set", x |-> x, v |-> v]
Loc(x, v) == [op |-> "loc", x |-> x, v |-> v]
Read(x, tag) == [op |-> "read", x |-> x, tag |-> tag]
ReadAttr(m, x, tag) == [op |-> "readattr", m |-> m, x |-> x, tag |-> tag]
SetAttr(m, x, v) == [op |-> "setattr", m |-> m, x |-> x, v |-> v]
Raise == [op |-> "raise"]
Def(f, body, trig) == [op |-> "def", f |-> f, body |-> body, trig |-> trig]
Call(f, via) == [op |-> "call", f |-> f, via |-> via]
TryCall(f, via, tag) == [op |-> "trycall", f |-> f, via |-> via, tag |-> tag]
Task(f) == [op |-> "task", f |-> f]
Import(form, target, alt, as, names) == [op |-> "import", form |-> form, target |-> target, alt |-> alt, as |-> as, names |-> names]
ImportM(form) == Import(form, "modules.m", "modules.m", "m", <<"f", "g", "x">>)

\* module m: data x, private _p, f (variable body), g raises
FBodies == { <<Set("x", "m1")>>, <<Read("x", "f.x")>>, <<Loc("x", "fl"), Read("x", "f.x")>>, <<Call("g", "")>>,
             <<Set("x", "m1"), Call("g", "")>> }
MBody(fb) == << Set("WHO", "m"), Set("x", "m0"), Set("_p", "mp"), Def("g", <<Raise>>, ""), Def("f", fb, "") >>
\* statements a file may run after importing m in the given form
Ops(form, who) ==
  { Set("x", who), Read("x", "r.x"), Read("f", "r.f"), TryCall("g", IF form = "mod" THEN "m" ELSE "", "t.g"),
    TryCall("f", IF form = "mod" THEN "m" ELSE "", "t.f"), TryCall("w", "", "t.w") }          \* w: defined in file b only
  \cup (IF form = "mod" THEN { ReadAttr("m", "x", "r.mx"), SetAttr("m", "x", who) } ELSE {})
  \cup (IF form = "star" THEN { Read("_p", "r.p") } ELSE {})
Forms == {"mod", "from", "star"}
Seqs(A, n) == IF n = 1 THEN { <<a>> : a \in A } ELSE { <<a, b>> : a \in A, b \in A }
ABody(form, ops) == << Set("WHO", "a"), Set("x", "a0") >> \o << ImportM(form) >> \o ops \o << Read("x", "a.x") >>
\* file b: imports m as well, defines a trigger function that calls across files, catches the raise, then
\* reads its own x and starts a task
BBody(form, op) ==
  << Set("WHO", "b"), Set("x", "b0"), ImportM(form), op,
     Def("w", << Read("x", "w.x") >>, ""),
     Def("t", << TryCall("g", IF form = "mod" THEN "m" ELSE "", "t.g"), Read("x", "t.x"), Set("x", "b2"), Task("w") >>, "e1") >>

\* package grammar: k/__init__.py, k/u.py, k/v.py; a imports k; relative imports of every form
KInit(f1, f2) == << Set("WHO", "k"), Set("x", "k0"), Import(f1, "modules.k.u", "modules.k.u", "u", <<"fu">>),
                    Import(f2, "modules.k.v", "modules.k.v", "v", <<"fv">>) >>
KU(f3) == << Set("WHO", "u"), Set("x", "u0"), Import(f3, "modules.k.v", "modules.k.u.v", "v", <<"fv">>),
             Def("fu", << Set("x", "u1"), TryCall("fv", IF f3 = "mod" THEN "v" ELSE "", "fu.fv"), Read("x", "fu.x") >>, "") >>
KV == << Set("WHO", "v"), Set("x", "v0"), Def("fv", << Set("x", "v1") >>, "") >>
ARel == << Set("WHO", "a"), Set("x", "a0"), Import("mod", "modules.k", "modules.k", "k", <<>>), ReadAttr("k", "x", "a.kx"),
           Read("x", "a.x") >>

File(body, auto) == [body |-> body, auto |-> auto]
Progs ==
  IF Rel
  THEN { [files |-> ("file.a" :> File(ARel, TRUE)) @@ ("modules.k" :> File(KInit(f1, f2), FALSE)) @@
                    ("modules.k.u" :> File(KU(f3), FALSE)) @@ ("modules.k.v" :> File(KV, FALSE)),
          order |-> <<"file.a">>, events |-> <<>>] : f1 \in Forms, f2 \in Forms, f3 \in Forms }
  ELSE { [files |-> ("file.a" :> File(ABody(fa, ops), TRUE)) @@ ("file.b" :> File(BBody(fb, op), TRUE)) @@
                    ("modules.m" :> File(MBody(body), FALSE)),
          order |-> <<"file.a", "file.b">>, events |-> <<"e1">>]
         : <<fa, ops>> \in UNION { { <<f, o>> : o \in Seqs(Ops(f, "a1"), OpsA) } : f \in Forms },
           <<fb, op>> \in UNION { { <<f, o>> : o \in Ops(f, "b1") } : f \in Forms }, body \in FBodies }

Init == P \in Progs /\ S = Start(P)
Next == ~Done(S) /\ S' = Step(P, S, Flags) /\ UNCHANGED P
Spec == Init /\ [][Next]_vars

InvWrites   == WritesOnlyToOwnGlobals(S)
InvPointer  == PointerRestoredOnEveryExit(S)
InvInstance == OneInstancePerModule(S) /\ OneContextPerFile(P, S)
InvOk       == S.ok
\* witnesses (expected to be violated): calls across contexts happen, exceptions cross contexts, modules are shared
W_NoCrossCall  == ~(Len(S.stack) >= 2 /\ Top(S).kind = "call" /\ Top(S).own # S.stack[Len(S.stack) - 1].own)
W_NoCaught     == ~(\E i \in 1..Len(S.log) : S.log[i].v = Data("caught"))
W_NoSharedSeen == ~(\E i \in 1..Len(S.log) : S.log[i].tag = "r.mx" /\ S.log[i].v = Data("a1") /\ S.ptr = "file.b")
W_NoTask       == ~(S.stack # <<>> /\ Top(S).kind = "call" /\ Len(S.stack) = 1 /\ Top(S).src = "file.b" /\ \E i \in 1..Len(S.log) : S.log[i].tag = "w.x")
\* all witnesses in one run (workers = 1): registers set by the invariant WitTrack, printed by the post-condition
WitNames == << "W_NoCrossCall", "W_NoCaught", "W_NoSharedSeen", "W_NoTask" >>
WitVal(k) == CASE k = 1 -> ~W_NoCrossCall [] k = 2 -> ~W_NoCaught [] k = 3 -> ~W_NoSharedSeen [] k = 4 -> ~W_NoTask
ASSUME \A k \in 1..Len(WitNames) : TLCSet(k, FALSE)
WitTrack  == \A k \in 1..Len(WitNames) : WitVal(k) => TLCSet(k, TRUE)
WitReport == PrintT("INFO " \o ToJson([seen |-> { WitNames[k] : k \in { j \in 1..Len(WitNames) : TLCGet(j) } }]))
=============================================================================
