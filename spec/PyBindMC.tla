------------------------------ MODULE PyBindMC ------------------------------
(* (M) for C03 argument binding: TLC enumerates ALL signatures with at most 2 parameters of  *)
(* each kind (every default pattern) x ALL flattened calls with at most 4 positional values *)
(* and at most 3 keywords out of the parameter names, an unknown name and a reserved one     *)
(* (incl. a keyword repeated via a **map), and   checks the theorems of PyBind on every pair.   *)
(* PyBindFlat enumerates every way of writing such a call with *seq and **map (Flatten).    *)
EXTENDS PyBind, TLC

\* one parameter of every kind is named like a reserved trigger keyword (value, context, qos); zz is an unknown
\* name, trigger_type a reserved keyword that no signature declares
Names == {"a", "value", "context", "d", "qos", "g", "zz", "trigger_type"}
Reserved == {"value", "context", "qos", "trigger_type"}
POs == { <<>>, <<"a">>, <<"a", "value">> }
PKs == { <<>>, <<"context">>, <<"context", "d">> }
KOs == { <<>> } \cup { <<[name |-> "qos", hasdef |-> h]>> : h \in BOOLEAN }
       \cup { <<[name |-> "qos", hasdef |-> h1], [name |-> "g", hasdef |-> h2]>> : h1, h2 \in BOOLEAN }
Sigs == { [po |-> po, pk |-> pk, ndef |-> nd, va |-> va, ko |-> ko, kw |-> kw] :
            po \in POs, pk \in PKs, nd \in 0..4, va \in BOOLEAN, ko \in KOs, kw \in BOOLEAN }
ValidSig(s) == s.ndef <= Len(s.po) + Len(s.pk)

SetToSeq(S) == LET RECURSIVE F(_)
                   F(T) == IF T = {} THEN <<>> ELSE LET x == CHOOSE y \in T : TRUE IN <<x>> \o F(T \ {x})
               IN F(S)
KwSets == { K \in SUBSET Names : Cardinality(K) <= 3 }
\* keyword lists: distinct names, or at most two distinct names one of which is repeated
KwLists == { SetToSeq(K) : K \in KwSets }
           \cup UNION { { Append(SetToSeq(K), d) : d \in K } : K \in { K2 \in KwSets : Cardinality(K2) \in 1..2 } }
Calls == { [npos |-> np, kws |-> ks] : np \in 0..4, ks \in KwLists }

None == [none |-> TRUE]
VARIABLES sig, call
vars == <<sig, call>>
Init == sig = None /\ call = None
PickSig == sig = None /\ sig' \in { s \in Sigs : ValidSig(s) } /\ UNCHANGED call
PickCall == sig # None /\ call = None /\ call' \in Calls /\ UNCHANGED sig
Next == PickSig \/ PickCall
Spec == Init /\ [][Next]_vars

Result == Bind(sig, call, Reserved, {})
Ready == sig # None /\ call # None
T_EveryParameterBoundExactlyOnce == Ready => EveryParameterBoundExactlyOnce(sig, Result)
T_NoExtraNames == Ready => NoExtraNames(sig, call, Reserved, Result)
T_ErrorIffNoValidAssignment == Ready => ErrorIffNoValidAssignment(sig, call, Reserved, Result)
\* the intended deviation is confined: without reserved names in the call, Reserved makes no difference
T_ReservedOnlyDrops == Ready => LET py == Bind(sig, call, {}, {}) IN
  IF Range(call.kws) \cap Reserved = {} THEN py = Result
  ELSE py.k = "ok" => (Result.k = "ok" /\ Result.pos = py.pos /\ Result.kwd = py.kwd /\ Result.dflt = py.dflt)
\* the value dimension: a valuation in which defaults, positional and keyword arguments carry falsy values of
\* several types (the other sources keep their distinct truthy constants)
W == << <<"d:a", "tuple:()">>, <<"d:value", "str:''">>, <<"d:context", "float:0.0">>, <<"d:d", "bool:False">>,
        <<"d:qos", "NoneType:None">>, <<"d:g", "int:0">>, <<"p1", "int:0">>, <<"p3", "NoneType:None">>,
        <<"k:context", "NoneType:None">>, <<"k:qos", "list:[]">>, <<"k:zz", "dict:{}">> >>
T_ValuesFollowSources == Ready => ValuesFollowSources(sig, Result, W)
\* all theorems with the outcome computed once (what the quick and thorough runs check)
T_All == Ready => LET r == Result  py == Bind(sig, call, {}, {}) IN
  /\ EveryParameterBoundExactlyOnce(sig, r) /\ NoExtraNames(sig, call, Reserved, r)
  /\ ValuesFollowSources(sig, r, W)
  /\ ErrorIffNoValidAssignment(sig, call, Reserved, r)
  /\ IF Range(call.kws) \cap Reserved = {} THEN py = r
     ELSE py.k = "ok" => (r.k = "ok" /\ r.pos = py.pos /\ r.kwd = py.kwd /\ r.dflt = py.dflt)
\* witnesses: members of the family that exercise each clause (evaluated at startup; a false ASSUME is an error)
S1 == [po |-> <<"a">>, pk |-> <<"context", "d">>, ndef |-> 1, va |-> TRUE, ko |-> <<[name |-> "qos", hasdef |-> TRUE]>>, kw |-> TRUE]
S2 == [S1 EXCEPT !.kw = FALSE]
S3 == [po |-> <<"a">>, pk |-> <<>>, ndef |-> 0, va |-> TRUE, ko |-> <<>>, kw |-> FALSE]
S4 == [po |-> <<"a", "value">>, pk |-> <<>>, ndef |-> 1, va |-> FALSE, ko |-> <<>>, kw |-> FALSE]
C(np, ks) == [npos |-> np, kws |-> ks]
In(s, c) == s \in Sigs /\ ValidSig(s) /\ c \in Calls
B0(s, c) == Bind(s, c, Reserved, {})
ASSUME /\ In(S1, C(0, <<>>)) /\ B0(S1, C(0, <<>>)).k = "TypeError"                                   \* missing argument
       /\ In(S1, C(1, <<"context">>)) /\ LET r == B0(S1, C(1, <<"context">>)) IN
            r.k = "ok" /\ r.pos = {"a"} /\ r.kwd = {"context"} /\ r.dflt = {"d", "qos"}                \* declared reserved name binds
       /\ In(S1, C(2, <<"zz">>)) /\ B0(S1, C(2, <<"zz">>)).kwmap = {"zz"}                              \* **kw absorbs
       /\ In(S2, C(2, <<"trigger_type">>)) /\ B0(S2, C(2, <<"trigger_type">>)).dropped = {"trigger_type"}
       /\ In(S2, C(2, <<"qos">>)) /\ LET r == B0(S2, C(2, <<"qos">>)) IN r.kwd = {"qos"} /\ r.dropped = {}   \* declared keyword-only reserved name is NOT dropped
       /\ In(S2, C(2, <<"zz">>)) /\ B0(S2, C(2, <<"zz">>)).k = "TypeError"                             \* unexpected keyword
       /\ In(S3, C(4, <<>>)) /\ B0(S3, C(4, <<>>)).va = <<2, 3, 4>>                                   \* *va collects
       /\ In(S1, C(2, <<"a">>)) /\ B0(S1, C(2, <<"a">>)).kwmap = {"a"}                                \* posonly name goes to **kw
       /\ In(S4, C(1, <<"value">>)) /\ B0(S4, C(1, <<"value">>)).k = "TypeError"                       \* reserved posonly name by keyword: declared, not dropped
       /\ In(S1, C(1, <<"context", "context">>)) /\ B0(S1, C(1, <<"context", "context">>)).k = "TypeError"   \* repeated keyword
       /\ In(S1, C(2, <<"context">>)) /\ B0(S1, C(2, <<"context">>)).k = "TypeError"                   \* multiple values
\* witnesses of the value dimension: an omitted parameter with a FALSY default receives that value (it is not
\* "missing"), a falsy argument is an argument (the default is not taken instead)
ASSUME /\ LET r == B0(S1, C(1, <<"context">>)) IN
            r.k = "ok" /\ Values(S1, r, W) = <<"int:0", "NoneType:None", "bool:False", "NoneType:None">>
       /\ LET r == B0(S1, C(3, <<"qos">>)) IN
            r.k = "ok" /\ Values(S1, r, W) = <<"int:0", "p2", "NoneType:None", "list:[]">> /\ VaValues(r, W) = << >>
       /\ LET r == B0(S3, C(3, <<>>)) IN r.k = "ok" /\ VaValues(r, W) = <<"p2", "NoneType:None">>
       /\ LET r == B0(S1, C(1, <<"context">>)) IN Values(S1, r, << >>) = Sources(S1, r)       \* the empty valuation: value tag = source tag
=============================================================================
