--------------------------- MODULE StateVarsTrace ---------------------------
(* Batch acceptor for recordings of the real integration (C16).  A case is                  *)
(*   [id, init : [e1, e2, e3 : entity], ops : << op >>]                                     *)
(* every op carries the operation fields of StateVarsCore!Apply plus what was observed:     *)
(*   obs  : the result class / value seen by the script (or the exception class)            *)
(*   hass : the projection of hass.states after the operation                               *)
(* Operation i happens at logical time i (the driver steps HA's clock).  Same Apply and     *)
(* Specified as the model.  Verdicts are total: silent ACCEPT or REJECT(id, at, why, ...).  *)
EXTENDS StateVarsCore, Json, IOUtils

Cases == JsonDeserialize(IOEnv.CASES)

EntNorm(o) == IF o.v.t = "-" THEN Absent ELSE [v |-> o.v, a |-> Pairs(o.a), lc |-> o.lc, lu |-> o.lu, lr |-> o.lr]
HassNorm(o) == [e \in AllEnt |-> EntNorm(o[e])]
ObsNorm(o) == CASE o.k = "state" -> [k |-> "state", v |-> o.v, a |-> Pairs(o.a), id |-> o.id, lc |-> o.lc, lu |-> o.lu, lr |-> o.lr]
                [] o.k = "dict"  -> [k |-> "dict", a |-> Pairs(o.a)]
                [] o.k = "names" -> [k |-> "names", s |-> { o.s[i] : i \in 1..Len(o.s) }]
                [] OTHER -> o
Same(o, r) == o.k = r.k /\ o = r
\* the statement fixes NameError/AttributeError for reads only: a failing delete may raise anything (or nothing)
ResultOk(op, o, r) == IF op.k \in {"del", "delete", "delattr", "deleteattr"} /\ r.k = "exc" THEN o.k \in {"exc", "none"}
                      ELSE Same(o, r)
ResolutionOf(w, op) == IF op.k \in {"names", "checksnap", "snapfield", "bindvar", "unbindvar"} THEN "-"
                       ELSE IF op.k \in {"localread", "localassign", "localdel"} THEN "local" ELSE Resolve(w, op.e)

RECURSIVE Run(_, _, _)
Run(c, w, i) ==
  IF i > Len(c.ops) THEN [ok |-> TRUE, at |-> 0, why |-> "", k |-> "", res |-> ""]
  ELSE LET op == c.ops[i] IN
       IF ~Specified(w, op) THEN [ok |-> FALSE, at |-> i, why |-> "unspecified-op-generated", k |-> op.k, res |-> ResolutionOf(w, op)]
       ELSE LET outs == Outcomes(w, op, i)
                good == { r \in outs : ResultOk(op, ObsNorm(op.obs), r.r) }
                fits == { r \in good : HassNorm(op.hass) = r.w.h }
            IN IF good = {} THEN [ok |-> FALSE, at |-> i, why |-> "result", k |-> op.k, res |-> ResolutionOf(w, op)]
               ELSE IF fits = {} THEN [ok |-> FALSE, at |-> i, why |-> "hass", k |-> op.k, res |-> ResolutionOf(w, op)]
               ELSE Run(c, (CHOOSE r \in fits : TRUE).w, i + 1)

World0(c) == [h |-> HassNorm(c.init), snap |-> NoSnap, py |-> [d \in AllDom |-> Unbound], svc |-> {}]

VARIABLE i
Init == i = 1
Next == i <= Len(Cases) /\ i' = i + 1
Spec == Init /\ [][Next]_i
Report == i <= Len(Cases) =>
  LET v == Run(Cases[i], World0(Cases[i]), 1)
  IN IF v.ok THEN TRUE
     ELSE PrintT("REJECT " \o ToJson([id |-> Cases[i].id, at |-> v.at, why |-> v.why, k |-> v.k, res |-> v.res]))
=============================================================================
