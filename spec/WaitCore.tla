------------------------------ MODULE WaitCore ------------------------------
(* task.wait_until as a one-shot trigger instance (C15): which condition returns it, when,    *)
(* with what, and what must be released afterwards.  Pure operators shared by WaitUntil.tla   *)
(* (model) and WaitTrace.tla (acceptor of real recordings).                                   *)
(* Call configuration c:                                                                      *)
(*   c.t0      time of the call (ms)                                                          *)
(*   c.st      "none" | "eq1" (state_trigger "pyscript.a == '1'") | "int" ("int(pyscript.a)   *)
(*             == 1": raises ValueError when a is not a number)                               *)
(*   c.check   state_check_now in effect                                                      *)
(*   c.ev      "none" | "plain" (event_trigger "e1") | "v1" (filter v == '1') | "err" (a      *)
(*             filter that raises NameError)                                                  *)
(*   c.tm      NoneT | K: time_trigger "once(now + K ms)";  c.tmPast: a time trigger whose    *)
(*             specification has no future instant                                            *)
(*   c.to      NoneT | N: timeout in ms (0 allowed)                                           *)
(*   c.S       NoneT | state_hold in ms (the hold automaton itself is C05's: HoldCore)        *)
(*   c.flags   named deviations of the code ({} = the statement)                              *)
(* Timeline entries e = [t, k, v]: k = "set" (entity a gets value v), "fire" (event e1 with   *)
(* data v), "cancel" (the waiting task is cancelled).                                         *)
(* Outcome o = [k, t, a]: k = "return" | "raise" | "cancelled" | "waiting"; a = what is       *)
(* returned ([tt |-> trigger_type, v |-> value / event data v / "-"]) or the exception name.  *)
EXTENDS Integers, Sequences

NoneT == -1
Out(k, t, a) == [k |-> k, t |-> t, a |-> a]
Ret(t, tt, v) == Out("return", t, [tt |-> tt, v |-> v])
IsNum(v) == v \in {"0", "1", "2"}
StTruth(c, v) == v = "1"

\* hold state of the state condition: h = [w (a hold is pending), hs (its start), v (what it will return)]
H0 == [w |-> FALSE, hs |-> 0, v |-> "-"]
HasHold(c) == c.st # "none" /\ c.S # NoneT

\* outcome of the initial part of the call, or "go" to keep waiting (with the hold the initial check may start)
Initial(c, a0) ==
  IF c.st = "none" /\ c.ev = "none" /\ c.tm = NoneT /\ ~c.tmPast
  THEN IF c.to = NoneT THEN Ret(c.t0, "none", "-") ELSE Ret(c.t0 + c.to, "timeout", "-")     \* nothing to wait for
  ELSE IF c.st # "none" /\ c.check /\ c.st = "int" /\ ~IsNum(a0) THEN Out("raise", c.t0, "ValueError")
  ELSE IF c.st # "none" /\ c.check /\ StTruth(c, a0) /\ ~HasHold(c) THEN Ret(c.t0, "state", "init")
  ELSE IF c.st = "none" /\ c.ev = "none" /\ c.tm = NoneT /\ c.tmPast /\ c.to = NoneT THEN Ret(c.t0, "none", "-")
  ELSE IF c.to = 0 THEN Ret(c.t0, "timeout", "-")
  ELSE Out("go", 0, "-")
InitialHold(c, a0) == IF HasHold(c) /\ c.check /\ (c.st # "int" \/ IsNum(a0)) /\ StTruth(c, a0)
                      THEN [w |-> TRUE, hs |-> c.t0, v |-> "init"] ELSE H0

\* first qualifying entry of the timeline after the call, with timers (and a pending state_hold) as competitors;
\* at equal instants the time trigger / timeout come before the hold expiry
RECURSIVE Scan(_, _, _, _, _)
Scan(c, tl, i, a, h) ==
  LET tmAt == IF c.tm = NoneT THEN NoneT ELSE c.t0 + c.tm
      toAt == IF c.to = NoneT THEN NoneT ELSE c.t0 + c.to
      hAt  == IF h.w THEN h.hs + c.S ELSE NoneT
      \* the earliest timer that is due before time `upto`
      TimerBefore(upto) ==
        LET tmDue == tmAt # NoneT /\ tmAt < upto
            toDue == toAt # NoneT /\ toAt < upto
            hDue  == hAt # NoneT /\ hAt < upto
            Earlier(x, y, ydue) == ~ydue \/ x <= y
        IN IF tmDue /\ Earlier(tmAt, toAt, toDue) /\ Earlier(tmAt, hAt, hDue) THEN Ret(tmAt, "time", "-")
           ELSE IF toDue /\ Earlier(toAt, hAt, hDue) THEN Ret(toAt, "timeout", "-")
           ELSE IF hDue THEN Ret(hAt, "state", h.v)
           ELSE Out("go", 0, "-")
  IN IF i > Len(tl) THEN (LET tb == TimerBefore(c.horizon + 1) IN IF tb.k = "go" THEN Out("waiting", c.horizon, "-") ELSE tb)
     ELSE LET e == tl[i] IN
       IF e.t <= c.t0 THEN Scan(c, tl, i + 1, IF e.k = "set" THEN e.v ELSE a, h)    \* before the call: no effect
       ELSE LET tb == TimerBefore(e.t) IN
         IF tb.k # "go" THEN tb
         ELSE CASE e.k = "cancel" -> Out("cancelled", e.t, "-")
                [] e.k = "set" ->
                     IF c.st = "none" \/ e.v = a THEN Scan(c, tl, i + 1, e.v, h)
                     ELSE IF c.st = "int" /\ ~IsNum(e.v) THEN Out("raise", e.t, "ValueError")
                     ELSE IF StTruth(c, e.v)
                          THEN IF ~HasHold(c) THEN Ret(e.t, "state", e.v)
                               ELSE Scan(c, tl, i + 1, e.v, IF h.w THEN h ELSE [w |-> TRUE, hs |-> e.t, v |-> e.v])   \* hold starts / continues
                          ELSE Scan(c, tl, i + 1, e.v, [h EXCEPT !.w = FALSE])                                        \* a false evaluation cancels it
                [] e.k = "fire" ->
                     IF c.ev = "none" THEN Scan(c, tl, i + 1, a, h)
                     ELSE IF c.ev = "err" THEN Out("raise", e.t, "NameError")
                     ELSE IF c.ev = "plain" \/ e.v = "1" THEN Ret(e.t, "event", e.v)
                     ELSE Scan(c, tl, i + 1, a, h)
                [] OTHER -> Scan(c, tl, i + 1, a, h)

\* value of a at the time of the call
RECURSIVE ValueAt(_, _, _, _)
ValueAt(tl, i, t0, a) == IF i > Len(tl) \/ tl[i].t > t0 THEN a
                         ELSE ValueAt(tl, i + 1, t0, IF tl[i].k = "set" THEN tl[i].v ELSE a)

Outcome(c, tl, a0) ==
  LET a  == ValueAt(tl, 1, c.t0, a0)
      i0 == Initial(c, a)
  IN IF i0.k = "go" THEN Scan(c, tl, 1, a0, InitialHold(c, a))
     ELSE IF i0.k = "return" /\ i0.t > c.t0                       \* plain timeout sleep: may still be cancelled
          THEN LET C == { j \in 1..Len(tl) : tl[j].k = "cancel" /\ tl[j].t > c.t0 /\ tl[j].t < i0.t } IN
               IF C = {} THEN i0 ELSE Out("cancelled", tl[CHOOSE j \in C : \A j2 \in C : j <= j2].t, "-")
          ELSE i0

\* what must be released after the call has ended in any way: everything (flags = {});
\* the named deviation "cancel-leaks": a cancelled call keeps its subscriptions / listeners / timers
MayLeak(c, o) == "cancel-leaks" \in c.flags /\ o.k = "cancelled"
=============================================================================
