------------------------------ MODULE Pipeline ------------------------------
(* The composed trigger pipeline as one model: a watched change of entity a is evaluated     *)
(* (expression a == '1'), goes through the state_hold automaton (HoldCore) and, when the     *)
(* hold ends, through the guard stage (GuardCore: @state_active, @time_active windows,        *)
(* hold_off); entity b is only read by @state_active.  Checked against a declarative reading *)
(* of the documentation over the history: a run happens at T carrying the values of the       *)
(* change that started the hold, iff that change made the expression true at T - S, no        *)
(* evaluation in between was false, and - evaluated at T - @state_active holds on (those      *)
(* values of a, the value b has at T), T lies in the windows, and no accepted run is less     *)
(* than hold_off before T.                                                                    *)
(* Actions: SetA(v), SetB(v) (changes at even instants), Expire (a pending hold ends), Tick. *)
EXTENDS GuardCore, Sequences, FiniteSets, TLC
H == INSTANCE HoldCore

CONSTANTS MaxT, MaxCh
SAs == { [k |-> "none"],
         [k |-> "eq", n |-> [e |-> "b", f |-> "v"], c |-> "1"],
         [k |-> "eq", n |-> [e |-> "a", f |-> "old"], c |-> "0"] }
TAs == { <<>>, <<[neg |-> FALSE, s |-> 3, e |-> 7]>>, <<[neg |-> TRUE, s |-> 5, e |-> 5]>> }
St(v) == [v |-> v, x |-> "p"]

VARIABLES S, g, now, a, b, m, gs, runs, evals, bh, nch
vars == <<S, g, now, a, b, m, gs, runs, evals, bh, nch>>
hc == [S |-> S, H |-> H!NoneT, check |-> FALSE, mode |-> "dec", t0 |-> 0, flags |-> {}]

Init == /\ S \in {H!NoneT, 1, 3} /\ g \in [sa : SAs, ta : TAs, ho : {NoneT, 2, 4}, flags : {{}}]
        /\ now = 0 /\ a \in {"0", "1"} /\ b \in {"0", "1"} /\ m = H!M0([new |-> Absent, old |-> Absent])
        /\ gs = GS0 /\ runs = <<>> /\ evals = <<>> /\ bh = <<[t |-> 0, v |-> b]>> /\ nch = 0

\* hand the runs the hold stage just produced (m1.runs) to the guards, with b as it is now
RECURSIVE Drain(_, _, _, _, _)
Drain(gs0, hruns, k, bnow, out) ==
  IF k > Len(hruns) THEN [gs |-> gs0, out |-> out]
  ELSE LET r == GStep(g, gs0, [k |-> "state", t |-> hruns[k].t,
                               val |-> [cur |-> [e \in Ent |-> IF e = "a" THEN hruns[k].a.new ELSE St(bnow)],
                                        old |-> [e \in Ent |-> IF e = "a" THEN hruns[k].a.old ELSE Unset]]])
       IN Drain(r.gs, hruns, k + 1, bnow,
                IF r.run THEN Append(out, [t |-> hruns[k].t, v |-> hruns[k].a.new.v, ov |-> hruns[k].a.old.v]) ELSE out)

Due == m.waiting /\ m.hs + S <= now
Free == now % 2 = 0 /\ now > 0 /\ nch < MaxCh /\ ~Due /\ (IF Len(evals) = 0 THEN TRUE ELSE evals[Len(evals)].t < now)
                                                      /\ bh[Len(bh)].t < now
SetA(v) ==
  /\ Free /\ v # a
  /\ LET args == [new |-> St(v), old |-> St(a)]
         m1   == H!HEval(hc, [m EXCEPT !.runs = <<>>], now, v = "1", args)
         d    == Drain(gs, m1.runs, 1, b, runs)
     IN /\ m' = [m1 EXCEPT !.runs = <<>>] /\ gs' = d.gs /\ runs' = d.out
        /\ evals' = Append(evals, [t |-> now, ok |-> v = "1", new |-> v, old |-> a])
  /\ a' = v /\ nch' = nch + 1 /\ UNCHANGED <<S, g, now, b, bh>>
SetB(v) == /\ Free /\ v # b /\ b' = v /\ bh' = Append(bh, [t |-> now, v |-> v]) /\ nch' = nch + 1
           /\ UNCHANGED <<S, g, now, a, m, gs, runs, evals>>
Expire == /\ Due
          /\ LET m1 == H!HExpire(hc, [m EXCEPT !.runs = <<>>], now, FALSE)
                 d  == Drain(gs, m1.runs, 1, b, runs)
             IN m' = [m1 EXCEPT !.runs = <<>>] /\ gs' = d.gs /\ runs' = d.out
          /\ UNCHANGED <<S, g, now, a, b, evals, bh, nch>>
Tick == now < MaxT /\ ~Due /\ now' = now + 1 /\ UNCHANGED <<S, g, a, b, m, gs, runs, evals, bh, nch>>
Next == (\E v \in {"0", "1"} : SetA(v) \/ SetB(v)) \/ Expire \/ Tick
Spec == Init /\ [][Next]_vars

\* ---------------- the statement, over the history ----------------
N == Len(evals)
NoFalseIn(lo, hi) == ~\E k \in 1..N : ~evals[k].ok /\ evals[k].t > lo /\ evals[k].t < hi
Hold == IF S = H!NoneT THEN 0 ELSE S
RECURSIVE HoldStart(_)
PendingBefore(j) == S # H!NoneT /\ \E i \in 1..(j - 1) : HoldStart(i) /\ evals[i].t + S > evals[j].t /\ NoFalseIn(evals[i].t, evals[j].t)
HoldStart(j) == evals[j].ok /\ ~PendingBefore(j)
\* the evaluations whose hold period has ended uncancelled by now, in time order
Ended == { j \in 1..N : HoldStart(j) /\ evals[j].t + Hold <= now /\ NoFalseIn(evals[j].t, evals[j].t + Hold) }
BAt(t) == bh[CHOOSE k \in 1..Len(bh) : bh[k].t <= t /\ \A k2 \in 1..Len(bh) : bh[k2].t <= t => bh[k2].t <= bh[k].t].v
Contains(w, t) == IF w.s <= w.e THEN (t >= w.s /\ t <= w.e) ELSE ~(t > w.e /\ t < w.s)
InWindows(t) == /\ ((\A i \in 1..Len(g.ta) : g.ta[i].neg) \/ \E i \in 1..Len(g.ta) : ~g.ta[i].neg /\ Contains(g.ta[i], t))
                /\ ~\E i \in 1..Len(g.ta) : g.ta[i].neg /\ Contains(g.ta[i], t)
SAHolds(j) == CASE g.sa.k = "none" -> TRUE
                [] g.sa.n.e = "b"  -> BAt(evals[j].t + Hold) = "1"       \* other variables: as they are when the guard is evaluated
                [] OTHER           -> evals[j].old = "0"                  \* the trigger variable's .old: of the change that started the hold
RECURSIVE Accepted(_)
Accepted(j) == /\ j \in Ended /\ SAHolds(j) /\ InWindows(evals[j].t + Hold)
               /\ (g.ho = NoneT \/ \A i \in 1..(j - 1) : Accepted(i) => evals[j].t - evals[i].t >= g.ho)
ExpectedRuns == { [t |-> evals[j].t + Hold, v |-> evals[j].new, ov |-> evals[j].old] : j \in { k \in 1..N : Accepted(k) } }
RunSet == { runs[i] : i \in 1..Len(runs) }
RunsMatchStatement == ~Due => RunSet = ExpectedRuns /\ Cardinality(RunSet) = Len(runs)
RunsInTimeOrder == \A i \in 1..(Len(runs) - 1) : runs[i].t < runs[i + 1].t
W_NoGuardRejectAfterHold == ~\E j \in Ended : S # H!NoneT /\ ~Accepted(j)
W_NoBChangedDuringHold == ~\E j \in 1..N : Accepted(j) /\ S # H!NoneT /\ BAt(evals[j].t) # BAt(evals[j].t + Hold)
=============================================================================
