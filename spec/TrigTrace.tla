------------------------------ MODULE TrigTrace ------------------------------
(* Acceptor for recordings of the real integration's state triggers (C04).  Same operators  *)
(* as the model (TrigCore); the form travels with the case.  A case is                      *)
(*   [id, form, init : [a, b : St], bursts : << [ops : <<[e, s, src]>>, runs : <<run>>] >>] *)
(* a burst = operations issued without yielding, then settled; run = [e, new, old, kw].     *)
(* Verdicts are total: every case is ACCEPTed silently or REJECTed with burst and clause.   *)
EXTENDS TrigCore, TLC, Json, IOUtils

Cases == JsonDeserialize(IOEnv.CASES)

\* apply the operations of a burst: events and the HA state after each event
RECURSIVE Apply(_, _, _, _, _)
Apply(ops, k, hass, evs, snaps) ==
  IF k > Len(ops) THEN [hass |-> hass, evs |-> evs, snaps |-> snaps]
  ELSE LET e == ops[k].e  s == ops[k].s IN
       IF s = hass[e] THEN Apply(ops, k + 1, hass, evs, snaps)            \* identical re-set: no event
       ELSE LET h2 == [hass EXCEPT ![e] = s] IN
            Apply(ops, k + 1, h2, Append(evs, [e |-> e, new |-> s, old |-> hass[e]]), Append(snaps, h2))

\* admissible states of the unchanged entity for event i: its state at the event or any later
\* state within the same burst (the evaluation happens somewhere before the burst has settled)
AdmB(evs, snaps, h0, i) == { snaps[j][Other(evs[i].e)] : j \in i..Len(evs) }
May(F, evs, snaps, h0, i)  == AnyMatch(F, evs[i]) \/ (WatchedChanged(F, evs[i]) /\ HasExpr(F) /\
                              \E ov \in AdmB(evs, snaps, h0, i) : EvalE(F.expr, Valuation(evs[i], ov)))
Must(F, evs, snaps, h0, i) == AnyMatch(F, evs[i]) \/ (WatchedChanged(F, evs[i]) /\ HasExpr(F) /\
                              \A ov \in AdmB(evs, snaps, h0, i) : EvalE(F.expr, Valuation(evs[i], ov)))
SameEv(F, ev, r) == ev.e = r.e /\ ev.new = r.new /\ ev.old = r.old /\ r.kw = RunKw(F, ev)

\* observed runs must be an in-order selection of May-events that contains every Must-event,
\* each carrying the arguments of its own event
RECURSIVE Match(_, _, _, _, _, _, _)
Match(F, evs, snaps, h0, i, obs, j) ==
  IF i > Len(evs) THEN j > Len(obs)
  ELSE \/ ( /\ j <= Len(obs) /\ SameEv(F, evs[i], obs[j]) /\ May(F, evs, snaps, h0, i)
            /\ Match(F, evs, snaps, h0, i + 1, obs, j + 1) )
       \/ ( /\ ~Must(F, evs, snaps, h0, i) /\ Match(F, evs, snaps, h0, i + 1, obs, j) )

\* why a burst is rejected (first applicable clause)
Why(F, evs, snaps, h0, obs) ==
  IF \E j \in 1..Len(obs) : ~\E i \in 1..Len(evs) : obs[j].e = evs[i].e /\ obs[j].new = evs[i].new /\ obs[j].old = evs[i].old
    THEN "run-for-no-event"
  ELSE IF \E j \in 1..Len(obs) : \E i \in 1..Len(evs) :
            obs[j].e = evs[i].e /\ obs[j].new = evs[i].new /\ obs[j].old = evs[i].old /\ obs[j].kw # RunKw(F, evs[i])
    THEN "wrong-kwargs"
  ELSE IF \E j \in 1..Len(obs) : \A i \in 1..Len(evs) :
            (obs[j].e = evs[i].e /\ obs[j].new = evs[i].new /\ obs[j].old = evs[i].old) => ~May(F, evs, snaps, h0, i)
    THEN "spurious-run"
  ELSE IF \E i \in 1..Len(evs) : Must(F, evs, snaps, h0, i) /\
            ~\E j \in 1..Len(obs) : obs[j].e = evs[i].e /\ obs[j].new = evs[i].new /\ obs[j].old = evs[i].old
    THEN "lost-run"
  ELSE "order-or-duplicate"

RECURSIVE Bursts(_, _, _)
Bursts(c, k, hass) ==
  IF k > Len(c.bursts) THEN [ok |-> TRUE, at |-> 0, why |-> ""]
  ELSE LET r == Apply(c.bursts[k].ops, 1, hass, <<>>, <<>>) IN
       IF Match(c.form, r.evs, r.snaps, hass, 1, c.bursts[k].runs, 1) THEN Bursts(c, k + 1, r.hass)
       ELSE [ok |-> FALSE, at |-> k, why |-> Why(c.form, r.evs, r.snaps, hass, c.bursts[k].runs)]

VARIABLE i
Init == i = 1
Next == i <= Len(Cases) /\ i' = i + 1
Spec == Init /\ [][Next]_i
Report == i <= Len(Cases) =>
  LET v == Bursts(Cases[i], 1, Cases[i].init)
  IN IF v.ok THEN TRUE ELSE PrintT("REJECT " \o ToJson([id |-> Cases[i].id, burst |-> v.at, why |-> v.why]))
=============================================================================
