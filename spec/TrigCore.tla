------------------------------ MODULE TrigCore ------------------------------
(* Shared operators of the state-trigger pipeline (C04, reused by C05/C07/C09).            *)
(* Entities a, b; an entity state is a record [v, x] (value, one attribute; x = "-" when   *)
(* the entity has no such attribute) or Absent.                                              *)
(* A trigger form F is data (spec/trig_forms.json, the same file the harness renders to    *)
(* decorator source):                                                                       *)
(*   F.expr  : expression tree  eq/ne(name, const) | and | or | not | none                 *)
(*   F.any   : sequence of any-change names  [e, f]  with f in {"v", "x", "*"}             *)
(*   F.watch : [k |-> "auto"] or [k |-> "set", names |-> <<[e, f], ...>>]                  *)
(*   F.kw    : record of decorator kwargs (strings) that override the run's arguments      *)
(* A name is a record [e |-> entity, f |-> "v" | "old" | "x" | "oldx" | "*"].               *)
EXTENDS Naturals, Sequences, FiniteSets

Ent    == {"a", "b"}
Absent == [v |-> "-", x |-> "-"]              \* entity does not exist (None in pyscript)
Unset  == [v |-> "?", x |-> "?"]              \* no value known (.old of the unchanged entity)
Other(e) == IF e = "a" THEN "b" ELSE "a"
IsNone(s) == s = Absent \/ s = Unset
NoneS  == "None"
Range(s) == { s[i] : i \in 1..Len(s) }

\* value of a name under a valuation  val = [cur : [Ent -> St], old : [Ent -> St \cup {Unset}]];
\* undefined variables and attributes read as None
Look(val, nm) ==
  CASE nm.f = "v"   -> IF IsNone(val.cur[nm.e]) THEN NoneS ELSE val.cur[nm.e].v
    [] nm.f = "x"   -> IF IsNone(val.cur[nm.e]) \/ val.cur[nm.e].x = "-" THEN NoneS ELSE val.cur[nm.e].x   \* "-": no such attribute
    [] nm.f = "old" -> IF IsNone(val.old[nm.e]) THEN NoneS ELSE val.old[nm.e].v
    [] nm.f = "oldx" -> IF IsNone(val.old[nm.e]) \/ val.old[nm.e].x = "-" THEN NoneS ELSE val.old[nm.e].x   \* d.e.old.attr
    [] OTHER        -> NoneS

\* Three-valued evaluation: "T" truthy, "F" falsy, "E" the evaluation raises (int() of None or of a non-number);
\* and / or / not / conditional expressions short-circuit as in Python.  An evaluation that raises is not truthy:
\* no run for that event - and the trigger keeps serving the later ones.
RECURSIVE EvalR(_, _), NamesE(_)
B3(b) == IF b THEN "T" ELSE "F"
EvalR(x, val) ==
  CASE x.k = "eq"  -> B3(Look(val, x.n) = x.c)
    [] x.k = "ne"  -> B3(Look(val, x.n) # x.c)
    [] x.k = "intpos" -> LET s == Look(val, x.n) IN                       \* int(NAME) > 0
                         IF s = "1" THEN "T" ELSE IF s = "0" THEN "F" ELSE "E"
    [] x.k = "and" -> LET l == EvalR(x.l, val) IN IF l # "T" THEN l ELSE EvalR(x.r, val)
    [] x.k = "or"  -> LET l == EvalR(x.l, val) IN IF l # "F" THEN l ELSE EvalR(x.r, val)
    [] x.k = "not" -> LET a == EvalR(x.a, val) IN IF a = "E" THEN "E" ELSE IF a = "T" THEN "F" ELSE "T"
    [] x.k = "ite" -> LET c == EvalR(x.c, val) IN                        \* conditional expression  t if c else e
                      IF c = "E" THEN "E" ELSE IF c = "T" THEN EvalR(x.t, val) ELSE EvalR(x.e, val)
    [] OTHER       -> "F"
EvalE(x, val) == EvalR(x, val) = "T"
NamesE(x) ==
  CASE x.k \in {"eq", "ne", "intpos"}  -> {x.n}
    [] x.k \in {"and", "or"} -> NamesE(x.l) \cup NamesE(x.r)
    [] x.k = "not"           -> NamesE(x.a)
    [] x.k = "ite"           -> NamesE(x.c) \cup NamesE(x.t) \cup NamesE(x.e)
    [] OTHER                 -> {}

HasExpr(F)  == F.expr.k # "none"
AnyNames(F) == Range(F.any)
\* names whose change causes an evaluation
Watch(F)    == IF F.watch.k = "set" THEN Range(F.watch.names) ELSE NamesE(F.expr) \cup AnyNames(F)
\* (a four-part name d.e.old.attr is readable in the expression but subscribes to nothing by itself)
SubscribedEnts(F) == { nm.e : nm \in { w \in Watch(F) : w.f # "oldx" } }

\* a notification n = [e, new, old]
ValueChanged(n) == n.new.v # n.old.v           \* values compare as strings; Absent has v = "-"
AttrChanged(n)  == n.new.x # n.old.x
\* any-change forms "d.e", "d.e.attr", "d.e.*"
\* (watch= replaces the extracted set - "when (and only when) a variable in this set changes, the trigger expression is
\* evaluated": a change of an entity outside watch= starts nothing, any-change form or not)
AnyMatch(F, n) == n.e \in SubscribedEnts(F) /\ \E nm \in AnyNames(F) : nm.e = n.e /\
                     ( (nm.f = "v" /\ ValueChanged(n)) \/ (nm.f \in {"x", "*"} /\ AttrChanged(n)) )
\* a watched variable or attribute changed
WatchedChanged(F, n) == \E nm \in Watch(F) : nm.e = n.e /\
                     ( (nm.f \in {"v", "old"} /\ ValueChanged(n)) \/ (nm.f = "x" /\ AttrChanged(n)) )

\* valuation of event n when the unchanged entity has state ov
Valuation(n, ov) == [cur |-> [e \in Ent |-> IF e = n.e THEN n.new ELSE ov],
                     old |-> [e \in Ent |-> IF e = n.e THEN n.old ELSE Unset]]

\* does the notification, evaluated with ov for the other entity, start a run?
Fires(F, n, ov) == AnyMatch(F, n) \/ (WatchedChanged(F, n) /\ HasExpr(F) /\ EvalE(F.expr, Valuation(n, ov)))

\* keyword arguments a run receives: its own event's, overridden by the decorator's kwargs
EventKw(n) == [trigger_type |-> "state", var_name |-> "pyscript." \o n.e]
Merged(args, kw) == [k \in DOMAIN args \cup DOMAIN kw |-> IF k \in DOMAIN kw THEN kw[k] ELSE args[k]]
RunKw(F, n) == Merged(EventKw(n), F.kw)
=============================================================================
