------------------------------- MODULE PyScope -------------------------------
(* Python's scoping, closure, definition-time and class semantics (C03) as a deterministic  *)
(* machine over generated programs (JSON AST).  The machine COMPUTES the tracer log a        *)
(* program must produce; PyScopeTrace compares it with the logs recorded under CPython     *)
(* (which validates this specification) and under pyscript's interpreter (the check).       *)
(*                                                                                          *)
(* Program  P = [names, codes, fuel, flags]; codes[1] is the module.                        *)
(*  code = [kind : "module" | "func" | "native" | "lambda" | "class" | "comp",               *)
(*          sig (PyBind signature), dflt, kodflt : Seq(expr)  (default expressions),        *)
(*          globals, nonlocals : Seq(name), body : Seq(stmt), expr (lambda body / comp       *)
(*          element), x (comp target)]                                                      *)
(*  stmt (k): assign x e | expr e | def x c decos | class x c | del x | ret e |             *)
(*          for x it body | ifpos e body | with x e body | tryexc x body | setattr o a e |  *)
(*          push e | store ts e (t1 = t2 = e with general targets) | annassign x e          *)
(*          (x: int = e) | augsub o i (o[i] -= 1) | delsub o i (del o[i]) | fort t ns body   *)
(*          (for <target> in ns) | witht t e body (with cm(e) as <target>);                  *)
(*          every statement has g: the site of its guard (0 = unguarded); a guard            *)
(*          catches NameError/TypeError/AttributeError/IndexError/ValueError, logs the       *)
(*          family and goes on.                                                              *)
(*  target (k): tname x | tsub o i (o[i]) | tattr o a (o.a) | ttuple ts (t1, t2 = ..)        *)
(*  expr (k): int n | name x | ev s a (tracer: logs the value of a at site s) | call f args *)
(*          kws | attr o a | sub1 a | lambda c | walrus x a | comp c ns | mklist es ([..]) | *)
(*          sub o i (o[i])                                                                  *)
(*                                                                                          *)
(* State  M = [frames, globs, ctx, objs, box, log, fuel]:                                   *)
(*  frames : Seq([code, parent, vars])  activations (never popped: closures keep them);     *)
(*           vars are the CELLS - every closure created in an activation shares them;       *)
(*           parent = the activation in which the function/class/comprehension was created *)
(*  globs  : [context name -> [name -> value]]   global tables keyed by context name and    *)
(*  ctx    : Seq(context name)                   the evaluator's context-pointer stack      *)
(*           (one context here; C11 adds tables and pushes/pops around cross-file calls)    *)
(*  lsts   : list objects (mutable sequences of values; a list value is a reference)        *)
(*  objs   : instances [cls, attrs]; box : values pushed to the tracer's list; fuel: calls  *)
(*           of interpreted functions still allowed (bounds recursion identically on both   *)
(*           sides: the generated functions start with tick()).                             *)
(*  marks  : sv - an attribute was read or set on an UNBOUND plain name.  Python raises      *)
(*           NameError; pyscript documents `name.attr` with an undefined first part as a    *)
(*           state variable - the statement is silent there, the acceptor skips such runs.  *)
(*                                                                                          *)
(* flags: named deviations of the pinned code (known findings); {} is Python.               *)
(*  "defaults-first"     defaults are evaluated before the decorator expressions            *)
(*  "weak-self"          a method fetched from a temporary instance is bound to None        *)
(*  "native-no-enclosing" lambda / @pyscript_compile bodies do not see enclosing function   *)
(*                       scopes (free names resolve in the global table); a                 *)
(*                       @pyscript_compile definition executed a second time is interpreted *)
(*  "class-no-enclosing" a class body inside a function does not see the function's         *)
(*                       variables (and inherits the function's global declarations)        *)
(*  "global-decl-leaks"  a free name skips an enclosing function that declares it global    *)
(*                       and binds to a cell further out                                    *)
(*  "del-global-silent" `del x` of an unbound name that the function declares global does   *)
(*                       not raise                                                         *)
(* marks: loci of known findings whose exact effect is not modelled; M.marks records the    *)
(* log position at which the locus was first reached (0 = never):                           *)
(*  comp  a function whose body contains a comprehension is entered, or a comprehension's    *)
(*        element raised                                                                    *)
(*        (pyscript runs comprehensions in the enclosing scope with save/restore)          *)
(*  ucap  an interpreted function was called while a variable it captures from an enclosing*)
(*        function was unbound (pyscript gives the call a private cell)                     *)
(*  excas an `except .. as x` handler ran in a function where x is captured by an inner      *)
(*        function/class or declared global/nonlocal (pyscript binds x in the function's    *)
(*        own table and removes the variable's cell afterwards)                             *)
(*  ndflt a definition inside a function evaluates a default expression that mentions a     *)
(*        variable of a function further out (pyscript captures only names mentioned in     *)
(*        bodies and decorators, not in the default expressions of inner definitions)       *)
(*  dyncap a function is defined while a CALLER on the stack has a local with the name of    *)
(*        one of its global free variables (pyscript searches the call stack's tables:      *)
(*        dynamic scoping)                                                                  *)
(*  nldyn a function that declares x nonlocal is defined where pyscript's definition-time     *)
(*        search for x's cell - the defining activation's table, then the tables of the     *)
(*        CALLERS on the stack, innermost first - does not arrive at the lexical owner's    *)
(*        cell: the functions in between do not "mention" x for pyscript's static pre-pass  *)
(*        (PNames below: a name the inner function assigns is taken for its local even if   *)
(*        declared nonlocal there) and the defining activation was not called from the      *)
(*        lexical owner (PyCell below computes the search; exact up to earlier deviations)  *)
(*  annloc an interpreted function whose own block contains an annotated assignment           *)
(*        `x: T = e` is entered (pyscript's static pre-pass does not know this binding form: *)
(*        x is no local for it - it gets no cell and is invisible to the inner functions,    *)
(*        and a read before the assignment finds an outer / global x instead of raising)     *)
(* census marks (no deviation, never an excuse; show that the situations occur):             *)
(*  excexit a guard inside an interpreted function caught an exception that left the           *)
(*        activation of a callee (afterwards the caller's own declarations must govern)       *)
(*  encsub an item of a list is stored / deleted / rebound through a target o[i] whose         *)
(*        container or index is a variable of an ENCLOSING activation (the closure must have *)
(*        captured a name that it mentions only inside an assignment target)                 *)
(*  amb   a function is defined that captures x from an enclosing activation while ANOTHER  *)
(*        activation on the call stack also has a local named x (recursion of the owner, a  *)
(*        caller with a same-named variable): the capture must pick the lexical one         *)
(* and two marks for behaviour that is not demanded here: sv (below) and                    *)
(*  xdel  the target of `except .. as x` was deleted inside the handler (the handler's exit  *)
(*        protocol is C02's business)                                                       *)
EXTENDS PyBind, Integers, TLC

Unbound == [k |-> "unbound"]
NoneV   == [k |-> "none"]
ExcObj  == [k |-> "excobj"]
IntV(n) == [k |-> "int", n |-> n]
Exc(e)  == [k |-> "exc", e |-> e]
Fall    == [k |-> "fall"]
IsExc(r) == r.k = "exc"
Res(M, r) == [M |-> M, r |-> r]
Catchable == {"NameError", "TypeError", "AttributeError", "IndexError", "ValueError"}
Builtins  == {"abs"}
FunLike   == {"func", "native", "lambda", "comp"}

(* ------------------------------ static analysis of one code object ---------------------- *)
\* assignment targets: the names a target binds and the expressions it evaluates (container / index / object)
RECURSIVE TBinds(_), TBindsL(_, _), TExprs(_), TExprsL(_, _)
TBinds(t) == CASE t.k = "tname" -> {t.x} [] t.k = "ttuple" -> TBindsL(t.ts, 1) [] OTHER -> {}
TBindsL(ts, i) == IF i > Len(ts) THEN {} ELSE TBinds(ts[i]) \cup TBindsL(ts, i + 1)
TExprs(t) == CASE t.k = "tsub" -> <<t.o, t.i>> [] t.k = "tattr" -> <<t.o>> [] t.k = "ttuple" -> TExprsL(t.ts, 1) [] OTHER -> <<>>
TExprsL(ts, i) == IF i > Len(ts) THEN <<>> ELSE TExprs(ts[i]) \o TExprsL(ts, i + 1)
\* the statement kinds with general targets / subscripts: names bound, expressions evaluated, nested block
TK == {"store", "annassign", "augsub", "delsub", "fort", "witht"}
TKBinds(s) == CASE s.k = "store" -> TBindsL(s.ts, 1) [] s.k = "annassign" -> {s.x}
                [] s.k \in {"fort", "witht"} -> TBinds(s.t) [] OTHER -> {}
TKExprs(s) == CASE s.k = "store" -> TExprsL(s.ts, 1) \o <<s.e>> [] s.k = "annassign" -> <<s.e>>
                [] s.k \in {"augsub", "delsub"} -> <<s.o, s.i>> [] s.k = "fort" -> TExprs(s.t)
                [] s.k = "witht" -> TExprs(s.t) \o <<s.e>> [] OTHER -> <<>>
TKBody(s) == IF s.k \in {"fort", "witht"} THEN s.body ELSE <<>>
RECURSIVE BindsE(_), BindsEs(_, _), BindsS(_, _)
BindsE(e) ==
  CASE e.k = "walrus" -> {e.x} \cup BindsE(e.a)
    [] e.k \in {"ev", "sub1"} -> BindsE(e.a)
    [] e.k = "attr" -> BindsE(e.o)
    [] e.k = "call" -> BindsE(e.f) \cup BindsEs(e.args, 1) \cup BindsEs([i \in 1..Len(e.kws) |-> e.kws[i].e], 1)
    [] e.k = "mklist" -> BindsEs(e.es, 1)
    [] e.k = "sub" -> BindsE(e.o) \cup BindsE(e.i)
    [] OTHER -> {}                                  \* int, name; lambda and comp are scopes of their own
BindsEs(es, i) == IF i > Len(es) THEN {} ELSE BindsE(es[i]) \cup BindsEs(es, i + 1)
BindsS(body, i) ==
  IF i > Len(body) THEN {}
  ELSE LET s == body[i] IN
       (CASE s.k = "assign" -> {s.x} \cup BindsE(s.e)
          [] s.k \in {"expr", "ret", "push"} -> BindsE(s.e)
          [] s.k = "def" -> {s.x} \cup BindsEs(s.decos, 1)
          [] s.k \in {"class", "del"} -> {s.x}
          [] s.k = "for" -> {s.x} \cup BindsS(s.body, 1)
          [] s.k = "ifpos" -> BindsE(s.e) \cup BindsS(s.body, 1)
          [] s.k = "with" -> {s.x} \cup BindsE(s.e) \cup BindsS(s.body, 1)
          [] s.k = "tryexc" -> {s.x} \cup BindsS(s.body, 1)
          [] s.k = "setattr" -> BindsE(s.o) \cup BindsE(s.e)
          [] s.k \in TK -> TKBinds(s) \cup BindsEs(TKExprs(s), 1) \cup BindsS(TKBody(s), 1)
          [] OTHER -> {})
       \cup BindsS(body, i + 1)
\* every name occurring lexically in an expression / block / code object (nested code objects included)
RECURSIVE NamesE(_, _), NamesEs(_, _, _), NamesS(_, _, _), NamesC(_, _)
NamesE(codes, e) ==
  CASE e.k = "name" -> {e.x}
    [] e.k = "walrus" -> {e.x} \cup NamesE(codes, e.a)
    [] e.k \in {"ev", "sub1"} -> NamesE(codes, e.a)
    [] e.k = "attr" -> NamesE(codes, e.o)
    [] e.k = "call" -> NamesE(codes, e.f) \cup NamesEs(codes, e.args, 1) \cup NamesEs(codes, [i \in 1..Len(e.kws) |-> e.kws[i].e], 1)
    [] e.k \in {"lambda", "comp"} -> NamesC(codes, e.c)
    [] e.k = "mklist" -> NamesEs(codes, e.es, 1)
    [] e.k = "sub" -> NamesE(codes, e.o) \cup NamesE(codes, e.i)
    [] OTHER -> {}
NamesEs(codes, es, i) == IF i > Len(es) THEN {} ELSE NamesE(codes, es[i]) \cup NamesEs(codes, es, i + 1)
NamesS(codes, body, i) ==
  IF i > Len(body) THEN {}
  ELSE LET s == body[i] IN
       (CASE s.k = "assign" -> {s.x} \cup NamesE(codes, s.e)
          [] s.k \in {"expr", "ret", "push"} -> NamesE(codes, s.e)
          [] s.k = "def" -> {s.x} \cup NamesEs(codes, s.decos, 1) \cup NamesC(codes, s.c)
          [] s.k = "class" -> {s.x} \cup NamesC(codes, s.c)
          [] s.k = "del" -> {s.x}
          [] s.k \in {"for", "tryexc"} -> {s.x} \cup NamesS(codes, s.body, 1)
          [] s.k = "ifpos" -> NamesE(codes, s.e) \cup NamesS(codes, s.body, 1)
          [] s.k = "with" -> {s.x} \cup NamesE(codes, s.e) \cup NamesS(codes, s.body, 1)
          [] s.k = "setattr" -> NamesE(codes, s.o) \cup NamesE(codes, s.e)
          [] s.k \in TK -> TKBinds(s) \cup NamesEs(codes, TKExprs(s), 1) \cup NamesS(codes, TKBody(s), 1)
          [] OTHER -> {})
       \cup NamesS(codes, body, i + 1)
NamesC(codes, c) ==
  LET code == codes[c] IN
  Range(AllParams(code.sig)) \cup Range(code.globals) \cup Range(code.nonlocals) \cup NamesS(codes, code.body, 1)
  \cup NamesE(codes, code.expr) \cup NamesEs(codes, code.dflt, 1) \cup NamesEs(codes, code.kodflt, 1)
  \cup (IF code.kind = "comp" THEN {code.x} ELSE {})
\* names occurring in the code objects nested in a block (what inner functions / classes may capture)
RECURSIVE InnerE(_, _), InnerEs(_, _, _), InnerS(_, _, _)
InnerE(codes, e) ==
  CASE e.k \in {"walrus", "ev", "sub1"} -> InnerE(codes, e.a)
    [] e.k = "attr" -> InnerE(codes, e.o)
    [] e.k = "call" -> InnerE(codes, e.f) \cup InnerEs(codes, e.args, 1) \cup InnerEs(codes, [i \in 1..Len(e.kws) |-> e.kws[i].e], 1)
    [] e.k \in {"lambda", "comp"} -> NamesC(codes, e.c)
    [] e.k = "mklist" -> InnerEs(codes, e.es, 1)
    [] e.k = "sub" -> InnerE(codes, e.o) \cup InnerE(codes, e.i)
    [] OTHER -> {}
InnerEs(codes, es, i) == IF i > Len(es) THEN {} ELSE InnerE(codes, es[i]) \cup InnerEs(codes, es, i + 1)
InnerS(codes, body, i) ==
  IF i > Len(body) THEN {}
  ELSE LET s == body[i] IN
       (CASE s.k \in {"assign", "expr", "ret", "push"} -> InnerE(codes, s.e)
          [] s.k = "def" -> InnerEs(codes, s.decos, 1) \cup NamesC(codes, s.c)
          [] s.k = "class" -> NamesC(codes, s.c)
          [] s.k \in {"for", "tryexc"} -> InnerS(codes, s.body, 1)
          [] s.k \in {"ifpos", "with"} -> InnerE(codes, s.e) \cup InnerS(codes, s.body, 1)
          [] s.k = "setattr" -> InnerE(codes, s.o) \cup InnerE(codes, s.e)
          [] s.k \in TK -> InnerEs(codes, TKExprs(s), 1) \cup InnerS(codes, TKBody(s), 1)
          [] OTHER -> {})
       \cup InnerS(codes, body, i + 1)
\* does the block contain a comprehension written directly in it (not in a nested code object)
RECURSIVE HasCompE(_), HasCompEs(_, _), HasCompS(_, _)
HasCompE(e) ==
  CASE e.k = "comp" -> TRUE
    [] e.k \in {"ev", "sub1", "walrus"} -> HasCompE(e.a)
    [] e.k = "attr" -> HasCompE(e.o)
    [] e.k = "call" -> HasCompE(e.f) \/ HasCompEs(e.args, 1)
    [] e.k = "mklist" -> HasCompEs(e.es, 1)
    [] e.k = "sub" -> HasCompE(e.o) \/ HasCompE(e.i)
    [] OTHER -> FALSE
HasCompEs(es, i) == IF i > Len(es) THEN FALSE ELSE HasCompE(es[i]) \/ HasCompEs(es, i + 1)
HasCompS(body, i) ==
  IF i > Len(body) THEN FALSE
  ELSE LET s == body[i] IN
       (CASE s.k \in {"assign", "expr", "ret", "push"} -> HasCompE(s.e)
          [] s.k \in {"for", "tryexc"} -> HasCompS(s.body, 1)
          [] s.k \in {"ifpos", "with"} -> HasCompE(s.e) \/ HasCompS(s.body, 1)
          [] s.k \in TK -> HasCompEs(TKExprs(s), 1) \/ HasCompS(TKBody(s), 1)
          [] OTHER -> FALSE)
       \/ HasCompS(body, i + 1)
\* the names of a block as pyscript's static pre-pass (get_names_set) collects them for the function owning the
\* block: the names of a nested def / class body count only if that body neither binds them (assignment-like
\* statements of its own block - a `nonlocal` declaration there is not consulted) nor declares them global;
\* parameters and default expressions of nested definitions are not visited.  Used by the nldyn locus only.
RECURSIVE PNamesE(_, _), PNamesEs(_, _, _), PNamesS(_, _, _), PInner(_, _)
PNamesE(codes, e) ==
  CASE e.k = "name" -> {e.x}
    [] e.k = "walrus" -> {e.x} \cup PNamesE(codes, e.a)
    [] e.k \in {"ev", "sub1"} -> PNamesE(codes, e.a)
    [] e.k = "attr" -> PNamesE(codes, e.o)
    [] e.k = "call" -> PNamesE(codes, e.f) \cup PNamesEs(codes, e.args, 1) \cup PNamesEs(codes, [i \in 1..Len(e.kws) |-> e.kws[i].e], 1)
    [] e.k = "lambda" -> PNamesE(codes, codes[e.c].expr) \cup PNamesEs(codes, codes[e.c].dflt, 1)
    [] e.k = "comp" -> {codes[e.c].x} \cup PNamesE(codes, codes[e.c].expr)
    [] e.k = "mklist" -> PNamesEs(codes, e.es, 1)
    [] e.k = "sub" -> PNamesE(codes, e.o) \cup PNamesE(codes, e.i)
    [] OTHER -> {}
PNamesEs(codes, es, i) == IF i > Len(es) THEN {} ELSE PNamesE(codes, es[i]) \cup PNamesEs(codes, es, i + 1)
PNamesS(codes, body, i) ==
  IF i > Len(body) THEN {}
  ELSE LET s == body[i] IN
       (CASE s.k = "assign" -> {s.x} \cup PNamesE(codes, s.e)
          [] s.k \in {"expr", "ret", "push"} -> PNamesE(codes, s.e)
          [] s.k = "def" -> {s.x} \cup PNamesEs(codes, s.decos, 1) \cup PInner(codes, s.c)
          [] s.k = "class" -> {s.x} \cup PInner(codes, s.c)
          [] s.k = "del" -> {s.x}
          [] s.k \in {"for", "tryexc"} -> {s.x} \cup PNamesS(codes, s.body, 1)
          [] s.k = "ifpos" -> PNamesE(codes, s.e) \cup PNamesS(codes, s.body, 1)
          [] s.k = "with" -> {s.x} \cup PNamesE(codes, s.e) \cup PNamesS(codes, s.body, 1)
          [] s.k = "setattr" -> PNamesE(codes, s.o) \cup PNamesE(codes, s.e)
          [] s.k \in TK -> TKBinds(s) \cup PNamesEs(codes, TKExprs(s), 1) \cup PNamesS(codes, TKBody(s), 1)
          [] OTHER -> {})
       \cup PNamesS(codes, body, i + 1)
PInner(codes, c) == PNamesS(codes, codes[c].body, 1) \ (BindsS(codes[c].body, 1) \cup Range(codes[c].globals))
PMent(codes, c) == PNamesS(codes, codes[c].body, 1) \cup Range(AllParams(codes[c].sig))
                   \cup Range(codes[c].globals) \cup Range(codes[c].nonlocals)
\* does the block contain an annotated assignment (directly, not in a nested code object)
RECURSIVE HasAnnS(_, _)
HasAnnS(body, i) ==
  IF i > Len(body) THEN FALSE
  ELSE LET s == body[i] IN
       (CASE s.k = "annassign" -> TRUE
          [] s.k \in {"for", "tryexc", "ifpos", "with", "fort", "witht"} -> HasAnnS(s.body, 1)
          [] OTHER -> FALSE)
       \/ HasAnnS(body, i + 1)
\* does the block contain a def / class statement (pyscript keeps a function's locals in cells only then)
RECURSIVE HasDefS(_, _)
HasDefS(body, i) ==
  IF i > Len(body) THEN FALSE
  ELSE LET s == body[i] IN
       (CASE s.k \in {"def", "class"} -> TRUE
          [] s.k \in {"for", "tryexc", "ifpos", "with", "fort", "witht"} -> HasDefS(s.body, 1)
          [] OTHER -> FALSE)
       \/ HasDefS(body, i + 1)
Declared(code) == Range(code.globals) \cup Range(code.nonlocals)
Locals(code) ==
  CASE code.kind = "module" -> {}
    [] code.kind \in {"func", "native"} -> (BindsS(code.body, 1) \cup Range(AllParams(code.sig))) \ Declared(code)
    [] code.kind = "lambda" -> Range(AllParams(code.sig))
    [] code.kind = "comp" -> {code.x}
    [] code.kind = "class" -> BindsS(code.body, 1) \ Declared(code)      \* names of the class namespace

(* ------------------------------ name resolution ------------------------------------------ *)
Top(s) == s[Len(s)]
\* nearest enclosing function-like activation, from frame f outwards, in which x is local; 0 = global table.
\* Class bodies are not enclosing scopes; an enclosing function that declares x global ends the search.
RECURSIVE Owner(_, _, _, _)
Owner(P, M, f, x) ==
  IF f = 0 THEN 0
  ELSE LET fr == M.frames[f]  code == P.codes[fr.code] IN
       IF code.kind = "class" THEN Owner(P, M, fr.parent, x)
       ELSE IF x \in Range(code.globals) /\ "global-decl-leaks" \notin P.flags THEN 0
       ELSE IF x \in P.loc[fr.code] THEN f
       ELSE Owner(P, M, fr.parent, x)
\* nearest enclosing activation of an interpreted function (the evaluator's "current function"), 0 if none
RECURSIVE FuncOf(_, _, _)
FuncOf(P, M, f) == IF f = 0 THEN 0
                   ELSE IF P.codes[M.frames[f].code].kind = "func" THEN f ELSE FuncOf(P, M, M.frames[f].parent)
ClassDev(P, code) == code.kind = "class" /\ "class-no-enclosing" \in P.flags
\* the frame holding x as seen from frame f (0 = the global table of the current context)
Where(P, M, f, x) ==
  IF f = 0 THEN 0
  ELSE LET fr == M.frames[f]  code == P.codes[fr.code]  cf == FuncOf(P, M, fr.parent) IN
       IF x \in Range(code.globals) THEN 0
       ELSE IF ClassDev(P, code) /\ cf # 0 /\ x \in Range(P.codes[M.frames[cf].code].globals) THEN 0
       ELSE IF x \in P.loc[fr.code] THEN f
       ELSE IF code.kind \in {"native", "lambda"} /\ fr.nat /\ "native-no-enclosing" \in P.flags THEN 0
       ELSE IF ClassDev(P, code) THEN 0
       ELSE Owner(P, M, fr.parent, x)
GlobalGet(M, x) == LET v == M.globs[Top(M.ctx)][x] IN
                   IF v.k = "unbound" /\ x \in Builtins THEN [k |-> "builtin", x |-> x] ELSE v
Raw(M, w, x) == IF w = 0 THEN M.globs[Top(M.ctx)][x] ELSE M.frames[w].vars[x]
\* lookup in the global table from a class body
ClassGlobal(P, M, f, x) ==
  LET cf == FuncOf(P, M, M.frames[f].parent) IN
  IF ClassDev(P, P.codes[M.frames[f].code]) /\ cf # 0 /\ x \in P.loc[M.frames[cf].code] THEN Unbound ELSE GlobalGet(M, x)
Load(P, M, f, x) ==
  LET w == Where(P, M, f, x) IN
  IF w = 0 THEN (IF f # 0 /\ P.codes[M.frames[f].code].kind = "class" /\ x \notin Range(P.codes[M.frames[f].code].globals)
                 THEN ClassGlobal(P, M, f, x) ELSE GlobalGet(M, x))
  ELSE LET v == M.frames[w].vars[x] IN
       \* a name of the class namespace that is not (yet) bound there is looked up in the global table
       IF v.k = "unbound" /\ P.codes[M.frames[w].code].kind = "class" THEN ClassGlobal(P, M, w, x) ELSE v
StoreAt(M, w, x, v) == IF w = 0 THEN [M EXCEPT !.globs[Top(M.ctx)][x] = v] ELSE [M EXCEPT !.frames[w].vars[x] = v]
Store(P, M, f, x, v) == StoreAt(M, Where(P, M, f, x), x, v)
\* is x a local of an interpreted function somewhere on the dynamic call chain starting at frame g
RECURSIVE OnStack(_, _, _, _)
OnStack(P, M, g, x) ==
  IF g = 0 THEN FALSE
  ELSE (P.codes[M.frames[g].code].kind = "func" /\ x \in P.loc[M.frames[g].code]) \/ OnStack(P, M, M.frames[g].caller, x)
\* nldyn: the cell pyscript's definition-time search for x arrives at, started in frame g and continued through
\* the callers (0 = none: "no binding for nonlocal").  A function activation holds a cell for x if x is its own
\* local and its body contains a def / class, or if the function itself captured x (then, up to deviations that
\* happened earlier, the lexical owner's); class bodies and natively compiled code hold no cells.
RECURSIVE PyCell(_, _, _, _)
PyCell(P, M, g, x) ==
  IF g = 0 THEN 0
  ELSE LET fr == M.frames[g]  c == fr.code  code == P.codes[c] IN
       IF code.kind = "func" /\ x \in P.loc[c] /\ P.hasdef[c] THEN g
       ELSE IF code.kind = "func" /\ x \in P.pment[c] \ (P.loc[c] \cup Range(code.globals)) /\ Owner(P, M, fr.parent, x) # 0
            THEN Owner(P, M, fr.parent, x)
       ELSE PyCell(P, M, fr.caller, x)
\* amb: does an activation other than w on the dynamic call chain starting at frame g have a local named x
RECURSIVE OtherHolder(_, _, _, _, _)
OtherHolder(P, M, g, w, x) ==
  IF g = 0 THEN FALSE
  ELSE (g # w /\ P.codes[M.frames[g].code].kind = "func" /\ x \in P.loc[M.frames[g].code])
       \/ OtherHolder(P, M, M.frames[g].caller, w, x)
Mark(M, m) == IF M.marks[m] = 0 THEN [M EXCEPT !.marks[m] = Len(M.log) + 1] ELSE M

(* ------------------------------ log ------------------------------------------------------ *)
Log(M, s, v) == [M EXCEPT !.log = Append(@, [s |-> s, k |-> IF v.k = "lst" THEN "list" ELSE v.k,
                                                n |-> IF v.k \in {"int", "list"} THEN v.n
                                                      ELSE IF v.k = "lst" THEN Len(M.lsts[v.o]) ELSE 0])]
LogExc(M, s, e) == [M EXCEPT !.log = Append(@, [s |-> s, k |-> e, n |-> 0])]

(* ------------------------------ attributes ---------------------------------------------- *)
\* temp: the object expression is not a name (the instance is a temporary of the expression)
GetAttr(P, M, v, a, temp) ==
  CASE v.k = "obj" ->
         LET own == M.objs[v.o].attrs[a] IN
         IF own.k # "unbound" THEN own
         ELSE LET cv == M.frames[M.objs[v.o].cls].vars[a] IN
              IF cv.k = "unbound" THEN Exc("AttributeError")
              ELSE IF cv.k = "fn"
                   THEN [k |-> "bm", fn |-> cv,
                         self |-> IF temp /\ "weak-self" \in P.flags /\ P.codes[cv.code].kind = "func" THEN NoneV ELSE v]
                   ELSE cv
    [] v.k = "cls" -> LET cv == M.frames[v.fr].vars[a] IN IF cv.k = "unbound" THEN Exc("AttributeError") ELSE cv
    [] OTHER -> Exc("AttributeError")

(* ------------------------------ list items ---------------------------------------------- *)
\* o[i] on values ov, iv: position (1-based) of the item, 0 = IndexError; only lists are subscriptable here
ItemErr(M, ov, iv) == IF ov.k = "list" THEN "Unmodelled"        \* the result of a comprehension carries no items here
                      ELSE IF ov.k # "lst" \/ iv.k # "int" THEN "TypeError"
                      ELSE LET n == Len(M.lsts[ov.o]) IN IF iv.n >= n \/ iv.n < 0 - n THEN "IndexError" ELSE "ok"
ItemPos(M, ov, iv) == IF iv.n < 0 THEN iv.n + Len(M.lsts[ov.o]) + 1 ELSE iv.n + 1
GetItem(M, ov, iv) == LET e == ItemErr(M, ov, iv) IN IF e # "ok" THEN Exc(e) ELSE M.lsts[ov.o][ItemPos(M, ov, iv)]
SetItem(M, ov, iv, v) == LET e == ItemErr(M, ov, iv) IN
  IF e # "ok" THEN Res(M, Exc(e)) ELSE Res([M EXCEPT !.lsts[ov.o][ItemPos(M, ov, iv)] = v], Fall)
DelItem(M, ov, iv) == LET e == ItemErr(M, ov, iv) IN
  IF e # "ok" THEN Res(M, Exc(e))
  ELSE LET L == M.lsts[ov.o]  j == ItemPos(M, ov, iv) IN
       Res([M EXCEPT !.lsts[ov.o] = [k \in 1..(Len(L) - 1) |-> IF k < j THEN L[k] ELSE L[k + 1]]], Fall)

DefaultOf(sig, fv, p) ==
  LET n == Len(sig.po) + Len(sig.pk) IN
  IF \E i \in 1..n : Positional(sig)[i] = p
  THEN fv.dflt[PosIndex(sig, p) - (n - sig.ndef)]
  ELSE LET j == CHOOSE i \in 1..Len(sig.ko) : sig.ko[i].name = p IN
       fv.kodflt[Cardinality({ i \in 1..j : sig.ko[i].hasdef })]

(* ------------------------------ the interpreter ------------------------------------------ *)
RECURSIVE Eval(_, _, _, _), EvalList(_, _, _, _, _, _), MakeFn(_, _, _, _), Comp(_, _, _, _, _, _),
          Apply(_, _, _, _, _, _, _), CallFn(_, _, _, _, _, _, _), ApplyDecos(_, _, _, _, _, _),
          Exec(_, _, _, _, _), Stmt(_, _, _, _), ForLoop(_, _, _, _, _, _),
          AssignT(_, _, _, _, _), AssignTs(_, _, _, _, _, _, _), SubRef(_, _, _, _, _), ForT(_, _, _, _, _)

\* expressions es[i..] left to right; result [M, r] with r an exception or [k |-> "vals", vs]
EvalList(P, M, f, es, i, acc) ==
  IF i > Len(es) THEN Res(M, [k |-> "vals", vs |-> acc])
  ELSE LET a == Eval(P, M, f, es[i]) IN
       IF IsExc(a.r) THEN a ELSE EvalList(P, a.M, f, es, i + 1, Append(acc, a.r))

\* function object for code c created in frame f: positional defaults, then keyword-only defaults
MakeFn(P, M0, f, c) ==
  LET fc == IF f = 0 THEN 0 ELSE M0.frames[f].code
      nd == f # 0 /\ P.codes[fc].kind = "func" /\
            \E x \in NamesEs(P.codes, P.codes[c].dflt, 1) \cup NamesEs(P.codes, P.codes[c].kodflt, 1) :
               x \notin P.loc[fc] /\ x \notin Range(P.codes[fc].globals) /\ Owner(P, M0, M0.frames[f].parent, x) # 0
      dc == \E x \in P.ment[c] \ (P.loc[c] \cup Range(P.codes[c].globals)) :
               Owner(P, M0, f, x) = 0 /\ f # 0 /\ OnStack(P, M0, M0.frames[f].caller, x)
      nl == f # 0 /\ \E x \in Range(P.codes[c].nonlocals) :
               LET w == Owner(P, M0, f, x) IN w # 0 /\ PyCell(P, M0, f, x) # w
      am == f # 0 /\ \E x \in P.ment[c] \ (P.loc[c] \cup Range(P.codes[c].globals)) :
               LET w == Owner(P, M0, f, x) IN w # 0 /\ OtherHolder(P, M0, f, w, x)
      M1 == IF nd THEN Mark(M0, "ndflt") ELSE M0
      M2 == IF dc THEN Mark(M1, "dyncap") ELSE M1
      M3 == IF nl THEN Mark(M2, "nldyn") ELSE M2
      M  == IF am THEN Mark(M3, "amb") ELSE M3
      d1 == EvalList(P, M, f, P.codes[c].dflt, 1, <<>>) IN
  IF IsExc(d1.r) THEN d1
  ELSE LET d2 == EvalList(P, d1.M, f, P.codes[c].kodflt, 1, <<>>) IN
       IF IsExc(d2.r) THEN d2
       ELSE \* nat: compiled natively.  Under the deviation a @pyscript_compile definition is native only the
            \* first time it executes (the decorator is removed from the AST), afterwards it is interpreted.
            LET nat == P.codes[c].kind # "native" \/ c \notin d2.M.ndef IN
            Res([d2.M EXCEPT !.ndef = IF P.codes[c].kind = "native" THEN @ \cup {c} ELSE @],
                [k |-> "fn", code |-> c, env |-> f, dflt |-> d1.r.vs, kodflt |-> d2.r.vs, nat |-> nat])

Eval(P, M, f, e) ==
  CASE e.k = "int" -> Res(M, IntV(e.n))
    [] e.k = "name" -> LET v == Load(P, M, f, e.x) IN Res(M, IF v.k = "unbound" THEN Exc("NameError") ELSE v)
    [] e.k = "ev" -> LET a == Eval(P, M, f, e.a) IN IF IsExc(a.r) THEN a ELSE Res(Log(a.M, e.s, a.r), a.r)
    [] e.k = "sub1" -> LET a == Eval(P, M, f, e.a) IN
                       IF IsExc(a.r) THEN a
                       ELSE IF a.r.k = "int" THEN Res(a.M, IntV(a.r.n - 1)) ELSE Res(a.M, Exc("TypeError"))
    [] e.k = "walrus" -> LET a == Eval(P, M, f, e.a) IN IF IsExc(a.r) THEN a ELSE Res(Store(P, a.M, f, e.x, a.r), a.r)
    [] e.k = "attr" -> LET o == Eval(P, M, f, e.o) IN
                       IF IsExc(o.r) THEN Res(IF e.o.k = "name" THEN Mark(o.M, "sv") ELSE o.M, o.r)
                       ELSE Res(o.M, GetAttr(P, o.M, o.r, e.a, e.o.k # "name"))
    [] e.k = "lambda" -> MakeFn(P, M, f, e.c)
    [] e.k = "mklist" -> LET a == EvalList(P, M, f, e.es, 1, <<>>) IN
                         IF IsExc(a.r) THEN a
                         ELSE Res([a.M EXCEPT !.lsts = Append(@, a.r.vs)], [k |-> "lst", o |-> Len(a.M.lsts) + 1])
    [] e.k = "sub" -> LET r == SubRef(P, M, f, e.o, e.i) IN
                      IF IsExc(r.r) THEN r ELSE Res(r.M, GetItem(r.M, r.r.o, r.r.i))
    [] e.k = "comp" ->
         LET fr == [code |-> e.c, parent |-> f, vars |-> [n \in P.names |-> Unbound], nat |-> TRUE, caller |-> f]
             M1 == [M EXCEPT !.frames = Append(@, fr)]
         IN Comp(P, M1, Len(M1.frames), e, 1, 0)
    [] e.k = "call" ->
         LET fv == Eval(P, M, f, e.f) IN
         IF IsExc(fv.r) THEN fv
         ELSE LET as == EvalList(P, fv.M, f, e.args, 1, <<>>) IN
              IF IsExc(as.r) THEN as
              ELSE LET ks == EvalList(P, as.M, f, [i \in 1..Len(e.kws) |-> e.kws[i].e], 1, <<>>) IN
                   IF IsExc(ks.r) THEN ks
                   ELSE Apply(P, ks.M, f, fv.r, as.r.vs, [i \in 1..Len(e.kws) |-> e.kws[i].n], ks.r.vs)

\* [elt for x in ns]: the target lives in the comprehension's own frame fi
Comp(P, M, fi, e, j, cnt) ==
  IF j > Len(e.ns) THEN Res(M, [k |-> "list", n |-> cnt])
  ELSE LET M1 == [M EXCEPT !.frames[fi].vars[P.codes[e.c].x] = IntV(e.ns[j])]
           r  == Eval(P, M1, fi, P.codes[e.c].expr)
       IN IF IsExc(r.r) THEN Res(Mark(r.M, "comp"), r.r) ELSE Comp(P, r.M, fi, e, j + 1, cnt + 1)

\* cf: the calling frame (dynamic link; Python's semantics never looks at it, the dyncap mark does)
Apply(P, M, cf, fv, args, kwn, kwv) ==
  CASE fv.k = "fn" -> CallFn(P, M, cf, fv, args, kwn, kwv)
    [] fv.k = "bm" -> CallFn(P, M, cf, fv.fn, <<fv.self>> \o args, kwn, kwv)
    [] fv.k = "cls" ->
         LET init == M.frames[fv.fr].vars["__init__"]
             M1   == [M EXCEPT !.objs = Append(@, [cls |-> fv.fr, attrs |-> [n \in P.names |-> Unbound]])]
             ov   == [k |-> "obj", o |-> Len(M1.objs)]
         IN IF init.k = "fn"
            THEN LET r == CallFn(P, M1, cf, init, <<ov>> \o args, kwn, kwv) IN
                 IF IsExc(r.r) THEN r ELSE IF r.r.k # "none" THEN Res(r.M, Exc("TypeError")) ELSE Res(r.M, ov)
            ELSE IF Len(args) = 0 /\ Len(kwn) = 0 THEN Res(M1, ov) ELSE Res(M, Exc("TypeError"))
    [] fv.k = "builtin" ->
         IF Len(args) = 1 /\ Len(kwn) = 0 /\ args[1].k = "int"
         THEN Res(M, IntV(IF args[1].n < 0 THEN 0 - args[1].n ELSE args[1].n)) ELSE Res(M, Exc("TypeError"))
    [] OTHER -> Res(M, Exc("TypeError"))                                  \* not callable

CallFn(P, M, cf, fv, args, kwn, kwv) ==
  LET code == P.codes[fv.code]
      b    == Bind(code.sig, [npos |-> Len(args), kws |-> kwn], {}, {})
  IN IF b.k = "TypeError" THEN Res(M, Exc("TypeError"))
     ELSE IF code.kind = "func" /\ M.fuel = 0 THEN Res(M, Exc("Fuel"))
     ELSE LET val(p) == IF p \in b.pos THEN args[PosIndex(code.sig, p)]
                        ELSE IF p \in b.kwd THEN kwv[CHOOSE j \in 1..Len(kwn) : kwn[j] = p]
                        ELSE DefaultOf(code.sig, fv, p)
              vars == [n \in P.names |-> IF n \in Range(AllParams(code.sig)) THEN val(n) ELSE Unbound]
              ucap == code.kind = "func" /\ \E x \in P.ment[fv.code] \ (P.loc[fv.code] \cup Range(code.globals)) :
                        LET w == Owner(P, M, fv.env, x) IN w # 0 /\ M.frames[w].vars[x].k = "unbound"
              Ma   == IF code.kind = "func" /\ P.hasann[fv.code] THEN Mark(M, "annloc") ELSE M
              Mc   == IF code.kind = "func" /\ P.hascomp[fv.code] THEN Mark(Ma, "comp") ELSE Ma
              M1   == [(IF ucap THEN Mark(Mc, "ucap") ELSE Mc)
                         EXCEPT !.frames = Append(@, [code |-> fv.code, parent |-> fv.env, vars |-> vars, nat |-> fv.nat, caller |-> cf]),
                                !.fuel = IF code.kind = "func" THEN @ - 1 ELSE @]
              fi   == Len(M1.frames)
          IN IF code.kind = "lambda" THEN Eval(P, M1, fi, code.expr)
             ELSE LET r == Exec(P, M1, fi, code.body, 1) IN IF r.r.k = "fall" THEN Res(r.M, NoneV) ELSE r

\* decorators ds[i], ds[i-1], .. ds[1] applied to v (bottom-up)
ApplyDecos(P, M, cf, ds, i, v) ==
  IF i = 0 THEN Res(M, v)
  ELSE LET r == Apply(P, M, cf, ds[i], <<v>>, <<>>, <<>>) IN IF IsExc(r.r) THEN r ELSE ApplyDecos(P, r.M, cf, ds, i - 1, r.r)

Exec(P, M, f, body, i) ==
  IF i > Len(body) THEN Res(M, Fall)
  ELSE LET s  == body[i]
           r0 == Stmt(P, M, f, s)
           caught == IsExc(r0.r) /\ s.g > 0 /\ r0.r.e \in Catchable
           \* census: a guard inside an interpreted function catches an exception of a statement during which the
           \* body of an interpreted function started (the exception left a callee's activation)
           ee == caught /\ f # 0 /\ P.codes[M.frames[f].code].kind = "func"
                 /\ \E j \in (Len(M.frames) + 1)..Len(r0.M.frames) : P.codes[r0.M.frames[j].code].kind = "func"
           r  == IF caught THEN Res(LogExc(IF ee THEN Mark(r0.M, "excexit") ELSE r0.M, s.g, r0.r.e), Fall) ELSE r0
       IN IF r.r.k = "fall" THEN Exec(P, r.M, f, body, i + 1) ELSE r

\* container and index of o[i], evaluated in this order; result [k |-> "ref", o, i] or an exception.
\* census: the container or the index is a plain name that resolves in an ENCLOSING activation
SubRef(P, M, f, oe, ie) ==
  LET o == Eval(P, M, f, oe) IN
  IF IsExc(o.r) THEN o
  ELSE LET i == Eval(P, o.M, f, ie) IN
       IF IsExc(i.r) THEN i ELSE Res(i.M, [k |-> "ref", o |-> o.r, i |-> i.r])
Encl(P, M, f, e) == e.k = "name" /\ f # 0 /\ Where(P, M, f, e.x) \notin {0, f}
MarkEnc(P, M, f, oe, ie) == IF Encl(P, M, f, oe) \/ Encl(P, M, f, ie) THEN Mark(M, "encsub") ELSE M
\* value v is assigned to target t (the value is already evaluated: Python evaluates the right-hand side first)
AssignT(P, M, f, t, v) ==
  CASE t.k = "tname" -> Res(Store(P, M, f, t.x, v), Fall)
    [] t.k = "tsub" -> LET r == SubRef(P, M, f, t.o, t.i) IN
                       IF IsExc(r.r) THEN r ELSE SetItem(MarkEnc(P, r.M, f, t.o, t.i), r.r.o, r.r.i, v)
    [] t.k = "tattr" ->
         LET o == Eval(P, M, f, t.o) IN
         IF IsExc(o.r) THEN Res(IF t.o.k = "name" THEN Mark(o.M, "sv") ELSE o.M, o.r)
         ELSE IF o.r.k = "obj" THEN Res([o.M EXCEPT !.objs[o.r.o].attrs[t.a] = v], Fall)
         ELSE IF o.r.k = "cls" THEN Res([o.M EXCEPT !.frames[o.r.fr].vars[t.a] = v], Fall)
         ELSE Res(o.M, Exc("AttributeError"))
    [] t.k = "ttuple" ->
         \* unpacking: only list objects are iterable here; the length is checked before anything is stored
         IF v.k = "list" THEN Res(M, Exc("Unmodelled"))
         ELSE IF v.k # "lst" THEN Res(M, Exc("TypeError"))
         ELSE IF Len(M.lsts[v.o]) # Len(t.ts) THEN Res(M, Exc("ValueError"))
         ELSE AssignTs(P, M, f, t.ts, M.lsts[v.o], 1, TRUE)
\* targets ts[j..] left to right; each: the j-th of vals (each = TRUE) or all of them the same value vals[1]
AssignTs(P, M, f, ts, vals, j, each) ==
  IF j > Len(ts) THEN Res(M, Fall)
  ELSE LET r == AssignT(P, M, f, ts[j], IF each THEN vals[j] ELSE vals[1]) IN
       IF IsExc(r.r) THEN r ELSE AssignTs(P, r.M, f, ts, vals, j + 1, each)
\* for <target> in ns: body
ForT(P, M, f, s, j) ==
  IF j > Len(s.ns) THEN Res(M, Fall)
  ELSE LET a == AssignT(P, M, f, s.t, IntV(s.ns[j])) IN
       IF IsExc(a.r) THEN a
       ELSE LET r == Exec(P, a.M, f, s.body, 1) IN IF r.r.k = "fall" THEN ForT(P, r.M, f, s, j + 1) ELSE r

ForLoop(P, M, f, s, vals, j) ==
  IF j > Len(vals) THEN Res(M, Fall)
  ELSE LET r == Exec(P, Store(P, M, f, s.x, vals[j]), f, s.body, 1) IN
       IF r.r.k = "fall" THEN ForLoop(P, r.M, f, s, vals, j + 1) ELSE r

\* one statement: [M, r] with r = Fall (completed), a value (return) or an exception
Stmt(P, M, f, s) ==
  CASE s.k = "assign" -> LET a == Eval(P, M, f, s.e) IN IF IsExc(a.r) THEN a ELSE Res(Store(P, a.M, f, s.x, a.r), Fall)
    [] s.k = "expr" -> LET a == Eval(P, M, f, s.e) IN IF IsExc(a.r) THEN a ELSE Res(a.M, Fall)
    [] s.k = "ret" -> Eval(P, M, f, s.e)
    [] s.k = "push" -> LET a == Eval(P, M, f, s.e) IN
                       IF IsExc(a.r) THEN a ELSE Res([a.M EXCEPT !.box = Append(@, a.r)], Fall)
    [] s.k = "store" -> LET a == Eval(P, M, f, s.e) IN
                        IF IsExc(a.r) THEN a ELSE AssignTs(P, a.M, f, s.ts, <<a.r>>, 1, FALSE)
    [] s.k = "annassign" -> LET a == Eval(P, M, f, s.e) IN IF IsExc(a.r) THEN a ELSE Res(Store(P, a.M, f, s.x, a.r), Fall)
    [] s.k = "augsub" ->
         LET r == SubRef(P, M, f, s.o, s.i) IN
         IF IsExc(r.r) THEN r
         ELSE LET it == GetItem(r.M, r.r.o, r.r.i) IN
              IF IsExc(it) THEN Res(r.M, it)
              ELSE IF it.k # "int" THEN Res(r.M, Exc("TypeError"))
              ELSE SetItem(MarkEnc(P, r.M, f, s.o, s.i), r.r.o, r.r.i, IntV(it.n - 1))
    [] s.k = "delsub" -> LET r == SubRef(P, M, f, s.o, s.i) IN
                         IF IsExc(r.r) THEN r ELSE DelItem(MarkEnc(P, r.M, f, s.o, s.i), r.r.o, r.r.i)
    [] s.k = "fort" -> ForT(P, M, f, s, 1)
    [] s.k = "witht" -> LET a == Eval(P, M, f, s.e) IN
                        IF IsExc(a.r) THEN a
                        ELSE LET b == AssignT(P, a.M, f, s.t, a.r) IN
                             IF IsExc(b.r) THEN b ELSE Exec(P, b.M, f, s.body, 1)
    [] s.k = "del" -> LET w == Where(P, M, f, s.x) IN
                      IF Raw(M, w, s.x).k = "unbound"
                      THEN (IF w = 0 /\ f # 0 /\ "del-global-silent" \in P.flags THEN Res(M, Fall) ELSE Res(M, Exc("NameError")))
                      ELSE Res(StoreAt(M, w, s.x, Unbound), Fall)
    [] s.k = "def" ->
         \* decorator expressions top-down, positional defaults, keyword-only defaults, the function object,
         \* decorators applied bottom-up; the result is bound to the name
         LET pyOrder == "defaults-first" \notin P.flags
             d  == IF pyOrder THEN EvalList(P, M, f, s.decos, 1, <<>>) ELSE MakeFn(P, M, f, s.c)
         IN IF IsExc(d.r) THEN d
            ELSE LET e2 == IF pyOrder THEN MakeFn(P, d.M, f, s.c) ELSE EvalList(P, d.M, f, s.decos, 1, <<>>) IN
                 IF IsExc(e2.r) THEN e2
                 ELSE LET ds == IF pyOrder THEN d.r.vs ELSE e2.r.vs
                          fn == IF pyOrder THEN e2.r ELSE d.r
                          r  == ApplyDecos(P, e2.M, f, ds, Len(ds), fn)
                      IN IF IsExc(r.r) THEN r ELSE Res(Store(P, r.M, f, s.x, r.r), Fall)
    [] s.k = "class" ->
         \* the body runs in its own namespace (a frame that is no enclosing scope); then the class is bound
         LET M1 == [M EXCEPT !.frames = Append(@, [code |-> s.c, parent |-> f, vars |-> [n \in P.names |-> Unbound], nat |-> TRUE, caller |-> f])]
             fi == Len(M1.frames)
             r  == Exec(P, M1, fi, P.codes[s.c].body, 1)
         IN IF IsExc(r.r) THEN r ELSE Res(Store(P, r.M, f, s.x, [k |-> "cls", fr |-> fi]), Fall)
    [] s.k = "for" -> ForLoop(P, M, f, s, IF s.it.k = "box" THEN M.box ELSE [j \in 1..Len(s.it.ns) |-> IntV(s.it.ns[j])], 1)
    [] s.k = "ifpos" -> LET a == Eval(P, M, f, s.e) IN
                        IF IsExc(a.r) THEN a
                        ELSE IF a.r.k # "int" THEN Res(a.M, Exc("TypeError"))
                        ELSE IF a.r.n > 0 THEN Exec(P, a.M, f, s.body, 1) ELSE Res(a.M, Fall)
    [] s.k = "with" -> LET a == Eval(P, M, f, s.e) IN
                       IF IsExc(a.r) THEN a ELSE Exec(P, Store(P, a.M, f, s.x, a.r), f, s.body, 1)
    [] s.k = "tryexc" ->
         \* try: raise E() / except E as x: body - x is unbound again when the handler is left, however it is left
         LET fc == IF f = 0 THEN 0 ELSE M.frames[f].code
             M0 == IF f # 0 /\ P.codes[fc].kind = "func" /\ (Where(P, M, f, s.x) # f \/ s.x \in P.inner[fc])
                   THEN Mark(M, "excas") ELSE M
             r  == Exec(P, Store(P, M0, f, s.x, ExcObj), f, s.body, 1)
             w  == Where(P, r.M, f, s.x)
             M2 == IF Raw(r.M, w, s.x).k = "unbound" THEN Mark(r.M, "xdel") ELSE r.M
         IN Res(StoreAt(M2, w, s.x, Unbound), r.r)
    [] s.k = "setattr" ->
         LET a == Eval(P, M, f, s.e) IN
         IF IsExc(a.r) THEN a
         ELSE LET o == Eval(P, a.M, f, s.o) IN
              IF IsExc(o.r) THEN Res(IF s.o.k = "name" THEN Mark(o.M, "sv") ELSE o.M, o.r)
              ELSE IF o.r.k = "obj" THEN Res([o.M EXCEPT !.objs[o.r.o].attrs[s.a] = a.r], Fall)
              ELSE IF o.r.k = "cls" THEN Res([o.M EXCEPT !.frames[o.r.fr].vars[s.a] = a.r], Fall)
              ELSE Res(o.M, Exc("AttributeError"))

(* ------------------------------ the expected log of a program ---------------------------- *)
Expected(prog, flags) ==
  LET names == Range(prog.names) \cup {"__init__"}
      P  == [codes |-> prog.codes, names |-> names, flags |-> flags,
             loc |-> [c \in 1..Len(prog.codes) |-> Locals(prog.codes[c])],
             ment |-> [c \in 1..Len(prog.codes) |-> NamesC(prog.codes, c)],
             inner |-> [c \in 1..Len(prog.codes) |-> InnerS(prog.codes, prog.codes[c].body, 1)],
             hascomp |-> [c \in 1..Len(prog.codes) |-> HasCompS(prog.codes[c].body, 1)],
             pment |-> [c \in 1..Len(prog.codes) |-> PMent(prog.codes, c)],
             hasdef |-> [c \in 1..Len(prog.codes) |-> HasDefS(prog.codes[c].body, 1)],
             hasann |-> [c \in 1..Len(prog.codes) |-> HasAnnS(prog.codes[c].body, 1)]]
      M0 == [frames |-> <<>>, globs |-> [c \in {"main"} |-> [n \in names |-> Unbound]], ctx |-> <<"main">>,
             objs |-> <<>>, lsts |-> <<>>, box |-> <<>>, log |-> <<>>, fuel |-> prog.fuel,
             ndef |-> {}, marks |-> [m \in {"sv", "xdel", "comp", "ucap", "excas", "ndflt", "dyncap", "nldyn", "amb",
                                            "annloc", "encsub", "excexit"} |-> 0]]
      r  == Exec(P, M0, 0, prog.codes[1].body, 1)
  IN [log |-> IF IsExc(r.r) THEN Append(r.M.log, [s |-> 0, k |-> r.r.e, n |-> 0]) ELSE r.M.log, marks |-> r.M.marks]
=============================================================================
