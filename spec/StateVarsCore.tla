--------------------------- MODULE StateVarsCore ---------------------------
(* C16 - state variables: the operators shared by the model (StateVars.tla) and the        *)
(* acceptor of recordings of the real integration (StateVarsTrace.tla).                     *)
(*                                                                                          *)
(* Values are tagged texts  [t |-> tag, s |-> text] : tag in s(tr) i(nt) f(loat) b(ool)     *)
(* n(one) l(ist) d(ict); text = Python's str() of the value.  Home Assistant coerces a      *)
(* state value to str, attributes keep their type:  Str(v) drops the tag.                   *)
(* The world is  w = [h, snap, py, svc]:                                                    *)
(*   h    : entity -> [v, a, lc, lu, lr]   HA's state machine (value, attribute pairs - the  *)
(*          names may collide with the virtual fields, see Visible -,                      *)
(*          last_changed / last_updated / last_reported as logical step numbers)            *)
(*   snap : a captured snapshot (Python variable SNAP of the script) or NoSnap              *)
(*   py   : domain -> [b, at]   the domain name is bound as a Python variable (an object    *)
(*          whose attributes `at` are pairs <<entity, value>>)                              *)
(*   svc  : set of entities whose dotted name is also a registered service                  *)
EXTENDS Naturals, Sequences, FiniteSets, TLC

AllEnt  == {"e1", "e2", "e3"}                     \* pyscript.e1, pyscript.e2, sensor.e3
DomOf(e) == IF e = "e3" THEN "sensor" ELSE "pyscript"
AllDom  == {"pyscript", "sensor"}
Virtual == {"entity_id", "last_changed", "last_updated", "last_reported"}

NoVal  == [t |-> "-", s |-> ""]
Absent == [v |-> NoVal, a |-> {}, lc |-> 0, lu |-> 0, lr |-> 0]
NoSnap == [k |-> "nosnap"]
Unbound == [b |-> FALSE, at |-> {}]
Has(h, e) == h[e].v # NoVal
Str(v) == [t |-> "s", s |-> v.s]                  \* HA: state values are coerced to str

AttrNames(s) == { p[1] : p \in s.a }
AttrVal(s, n) == (CHOOSE p \in s.a : p[1] = n)[2]
WithAttr(a, n, val) == { p \in a : p[1] # n } \cup {<<n, val>>}
WithoutAttr(a, n) == { p \in a : p[1] # n }
Pairs(seq) == { <<seq[i][1], seq[i][2]>> : i \in 1..Len(seq) }          \* [[name, value], ...]
RECURSIVE Merge(_, _, _)
Merge(a, seq, i) == IF i > Len(seq) THEN a ELSE Merge(WithAttr(a, seq[i][1], seq[i][2]), seq, i + 1)

\* ---- Home Assistant's own rule for states.async_set (environment, HA 2025.1 core.py) ----
\* identical value and attributes: only last_reported moves; same value: last_changed kept
HASet(s, v, a, now) ==
  IF s.v = NoVal THEN [v |-> v, a |-> a, lc |-> now, lu |-> now, lr |-> now]
  ELSE IF s.v = v /\ s.a = a THEN [s EXCEPT !.lr = now]
  ELSE [v |-> v, a |-> a, lc |-> IF s.v = v THEN s.lc ELSE now, lu |-> now, lr |-> now]

\* ---- what the statement says about each entry point ----
\* An entity may have real attributes NAMED like the virtual fields (every group.* entity has an `entity_id`
\* attribute; a script can write new_attributes={"last_changed": ...}).  They are ordinary attributes of HA's
\* state machine (state.getattr / state.exist / writes / deletes see them), but on a snapshot and in
\* DOMAIN.name.attr / state.get("DOMAIN.name.attr") the virtual field wins: the snapshot carries the
\* attributes that are not shadowed (Visible) plus the four virtual fields.
Visible(a) == { p \in a : p[1] \notin Virtual }
Snap(s, e) == [k |-> "state", v |-> s.v, a |-> Visible(s.a), id |-> e, lc |-> s.lc, lu |-> s.lu, lr |-> s.lr]
\* assignment: sets the value, keeps the attributes (creates the entity when missing)
AssignSpec(s, v, now) == HASet(s, Str(v), s.a, now)
\* attribute assignment / state.setattr: only that attribute
SetAttrSpec(s, n, v, now) == HASet(s, s.v, WithAttr(s.a, n, v), now)
\* state.set(name, value?, new_attributes?, **kw): new_attributes replaces, keywords merge, omitted value kept
SetSpec(s, hasv, v, hasnew, new, kw, now) ==
  HASet(s, IF hasv THEN Str(v) ELSE s.v, Merge(IF hasnew THEN Pairs(new) ELSE s.a, kw, 1), now)
DelAttrSpec(s, n, now) == HASet(s, s.v, WithoutAttr(s.a, n), now)

Res(w, r) == [w |-> w, r |-> r]
Exc(w, x) == [w |-> w, r |-> [k |-> "exc", x |-> x]]
NoneR     == [k |-> "none"]                                    \* a statement: no value
NoneV     == [k |-> "val", v |-> [t |-> "n", s |-> "None"]]     \* the value None
SetH(w, e, s) == [w EXCEPT !.h[e] = s]

\* ---- name resolution: Python variable > service > state ----
Resolve(w, e) == IF w.py[DomOf(e)].b THEN "py" ELSE IF e \in w.svc THEN "svc" ELSE "state"
PyHas(w, e) == \E p \in w.py[DomOf(e)].at : p[1] = e
PyVal(w, e) == (CHOOSE p \in w.py[DomOf(e)].at : p[1] = e)[2]

StateRead(w, e) == IF Has(w.h, e) THEN Res(w, Snap(w.h[e], e)) ELSE Exc(w, "NameError")
StateReadAttr(w, e, n) ==
  IF ~Has(w.h, e) THEN Exc(w, "NameError")
  ELSE IF n = "entity_id" THEN Res(w, [k |-> "id", e |-> e])
  ELSE IF n = "last_changed" THEN Res(w, [k |-> "stamp", n |-> w.h[e].lc])
  ELSE IF n = "last_updated" THEN Res(w, [k |-> "stamp", n |-> w.h[e].lu])
  ELSE IF n = "last_reported" THEN Res(w, [k |-> "stamp", n |-> w.h[e].lr])
  ELSE IF n \notin AttrNames(w.h[e]) THEN Exc(w, "AttributeError")
  ELSE Res(w, [k |-> "val", v |-> AttrVal(w.h[e], n)])
StateAssign(w, e, v, now) == Res(SetH(w, e, AssignSpec(w.h[e], v, now)), NoneR)
StateDel(w, e) == IF Has(w.h, e) THEN Res(SetH(w, e, Absent), NoneR) ELSE Exc(w, "NameError")
StateSetAttr(w, e, n, v, now) ==
  IF ~Has(w.h, e) THEN Exc(w, "NameError") ELSE Res(SetH(w, e, SetAttrSpec(w.h[e], n, v, now)), NoneR)
StateDelAttr(w, e, n, now) ==
  IF ~Has(w.h, e) THEN Exc(w, "NameError")
  ELSE IF n \notin AttrNames(w.h[e]) THEN Exc(w, "AttributeError")
  ELSE Res(SetH(w, e, DelAttrSpec(w.h[e], n, now)), NoneR)

\* The statement fixes the outcome of `op` in world `w` (everything else is never generated):
\*  - state.set with the value omitted needs an existing entity;
\*  - None is state.set's documented "omitted" marker, so it is not used as a state value;
\*  - dotted-name forms other than a plain read are only used where the name resolves to a
\*    state (a service cannot be assigned or deleted; attributes of Python objects are C01's),
\*    except assignment / del under a Python variable (must go to the Python object);
\*  - setting an attribute of a missing entity would be a state.set without value on a missing entity;
\*  - the virtual FIELDS cannot be written; an attribute form with a virtual name (DOMAIN.e.entity_id = v,
\*    state.setattr, del, state.delete) addresses the real attribute of that name like any other attribute
\*    ("changes only that attribute"), it never touches the virtual field.
\* (Deleting something that does not exist is generated: the state machine must stay as it is; the
\*  class of the exception is not demanded by the statement - see StateVarsTrace!ResultOk.)
Specified(w, op) ==
  CASE op.k = "set" -> (op.hasv \/ Has(w.h, op.e)) /\ (op.hasv => op.v.t # "n")
    [] op.k = "assign" -> op.v.t # "n" /\ Resolve(w, op.e) \in {"state", "py"}
    [] op.k = "extset" -> op.v.t # "n"
    [] op.k = "del" -> Resolve(w, op.e) \in {"state", "py"}
    [] op.k = "capture" -> op.via = "get" \/ Resolve(w, op.e) = "state"
    [] op.k = "usesnap" -> w.snap # NoSnap /\ (op.how = "assign" => Resolve(w, op.e) = "state")
    [] op.k = "snapfield" -> w.snap # NoSnap
    [] op.k = "touch" -> Has(w.h, op.e) /\ (op.how = "assign" => Resolve(w, op.e) = "state")
    [] op.k = "readattr" -> op.via = "get" \/ Resolve(w, op.e) = "state"
    [] op.k = "assignattr" -> Resolve(w, op.e) = "state" /\ Has(w.h, op.e)
    [] op.k = "setattr" -> Has(w.h, op.e)
    [] op.k = "delattr" -> Resolve(w, op.e) = "state"
    [] op.k = "unbindvar" -> w.py[op.d].b
    [] op.k = "checksnap" -> w.snap # NoSnap
    [] OTHER -> TRUE

\* one operation at logical time `now`: the new world and the result the script must see
Apply(w, op, now) ==
  CASE op.k = "read" ->
         IF op.via = "get" \/ Resolve(w, op.e) = "state" THEN StateRead(w, op.e)
         ELSE IF Resolve(w, op.e) = "svc" THEN Res(w, [k |-> "callable"])
         ELSE IF PyHas(w, op.e) THEN Res(w, [k |-> "val", v |-> PyVal(w, op.e)]) ELSE Exc(w, "AttributeError")
    [] op.k = "readattr" -> StateReadAttr(w, op.e, op.n)
    [] op.k = "assign" ->
         IF Resolve(w, op.e) = "py"
         THEN Res([w EXCEPT !.py[DomOf(op.e)].at = WithAttr(@, op.e, op.v)], NoneR)
         ELSE StateAssign(w, op.e, op.v, now)
    [] op.k \in {"assignattr", "setattr"} -> StateSetAttr(w, op.e, op.n, op.v, now)
    [] op.k = "set" ->
         Res(SetH(w, op.e, SetSpec(w.h[op.e], op.hasv, op.v, op.hasnew, op.new, op.kw, now)), NoneR)
    [] op.k = "del" ->
         IF Resolve(w, op.e) = "py"
         THEN IF PyHas(w, op.e) THEN Res([w EXCEPT !.py[DomOf(op.e)].at = WithoutAttr(@, op.e)], NoneR)
              ELSE Exc(w, "AttributeError")
         ELSE StateDel(w, op.e)
    [] op.k = "delete" -> StateDel(w, op.e)
    [] op.k \in {"delattr", "deleteattr"} -> StateDelAttr(w, op.e, op.n, now)
    [] op.k = "exist" -> Res(w, [k |-> "bool", b |-> Has(w.h, op.e)])
    [] op.k = "existattr" ->
         Res(w, [k |-> "bool", b |-> Has(w.h, op.e) /\ (op.n \in AttrNames(w.h[op.e]) \/ op.n \in Virtual)])
    [] op.k = "getattr" -> IF Has(w.h, op.e) THEN Res(w, [k |-> "dict", a |-> w.h[op.e].a]) ELSE Res(w, NoneV)
    [] op.k = "names" ->
         Res(w, [k |-> "names", s |-> { e \in DOMAIN w.h : Has(w.h, e) /\ (op.d = "*" \/ DomOf(e) = op.d) }])
    [] op.k = "extset" -> Res(SetH(w, op.e, HASet(w.h[op.e], Str(op.v), Pairs(op.new), now)), NoneR)
    [] op.k = "extremove" -> Res(SetH(w, op.e, Absent), NoneR)
    [] op.k = "capture" ->
         IF Has(w.h, op.e) THEN Res([w EXCEPT !.snap = Snap(w.h[op.e], op.e)], NoneR) ELSE Exc(w, "NameError")
    [] op.k = "checksnap" -> Res(w, w.snap)
    \* a field of the captured snapshot, read later: exactly what was captured
    [] op.k = "snapfield" ->
         IF op.n = "entity_id" THEN Res(w, [k |-> "id", e |-> w.snap.id])
         ELSE IF op.n = "last_changed" THEN Res(w, [k |-> "stamp", n |-> w.snap.lc])
         ELSE IF op.n = "last_updated" THEN Res(w, [k |-> "stamp", n |-> w.snap.lu])
         ELSE IF op.n = "last_reported" THEN Res(w, [k |-> "stamp", n |-> w.snap.lr])
         ELSE IF \E p \in w.snap.a : p[1] = op.n THEN Res(w, [k |-> "val", v |-> (CHOOSE p \in w.snap.a : p[1] = op.n)[2]])
         ELSE Exc(w, "AttributeError")
    \* the captured snapshot used as the VALUE of a write (DOMAIN.e = SNAP, state.set(name, SNAP, ...)):
    \* the value is the snapshot's string; the statement does not say whether the target keeps its
    \* attributes ("keep") or receives the snapshot's ("copy") - see Outcomes; new_attributes replaces
    \* all, keywords merge; the snapshot itself is untouched
    [] op.k = "usesnap" ->
         LET s == w.h[op.e]
             base == IF op.how = "setnew" THEN Pairs(op.new) ELSE IF op.mode = "keep" THEN s.a ELSE w.snap.a
         IN Res(SetH(w, op.e, HASet(s, w.snap.v, Merge(base, op.kw, 1), now)), NoneR)
    \* what is there is written again, later (script or external): HA only moves last_reported
    [] op.k = "touch" -> Res(SetH(w, op.e, HASet(w.h[op.e], w.h[op.e].v, w.h[op.e].a, now)), NoneR)
    [] op.k = "bindvar" -> Res([w EXCEPT !.py[op.d] = [b |-> TRUE, at |-> Pairs(op.at)]], NoneR)
    [] op.k = "unbindvar" -> Res([w EXCEPT !.py[op.d] = Unbound], NoneR)
    [] op.k = "regsvc" -> Res([w EXCEPT !.svc = @ \cup {op.e}], NoneR)
    [] op.k = "unregsvc" -> Res([w EXCEPT !.svc = @ \ {op.e}], NoneR)
    \* a function whose local variable shadows the domain: the local object wins, HA untouched
    [] op.k \in {"localread", "localassign"} -> Res(w, [k |-> "val", v |-> op.v])
    [] op.k = "localdel" -> Res(w, [k |-> "bool", b |-> FALSE])            \* hasattr(obj, name) afterwards

\* all outcomes the statement admits (a singleton except where it is silent)
Outcomes(w, op, now) ==
  IF op.k = "usesnap" /\ op.how # "setnew"
  THEN { Apply(w, [op EXCEPT !.mode = m], now) : m \in {"keep", "copy"} }
  ELSE { Apply(w, op, now) }
=============================================================================
