SPECIFICATION Spec
CONSTANT ShortMax = 255
INVARIANT Report
CHECK_DEADLOCK FALSE
