SPECIFICATION Spec
CONSTANTS Sub = "legacy"
          Flags = {}
          MaxOcc = 5
INVARIANT LoggedOnceOnOwnLogger
INVARIANT TriggerStillServes
INVARIANT OthersUndisturbed
INVARIANT NeverPropagatesIntoHA
INVARIANT LoadErrorUnloadsOnlyThatFile
CHECK_DEADLOCK FALSE
