------------------------------ MODULE TimeTrace ------------------------------
(* Batch acceptor binding TimeSpec to the real code (C06, window part of C07).               *)
(* IOEnv.CASES names a JSON file  {"env": Env, "cases": [case, ...]};  a case is one of       *)
(*   [kind |-> "next",   id, specs, now : [t, fold], startup, obs : [k, t, adj]]              *)
(*        one evaluation of TrigTime.timer_trigger_next; obs.k \in {"at","none","exc"}        *)
(*   [kind |-> "active", id, specs : windows, t, startup, obs : "T" | "F" | "exc"]            *)
(*        one evaluation of TrigTime.timer_active_check                                       *)
(*   [kind |-> "run",    id, specs, startup, horizon, runs : <<[at, tt]>>, wantStartup,       *)
(*                       wantShutdown, nStartup, nShutdown, startupAt0, shutdownAtEnd]        *)
(*        a recording of a running @time_trigger function: `at` = UTC instant of the run on   *)
(*        the virtual clock, `tt` = its trigger_time kwarg, in order; observation from        *)
(*        startup until the UTC instant `horizon`, then the function was removed              *)
(*   [kind |-> "mix",    ... as "run", runs : <<[at, type, tt]>>, stims : <<[at, k]>>, co, t0] *)
(*        a recording of a function with @time_trigger AND other trigger sources              *)
(*        (TimeLoopCore): every run with its trigger_type, the stimuli applied (UTC instant   *)
(*        = clock reading, kind), the other sources `co`, the definition instant t0.          *)
(*        The time runs alone must be those of a "run" recording - whatever woke the trigger  *)
(*        up in between; every other run must have a cause among the stimuli.  One            *)
(*        INFO {id, facts} line per "mix" case (coverage: what the recording exercised).      *)
(*   [kind |-> "utc",    id, t, fold, obs]   /  [kind |-> "local", id, u, obs : [t, fold]]    *)
(*        validation of the environment table against the platform's zone database            *)
(* Verdicts are total: every case is accepted silently or REJECTed with id and clause.        *)
EXTENDS TimeLoopCore, TLC, Json, IOUtils

Batch == JsonDeserialize(IOEnv.CASES)
Cases == Batch.cases
TS == INSTANCE TimeSpec WITH Env <- Batch.env

None == [k |-> "none"]
DefaultV(c) == [ref |-> DayOf(c.now.t), elapsed |-> FALSE, incl |-> FALSE]
\* does a clock change lie between now and instant t ?
Dst(N, t) == LET a == TS!OffAtUtc(TS!Utc(N)[1])  b == TS!OffAtUtc(TS!UtcOfT(t)[1])
             IN IF a = b THEN "none" ELSE IF b > a THEN "fwd" ELSE "back"
Ok == [ok |-> TRUE]
Rej(c, clause, idx, dst, exp) == [ok |-> FALSE, id |-> c.id, clause |-> clause, idx |-> idx, dst |-> dst, exp |-> exp, at |-> "elsewhere"]

\* ---------------------------------------------------------------- timer_trigger_next
VNext(c) ==
  IF c.obs.k = "exc" THEN Rej(c, "exception", 0, "none", None)
  ELSE IF TS!Admissible(c.obs, c.specs, c.now, c.startup) THEN Ok
  ELSE LET e == TS!NextV(c.specs, c.now, c.startup, DefaultV(c)) IN
       IF e.k = "none" THEN Rej(c, "at-but-none", 0, "none", e)
       ELSE IF c.obs.k = "none" THEN Rej(c, "none-but-denoted", e.idx, Dst(c.now, e.t), e)
       ELSE IF Lt(e.t, c.obs.t) THEN Rej(c, "late", e.idx, Dst(c.now, e.t), e)
       ELSE IF Lt(c.obs.t, e.t) THEN Rej(c, "early", 0, Dst(c.now, c.obs.t), e)
       ELSE Rej(c, "adj", e.idx, Dst(c.now, e.t), e)
\* ---------------------------------------------------------------- timer_active_check
VActive(c) ==
  IF c.obs = "exc" THEN Rej(c, "exception", 0, "none", None)
  ELSE LET a == TS!Active(c.specs, c.t, c.startup) IN
       IF (a /\ c.obs = "T") \/ (~a /\ c.obs = "F") THEN Ok
       ELSE Rej(c, IF a THEN "inactive-but-in-window" ELSE "active-but-excluded", 0, "none", None)

\* ---------------------------------------------------------------- a running @time_trigger
\* loop of the trigger: ComputeNext at N; Sleep until the instant; Fire (run with trigger_time
\* = the instant); ComputeNext at the next wall-clock reading (the clock has moved on: + 1 us); ...
Tol == 1000      \* microseconds
RECURSIVE Runs(_, _, _)
Runs(c, N, j) ==
  LET E == TS!Next(c.specs, N, c.startup)
      due == { e \in E : e.k = "at" /\ Le(TS!UtcOfT(e.t), c.horizon) }
  IN IF j > Len(c.runs)
     THEN IF \E e \in E : e.k = "none" \/ Lt(c.horizon, TS!UtcOfT(e.t)) THEN Ok
          ELSE LET e == CHOOSE e \in due : TRUE IN Rej(c, "missing-run", j, Dst(N, e.t), e)
     ELSE LET r == c.runs[j]
              M == { e \in E : e.k = "at" /\ (e.t = r.tt \/ (TS!IsGap(e.t) /\ r.tt = TS!LocalOf(TS!UtcOfT(e.t)).t)) }
          IN IF M # {}
             THEN LET e == CHOOSE e \in M : TRUE
                      u == TS!UtcOfT(e.t)
                  IN \* the run happens at the instant (the loops tolerate waking up to Tol early / late)
                     IF Le(AddOff(u, [neg |-> TRUE, s |-> 0, u |-> Tol]), r.at) /\ Le(r.at, AddOff(u, [neg |-> FALSE, s |-> 0, u |-> Tol]))
                     THEN Runs(c, TS!LocalOf(Norm(u[1], u[2] + 1)), j + 1)
                     ELSE Rej(c, IF Lt(u, r.at) THEN "run-late" ELSE "run-early", j, Dst(N, e.t), e)
             ELSE IF \A e \in E : e.k = "none" THEN Rej(c, "extra-run", j, "none", None)
             ELSE LET e == CHOOSE e \in E : e.k = "at" IN
                  Rej(c, IF Lt(e.t, r.tt) THEN "skipped-instant" ELSE "not-denoted", j, Dst(N, e.t), e)
VRun(c) ==
  IF c.nStartup # (IF c.wantStartup THEN 1 ELSE 0) THEN Rej(c, "startup-count", c.nStartup, "none", None)
  ELSE IF c.wantStartup /\ ~c.startupAt0 THEN Rej(c, "startup-not-at-definition", 0, "none", None)
  ELSE IF c.nShutdown # (IF c.wantShutdown THEN 1 ELSE 0) THEN Rej(c, "shutdown-count", c.nShutdown, "none", None)
  ELSE IF c.wantShutdown /\ ~c.shutdownAtEnd THEN Rej(c, "shutdown-not-at-removal", 0, "none", None)
  ELSE IF c.afterRemoval > 0 THEN Rej(c, "run-after-removal", c.afterRemoval, "none", None)
  ELSE Runs(c, [t |-> c.startup, fold |-> 0], 1)

\* ---------------------------------------------------------------- @time_trigger next to other trigger sources
\* the time source alone: the recording with every other run left out must be a "run" recording.
\* `at` says where the instant a rejection is about lies (the input classes of two known findings):
\* a wake-up was applied at its clock reading or within TieWin before it / it is the startup instant itself
TieWin == 3      \* microseconds
VMix(c) ==
  LET v == VRun([c EXCEPT !.runs = TimeRuns(c.runs)])
  IN IF ~v.ok THEN [v EXCEPT !.at = IF v.exp.k # "at" THEN "elsewhere"
                                    ELSE IF v.exp.t = c.startup THEN "startup-instant"
                                    ELSE IF WakeJustBefore(c.stims, TS!UtcOfT(v.exp.t), TieWin) THEN "wake-up-just-before"
                                    ELSE "elsewhere"]
     ELSE LET O == OtherRuns(c.runs)
              B == { j \in 1..Len(O) : ~Caused(O[j], c.co, c.stims, c.t0, Tol) }
          IN IF B = {} THEN Ok ELSE Rej(c, "run-without-cause", MinN(B), "none", None)
\* what the recording exercised (coverage only; the hold facts in the domain of HoldFold)
Facts(c) ==
  LET tr == TimeRuns(c.runs)
      hd == c.co.state /\ c.co.hold /\ c.co.plain
      h  == IF hd THEN HoldFold(c.co, c.stims, c.horizon) ELSE H0
  IN [id |-> c.id, timeRuns |-> Len(tr), otherRuns |-> Len(c.runs) - Len(tr),
      wakesBetween |-> Cardinality(WakesBetween(c.stims, tr)),
      wakeAtInstant |-> \E j \in 1..Len(tr) : WakeJustBefore(c.stims, TS!UtcOfT(tr[j].tt), TieWin),
      abandoned |-> Len(h.ab), completed |-> Len(h.done),
      abandonedBeforeInstant |-> hd /\ AbandonedBeforeInstant(h, tr),
      holdSpansInstant |-> hd /\ HoldSpansInstant(h, tr),
      holdEndsAtInstant |-> hd /\ HoldEndsAtInstant(h, tr, Tol)]

\* ---------------------------------------------------------------- environment validation
VUtc(c)   == IF TS!UtcSec(c.t[1], c.fold) = c.obs THEN Ok ELSE Rej(c, "env-utc", 0, "none", None)
VLocal(c) == LET l == TS!LocalOf(c.u) IN
             IF l.t = c.obs.t /\ l.fold = c.obs.fold THEN Ok ELSE Rej(c, "env-local", 0, "none", None)

Verdict(c) == CASE c.kind = "next"   -> VNext(c)
                [] c.kind = "active" -> VActive(c)
                [] c.kind = "run"    -> VRun(c)
                [] c.kind = "mix"    -> VMix(c)
                [] c.kind = "utc"    -> VUtc(c)
                [] c.kind = "local"  -> VLocal(c)

VARIABLE i
Init == i = 1
Next == i <= Len(Cases) /\ i' = i + 1
Spec == Init /\ [][Next]_i
Report == i <= Len(Cases) =>
  LET v == Verdict(Cases[i])
  IN /\ IF Cases[i].kind = "mix" THEN PrintT("INFO " \o ToJson(Facts(Cases[i]))) ELSE TRUE
     /\ IF v.ok THEN TRUE
        ELSE PrintT("REJECT " \o ToJson([id |-> v.id, clause |-> v.clause, idx |-> v.idx, dst |-> v.dst, exp |-> v.exp, at |-> v.at]))
=============================================================================
