SPECIFICATION Spec
INVARIANT Theorems
CHECK_DEADLOCK FALSE
