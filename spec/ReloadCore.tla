----------------------------- MODULE ReloadCore -----------------------------
(* C10 - "reload loads exactly what the files and configuration now dictate".                 *)
(* Pure operators shared by the state machine (Reload.tla, model checking and generation of   *)
(* behaviours for replay) and by the acceptor of real recordings (ReloadTrace.tla):           *)
(*   1. the file universe, edits                                                              *)
(*   2. MECHANISM: transcription of load_scripts() (__init__.py) and module_import()          *)
(*      (global_ctx.py): discovery with glob priority and the app-configuration gate,         *)
(*      changed set, will_reload roots, recorded-import closure, package widening,            *)
(*      delete-then-load in sorted order, lazy import with lookup-before-load, and            *)
(*      start_global_contexts().  `fl` is the set of *named deviations* of the code:          *)
(*        "del-no-propagate"  will_reload and the widening roots only look at files that      *)
(*                            still exist: a deleted module / package member discards nothing *)
(*                            else (importers and the rest of the package keep running)       *)
(*        "named-no-start"    reload(global_ctx=NAME) starts only NAME and NAME.* although it *)
(*                            re-executed importers / the rest of the package as well         *)
(*        "cfg-value-only"    the non-autoload glob apps/*/**/*.py also finds the main file    *)
(*                            apps/APP/__init__.py of an app that has NO configuration entry   *)
(*                            (with app_config = None), and the change detection compares only *)
(*                            the configuration VALUES: taking away the empty entry "APP:"     *)
(*                            (yaml None, the documentation's own form) is not noticed         *)
(*      fl = {} is the intended mechanism; fl = CodeFlags is the pinned tree.                 *)
(*   3. POST-CONDITION from the documentation, written declaratively (no reference to the     *)
(*      mechanism's intermediate sets): S1 what is loaded, S2 what a reload discards and      *)
(*      what it leaves untouched, S3 the named / "*" forms.                                   *)
EXTENDS Naturals, Sequences, FiniteSets, TLC

\* ------------------------------------------------------------------------- 1. universe
\* discovery entries in the order of load_paths (first entry per context name wins)
Entries == <<
  [p |-> "a.py",                  c |-> "file.a",        gated |-> FALSE, auto |-> TRUE ],
  [p |-> "apps/p/__init__.py",    c |-> "apps.p",        gated |-> TRUE,  auto |-> TRUE ],
  [p |-> "apps/p.py",             c |-> "apps.p",        gated |-> TRUE,  auto |-> TRUE ],
  [p |-> "apps/p/__init__.py",    c |-> "apps.p",        gated |-> FALSE, auto |-> FALSE],  \* apps/*/**/*.py: no gate, no autoload
  [p |-> "apps/p/h.py",           c |-> "apps.p.h",      gated |-> FALSE, auto |-> FALSE],
  [p |-> "modules/m/__init__.py", c |-> "modules.m",     gated |-> FALSE, auto |-> FALSE],
  [p |-> "modules/m.py",          c |-> "modules.m",     gated |-> FALSE, auto |-> FALSE],
  [p |-> "modules/m/u.py",        c |-> "modules.m.u",   gated |-> FALSE, auto |-> FALSE],
  [p |-> "modules/d.py",          c |-> "modules.d",     gated |-> FALSE, auto |-> FALSE],
  [p |-> "modules/n.py",          c |-> "modules.n",     gated |-> FALSE, auto |-> FALSE],
  [p |-> "scripts/s.py",          c |-> "scripts.s",     gated |-> FALSE, auto |-> TRUE ],
  [p |-> "scripts/sub/t.py",      c |-> "scripts.sub.t", gated |-> FALSE, auto |-> TRUE ] >>
PathSet  == { Entries[i].p : i \in 1..Len(Entries) }
CtxOrder == << "apps.p", "apps.p.h", "file.a", "modules.d", "modules.m", "modules.m.u", "modules.n", "scripts.s", "scripts.sub.t" >>  \* sorted()
CtxNames == { CtxOrder[i] : i \in 1..Len(CtxOrder) }
CtxOf(p) == Entries[CHOOSE i \in 1..Len(Entries) : Entries[i].p = p].c          \* the documented naming table
Dirs == {"apps/p", "modules/m", "scripts/sub"}
DirOf(p) == CASE p \in {"apps/p/__init__.py", "apps/p/h.py"} -> "apps/p"
              [] p \in {"modules/m/__init__.py", "modules/m/u.py"} -> "modules/m"
              [] p = "scripts/sub/t.py" -> "scripts/sub" [] OTHER -> ""
Root(c) == CASE c \in {"apps.p", "apps.p.h"} -> "apps.p" [] c \in {"modules.m", "modules.m.u"} -> "modules.m" [] OTHER -> c
IsPkgMember(c) == c \in {"apps.p", "apps.p.h", "modules.m", "modules.m.u", "modules.n", "modules.d"}      \* startswith apps. / modules.
IsModule(c)    == c \in {"modules.m", "modules.m.u", "modules.n", "modules.d"}                            \* startswith modules.
TopFile(p) == p \in {"apps/p/__init__.py", "apps/p.py", "modules/m/__init__.py", "modules/m.py", "modules/n.py", "modules/d.py"}
AutoCtx == {"file.a", "apps.p", "scripts.s", "scripts.sub.t"}

\* import statements a file of the universe may contain (acyclic: file/script/app -> sibling -> m -> u -> n -> d).
\* n imports d: every importer of n reaches d, so a file importing both m and n (or an app whose sibling imports n)
\* forms a DIAMOND whose join n has a further module behind it (a -> m -> n -> d, a -> n -> d; p -> h -> n -> d, p -> m -> n -> d)
MaxImps(p) == CASE p \in {"a.py", "scripts/s.py", "scripts/sub/t.py", "apps/p.py", "apps/p/h.py"} -> {"m", "n"}
                [] p = "apps/p/__init__.py"    -> {".h", "m", "n"}        \* from . import h
                [] p = "modules/m/__init__.py" -> {".u", "n"}             \* from . import u
                [] p \in {"modules/m.py", "modules/m/u.py"} -> {"n"}
                [] p = "modules/n.py" -> {"d"}
                [] OTHER -> {}
ImpOrder == << ".h", ".u", "m", "n", "d" >>                \* order of the import statements in a source file
\* candidate files of an import target, in module_import's order: [path, context name]
Cands(t) == CASE t = ".h" -> << [p |-> "apps/p/h.py", c |-> "apps.p.h"] >>
              [] t = ".u" -> << [p |-> "modules/m/u.py", c |-> "modules.m.u"] >>
              [] t = "m"  -> << [p |-> "modules/m/__init__.py", c |-> "modules.m"], [p |-> "modules/m.py", c |-> "modules.m"] >>
              [] t = "n"  -> << [p |-> "modules/n.py", c |-> "modules.n"] >>
              [] t = "d"  -> << [p |-> "modules/d.py", c |-> "modules.d"] >>
TargetCtx(t) == Cands(t)[1].c

\* The app's configuration G (the entry pyscript: apps: p: in the yaml) - a code for every KIND of value:
\*   0 = no entry          1 = "p:" (yaml None; the documentation's own form of an empty entry)
\*   2 = "p: {}"           3 = "p: []"          (present, falsy, not None)
\*   4 = "p: {v: 1}"       5 = "p: {v: 2}"      6 = "p: [{v: 1}]"  (settings; the documentation shows mappings and lists)
\* The VALUE a loaded context carries (GlobalContext.app_config) / a discovered source carries: 0 = Python None
\* (also every context that is not an app's main file), else the code itself.  What the script itself SEES as
\* pyscript.app_config when it is executed: 0 = the name is not defined, else the code.
CfgDomain == 0..6
ValOf(g)  == IF g <= 1 THEN 0 ELSE g
Truthy(v) == v >= 4
SeenOf(v) == IF Truthy(v) THEN v ELSE 0                  \* global_ctx.py: "if app_config: sym_table[pyscript.app_config] = ..."
\* the statement: the app's main file sees its current settings; for an entry without settings (None, {}, [])
\* the documentation does not say whether the name is defined
SeenOk(v) == IF Truthy(v) THEN {v} ELSE {0, v}

\* What the app's CODE does with the object it finds as pyscript.app_config - the WRITE KIND of a source text (field wr of a
\* file; only an app's main file can see the name): 0 = only reads it; at load time 1 = adds a top-level key / element
\* (setdefault / append), 2 = overwrites a top-level value, 3 = removes a top-level key / element (pop); 4, 5, 6 = the same
\* three, but later, from the trigger the context answers the "ping" event with (idempotent: written once or many times);
\* 7 / 8 = adds a key to a NESTED value (the first mapping inside a list of mappings) at load / from the trigger.
\* The values that arise, as further codes:  7 = {v: 1, w: 1}   8 = {v: 2, w: 1}   9 = [{v: 1}, 1]   10 = {v: 9}   11 = [9];
\* removing the only key / element gives {} = 2 / [] = 3;  12 = [{v: 1, w: 1}] (nested).
WrDomain == 0..8
ValDomain == 0..12
WrOp(wr)   == CASE wr \in {1, 4} -> 1 [] wr \in {2, 5} -> 2 [] wr \in {3, 6} -> 3 [] wr \in {7, 8} -> 4 [] OTHER -> 0
WrLate(wr) == wr \in {4, 5, 6, 8}
MainFile(p) == p \in {"apps/p/__init__.py", "apps/p.py"}
WriteTo(v, k) == CASE k = 1 -> (CASE v = 4 -> 7 [] v = 5 -> 8 [] v = 6 -> 9 [] OTHER -> v)
                   [] k = 2 -> (CASE v \in {4, 5} -> 10 [] v = 6 -> 11 [] OTHER -> v)
                   [] k = 3 -> (CASE v \in {4, 5} -> 2 [] v = 6 -> 3 [] OTHER -> v)
                   [] k = 4 -> (CASE v = 6 -> 12 [] OTHER -> v)                \* {v: 1} / {v: 2} have no nested value: nothing written
                   [] OTHER -> v
\* the script's own variable pyscript.app_config NOW, given what it saw when it was executed (0 = name not defined: nothing to
\* write to), the write kind of its source and whether its trigger has answered a ping since
NowOf(seen, wr, pinged) == IF seen = 0 \/ wr = 0 THEN seen
                           ELSE IF WrLate(wr) /\ ~pinged THEN seen ELSE WriteTo(seen, WrOp(wr))

\* a file: ex (exists on disk), hash (its own name starts with '#'), gen (source generation, identifies the
\* text), mtime, imps (set of import targets in its text).  H = set of directories renamed to '#name'.
Absent == [ex |-> FALSE, hash |-> FALSE, gen |-> 0, mtime |-> 0, imps |-> {}, wr |-> 0]
Vis(F, H, p) == F[p].ex /\ ~F[p].hash /\ DirOf(p) \notin H
\* a loaded context
\* (wr = write kind of the source it runs, now = the value of its variable pyscript.app_config as observed after the ping)
Unl == [path |-> "", gen |-> 0, mtime |-> 0, cfg |-> 0, seen |-> 0, wr |-> 0, now |-> 0, imports |-> {}, inst |-> 0, started |-> FALSE]
NoCtx == [c \in CtxNames |-> Unl]
LoadedIn(C) == { c \in CtxNames : C[c] # Unl }

\* edits; act carries every parameter (chosen by the state machine or read from a recording)
ApplyFiles(F, act) ==
  CASE act.a = "modify" -> [F EXCEPT ![act.p] = [@ EXCEPT !.gen = act.gen, !.mtime = act.mtime, !.imps = act.imps, !.wr = act.wr]]
    [] act.a = "touch"  -> [F EXCEPT ![act.p].mtime = act.mtime]
    [] act.a = "create" -> [F EXCEPT ![act.p] = [ex |-> TRUE, hash |-> FALSE, gen |-> act.gen, mtime |-> act.mtime, imps |-> act.imps, wr |-> act.wr]]
    [] act.a = "delete" -> [F EXCEPT ![act.p] = Absent]
    [] act.a = "hash"   -> [F EXCEPT ![act.p].hash = ~@]                         \* rename to / from '#name' (mtime kept)
    [] OTHER -> F
ApplyDirs(H, act) == IF act.a = "hashdir" THEN (IF act.d \in H THEN H \ {act.d} ELSE H \cup {act.d}) ELSE H
ApplyCfg(G, act)  == IF act.a = "cfg" THEN act.v ELSE G

\* ------------------------------------------------------------------------- 2. mechanism
\* (TLC evaluates [c \in S |-> e] lazily, re-evaluating e at every application: OverCtx builds the same
\*  function explicitly, each value computed once.  Purely an evaluation-cost device.)
OverCtx(f) == ("apps.p" :> f["apps.p"]) @@ ("apps.p.h" :> f["apps.p.h"]) @@ ("file.a" :> f["file.a"]) @@ ("modules.d" :> f["modules.d"]) @@ ("modules.m" :> f["modules.m"])
              @@ ("modules.m.u" :> f["modules.m.u"]) @@ ("modules.n" :> f["modules.n"]) @@ ("scripts.s" :> f["scripts.s"])
              @@ ("scripts.sub.t" :> f["scripts.sub.t"])
\* glob_read_files: first matching entry per context name; gated entries need the app configuration
NoSrc == [path |-> "", auto |-> FALSE, cfg |-> 0]
\* (G > 0: "app_name in apps_config" - the entry exists, whatever its value)
Discover(F, H, G) == OverCtx([c \in CtxNames |->
  LET ok == { i \in 1..Len(Entries) : Entries[i].c = c /\ Vis(F, H, Entries[i].p) /\ (Entries[i].gated => G > 0) }
  IN IF ok = {} THEN NoSrc
     ELSE LET e == Entries[CHOOSE i \in ok : \A j \in ok : i <= j]
          IN [path |-> e.p, auto |-> e.auto, cfg |-> IF e.gated THEN ValOf(G) ELSE 0]])

\* load_file / module_import.  S = [ctx, n, log]: contexts, number of source files executed so far,
\* names of the contexts executed (in order).  A failing import leaves the importing file unloaded.
RECURSIVE LoadFile(_, _, _, _, _), DoImports(_, _, _, _, _, _), FirstVisible(_, _, _, _)
FirstVisible(F, H, cands, i) == IF i > Len(cands) THEN 0 ELSE IF Vis(F, H, cands[i].p) THEN i ELSE FirstVisible(F, H, cands, i + 1)
DoImports(F, H, S, imps, i, acc) ==
  IF i > Len(ImpOrder) THEN [S |-> S, ok |-> TRUE, imports |-> acc]
  ELSE IF ImpOrder[i] \notin imps THEN DoImports(F, H, S, imps, i + 1, acc)
  ELSE LET cands == Cands(ImpOrder[i])
           have  == { j \in 1..Len(cands) : S.ctx[cands[j].c] # Unl }               \* lookup before load
       IN IF have # {} THEN DoImports(F, H, S, imps, i + 1, acc \cup { cands[CHOOSE j \in have : TRUE].c })
          ELSE LET k == FirstVisible(F, H, cands, 1) IN
               IF k = 0 THEN [S |-> S, ok |-> FALSE, imports |-> acc]
               ELSE LET S2 == LoadFile(F, H, S, cands[k].p, 0) IN
                    IF S2.ctx[cands[k].c] # Unl THEN DoImports(F, H, S2, imps, i + 1, acc \cup {cands[k].c})
                    ELSE [S |-> S2, ok |-> FALSE, imports |-> acc]
LoadFile(F, H, S, p, cfgv) ==
  LET c  == CtxOf(p)
      S1 == [S EXCEPT !.ctx[c] = Unl]                          \* an existing context of that name is destroyed first
      r  == DoImports(F, H, S1, F[p].imps, 1, {})
  IN IF ~r.ok THEN r.S
     ELSE [ctx |-> [r.S.ctx EXCEPT ![c] = [path |-> p, gen |-> F[p].gen, mtime |-> F[p].mtime, cfg |-> cfgv, seen |-> SeenOf(cfgv),
                                            wr |-> F[p].wr, now |-> NowOf(SeenOf(cfgv), F[p].wr, FALSE),
                                            imports |-> r.imports, inst |-> r.S.n + 1, started |-> FALSE]],
           n |-> r.S.n + 1, log |-> Append(r.S.log, c)]

\* transitive imports as recorded in the loaded contexts (import_recurse)
RECURSIVE Reach(_, _, _)
Reach(C, frontier, seen) == IF frontier = {} THEN seen
                            ELSE LET nxt == UNION { C[c].imports : c \in frontier } \ seen IN Reach(C, nxt, seen \cup nxt)
TransImports(C, c) == Reach(C, {c}, {})

RECURSIVE LoadAll(_, _, _, _, _, _)
LoadAll(F, H, d2f, S, force, i) ==
  IF i > Len(CtxOrder) THEN S
  ELSE LET c == CtxOrder[i] IN
       IF c \in force THEN LoadAll(F, H, d2f, LoadFile(F, H, S, d2f[c].path, d2f[c].cfg), force, i + 1)
       ELSE LoadAll(F, H, d2f, S, force, i + 1)

\*   "cfg-shared" (never true of the pinned tree; the named way the "copy" of global_ctx.py can be lost): the value the
\*   context carries for the change detection IS the object handed to the script - what the script writes into
\*   pyscript.app_config is taken for a change of the app's configuration by every later default reload
\*   "cfg-shallow" (the current tree): the script is handed app_config.copy() - a SHALLOW copy: nested values are still shared
\*   with the value the context carries, a write into a nested value is taken for a change of the app's configuration
AllFlags  == {"del-no-propagate", "named-no-start", "cfg-value-only", "cfg-shared", "cfg-shallow"}    \* deviations of the originally pinned tree + named hypothetical ones
CodeFlags == {"cfg-value-only", "cfg-shallow"}                          \* deviations of the mechanism of the current tree (the others: repaired)
\* start_global_contexts(arg): every context for "" / "*", else the named one and those whose name starts with arg + "."
StartMatch(arg, c) == arg \in {"", "*"} \/ c = arg \/ (arg = "apps.p" /\ c = "apps.p.h") \/ (arg = "modules.m" /\ c = "modules.m.u")

\* load_scripts(global_ctx_only = arg) followed by start_global_contexts(arg); arg = "" (default), "*" or a name
Mechanism(F, H, G, C, n, arg, fl) ==
  LET d2f    == Discover(F, H, G)
      inAll  == LoadedIn(C)
      inFile == { c \in CtxNames : d2f[c].path # "" }
      differs(c) == C[c].path # d2f[c].path \/ C[c].gen # F[d2f[c].path].gen           \* source text
                    \/ C[c].mtime # F[d2f[c].path].mtime \/ C[c].cfg # d2f[c].cfg
                    \* intended: a loaded auto-loaded context (the app's main file) that is now only found by the non-autoload
                    \* glob has lost its configuration entry
                    \/ ("cfg-value-only" \notin fl /\ c \in AutoCtx /\ ~d2f[c].auto)
      known  == arg \in inAll \/ arg \in inFile
      del0   == IF arg = "" THEN (inAll \ inFile) \cup { c \in inAll \cap inFile : differs(c) }
                ELSE IF arg = "*" THEN inAll
                ELSE IF known /\ arg \notin inFile THEN {arg} ELSE {}
      force0 == IF arg = "" THEN { c \in inAll \cap inFile : differs(c) } \cup { c \in inFile \ inAll : d2f[c].auto }
                ELSE IF arg = "*" THEN inFile
                ELSE IF arg \in inFile THEN {arg} ELSE {}
      gone   == IF "del-no-propagate" \in fl THEN {} ELSE del0 \ inFile                 \* deleted contexts count (intended)
      willReload == { Root(c) : c \in { x \in inFile \cup gone : IsModule(x) /\ (x \in del0 \/ x \in force0) } }
      importers  == IF willReload = {} THEN {} ELSE { c \in inAll : \E m \in TransImports(C, c) : Root(m) \in willReload }
      del1   == del0 \cup importers
      force1 == force0 \cup (importers \cap inFile)
      gone1  == IF "del-no-propagate" \in fl THEN {} ELSE del1 \ inFile                 \* ... incl. importers without a file
      roots  == { Root(c) : c \in { x \in force1 \cup gone1 : IsPkgMember(x) } }
      under  == { c \in inFile : Root(c) \in roots }
      del2   == del1 \cup under
      force2 == (force1 \ under) \cup { c \in under : TopFile(d2f[c].path) }
      C1     == OverCtx([c \in CtxNames |-> IF c \in del2 THEN Unl ELSE C[c]])
      toLoad == { c \in force2 : d2f[c].auto }
      S2     == IF arg \notin {"", "*"} /\ ~known THEN [ctx |-> C, n |-> n, log |-> <<>>]        \* "no global context to reload"
                ELSE LoadAll(F, H, d2f, [ctx |-> C1, n |-> n, log |-> <<>>], toLoad, 1)
      startAll == "named-no-start" \notin fl
      \* ... and the state as it is observed after the next "ping": the started contexts have answered it (late writers have written)
      C3     == OverCtx([c \in CtxNames |->
                  LET x  == S2.ctx[c]
                      st == x.started \/ startAll \/ StartMatch(arg, c)
                      nw == NowOf(x.seen, x.wr, st)
                  IN IF x = Unl THEN Unl
                     ELSE [x EXCEPT !.started = st, !.now = nw, !.cfg = IF x.seen # 0 /\ ("cfg-shared" \in fl \/ ("cfg-shallow" \in fl /\ WrOp(x.wr) = 4)) THEN nw ELSE @]])
  IN [ctx |-> C3, n |-> S2.n, log |-> S2.log]

\* ------------------------------------------------------------------------- 3. the statement
\* the file the documentation makes the source of context c ("" = none): naming table, '#' skipping,
\* package form over module form, apps only with a configuration entry (the other files of an app are
\* reached through the app's main file: import closure, package membership)
DocSource(F, H, G, c) ==
  LET one(p) == IF Vis(F, H, p) THEN p ELSE ""
      two(p, q) == IF Vis(F, H, p) THEN p ELSE IF Vis(F, H, q) THEN q ELSE ""           \* package form first
  IN CASE c = "file.a"        -> one("a.py")
       [] c = "apps.p"        -> IF G = 0 THEN "" ELSE two("apps/p/__init__.py", "apps/p.py")
       [] c = "apps.p.h"      -> one("apps/p/h.py")
       [] c = "modules.m"     -> two("modules/m/__init__.py", "modules/m.py")
       [] c = "modules.m.u"   -> one("modules/m/u.py")
       [] c = "modules.n"     -> one("modules/n.py")
       [] c = "modules.d"     -> one("modules/d.py")
       [] c = "scripts.s"     -> one("scripts/s.py")
       [] c = "scripts.sub.t" -> one("scripts/sub/t.py")
DocCfg(G, c) == IF c = "apps.p" THEN ValOf(G) ELSE 0
\* W = "world": the files, the configuration and the documented source of every context name
World(F, H, G) == [F |-> F, G |-> G, doc |-> OverCtx([c \in CtxNames |-> DocSource(F, H, G, c)])]
\* the file an import statement in the current sources denotes
Resolve(W, t) == W.doc[TargetCtx(t)]
RECURSIVE Ok(_, _)                       \* the file can be executed: every import (transitively) resolves
Ok(W, p) == \A t \in W.F[p].imps : Resolve(W, t) # "" /\ Ok(W, Resolve(W, t))
RECURSIVE Closure(_, _, _)
Closure(W, frontier, seen) ==
  IF frontier = {} THEN seen
  ELSE LET nxt == { Resolve(W, t) : t \in UNION { W.F[p].imps : p \in frontier } } \ (seen \cup {""})
       IN Closure(W, nxt, seen \cup nxt)
AutoFiles(W) == { W.doc[c] : c \in AutoCtx } \ {""}
\* must be loaded: auto-loaded files that exist (and can be executed) plus the modules they import
MustLoaded(W) == LET r == { p \in AutoFiles(W) : Ok(W, p) } IN Closure(W, r, r)
\* may be loaded: additionally what the executed prefix of a file that fails to load has imported (the
\* statement is silent about files that cannot be executed)
MayLoaded(W) == LET r == AutoFiles(W) IN Closure(W, r, r)

Current(W, x, c) ==                    \* context record x runs the current source of c under the documented name
  LET p == W.doc[c] IN p # "" /\ x.path = p /\ x.gen = W.F[p].gen /\ x.mtime = W.F[p].mtime /\ x.cfg = DocCfg(W.G, c)
                /\ x.seen \in SeenOk(DocCfg(W.G, c)) /\ x.wr = W.F[p].wr

\* S1 (default and "*" reload): clauses, first failing one is reported
S1Clause(W, C2) ==
  LET must == MustLoaded(W)
      may  == MayLoaded(W)
  IN IF \E p \in must : ~Current(W, C2[CtxOf(p)], CtxOf(p)) THEN "needed-not-current"
     ELSE IF \E c \in LoadedIn(C2) : ~Current(W, C2[c], c) THEN "stale-loaded"
     ELSE IF \E c \in LoadedIn(C2) : C2[c].path \notin may THEN "orphan-loaded"
     ELSE "ok"

\* S2: the set a reload discards.  N = the contexts considered changed; D = N closed under "every file of
\* an app or module package that contains a change" and "everything that directly or transitively imports
\* a changed module" (recorded imports of the running contexts).
ChangedCtx(C, W) == { c \in LoadedIn(C) : ~Current(W, C[c], c) }
RECURSIVE DiscardFix(_, _, _)
DiscardFix(C, ti, D) ==
  LET pk == { Root(x) : x \in { y \in D : IsPkgMember(y) } }
      md == { Root(x) : x \in { y \in D : IsModule(y) } }
      D2 == D \cup { c \in LoadedIn(C) : IsPkgMember(c) /\ Root(c) \in pk }
              \cup { c \in LoadedIn(C) : \E m \in ti[c] : Root(m) \in md }
  IN IF D2 = D THEN D ELSE DiscardFix(C, ti, D2)
Considered(C, W, arg, exists) ==         \* exists: some file would give a context of the name arg
  IF arg = "" THEN ChangedCtx(C, W)
  ELSE IF arg = "*" THEN LoadedIn(C)
  ELSE IF arg \in LoadedIn(C) \/ exists THEN {arg} ELSE {}
Discarded(C, C2) == { c \in LoadedIn(C) : C2[c] = Unl \/ C2[c].inst # C[c].inst }
\* (a context that is only started now answers its first ping: its late write happens; everything else is the same record)
Started(x) == [x EXCEPT !.started = TRUE, !.now = NowOf(x.seen, x.wr, TRUE)]
SameButStart(x, y) == Started(x) = Started(y)

\* executing p given surviving contexts K succeeds (lookup-before-load: a loaded module satisfies the import)
RECURSIVE OkRel(_, _, _)
OkRel(W, K, p) == \A t \in W.F[p].imps : TargetCtx(t) \in K \/ (Resolve(W, t) # "" /\ OkRel(W, K, Resolve(W, t)))

\* The documented discard set of one reload.
\*   fix   = the considered contexts closed under package membership and (transitive) import of a changed module
\*   must  = what has to be discarded.  For reload(NAME) "other changes are ignored": a package member /
\*           importer whose own file no longer exists may, but need not, be discarded with NAME's package.
\*   may   = what may be discarded: fix, plus - default reload - the loaded files of an app whose main file
\*           exists but is not loaded (it failed to load earlier and is retried; retrying the package
\*           re-executes its files; the statement is silent about files that cannot be executed).
DiscardSets(C, W, d2f, arg) ==
  LET N   == Considered(C, W, arg, arg \in CtxNames /\ d2f[arg].path # "")
      fix == IF N = {} THEN {} ELSE DiscardFix(C, OverCtx([c \in CtxNames |-> TransImports(C, c)]), N) \cap LoadedIn(C)
      retryRoots == { Root(r) : r \in { x \in AutoCtx \ LoadedIn(C) : W.doc[x] # "" } }
      retry == IF arg = "" THEN { c \in LoadedIn(C) : IsPkgMember(c) /\ Root(c) \in retryRoots } ELSE {}
  IN [N |-> N,
      must |-> IF arg \in {"", "*"} THEN fix ELSE { c \in fix : c = arg \/ d2f[c].path # "" },
      may |-> fix \cup retry]
MustDiscard(C, F, H, G, arg) == DiscardSets(C, World(F, H, G), Discover(F, H, G), arg).must

\* the whole post-condition of one reload step: pre contexts C (n = files executed before), post C2;
\* the first failing clause is the verdict.  s1on = FALSE leaves out S1 (used by the acceptor for the steps
\* that follow a step already rejected for "changed-not-discarded": a stale importer keeps an unloaded
\* module alive, which S1 would report again at every later reload)
PostClause(C, n, F, H, G, arg, C2, s1on) ==
  LET W  == World(F, H, G)
      ds == DiscardSets(C, W, Discover(F, H, G), arg)
      gone == Discarded(C, C2)
      K  == LoadedIn(C) \ gone                                                     \* survivors
      X  == { c \in LoadedIn(C2) : C2[c].inst > n }                                \* executed by this reload
      again == { c \in AutoCtx : (c \in gone \/ c \in ds.N \/ (arg \in {"", "*"} /\ c \notin LoadedIn(C)))
                                 /\ W.doc[c] # "" /\ OkRel(W, K, W.doc[c]) }
      s1 == IF arg \in {"", "*"} /\ s1on THEN S1Clause(W, C2) ELSE "ok"
  IN IF ds.must \ gone # {} THEN "changed-not-discarded"
     ELSE IF \E c \in LoadedIn(C) \ ds.may : ~SameButStart(C2[c], C[c]) THEN "untouched-touched"
     ELSE IF \E c \in X : ~Current(W, C2[c], c) THEN "executed-not-current"
     ELSE IF \E c \in X : C2[c].imports # { TargetCtx(t) : t \in F[C2[c].path].imps } \/ \E m \in C2[c].imports : C2[m] = Unl THEN "imports-not-loaded"
     ELSE IF \E c \in again : c \notin X THEN "not-reexecuted"
     ELSE IF s1 # "ok" THEN s1
     ELSE IF \E c \in LoadedIn(C2) : ~C2[c].started THEN "not-started"
     ELSE "ok"
=============================================================================
