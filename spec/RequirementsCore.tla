-------------------------- MODULE RequirementsCore --------------------------
(* C20 - requirements resolution: operators shared by the model (Requirements.tla) and the  *)
(* acceptor of recordings of the real code (RequirementsTrace.tla).                          *)
(*                                                                                           *)
(* A version is a non-empty sequence of naturals (release segments), NoVer = <<>> = none.    *)
(* A requirement line is its text as a token sequence (plus the generator's label); the      *)
(* driver writes the token texts (harness/drivers/c20.py tok_text), the code parses the text, *)
(* Classify below says what the text means.  Everything is defined on the SET of lines of    *)
(* all files: order-free by construction.                                                    *)
EXTENDS Naturals, Sequences, FiniteSets, TLC

NoVer == <<>>
Pad(v, n) == [i \in 1..n |-> IF i <= Len(v) THEN v[i] ELSE 0]
RECURSIVE LexLt(_, _, _)
LexLt(a, b, i) == IF i > Len(a) THEN FALSE ELSE IF a[i] < b[i] THEN TRUE ELSE IF a[i] > b[i] THEN FALSE ELSE LexLt(a, b, i + 1)
\* 1.0 = 1.0.0, 1.9 < 1.10 (PEP 440 release comparison)
VLt(a, b) == LET n == IF Len(a) > Len(b) THEN Len(a) ELSE Len(b) IN LexLt(Pad(a, n), Pad(b, n), 1)
VEq(a, b) == ~VLt(a, b) /\ ~VLt(b, a)

\* ---- the text of a line: a sequence of tokens [t, s, v]
\*   t = "name" (s = package name) | "ver" (v = release segments) | "sym" (s = "==", ">=", ",", "#", ...)
\*     | "ws" (s = blanks / tabs) | "word" (s = any other text without '#', e.g. foo, here, -r)
\* The driver writes the concatenation of the token texts into the file (c20.py:tok_text); what a line
\* MEANS is defined here, on the tokens: everything from the first '#' on is comment and is ignored,
\* whatever it contains (specifiers, '==', names, versions, further '#'); white space is ignored;
\* what is left is a pin `name == ver`, an unpinned `name`, or nothing the statement gives a meaning
\* to (blank, unsupported / multiple specifiers, unparsable version): ignored.
TName(p) == [t |-> "name", s |-> p, v |-> NoVer]
TVer(v)  == [t |-> "ver", s |-> "", v |-> v]
TSym(s)  == [t |-> "sym", s |-> s, v |-> NoVer]
TWord(s) == [t |-> "word", s |-> s, v |-> NoVer]
TWs      == [t |-> "ws", s |-> " ", v |-> NoVer]
IsHash(x) == IF x.t = "sym" THEN x.s = "#" ELSE FALSE
IsSym(x, s) == IF x.t = "sym" THEN x.s = s ELSE FALSE
FirstHash(toks) == IF \E i \in 1..Len(toks) : IsHash(toks[i])
                   THEN CHOOSE i \in 1..Len(toks) : IsHash(toks[i]) /\ \A j \in 1..(i - 1) : ~IsHash(toks[j])
                   ELSE Len(toks) + 1
CodePart(toks)    == SubSeq(toks, 1, FirstHash(toks) - 1)                 \* the line without its comment
CommentPart(toks) == SubSeq(toks, FirstHash(toks), Len(toks))             \* <<>> or '#' and everything after it
NoWs(toks) == SelectSeq(toks, LAMBDA x : x.t # "ws")
Ignored == [k |-> "ignored", p |-> "", v |-> NoVer]
Classify(toks) ==
  LET b == NoWs(CodePart(toks)) IN
  IF Len(b) = 1 THEN (IF b[1].t = "name" THEN [k |-> "unpinned", p |-> b[1].s, v |-> NoVer] ELSE Ignored)
  ELSE IF Len(b) = 3 THEN (IF b[1].t = "name" /\ IsSym(b[2], "==") /\ b[3].t = "ver"
                           THEN [k |-> "pin", p |-> b[1].s, v |-> b[3].v] ELSE Ignored)
  ELSE Ignored
\* a requirement line is [f, p, v, toks]: toks is the text; f, p, v is the generator's label (which form
\* it meant to write) - never used to decide anything, only cross-checked (LabelOk) and used by the
\* model's restatement of the clauses
Meaning(l) == Classify(l.toks)
Kind(l) == Meaning(l).k

\* ---- the generator's labels (forms) and what each is meant to be; LabelOk: the text means what the label says
PinForms      == {"pin", "pin_comment", "pin_padded", "spaced"}       \* pkg==1.0 | pkg==1.0  # c | "  pkg==1.0  " | pkg == 1.0
UnpinnedForms == {"unpinned", "unpinned_comment"}                     \* pkg | pkg  # c
IgnoredForms  == {"comment", "blank", "white",                        \* # pkg==9.9 | "" | "   "
                  "ge", "le", "gt", "lt", "compat", "ne",             \* pkg>=v pkg<=v pkg>v pkg<v pkg~=v pkg!=v  (unsupported specifiers)
                  "multi", "double",                                  \* pkg==v,<9 | pkg==v==9.9                  (multiple specifiers)
                  "badver", "emptyver", "triple"}                     \* pkg==foo | pkg== | pkg===v               (unparsable)
FormKind(f) == IF f \in PinForms THEN "pin" ELSE IF f \in UnpinnedForms THEN "unpinned" ELSE "ignored"
LabelOk(l) == LET m == Meaning(l) IN
  /\ l.f \in PinForms \cup UnpinnedForms \cup IgnoredForms
  /\ m.k = FormKind(l.f)
  /\ (m.k # "ignored" => m.p = l.p)
  /\ (m.k = "pin" => m.v = l.v)
\* comments that could be mistaken for requirement text: they contain a specifier symbol, '==' or a comma
SpecSyms == {"==", ">=", "<=", ">", "<", "~=", "!=", ",", "==="}
HasComment(l) == CommentPart(l.toks) # <<>>
TrickyToks(toks) == LET c == CommentPart(toks) IN \E i \in 1..Len(c) : IF c[i].t = "sym" THEN c[i].s \in SpecSyms ELSE FALSE
TrickyComment(l) == TrickyToks(l.toks)

\* ---- selection, on the SET L of lines (a file set in any order collapses to it); M = what the lines mean
LineSet(lines) == { lines[i] : i \in 1..Len(lines) }
Means(L) == { Meaning(l) : l \in L }
MentionedM(M) == { m.p : m \in { x \in M : x.k # "ignored" } }
PinsM(M, p) == { m.v : m \in { x \in M : x.k = "pin" /\ x.p = p } }
Absent == [k |-> "absent"]
SelectM(M, p) ==
  IF PinsM(M, p) # {} THEN [k |-> "pin", v |-> CHOOSE v \in PinsM(M, p) : \A w \in PinsM(M, p) : ~VLt(v, w)]
  ELSE IF p \in MentionedM(M) THEN [k |-> "unpinned"]
  ELSE Absent
Mentioned(L) == MentionedM(Means(L))
Pins(L, p) == PinsM(Means(L), p)
Select(L, p) == SelectM(Means(L), p)

\* ---- install decision for one package
\* inst: version present in the environment, rec: pyscript's record, want: Select(...), allow: allow_all_imports
Owned(inst, rec)   == inst # NoVer /\ rec # NoVer /\ VEq(inst, rec)       \* what is there is what pyscript put there
Foreign(inst, rec) == inst # NoVer /\ ~Owned(inst, rec)                   \* put there (or changed) by something else
Decide(inst, rec, want, allow) ==
  /\ allow /\ want.k # "absent"
  /\ \/ inst = NoVer                                                      \* missing: install what was selected
     \/ Owned(inst, rec) /\ want.k = "pin" /\ ~VEq(want.v, inst)          \* own package: only when the pin differs
\* admissible records after the run; `after` = version the environment reports after the run
RecordsOk(inst, rec, want, allow, after) ==
  IF Decide(inst, rec, want, allow)
    THEN IF want.k = "pin" THEN {want.v} ELSE {after}                     \* what was installed (nothing if it did not appear)
  ELSE IF Foreign(inst, rec) /\ rec # NoVer THEN {rec, NoVer}             \* stale entry of a now-foreign package: may be dropped
  ELSE {rec}

\* ---- persistence of the record ("persisted in the config entry")
\* The record lives in the config entry; Home Assistant keeps the entry in memory and writes it to storage
\* (with a delay) when it is told that the entry changed.  A run that changes the record must hand the new
\* record to HA; after HA has written what is pending, storage holds the record; after a restart the entry
\* (and so the record the next run starts from) is what storage held.
SameVer(a, b) == IF a = NoVer \/ b = NoVer THEN a = b ELSE VEq(a, b)
RecordWrite(rec, rec2, pending) == pending \/ rec2 # rec          \* a write is pending after the run
StoredAtStop(rec, disk, pending) == IF pending THEN rec ELSE disk    \* HA's final write
Reloaded(disk) == disk                                               \* the entry after a restart
\* storage after the run (everything pending written) against the record in the entry, on the packages S
PersistOk(rec2, disk2, S) == \A p \in S : SameVer(rec2[p], disk2[p])
\* the record a run starts from (read from the entry, after a restart: from the re-created entry) against
\* the record the previous run left
CarryOk(prev2, loaded, S) == \A p \in S : SameVer(prev2[p], loaded[p])
=============================================================================
