-------------------------- MODULE RequirementsCore --------------------------
(* C20 - requirements resolution: operators shared by the model (Requirements.tla) and the  *)
(* acceptor of recordings of the real code (RequirementsTrace.tla).                          *)
(*                                                                                           *)
(* A version is a non-empty sequence of naturals (release segments), NoVer = <<>> = none.    *)
(* A requirement line is a classified form [f |-> form, p |-> package, v |-> version]; the   *)
(* driver renders forms to text (spec/../harness/drivers/c20.py FORMS), the code parses the   *)
(* text.  Everything below is defined on the SET of lines of all files: order-free by        *)
(* construction.                                                                             *)
EXTENDS Naturals, Sequences, FiniteSets, TLC

NoVer == <<>>
Pad(v, n) == [i \in 1..n |-> IF i <= Len(v) THEN v[i] ELSE 0]
RECURSIVE LexLt(_, _, _)
LexLt(a, b, i) == IF i > Len(a) THEN FALSE ELSE IF a[i] < b[i] THEN TRUE ELSE IF a[i] > b[i] THEN FALSE ELSE LexLt(a, b, i + 1)
\* 1.0 = 1.0.0, 1.9 < 1.10 (PEP 440 release comparison)
VLt(a, b) == LET n == IF Len(a) > Len(b) THEN Len(a) ELSE Len(b) IN LexLt(Pad(a, n), Pad(b, n), 1)
VEq(a, b) == ~VLt(a, b) /\ ~VLt(b, a)

\* ---- line classification
PinForms      == {"pin", "pin_comment", "pin_padded", "spaced"}       \* pkg==1.0 | pkg==1.0  # c | "  pkg==1.0  " | pkg == 1.0
UnpinnedForms == {"unpinned", "unpinned_comment"}                     \* pkg | pkg  # c
IgnoredForms  == {"comment", "blank", "white",                        \* # pkg==9.9 | "" | "   "
                  "ge", "le", "gt", "lt", "compat", "ne",             \* pkg>=v pkg<=v pkg>v pkg<v pkg~=v pkg!=v  (unsupported specifiers)
                  "multi", "double",                                  \* pkg==v,<9 | pkg==v==9.9                  (multiple specifiers)
                  "badver", "emptyver", "triple"}                     \* pkg==foo | pkg== | pkg===v               (unparsable)
Kind(l) == IF l.f \in PinForms THEN "pin" ELSE IF l.f \in UnpinnedForms THEN "unpinned" ELSE "ignored"

\* ---- selection, on the SET L of lines (a file set in any order collapses to it)
LineSet(lines) == { lines[i] : i \in 1..Len(lines) }
Mentioned(L) == { l.p : l \in { x \in L : Kind(x) # "ignored" } }
Pins(L, p) == { l.v : l \in { x \in L : Kind(x) = "pin" /\ x.p = p } }
Absent == [k |-> "absent"]
Select(L, p) ==
  IF Pins(L, p) # {} THEN [k |-> "pin", v |-> CHOOSE v \in Pins(L, p) : \A w \in Pins(L, p) : ~VLt(v, w)]
  ELSE IF p \in Mentioned(L) THEN [k |-> "unpinned"]
  ELSE Absent

\* ---- install decision for one package
\* inst: version present in the environment, rec: pyscript's record, want: Select(...), allow: allow_all_imports
Owned(inst, rec)   == inst # NoVer /\ rec # NoVer /\ VEq(inst, rec)       \* what is there is what pyscript put there
Foreign(inst, rec) == inst # NoVer /\ ~Owned(inst, rec)                   \* put there (or changed) by something else
Decide(inst, rec, want, allow) ==
  /\ allow /\ want.k # "absent"
  /\ \/ inst = NoVer                                                      \* missing: install what was selected
     \/ Owned(inst, rec) /\ want.k = "pin" /\ ~VEq(want.v, inst)          \* own package: only when the pin differs
\* admissible records after the run; `after` = version the environment reports after the run
RecordsOk(inst, rec, want, allow, after) ==
  IF Decide(inst, rec, want, allow)
    THEN IF want.k = "pin" THEN {want.v} ELSE {after}                     \* what was installed (nothing if it did not appear)
  ELSE IF Foreign(inst, rec) /\ rec # NoVer THEN {rec, NoVer}             \* stale entry of a now-foreign package: may be dropped
  ELSE {rec}
=============================================================================
