SPECIFICATION Spec
CONSTANTS MaxMsgs = 3
INVARIANT RunsArePrefixOfAccepted
INVARIANT NoLossAtQuiescence
INVARIANT RunCarriesOwnMessage
INVARIANT NoRunBlocksAnother
INVARIANT ContextLineage
INVARIANT DistinctTasks
CHECK_DEADLOCK FALSE
