------------------------------ MODULE ZmtpCore ------------------------------
(* C19 framing, shared by the model (Zmtp.tla) and the acceptor of real round trips          *)
(* (ZmtpTrace.tla).  ZMTP 3.0 frame: flag octet (bit0 MORE, bit1 LONG, bit2 COMMAND), size    *)
(* (1 octet, or 8 octets big-endian when LONG), body.  A frame is sent short iff its body is  *)
(* at most ShortMax octets (255 on the wire; a small constant in the exhaustive model).       *)
(* Byte strings are run-length encoded: sequences of [b |-> octet, n |-> count >= 1]; a raw   *)
(* sequence is the special case n = 1, so the same operators serve both uses and 70 000-octet *)
(* frames stay small.                                                                          *)
EXTENDS Integers, Sequences

CONSTANT ShortMax

Raw(bs) == [i \in 1..Len(bs) |-> [b |-> bs[i], n |-> 1]]
RECURSIVE FLenI(_, _)
FLenI(f, i) == IF i > Len(f) THEN 0 ELSE f[i].n + FLenI(f, i + 1)
FLen(f) == FLenI(f, 1)

\* merge adjacent runs of the same octet (canonical form; equality of byte strings = equality of Norm)
RECURSIVE NormI(_, _, _)
NormI(r, i, acc) == IF i > Len(r) THEN acc
                    ELSE IF acc # <<>> /\ acc[Len(acc)].b = r[i].b
                         THEN NormI(r, i + 1, [acc EXCEPT ![Len(acc)].n = @ + r[i].n])
                         ELSE NormI(r, i + 1, Append(acc, r[i]))
Norm(r)   == NormI(r, 1, <<>>)
NormF(fs) == [i \in 1..Len(fs) |-> Norm(fs[i])]

RECURSIVE ExpandI(_, _)
ExpandI(r, i) == IF i > Len(r) THEN <<>> ELSE [k \in 1..r[i].n |-> r[i].b] \o ExpandI(r, i + 1)
Expand(r) == ExpandI(r, 1)

RECURSIVE TakeI(_, _, _), DropI(_, _, _)
TakeI(r, i, n) == IF n = 0 \/ i > Len(r) THEN <<>>
                  ELSE IF r[i].n <= n THEN <<r[i]>> \o TakeI(r, i + 1, n - r[i].n)
                  ELSE <<[b |-> r[i].b, n |-> n]>>
DropI(r, i, n) == IF i > Len(r) THEN <<>>
                  ELSE IF n = 0 THEN SubSeq(r, i, Len(r))
                  ELSE IF r[i].n <= n THEN DropI(r, i + 1, n - r[i].n)
                  ELSE <<[b |-> r[i].b, n |-> r[i].n - n]>> \o SubSeq(r, i + 1, Len(r))
Take(r, n) == TakeI(r, 1, n)
Drop(r, n) == DropI(r, 1, n)

RECURSIVE ConcatAll(_, _)
ConcatAll(fs, i) == IF i > Len(fs) THEN <<>> ELSE fs[i] \o ConcatAll(fs, i + 1)

\* ---------------------------------------------------------------- encoder
Pow256(k) == CASE k = 0 -> 1 [] k = 1 -> 256 [] k = 2 -> 65536 [] k = 3 -> 16777216 [] OTHER -> 0
BE(n, w)  == [i \in 1..w |-> IF w - i > 3 THEN 0 ELSE (n \div Pow256(w - i)) % 256]   \* n < 2^31
Len8(n) == BE(n, 8)
Len4(n) == BE(n, 4)

EncFrameF(f, more, cmd) ==
  LET l    == FLen(f)
      long == l > ShortMax
      flag == (IF more THEN 1 ELSE 0) + (IF long THEN 2 ELSE 0) + (IF cmd THEN 4 ELSE 0)
  IN Raw(<<flag>>) \o (IF long THEN Raw(Len8(l)) ELSE Raw(<<l>>)) \o f
EncFrame(f, more) == EncFrameF(f, more, FALSE)

\* a multipart message: every frame but the last carries MORE   (ZmqSocket.send_multipart)
RECURSIVE Encode(_, _)
Encode(fs, i) == IF i > Len(fs) THEN <<>> ELSE EncFrame(fs[i], i < Len(fs)) \o Encode(fs, i + 1)
\* REP-style single message: empty delimiter frame with MORE, then the body   (ZmqSocket.send)
EncodeSingle(body) == Encode(<<<<>>, body>>, 1)
\* command frame: name and (name, value) properties   (ZmqSocket.send_cmd)
RECURSIVE EncParams(_, _)
EncParams(ps, i) == IF i > Len(ps) THEN <<>>
                    ELSE Raw(<<FLen(ps[i].n)>>) \o ps[i].n \o Raw(Len4(FLen(ps[i].v))) \o ps[i].v \o EncParams(ps, i + 1)
CmdBody(name, ps) == Raw(<<FLen(name)>>) \o name \o EncParams(ps, 1)
EncCmdBody(body)  == EncFrameF(body, FALSE, TRUE)
EncodeCmd(name, ps) == EncCmdBody(CmdBody(name, ps))

\* ---------------------------------------------------------------- functional decoder (whole stream)
\* what recv / recv_multipart must return for a complete byte stream: the list of messages (each a
\* list of frame bodies); command frames are consumed and skipped.  ok = the stream ends on a
\* message boundary and every announced length is available.
Val8(a) == IF a[1] # 0 \/ a[2] # 0 \/ a[3] # 0 \/ a[4] # 0 \/ a[5] >= 128 THEN 0 - 1
           ELSE a[5] * 16777216 + a[6] * 65536 + a[7] * 256 + a[8]
RECURSIVE DecR(_, _, _)
DecR(r, parts, msgs) ==
  IF r = <<>> THEN [ok |-> parts = <<>>, msgs |-> msgs]
  ELSE LET flag == r[1].b
           long == (flag \div 2) % 2 = 1
           hl   == IF long THEN 8 ELSE 1
           r1   == Drop(r, 1)
       IN IF FLen(r1) < hl THEN [ok |-> FALSE, msgs |-> msgs]
          ELSE LET lb == Expand(Take(r1, hl))
                   n  == IF long THEN Val8(lb) ELSE lb[1]
                   r2 == Drop(r1, hl)
               IN IF n < 0 \/ FLen(r2) < n THEN [ok |-> FALSE, msgs |-> msgs]
                  ELSE LET body == Norm(Take(r2, n))
                           r3   == Drop(r2, n)
                       IN IF (flag \div 4) % 2 = 1 THEN DecR(r3, parts, msgs)
                          ELSE IF flag % 2 = 1 THEN DecR(r3, Append(parts, body), msgs)
                          ELSE DecR(r3, <<>>, Append(msgs, Append(parts, body)))
Decode(r) == DecR(r, <<>>, <<>>)

\* ---------------------------------------------------------------- several senders on one socket
\* `seq` is an interleaving, at the granularity of whole elements, of the sequences qs[1..]: every
\* element of every qs[s] occurs exactly once, the order within each qs[s] is kept.  Elements are
\* records [k |-> tag, v |-> value]; the tag is compared first (values of different kinds are never
\* compared).  This is what "read back identically" means when several tasks send on one connection
\* (the kernel's shell handler and its housekeeping task both publish on every iopub connection): the
\* unit that must survive is the message, in whatever order the senders got hold of the connection.
SameItem(a, b) == a.k = b.k /\ a.v = b.v
RECURSIVE IsMergeR(_, _, _, _)
IsMergeR(seq, k, qs, pos) ==
  IF k > Len(seq) THEN \A s \in DOMAIN qs : pos[s] > Len(qs[s])
  ELSE \E s \in DOMAIN qs :
         /\ pos[s] <= Len(qs[s])
         /\ SameItem(qs[s][pos[s]], seq[k])
         /\ IsMergeR(seq, k + 1, qs, [pos EXCEPT ![s] = @ + 1])
IsMerge(seq, qs) == IsMergeR(seq, 1, qs, [s \in DOMAIN qs |-> 1])
AsMsgItems(ms) == [j \in 1..Len(ms) |-> [k |-> "msg", v |-> ms[j]]]

\* the octets `rest` are the concatenation of the byte strings encs[s][..] (the encodings of what
\* sender s handed to the send routines, in its order; normalised), strings of different senders in
\* any order: no write of one sender lands inside the encoding of another sender's item
RECURSIVE WireIsMergeR(_, _, _)
WireIsMergeR(rest, encs, pos) ==
  IF \A s \in DOMAIN encs : pos[s] > Len(encs[s]) THEN rest = <<>>
  ELSE \E s \in DOMAIN encs :
         /\ pos[s] <= Len(encs[s])
         /\ LET e == encs[s][pos[s]]
                n == FLen(e)
            IN /\ FLen(rest) >= n
               /\ Norm(Take(rest, n)) = e
               /\ WireIsMergeR(Drop(rest, n), encs, [pos EXCEPT ![s] = @ + 1])
WireIsMerge(wire, encs) == WireIsMergeR(Norm(wire), encs, [s \in DOMAIN encs |-> 1])
=============================================================================
