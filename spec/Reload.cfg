SPECIFICATION Spec
CONSTANTS
 MaxSteps = 3
 Flags = {}
 Univ = {"a.py", "apps/p/__init__.py", "apps/p.py", "apps/p/h.py", "modules/m/__init__.py", "modules/m.py", "modules/m/u.py", "modules/n.py", "modules/d.py", "scripts/s.py", "scripts/sub/t.py"}
 Graph = "dense"
 Trees = "all"
 Cfgs = {0, 1, 2, 4}
 Wrs = {0, 1}
 Mask = {}
 NamedArgs = {}
 Ignore = {"orphan-loaded"}
 ReloadWeight = 1
VIEW View
INVARIANT PostHolds
INVARIANT InitialLoadOk
INVARIANT UntouchedContextsKeepState
INVARIANT ChangedAreDiscarded
CHECK_DEADLOCK FALSE
ALIAS Alias
