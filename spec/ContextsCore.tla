---------------------------- MODULE ContextsCore ----------------------------
(* C11 - "each file has an isolated global context; modules are shared singletons".            *)
(* A small-step machine for multi-file programs: several global tables keyed by context name,  *)
(* an evaluator with a context pointer `ptr` and a stack of frames.  Shared by the state       *)
(* machine Contexts.tla (model checking over all small programs of a grammar) and by the       *)
(* acceptor ContextsTrace.tla (expected tables and observation log of generated real files).   *)
(*                                                                                             *)
(* Program P = [files : ctx -> [body, auto], order : <<ctx>>, events : <<event>>]              *)
(* Statements (records, field `op`):                                                           *)
(*   set x v | loc x v | read x tag | readattr m x tag | setattr m x v | raise                 *)
(*   import form target alt as names     form: "mod" (import m [as mm]) | "from" (from m       *)
(*        import n1, n2) | "star" (from m import * ) - absolute or relative alike: `target` is *)
(*        the context name the documentation gives the imported file, `alt` the name the       *)
(*        pinned tree uses for it (differs for a relative import written in a package member   *)
(*        other than __init__.py)                                                              *)
(*   def f body trig       (trig = "" or the event that triggers f)                            *)
(*   call f via | trycall f via tag      (via = "" or the name of an imported module object)   *)
(*   task f                (task.create(f); last statement of a body)                          *)
(*   sleep t               (task.sleep: the running evaluator suspends, others run)            *)
(*   dcall f via cb        (depth-guarded call: `if _d > 0: f(_d - 1, cb)`; f may be the       *)
(*                          function's own name (recursion), a function of another file, or    *)
(*                          "_cb", the callback parameter; cb = "" | a name | "_cb")           *)
(* Every function has two parameters: _d (depth budget; plain calls pass it on, dcall passes   *)
(* _d - 1, entry points start with D0) and _cb (a function passed by the caller, or none).     *)
(* Several evaluators exist at a time (file loads, trigger runs, created tasks): one runs,     *)
(* the others are suspended in `sleepers` with their own context pointer and frame stack, so   *)
(* two activations of one function interleave; the saved caller context lives in the FRAME.    *)
(*   setctx name | getctx tag            (pyscript.set_global_ctx / get_global_ctx, top level) *)
(* fl = named deviations:                                                                      *)
(*   "rel-sibling-name"     (pinned tree) a relative import in a package member other than     *)
(*                          __init__.py loads the file under `alt`: a second instance          *)
(*   "callee-in-caller-ctx" a called function runs against the caller's globals  (mutant)      *)
(*   "no-restore-on-raise"  the pointer is not restored when the callee raises   (mutant)      *)
(*   "star-second-instance" from m import * executes m again                      (mutant)     *)
(*   "scope-on-function"    the caller's context is saved per function object, not per         *)
(*                          activation (one slot shared by all activations)       (mutant)     *)
EXTENDS Naturals, Sequences, FiniteSets, TLC

Undef == [k |-> "undef"]
NoCb  == [k |-> "none"]
D0    == 3                                              \* depth budget of an entry point
Data(v) == [k |-> "data", v |-> v]
Func(c, f, src) == [k |-> "func", ctx |-> c, name |-> f, src |-> src]     \* ctx: globals it runs against; src: file of its text
Mod(c) == [k |-> "mod", ctx |-> c]

Has(t, x) == x \in DOMAIN t
Put(t, x, v) == (x :> v) @@ t
Get(t, x) == IF Has(t, x) THEN t[x] ELSE Undef
Public(x) == x \notin {"_p", "_q", "WHO_"}             \* names starting with '_' are not copied by from m import *

\* ----------------------------------------------------------------------------- program access
RECURSIVE FindDef(_, _)
FindDef(body, f) ==                              \* the (last) def of f in a file body
  IF body = <<>> THEN <<>>
  ELSE LET s == body[Len(body)] IN
       IF s.op = "def" /\ s.f = f THEN s.body ELSE FindDef(SubSeq(body, 1, Len(body) - 1), f)
BodyOf(P, fv) == FindDef(P.files[fv.src].body, fv.name)

\* ----------------------------------------------------------------------------- machine state
\* S = [tabs, inst, ptr, stack, log, writes, queue, tasks, trigs, ok]
Frame(code, saved, catch, own, kind, src, d, cb, fkey) ==
  [code |-> code, pc |-> 1, saved |-> saved, catch |-> catch, own |-> own, kind |-> kind, src |-> src, locals |-> <<>>,
   d |-> d, cb |-> cb, fkey |-> fkey]
Start(P) == [tabs |-> <<>>, inst |-> <<>>, ptr |-> "", stack |-> <<>>, log |-> <<>>, writes |-> {},
             queue |-> [i \in 1..Len(P.order) |-> [w |-> "file", c |-> P.order[i]]] \o [i \in 1..Len(P.events) |-> [w |-> "event", e |-> P.events[i]]],
             tasks |-> <<>>, trigs |-> <<>>, ok |-> TRUE, now |-> 0, sleepers |-> <<>>, slot |-> <<>>]
Done(S) == S.stack = <<>> /\ S.queue = <<>> /\ S.tasks = <<>> /\ S.sleepers = <<>>
Top(S) == S.stack[Len(S.stack)]
Cur(S) == Top(S).code[Top(S).pc]
Adv(S) == [S EXCEPT !.stack[Len(S.stack)].pc = @ + 1]
Logv(S, tag, v) == [S EXCEPT !.log = Append(@, [tag |-> tag, v |-> v])]
Lookup(S, x) == IF x = "_cb" THEN Top(S).cb ELSE IF Has(Top(S).locals, x) THEN Top(S).locals[x] ELSE Get(Get(S.tabs, S.ptr), x)
Table(S, c) == IF Has(S.tabs, c) THEN S.tabs[c] ELSE <<>>
\* a write into a global table: recorded with the context the running code belongs to
WriteG(S, c, x, v, via) ==
  [S EXCEPT !.tabs = Put(@, c, Put(Table(S, c), x, v)),
            !.writes = @ \cup {[own |-> Top(S).own, into |-> c, via |-> via]}]
Show(v) == IF v.k = "func" THEN [k |-> "func", ctx |-> v.ctx, name |-> v.name] ELSE v      \* observable part of a value

\* enter a function: the evaluator switches to the DEFINING context of the function; the caller's context is
\* kept in the new frame (per activation)
Enter(P, S, fv, catch, fl, d, cb) ==
  LET to == IF "callee-in-caller-ctx" \in fl THEN S.ptr ELSE fv.ctx
  IN [S EXCEPT !.stack = Append(@, Frame(BodyOf(P, fv), S.ptr, catch, fv.ctx, "call", fv.src, d, cb, fv)), !.ptr = to,
               !.slot = IF "scope-on-function" \in fl THEN Put(@, fv, IF S.ptr # fv.ctx THEN S.ptr ELSE "") ELSE @]
\* leave the top frame normally: the caller's context is restored
Leave(S, fl) ==
  LET f == Top(S)
      last == Len(S.stack) = 1
  IN IF "scope-on-function" \in fl /\ f.kind = "call"
     THEN LET sv == IF Has(S.slot, f.fkey) THEN S.slot[f.fkey] ELSE "" IN
          [S EXCEPT !.stack = SubSeq(@, 1, Len(@) - 1), !.ptr = IF last THEN "" ELSE IF sv # "" THEN sv ELSE @,
                    !.slot = Put(@, f.fkey, "")]
     ELSE [S EXCEPT !.stack = SubSeq(@, 1, Len(@) - 1), !.ptr = IF last THEN "" ELSE f.saved]
\* an exception propagates: frames are popped (pointer restored at each) up to and including the first
\* frame entered by a try-call; its caller logs `caught` and continues
RECURSIVE Unwind(_, _)
Unwind(S, fl) ==
  IF S.stack = <<>> THEN S
  ELSE LET f == Top(S)
           S1 == IF "no-restore-on-raise" \in fl THEN [S EXCEPT !.stack = SubSeq(@, 1, Len(@) - 1)] ELSE Leave(S, fl)
       IN IF f.catch # "" THEN Adv(Logv(S1, f.catch, Data("caught")))
          ELSE IF f.kind \in {"file", "module"} THEN [S1 EXCEPT !.ok = FALSE]          \* a file that raises is not generated
          ELSE Unwind(S1, fl)

ImportCtx(s, S, fl) == IF "rel-sibling-name" \in fl THEN s.alt ELSE s.target
Bind(S, s, c) ==                                   \* the import statement s binds names from the loaded context c
  LET t == Table(S, c)
      dst == S.ptr
  IN IF s.form = "mod" THEN WriteG(S, dst, s.as, Mod(c), "import")
     ELSE IF s.form = "from"
          THEN LET RECURSIVE B(_, _)
                   B(S1, i) == IF i > Len(s.names) THEN S1 ELSE B(WriteG(S1, dst, s.names[i], Get(t, s.names[i]), "import"), i + 1)
               IN B(S, 1)
     ELSE LET names == { x \in DOMAIN t : Public(x) }
              RECURSIVE A(_, _)
              A(S1, ns) == IF ns = {} THEN S1 ELSE LET x == CHOOSE y \in ns : TRUE IN A(WriteG(S1, dst, x, t[x], "import"), ns \ {x})
          IN A(S, names)

\* one step of the running evaluator
Exec(P, S, fl) ==
  LET f == Top(S) IN
  IF f.pc > Len(f.code)
  THEN (IF f.catch # "" THEN Adv(Logv(Leave(S, fl), f.catch, Data("ok"))) ELSE IF f.kind = "module" THEN Leave(S, fl)
        ELSE IF Len(S.stack) = 1 THEN Leave(S, fl) ELSE Adv(Leave(S, fl)))
  ELSE LET s == Cur(S) IN
  CASE s.op = "set"  -> Adv(WriteG(S, S.ptr, s.x, Data(s.v), "plain"))
    [] s.op = "loc"  -> Adv([S EXCEPT !.stack[Len(S.stack)].locals = Put(@, s.x, Data(s.v))])
    [] s.op = "read" -> Adv(Logv(S, s.tag, Show(Lookup(S, s.x))))
    [] s.op = "readattr" -> LET m == Lookup(S, s.m) IN Adv(Logv(S, s.tag, IF m.k = "mod" THEN Show(Get(Table(S, m.ctx), s.x)) ELSE Undef))
    [] s.op = "setattr"  -> LET m == Lookup(S, s.m) IN IF m.k = "mod" THEN Adv(WriteG(S, m.ctx, s.x, Data(s.v), "module-object")) ELSE Unwind(S, fl)
    [] s.op = "raise" -> Unwind(S, fl)
    [] s.op = "def"  -> LET fv == Func(S.ptr, s.f, f.src)
                            S1 == WriteG(S, S.ptr, s.f, fv, "plain")
                        IN Adv(IF s.trig = "" THEN S1 ELSE [S1 EXCEPT !.trigs = Put(@, s.trig, fv)])
    [] s.op \in {"call", "trycall"} ->
         LET holder == IF s.via = "" THEN Undef ELSE Lookup(S, s.via)
             fv == IF s.via = "" THEN Lookup(S, s.f) ELSE IF holder.k = "mod" THEN Get(Table(S, holder.ctx), s.f) ELSE Undef
             catch == IF s.op = "trycall" THEN s.tag ELSE ""
         IN IF fv.k = "func" THEN Enter(P, S, fv, catch, fl, f.d, NoCb)
            ELSE IF s.op = "trycall" THEN Adv(Logv(S, s.tag, Data("NameError")))       \* not visible here: rendered with except NameError
            ELSE Unwind(S, fl)
    [] s.op = "import" ->
         LET c == ImportCtx(s, S, fl)
             again == "star-second-instance" \in fl /\ s.form = "star" /\ Get(S.inst, c) = 1
         IN IF Has(S.inst, c) /\ ~again THEN Adv(Bind(S, s, c))                              \* lookup before load: the one instance
            ELSE [S EXCEPT !.stack = Append(@, Frame(P.files[s.target].body, S.ptr, "", c, "module", s.target, D0, NoCb, Undef)), !.ptr = c,
                           !.tabs = Put(@, c, <<>>), !.inst = Put(@, c, IF Has(S.inst, c) THEN S.inst[c] + 1 ELSE 1)]
    [] s.op = "task"   -> LET fv == Lookup(S, s.f) IN Adv(IF fv.k = "func" THEN [S EXCEPT !.tasks = Append(@, [fv |-> fv, from |-> S.ptr])] ELSE S)
    [] s.op = "sleep"  -> LET S1 == Adv(S) IN                          \* suspend: another evaluator runs
                          [S1 EXCEPT !.sleepers = Append(@, [ptr |-> S1.ptr, stack |-> S1.stack, wake |-> S.now + s.t]),
                                     !.stack = <<>>, !.ptr = ""]
    [] s.op = "dcall"  ->
         IF f.d = 0 THEN Adv(S)
         ELSE LET holder == IF s.via = "" THEN Undef ELSE Lookup(S, s.via)
                  fv == IF s.via = "" THEN Lookup(S, s.f) ELSE IF holder.k = "mod" THEN Get(Table(S, holder.ctx), s.f) ELSE Undef
                  cb == IF s.cb = "" THEN NoCb ELSE Lookup(S, s.cb)
              IN IF s.f = "_cb" /\ fv = NoCb THEN Adv(S)                                   \* no callback was passed
                 ELSE IF fv.k = "func" /\ cb.k \in {"func", "none"} THEN Enter(P, S, fv, "", fl, f.d - 1, cb)
                 ELSE Unwind(S, fl)
    [] s.op = "setctx" -> Adv([S EXCEPT !.ptr = s.name, !.stack[Len(S.stack)].own = s.name])
    [] s.op = "getctx" -> Adv(Logv(S, s.tag, Data(S.ptr)))

\* when no evaluator runs: created tasks first (in order); then a suspended evaluator (index i of `sleepers`;
\* the acceptor resumes the one that wakes first, the state machine any of them); then the next file to load;
\* finally all events are fired in one burst (every triggered function becomes an evaluator)
StartFrame(P, fv) == Frame(BodyOf(P, fv), "", "", fv.ctx, "call", fv.src, D0, NoCb, fv)
RECURSIVE Fire(_, _, _)
Fire(P, S, q) ==
  IF q = <<>> THEN S
  ELSE LET w == Head(q) IN
       IF w.w = "event" /\ Has(S.trigs, w.e)
       THEN Fire(P, [S EXCEPT !.sleepers = Append(@, [ptr |-> S.trigs[w.e].ctx, stack |-> <<StartFrame(P, S.trigs[w.e])>>, wake |-> S.now])], Tail(q))
       ELSE Fire(P, S, Tail(q))
FirstAwake(S) == CHOOSE i \in 1..Len(S.sleepers) : \A j \in 1..Len(S.sleepers) :
                   S.sleepers[i].wake < S.sleepers[j].wake \/ (S.sleepers[i].wake = S.sleepers[j].wake /\ i <= j)
Resume(S, i) ==
  LET e == S.sleepers[i] IN
  [S EXCEPT !.ptr = e.ptr, !.stack = e.stack, !.now = IF e.wake > S.now THEN e.wake ELSE S.now,
            !.sleepers = SubSeq(@, 1, i - 1) \o SubSeq(@, i + 1, Len(@))]
Dispatch(P, S, fl, i) ==
  IF S.tasks # <<>>
  THEN LET t == Head(S.tasks)                \* a new evaluator created in the creator's context calls the function
           S1 == [S EXCEPT !.tasks = Tail(@), !.ptr = t.from]
       IN [Enter(P, S1, t.fv, "", fl, D0, NoCb) EXCEPT !.stack[1].saved = ""]
  ELSE IF S.sleepers # <<>> THEN Resume(S, i)
  ELSE LET w == Head(S.queue) IN
       IF w.w = "file"
       THEN [S EXCEPT !.queue = Tail(@), !.stack = <<Frame(P.files[w.c].body, "", "", w.c, "file", w.c, D0, NoCb, Undef)>>, !.ptr = w.c,
                      !.tabs = Put(@, w.c, <<>>), !.inst = Put(@, w.c, 1)]
       ELSE [Fire(P, S, S.queue) EXCEPT !.queue = <<>>]
StepPick(P, S, fl, i) == IF S.stack = <<>> THEN Dispatch(P, S, fl, i) ELSE Exec(P, S, fl)
Step(P, S, fl) == StepPick(P, S, fl, IF S.sleepers = <<>> THEN 0 ELSE FirstAwake(S))
Choices(S) == IF S.stack = <<>> /\ S.tasks = <<>> /\ S.sleepers # <<>> THEN 1..Len(S.sleepers) ELSE {0}

RECURSIVE RunAll(_, _, _, _)
RunAll(P, S, fl, fuel) == IF Done(S) \/ fuel = 0 THEN S ELSE RunAll(P, Step(P, S, fl), fl, fuel - 1)

\* ----------------------------------------------------------------------------- the statement
\* plain assignments / definitions only ever reach the globals of the context the code belongs to (the file
\* that defined the function; after pyscript.set_global_ctx the context switched to); other tables change only
\* through an imported module object
WritesOnlyToOwnGlobals(S) == \A w \in S.writes : w.via \in {"plain", "import"} => w.into = w.own
\* whenever code runs, the evaluator points at the context that code belongs to: in particular the caller's
\* context is back after every exit of a callee, normal or by exception
PointerRestoredOnEveryExit(S) ==
  /\ S.stack # <<>> => S.ptr = Top(S).own
  /\ \A i \in 1..Len(S.sleepers) : S.sleepers[i].ptr = S.sleepers[i].stack[Len(S.sleepers[i].stack)].own      \* suspended evaluators too
\* however many importers and import forms: every file was executed at most once
OneInstancePerModule(S) == \A c \in DOMAIN S.inst : S.inst[c] <= 1
\* ... and under one name: no two contexts run the text of the same file
OneContextPerFile(P, S) == \A c \in DOMAIN S.inst : c \in DOMAIN P.files
=============================================================================
