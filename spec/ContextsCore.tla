---------------------------- MODULE ContextsCore ----------------------------
(* C11 - "each file has an isolated global context; modules are shared singletons".            *)
(* A small-step machine for multi-file programs: several global tables keyed by context name,  *)
(* an evaluator with a context pointer `ptr` and a stack of frames.  Shared by the state       *)
(* machine Contexts.tla (model checking over all small programs of a grammar) and by the       *)
(* acceptor ContextsTrace.tla (expected tables and observation log of generated real files).   *)
(*                                                                                             *)
(* Program P = [files : ctx -> [body, auto], order : <<ctx>>, events : <<event>>]              *)
(* Statements (records, field `op`):                                                           *)
(*   set x v | loc x v | read x tag | readattr m x tag | setattr m x v | raise                 *)
(*   import form target alt as names     form: "mod" (import m [as mm]) | "from" (from m       *)
(*        import n1, n2) | "star" (from m import * ) - absolute or relative alike: `target` is *)
(*        the context name the documentation gives the imported file, `alt` the name the       *)
(*        pinned tree uses for it (differs for a relative import written in a package member   *)
(*        other than __init__.py)                                                              *)
(*   def f body trig       (trig = "" or the event that triggers f)                            *)
(*   call f via | trycall f via tag      (via = "" or the name of an imported module object)   *)
(*   task f                (task.create(f); last statement of a body)                          *)
(*   setctx name | getctx tag            (pyscript.set_global_ctx / get_global_ctx, top level) *)
(* fl = named deviations:                                                                      *)
(*   "rel-sibling-name"     (pinned tree) a relative import in a package member other than     *)
(*                          __init__.py loads the file under `alt`: a second instance          *)
(*   "callee-in-caller-ctx" a called function runs against the caller's globals  (mutant)      *)
(*   "no-restore-on-raise"  the pointer is not restored when the callee raises   (mutant)      *)
(*   "star-second-instance" from m import * executes m again                      (mutant)     *)
EXTENDS Naturals, Sequences, FiniteSets, TLC

Undef == [k |-> "undef"]
Data(v) == [k |-> "data", v |-> v]
Func(c, f, src) == [k |-> "func", ctx |-> c, name |-> f, src |-> src]     \* ctx: globals it runs against; src: file of its text
Mod(c) == [k |-> "mod", ctx |-> c]

Has(t, x) == x \in DOMAIN t
Put(t, x, v) == (x :> v) @@ t
Get(t, x) == IF Has(t, x) THEN t[x] ELSE Undef
Public(x) == x \notin {"_p", "_q", "WHO_"}             \* names starting with '_' are not copied by from m import *

\* ----------------------------------------------------------------------------- program access
RECURSIVE FindDef(_, _)
FindDef(body, f) ==                              \* the (last) def of f in a file body
  IF body = <<>> THEN <<>>
  ELSE LET s == body[Len(body)] IN
       IF s.op = "def" /\ s.f = f THEN s.body ELSE FindDef(SubSeq(body, 1, Len(body) - 1), f)
BodyOf(P, fv) == FindDef(P.files[fv.src].body, fv.name)

\* ----------------------------------------------------------------------------- machine state
\* S = [tabs, inst, ptr, stack, log, writes, queue, tasks, trigs, ok]
Frame(code, saved, catch, own, kind, src) ==
  [code |-> code, pc |-> 1, saved |-> saved, catch |-> catch, own |-> own, kind |-> kind, src |-> src, locals |-> <<>>]
Start(P) == [tabs |-> <<>>, inst |-> <<>>, ptr |-> "", stack |-> <<>>, log |-> <<>>, writes |-> {},
             queue |-> [i \in 1..Len(P.order) |-> [w |-> "file", c |-> P.order[i]]] \o [i \in 1..Len(P.events) |-> [w |-> "event", e |-> P.events[i]]],
             tasks |-> <<>>, trigs |-> <<>>, ok |-> TRUE]
Done(S) == S.stack = <<>> /\ S.queue = <<>> /\ S.tasks = <<>>
Top(S) == S.stack[Len(S.stack)]
Cur(S) == Top(S).code[Top(S).pc]
Adv(S) == [S EXCEPT !.stack[Len(S.stack)].pc = @ + 1]
Logv(S, tag, v) == [S EXCEPT !.log = Append(@, [tag |-> tag, v |-> v])]
Lookup(S, x) == IF Has(Top(S).locals, x) THEN Top(S).locals[x] ELSE Get(Get(S.tabs, S.ptr), x)
Table(S, c) == IF Has(S.tabs, c) THEN S.tabs[c] ELSE <<>>
\* a write into a global table: recorded with the context the running code belongs to
WriteG(S, c, x, v, via) ==
  [S EXCEPT !.tabs = Put(@, c, Put(Table(S, c), x, v)),
            !.writes = @ \cup {[own |-> Top(S).own, into |-> c, via |-> via]}]
Show(v) == IF v.k = "func" THEN [k |-> "func", ctx |-> v.ctx, name |-> v.name] ELSE v      \* observable part of a value

\* enter a function: the evaluator switches to the DEFINING context of the function
Enter(P, S, fv, catch, fl) ==
  LET to == IF "callee-in-caller-ctx" \in fl THEN S.ptr ELSE fv.ctx
  IN [S EXCEPT !.stack = Append(@, Frame(BodyOf(P, fv), S.ptr, catch, fv.ctx, "call", fv.src)), !.ptr = to]
\* leave the top frame normally: the caller's context is restored
Leave(S) == [S EXCEPT !.stack = SubSeq(@, 1, Len(@) - 1), !.ptr = IF Len(S.stack) = 1 THEN "" ELSE Top(S).saved]
\* an exception propagates: frames are popped (pointer restored at each) up to and including the first
\* frame entered by a try-call; its caller logs `caught` and continues
RECURSIVE Unwind(_, _)
Unwind(S, fl) ==
  IF S.stack = <<>> THEN S
  ELSE LET f == Top(S)
           S1 == IF "no-restore-on-raise" \in fl THEN [S EXCEPT !.stack = SubSeq(@, 1, Len(@) - 1)] ELSE Leave(S)
       IN IF f.catch # "" THEN Adv(Logv(S1, f.catch, Data("caught")))
          ELSE IF f.kind \in {"file", "module"} THEN [S1 EXCEPT !.ok = FALSE]          \* a file that raises is not generated
          ELSE Unwind(S1, fl)

ImportCtx(s, S, fl) == IF "rel-sibling-name" \in fl THEN s.alt ELSE s.target
Bind(S, s, c) ==                                   \* the import statement s binds names from the loaded context c
  LET t == Table(S, c)
      dst == S.ptr
  IN IF s.form = "mod" THEN WriteG(S, dst, s.as, Mod(c), "import")
     ELSE IF s.form = "from"
          THEN LET RECURSIVE B(_, _)
                   B(S1, i) == IF i > Len(s.names) THEN S1 ELSE B(WriteG(S1, dst, s.names[i], Get(t, s.names[i]), "import"), i + 1)
               IN B(S, 1)
     ELSE LET names == { x \in DOMAIN t : Public(x) }
              RECURSIVE A(_, _)
              A(S1, ns) == IF ns = {} THEN S1 ELSE LET x == CHOOSE y \in ns : TRUE IN A(WriteG(S1, dst, x, t[x], "import"), ns \ {x})
          IN A(S, names)

\* one step of the running evaluator
Exec(P, S, fl) ==
  LET f == Top(S) IN
  IF f.pc > Len(f.code)
  THEN (IF f.catch # "" THEN Adv(Logv(Leave(S), f.catch, Data("ok"))) ELSE IF f.kind = "module" THEN Leave(S) ELSE Adv(Leave(S)))
  ELSE LET s == Cur(S) IN
  CASE s.op = "set"  -> Adv(WriteG(S, S.ptr, s.x, Data(s.v), "plain"))
    [] s.op = "loc"  -> Adv([S EXCEPT !.stack[Len(S.stack)].locals = Put(@, s.x, Data(s.v))])
    [] s.op = "read" -> Adv(Logv(S, s.tag, Show(Lookup(S, s.x))))
    [] s.op = "readattr" -> LET m == Lookup(S, s.m) IN Adv(Logv(S, s.tag, IF m.k = "mod" THEN Show(Get(Table(S, m.ctx), s.x)) ELSE Undef))
    [] s.op = "setattr"  -> LET m == Lookup(S, s.m) IN IF m.k = "mod" THEN Adv(WriteG(S, m.ctx, s.x, Data(s.v), "module-object")) ELSE Unwind(S, fl)
    [] s.op = "raise" -> Unwind(S, fl)
    [] s.op = "def"  -> LET fv == Func(S.ptr, s.f, f.src)
                            S1 == WriteG(S, S.ptr, s.f, fv, "plain")
                        IN Adv(IF s.trig = "" THEN S1 ELSE [S1 EXCEPT !.trigs = Put(@, s.trig, fv)])
    [] s.op \in {"call", "trycall"} ->
         LET holder == IF s.via = "" THEN Undef ELSE Lookup(S, s.via)
             fv == IF s.via = "" THEN Lookup(S, s.f) ELSE IF holder.k = "mod" THEN Get(Table(S, holder.ctx), s.f) ELSE Undef
             catch == IF s.op = "trycall" THEN s.tag ELSE ""
         IN IF fv.k = "func" THEN Enter(P, S, fv, catch, fl)
            ELSE IF s.op = "trycall" THEN Adv(Logv(S, s.tag, Data("NameError")))       \* not visible here: rendered with except NameError
            ELSE Unwind(S, fl)
    [] s.op = "import" ->
         LET c == ImportCtx(s, S, fl)
             again == "star-second-instance" \in fl /\ s.form = "star" /\ Get(S.inst, c) = 1
         IN IF Has(S.inst, c) /\ ~again THEN Adv(Bind(S, s, c))                              \* lookup before load: the one instance
            ELSE [S EXCEPT !.stack = Append(@, Frame(P.files[s.target].body, S.ptr, "", c, "module", s.target)), !.ptr = c,
                           !.tabs = Put(@, c, <<>>), !.inst = Put(@, c, IF Has(S.inst, c) THEN S.inst[c] + 1 ELSE 1)]
    [] s.op = "task"   -> LET fv == Lookup(S, s.f) IN Adv(IF fv.k = "func" THEN [S EXCEPT !.tasks = Append(@, fv)] ELSE S)
    [] s.op = "setctx" -> Adv([S EXCEPT !.ptr = s.name, !.stack[Len(S.stack)].own = s.name])
    [] s.op = "getctx" -> Adv(Logv(S, s.tag, Data(S.ptr)))

\* when no evaluator runs: created tasks first (in order), then the next file to load / event to fire
Dispatch(P, S, fl) ==
  IF S.tasks # <<>>
  THEN LET fv == Head(S.tasks) IN
       [S EXCEPT !.tasks = Tail(@), !.stack = <<Frame(BodyOf(P, fv), "", "", fv.ctx, "call", fv.src)>>, !.ptr = fv.ctx]
  ELSE LET w == Head(S.queue)  S1 == [S EXCEPT !.queue = Tail(@)] IN
       IF w.w = "file"
       THEN [S1 EXCEPT !.stack = <<Frame(P.files[w.c].body, "", "", w.c, "file", w.c)>>, !.ptr = w.c,
                       !.tabs = Put(@, w.c, <<>>), !.inst = Put(@, w.c, 1)]
       ELSE IF Has(S.trigs, w.e)
            THEN LET fv == S.trigs[w.e] IN [S1 EXCEPT !.stack = <<Frame(BodyOf(P, fv), "", "", fv.ctx, "call", fv.src)>>, !.ptr = fv.ctx]
            ELSE S1
Step(P, S, fl) == IF S.stack = <<>> THEN Dispatch(P, S, fl) ELSE Exec(P, S, fl)

RECURSIVE RunAll(_, _, _, _)
RunAll(P, S, fl, fuel) == IF Done(S) \/ fuel = 0 THEN S ELSE RunAll(P, Step(P, S, fl), fl, fuel - 1)

\* ----------------------------------------------------------------------------- the statement
\* plain assignments / definitions only ever reach the globals of the context the code belongs to (the file
\* that defined the function; after pyscript.set_global_ctx the context switched to); other tables change only
\* through an imported module object
WritesOnlyToOwnGlobals(S) == \A w \in S.writes : w.via \in {"plain", "import"} => w.into = w.own
\* whenever code runs, the evaluator points at the context that code belongs to: in particular the caller's
\* context is back after every exit of a callee, normal or by exception
PointerRestoredOnEveryExit(S) == S.stack # <<>> => S.ptr = Top(S).own
\* however many importers and import forms: every file was executed at most once
OneInstancePerModule(S) == \A c \in DOMAIN S.inst : S.inst[c] <= 1
\* ... and under one name: no two contexts run the text of the same file
OneContextPerFile(P, S) == \A c \in DOMAIN S.inst : c \in DOMAIN P.files
=============================================================================
