---------------------------- MODULE ContextsCore ----------------------------
(* C11 - "each file has an isolated global context; modules are shared singletons".            *)
(* A small-step machine for multi-file programs: several global tables keyed by context name,  *)
(* an evaluator with a context pointer `ptr` and a stack of frames.  Shared by the state       *)
(* machine Contexts.tla (model checking over all small programs of a grammar) and by the       *)
(* acceptor ContextsTrace.tla (expected tables and observation log of generated real files).   *)
(*                                                                                             *)
(* Program P = [files : ctx -> [body, auto], order : <<ctx>>, events : <<event>>]              *)
(* Statements (records, field `op`):                                                           *)
(*   set x v | loc x v | read x tag | readattr m x tag | setattr m x v | raise                 *)
(*   import form target alt as names     form: "mod" (import m [as mm]) | "from" (from m       *)
(*        import n1, n2) | "star" (from m import * ) - absolute or relative alike: `target` is *)
(*        the context name the documentation gives the imported file, `alt` the name the       *)
(*        pinned tree uses for it (differs for a relative import written in a package member   *)
(*        other than __init__.py)                                                              *)
(*   def f body trig       (trig = "" or the event that triggers f)                            *)
(*   call f via | trycall f via tag      (via = "" or the name of an imported module object)   *)
(*   task f                (task.create(f); last statement of a body)                          *)
(*   sleep t               (task.sleep: the running evaluator suspends, others run)            *)
(*   dcall f via cb        (depth-guarded call: `if _d > 0: f(_d - 1, cb)`; f may be the       *)
(*                          function's own name (recursion), a function of another file, or    *)
(*                          "_cb", the callback parameter; cb = "" | a name | "_cb")           *)
(* Every function has two parameters: _d (depth budget; plain calls pass it on, dcall passes   *)
(* _d - 1, entry points start with D0) and _cb (a function passed by the caller, or none).     *)
(* Several evaluators exist at a time (file loads, trigger runs, created tasks): one runs,     *)
(* the others are suspended in `sleepers` with their own context pointer and frame stack, so   *)
(* two activations of one function interleave; the saved caller context lives in the FRAME.    *)
(*   setctx name | getctx tag            (pyscript.set_global_ctx: top level; get_global_ctx:  *)
(*                                        anywhere)                                            *)
(* Context-bound functions (closures over the evaluator they were installed for) - round 3:    *)
(*   getctx tag | listctx tag            (pyscript.get_global_ctx() / list_global_ctx()[0])    *)
(*   wexpr x v t tag       (task.wait_until(state_trigger="<on> and x == 'v'", timeout=t): the *)
(*                          expression is evaluated against the GLOBALS of the running code's  *)
(*                          context (locals are not visible): true -> log "state" at once;     *)
(*                          false -> the evaluator is suspended for t, then logs "timeout";    *)
(*                          x unbound there -> NameError in the caller)                        *)
(*   task f via            (task.create(f) / task.create(m.f)) anywhere in an entry point that *)
(*                          only runs in the event phase; the new evaluator gets its OWN       *)
(*                          context-bound functions, whatever file created it                  *)
(* Every evaluator has an identity `ev = [id, bound]`: `bound` is the evaluator whose pointer  *)
(* the context-bound functions read (its own: bound = id).                                     *)
(* Function values made by code of another file - round 3:                                     *)
(*   def f body trig [deco dvia]   a def at file level may carry a plain decorator             *)
(*                          (`@d` / `@m.d`, below an optional @event_trigger): f = d(f)        *)
(*   def d body kind="deco"        decorator / factory: one parameter _fn (a function or none) *)
(*   ldef w body           nested def inside a function: a closure over the activation's _fn,  *)
(*                          bound as a local; its globals are those of the code that executes  *)
(*                          the def (the file whose text it is)                                *)
(*   ret x                 return the value of x (a local closure, "_fn", a global function)   *)
(*   fcall                 `if _fn is not None: _fn(_d, _cb)` (the wrapped function)           *)
(*   bindcall x f via arg  file level: x = f(arg) / x = m.f(arg) / x = m.f()  (explicit        *)
(*                          application of a decorator, factory call)                          *)
(*   sethook m f | dcall "hk"      m.hk = f: a function stored into another file's globals     *)
(*                          through the module object; whoever calls hk runs it in ITS context *)
(* Clean-up code and cancellation - round 4:                                                   *)
(*   try body fin          `try: <body> finally: <fin>` in a function body (nested freely).  A *)
(*                          frame keeps a stack `hs` of active handlers; an exception that     *)
(*                          reaches a frame with an active handler runs the fin code IN THAT   *)
(*                          FRAME (the callee's frames are gone, the caller's context is back) *)
(*                          and then goes on unwinding; pyscript code cannot catch a           *)
(*                          cancellation (`except Exception` does not), only clean up          *)
(*   unique n killme       task.unique(n [, kill_me=True]) - context-bound: the name belongs   *)
(*                          to the context of the code that calls it.  Held by another live    *)
(*                          evaluator: that one is cancelled (killme: the caller is) - the     *)
(*                          victim is suspended somewhere, possibly inside a function of       *)
(*                          another file; the cancellation is delivered as soon as no          *)
(*                          evaluator runs (after the first steps of tasks just created),      *)
(*                          unwinds ALL its frames - each pop restores the caller's context -  *)
(*                          running the fin code of every active handler on the way            *)
(* fl = named deviations:                                                                      *)
(*   "rel-sibling-name"     (pinned tree) a relative import in a package member other than     *)
(*                          __init__.py loads the file under `alt`: a second instance          *)
(*   "callee-in-caller-ctx" a called function runs against the caller's globals  (mutant)      *)
(*   "no-restore-on-raise"  the pointer is not restored when the callee raises   (mutant)      *)
(*   "star-second-instance" from m import * executes m again                      (mutant)     *)
(*   "scope-on-function"    the caller's context is saved per function object, not per         *)
(*                          activation (one slot shared by all activations)       (mutant)     *)
(*   "task-funcs-of-creator" a created task uses the context-bound functions of the evaluator  *)
(*                          that created it                                       (mutant)     *)
(*   "switch-by-def-site"   the context switch of a call is decided by comparing the caller's  *)
(*                          context with the context in which the function was last BOUND by a *)
(*                          def statement (the decorating file), not with its own   (mutant)   *)
(*   "no-restore-on-cancel" the caller's context is not restored when the callee is cancelled  *)
(*                          (restored for ordinary exceptions and returns)        (mutant)     *)
(*   "unique-names-global"  task.unique names are one name space for all files    (mutant)     *)
EXTENDS Naturals, Sequences, FiniteSets, TLC

Undef == [k |-> "undef"]
NoCb  == [k |-> "none"]
D0    == 3                                              \* depth budget of an entry point
Forever == 1000000000                                   \* an evaluator that waits to be cancelled
Data(v) == [k |-> "data", v |-> v]
\* ctx: globals it runs against; src: file of its text; fn: the function captured by a closure (or none);
\* site: the context in which a def statement last bound it (only tracked under "switch-by-def-site")
Closure(c, f, src, fn) == [k |-> "func", ctx |-> c, name |-> f, src |-> src, fn |-> fn, site |-> c]
Func(c, f, src) == Closure(c, f, src, NoCb)
Mod(c) == [k |-> "mod", ctx |-> c]

Has(t, x) == x \in DOMAIN t
Put(t, x, v) == (x :> v) @@ t
Get(t, x) == IF Has(t, x) THEN t[x] ELSE Undef
Public(x) == x \notin {"_p", "_q", "WHO_"}             \* names starting with '_' are not copied by from m import *

\* ----------------------------------------------------------------------------- program access
RECURSIVE FindDef(_, _)
FindDef(body, f) ==                              \* the (last) def of f in a file body; nested defs (ldef) have names of their own
  IF body = <<>> THEN <<>>
  ELSE LET s == body[Len(body)] IN
       IF s.op \in {"def", "ldef"} /\ s.f = f THEN s.body
       ELSE IF s.op \in {"def", "ldef"} /\ FindDef(s.body, f) # <<>> THEN FindDef(s.body, f)
       ELSE FindDef(SubSeq(body, 1, Len(body) - 1), f)
\* try statements are laid out flat: <<try, body..., endtry, fin..., endfin>>; `fin` = distance from the try to the first fin statement
RECURSIVE Flat(_)
Flat(code) ==
  IF code = <<>> THEN <<>>
  ELSE LET s == Head(code) IN
       (IF s.op = "try" THEN LET b == Flat(s.body) IN <<[op |-> "try", fin |-> Len(b) + 2]>> \o b \o <<[op |-> "endtry"]>> \o Flat(s.fin) \o <<[op |-> "endfin"]>>
        ELSE <<s>>) \o Flat(Tail(code))
BodyOf(P, fv) == Flat(FindDef(P.files[fv.src].body, fv.name))

\* ----------------------------------------------------------------------------- machine state
\* S = [tabs, inst, ptr, stack, log, writes, queue, tasks, trigs, ok, now, sleepers, slot, ev, nid, last, ctxobs, uniq, cancels, cx, from, kills]
\* frame: bind = "" or the global name the caller binds the returned function to; trig = event the returned function is
\* registered for; fn = the activation's _fn (argument of a decorator / captured function of a closure)
Frame(code, saved, catch, own, kind, src, d, cb, fkey, fn, bind, trig) ==
  [code |-> code, pc |-> 1, saved |-> saved, catch |-> catch, own |-> own, kind |-> kind, src |-> src, locals |-> <<>>,
   d |-> d, cb |-> cb, fkey |-> fkey, fn |-> fn, bind |-> bind, trig |-> trig, hs |-> <<>>]
\* hs: active try statements of the activation, innermost last: [fin = pc of the first fin statement, st = "body" | "fin",
\*     pend = what goes on after the fin code: "none" | "error" | "cancel"]
NoEv == [id |-> 0, bound |-> 0, by |-> 0]               \* by: the evaluator that created this one with task.create (0: none)
Start(P) == [tabs |-> <<>>, inst |-> <<>>, ptr |-> "", stack |-> <<>>, log |-> <<>>, writes |-> {},
             queue |-> [i \in 1..Len(P.order) |-> [w |-> "file", c |-> P.order[i]]] \o [i \in 1..Len(P.events) |-> [w |-> "event", e |-> P.events[i]]],
             tasks |-> <<>>, trigs |-> <<>>, ok |-> TRUE, now |-> 0, sleepers |-> <<>>, slot |-> <<>>,
             ev |-> NoEv, nid |-> 1, last |-> <<>>, ctxobs |-> {},
             uniq |-> <<>>,          \* [c, n] -> [id, own]: the live evaluator holding task name n of context c (own: whose code registered it)
             cancels |-> <<>>,       \* cancellations requested, not yet delivered: << [id, self] >>
             cx |-> {},              \* (ghost) unwinding: frames left by an exception [exc, from, to, catch, fin = FALSE] and clean-up code
                                     \*         started by one [exc, from = context of the frame popped just before or "", to, FALSE, fin = TRUE]
             from |-> "",            \* (ghost) while unwinding: the context of the frame popped last
             kills |-> {}]           \* (ghost) cancellations requested through a task name: [own, reg, self]
Done(S) == S.stack = <<>> /\ S.queue = <<>> /\ S.tasks = <<>> /\ S.sleepers = <<>>
Top(S) == S.stack[Len(S.stack)]
Cur(S) == Top(S).code[Top(S).pc]
Adv(S) == [S EXCEPT !.stack[Len(S.stack)].pc = @ + 1]
Logv(S, tag, v) == [S EXCEPT !.log = Append(@, [tag |-> tag, v |-> v])]
Lookup(S, x) == IF x = "_cb" THEN Top(S).cb ELSE IF x = "_fn" THEN Top(S).fn
                ELSE IF Has(Top(S).locals, x) THEN Top(S).locals[x] ELSE Get(Get(S.tabs, S.ptr), x)
Table(S, c) == IF Has(S.tabs, c) THEN S.tabs[c] ELSE <<>>
\* a write into a global table: recorded with the context the running code belongs to
WriteG(S, c, x, v, via) ==
  [S EXCEPT !.tabs = Put(@, c, Put(Table(S, c), x, v)),
            !.writes = @ \cup {[own |-> Top(S).own, into |-> c, via |-> via]}]
Show(v) == IF v.k = "func" THEN [k |-> "func", ctx |-> v.ctx, name |-> v.name] ELSE v      \* observable part of a value

\* the context a context-bound function (get_global_ctx, list_global_ctx, the expression of task.wait_until, task.create)
\* sees: the pointer of the evaluator it is bound to - the running one, unless a deviation binds it to another
PtrOf(S, id) ==
  IF \E i \in 1..Len(S.sleepers) : S.sleepers[i].ev.id = id
  THEN S.sleepers[CHOOSE i \in 1..Len(S.sleepers) : S.sleepers[i].ev.id = id].ptr
  ELSE IF Has(S.last, id) THEN S.last[id] ELSE ""
CtxSeen(S) == IF S.ev.bound = S.ev.id THEN S.ptr ELSE PtrOf(S, S.ev.bound)
ObsCtx(S) == [S EXCEPT !.ctxobs = @ \cup {[own |-> Top(S).own, seen |-> CtxSeen(S)]}]

\* enter a function: the evaluator switches to the DEFINING context of the function; the caller's context is
\* kept in the new frame (per activation)
EnterX(P, S, fv, catch, fl, d, cb, fn, bind, trig) ==
  LET to == IF "callee-in-caller-ctx" \in fl THEN S.ptr
            ELSE IF "switch-by-def-site" \in fl /\ fv.site = S.ptr THEN S.ptr ELSE fv.ctx
  IN [S EXCEPT !.stack = Append(@, Frame(BodyOf(P, fv), S.ptr, catch, fv.ctx, "call", fv.src, d, cb, fv, fn, bind, trig)), !.ptr = to,
               !.slot = IF "scope-on-function" \in fl THEN Put(@, fv, IF S.ptr # fv.ctx THEN S.ptr ELSE "") ELSE @]
Enter(P, S, fv, catch, fl, d, cb) == EnterX(P, S, fv, catch, fl, d, cb, fv.fn, "", "")
\* an evaluator that ends gives up the task names it holds
DropHolder(u, id) == [k \in { j \in DOMAIN u : u[j].id # id } |-> u[k]]
\* leave the top frame normally: the caller's context is restored; an evaluator that ends keeps its last pointer
Leave(S, fl) ==
  LET f == Top(S)
      last == Len(S.stack) = 1
      S0 == IF last THEN [S EXCEPT !.last = Put(@, S.ev.id, IF f.saved # "" THEN f.saved ELSE S.ptr), !.ev = NoEv, !.uniq = DropHolder(@, S.ev.id)] ELSE S
  IN IF "scope-on-function" \in fl /\ f.kind = "call"
     THEN LET sv == IF Has(S.slot, f.fkey) THEN S.slot[f.fkey] ELSE "" IN
          [S0 EXCEPT !.stack = SubSeq(@, 1, Len(@) - 1), !.ptr = IF last THEN "" ELSE IF sv # "" THEN sv ELSE @,
                     !.slot = Put(@, f.fkey, "")]
     ELSE [S0 EXCEPT !.stack = SubSeq(@, 1, Len(@) - 1), !.ptr = IF last THEN "" ELSE f.saved]
\* an exception (exc = "error": raised by code; "cancel": the evaluator was cancelled) propagates: a frame with an active try
\* statement runs its fin code first (in that frame, with the context the frame had) and goes on unwinding at `endfin`; otherwise
\* the frame is popped (pointer restored) - up to and including the first frame entered by a try-call, whose caller logs
\* `caught` and continues.  A cancellation is not an Exception: no try-call catches it, every frame of the evaluator goes.
RECURSIVE Unwind(_, _, _)
Unwind(S, fl, exc) ==
  IF S.stack = <<>> THEN S
  ELSE LET f == Top(S)
           n == Len(S.stack)
       IN IF f.hs # <<>>
          THEN LET h == f.hs[Len(f.hs)] IN
               IF h.st = "body" THEN [S EXCEPT !.stack[n].hs[Len(f.hs)] = [h EXCEPT !.st = "fin", !.pend = exc], !.stack[n].pc = h.fin, !.from = "",
                                               !.cx = @ \cup {[exc |-> exc, from |-> S.from, to |-> f.own, catch |-> FALSE, fin |-> TRUE]}]
               ELSE Unwind([S EXCEPT !.stack[n].hs = SubSeq(@, 1, Len(@) - 1)], fl, exc)      \* raised by fin code: replaces what was pending
          ELSE LET keep == ("no-restore-on-raise" \in fl /\ exc = "error") \/ ("no-restore-on-cancel" \in fl /\ exc = "cancel")
                   S0 == IF keep
                         THEN [(IF n = 1 THEN [S EXCEPT !.last = Put(@, S.ev.id, S.ptr), !.ev = NoEv, !.ptr = "", !.uniq = DropHolder(@, S.ev.id)] ELSE S)
                               EXCEPT !.stack = SubSeq(@, 1, n - 1)]
                         ELSE Leave(S, fl)
                   S1 == IF n = 1 THEN [S0 EXCEPT !.from = ""]
                         ELSE [S0 EXCEPT !.from = f.own, !.cx = @ \cup {[exc |-> exc, from |-> f.own, to |-> S.stack[n - 1].own, catch |-> f.catch # "", fin |-> FALSE]}]
               IN IF f.catch # "" /\ exc = "error" THEN Adv(Logv([S1 EXCEPT !.from = ""], f.catch, Data("caught")))
                  ELSE IF f.kind \in {"file", "module"} \/ f.bind # "" THEN [S1 EXCEPT !.ok = FALSE]   \* a file (a decorator) that raises is not generated
                  ELSE Unwind(S1, fl, exc)
\* the top frame ends (end of body: hasval = FALSE; `ret x`: hasval = TRUE): the caller's context is restored, then the
\* caller binds the returned function (decorated def / bindcall) in ITS globals, logs the outcome of a try-call, goes on
Finish(S, fl, hasval, val) ==
  LET f == Top(S)
      S1 == Leave(S, fl)
      v == IF "switch-by-def-site" \in fl /\ hasval /\ val.k = "func" THEN [val EXCEPT !.site = S1.ptr] ELSE val
      S2 == IF f.bind = "" THEN S1
            ELSE IF hasval /\ val.k = "func"
                 THEN LET S3 == WriteG(S1, S1.ptr, f.bind, v, "plain") IN IF f.trig = "" THEN S3 ELSE [S3 EXCEPT !.trigs = Put(@, f.trig, v)]
                 ELSE [S1 EXCEPT !.ok = FALSE]                       \* a decorator that returns no function is not generated
  IN IF f.catch # "" THEN Adv(Logv(S2, f.catch, Data("ok")))
     ELSE IF f.kind = "module" THEN S2                               \* the import statement is executed again: now a lookup
     ELSE IF Len(S.stack) = 1 THEN S2 ELSE Adv(S2)

ImportCtx(s, S, fl) == IF "rel-sibling-name" \in fl THEN s.alt ELSE s.target
Bind(S, s, c) ==                                   \* the import statement s binds names from the loaded context c
  LET t == Table(S, c)
      dst == S.ptr
  IN IF s.form = "mod" THEN WriteG(S, dst, s.as, Mod(c), "import")
     ELSE IF s.form = "from"
          THEN LET RECURSIVE B(_, _)
                   B(S1, i) == IF i > Len(s.names) THEN S1 ELSE B(WriteG(S1, dst, s.names[i], Get(t, s.names[i]), "import"), i + 1)
               IN B(S, 1)
     ELSE LET names == { x \in DOMAIN t : Public(x) }
              RECURSIVE A(_, _)
              A(S1, ns) == IF ns = {} THEN S1 ELSE LET x == CHOOSE y \in ns : TRUE IN A(WriteG(S1, dst, x, t[x], "import"), ns \ {x})
          IN A(S, names)

\* the function a call names: a name of the running code (local / global of the current context) or an attribute of a
\* module object
Callee(S, f, via) ==
  LET holder == IF via = "" THEN Undef ELSE Lookup(S, via)
  IN IF via = "" THEN Lookup(S, f) ELSE IF holder.k = "mod" THEN Get(Table(S, holder.ctx), f) ELSE Undef
\* the running evaluator suspends until now + t; `note` = "" or the tag under which "timeout" is logged when it resumes
Suspend(S, t, note) ==
  LET S1 == Adv(S) IN
  [S1 EXCEPT !.sleepers = Append(@, [ptr |-> S1.ptr, stack |-> S1.stack, wake |-> S.now + t, ev |-> S.ev, note |-> note]),
             !.stack = <<>>, !.ptr = "", !.ev = NoEv]

\* one step of the running evaluator
Exec(P, S, fl) ==
  LET f == Top(S) IN
  IF f.pc > Len(f.code) THEN Finish(S, fl, FALSE, Undef)
  ELSE LET s == Cur(S) IN
  CASE s.op = "set"  -> Adv(WriteG(S, S.ptr, s.x, Data(s.v), "plain"))
    [] s.op = "loc"  -> Adv([S EXCEPT !.stack[Len(S.stack)].locals = Put(@, s.x, Data(s.v))])
    [] s.op = "read" -> Adv(Logv(S, s.tag, Show(Lookup(S, s.x))))
    [] s.op = "readattr" -> LET m == Lookup(S, s.m) IN Adv(Logv(S, s.tag, IF m.k = "mod" THEN Show(Get(Table(S, m.ctx), s.x)) ELSE Undef))
    [] s.op = "setattr"  -> LET m == Lookup(S, s.m) IN IF m.k = "mod" THEN Adv(WriteG(S, m.ctx, s.x, Data(s.v), "module-object")) ELSE Unwind(S, fl, "error")
    [] s.op = "sethook"  -> LET m == Lookup(S, s.m)                    \* m.hk = f
                                v == Lookup(S, s.f)
                            IN IF m.k = "mod" /\ v.k = "func" THEN Adv(WriteG(S, m.ctx, "hk", v, "module-object")) ELSE Unwind(S, fl, "error")
    [] s.op = "raise" -> Unwind(S, fl, "error")
    [] s.op = "def"  ->
         LET fv == Func(S.ptr, s.f, f.src)
             dv == IF s.deco = "" THEN Undef ELSE Callee(S, s.deco, s.dvia)
         IN IF s.deco = ""
            THEN LET S1 == WriteG(S, S.ptr, s.f, fv, "plain")
                 IN Adv(IF s.trig = "" THEN S1 ELSE [S1 EXCEPT !.trigs = Put(@, s.trig, fv)])
            ELSE IF dv.k = "func" THEN EnterX(P, S, dv, "", fl, f.d, NoCb, fv, s.f, s.trig)        \* f = d(f)
            ELSE [S EXCEPT !.ok = FALSE]                                                             \* unknown decorator: not generated
    [] s.op = "ldef" -> Adv([S EXCEPT !.stack[Len(S.stack)].locals = Put(@, s.f, Closure(S.ptr, s.f, f.src, f.fn))])
    [] s.op = "ret"  -> Finish(S, fl, TRUE, Lookup(S, s.x))
    [] s.op = "fcall" -> IF f.fn.k = "func" THEN Enter(P, S, f.fn, "", fl, f.d, f.cb) ELSE Adv(S)
    [] s.op = "bindcall" ->
         LET dv == Callee(S, s.f, s.via)
             arg == IF s.arg = "" THEN NoCb ELSE Lookup(S, s.arg)
         IN IF dv.k = "func" /\ arg.k \in {"func", "none"} THEN EnterX(P, S, dv, "", fl, f.d, NoCb, arg, s.x, "")
            ELSE [S EXCEPT !.ok = FALSE]
    [] s.op \in {"call", "trycall"} ->
         LET fv == Callee(S, s.f, s.via)
             catch == IF s.op = "trycall" THEN s.tag ELSE ""
         IN IF fv.k = "func" THEN Enter(P, S, fv, catch, fl, f.d, NoCb)
            ELSE IF s.op = "trycall" THEN Adv(Logv(S, s.tag, Data("NameError")))       \* not visible here: rendered with except NameError
            ELSE Unwind(S, fl, "error")
    [] s.op = "import" ->
         LET c == ImportCtx(s, S, fl)
             again == "star-second-instance" \in fl /\ s.form = "star" /\ Get(S.inst, c) = 1
         IN IF Has(S.inst, c) /\ ~again THEN Adv(Bind(S, s, c))                              \* lookup before load: the one instance
            ELSE [S EXCEPT !.stack = Append(@, Frame(Flat(P.files[s.target].body), S.ptr, "", c, "module", s.target, D0, NoCb, Undef, NoCb, "", "")),
                           !.ptr = c, !.tabs = Put(@, c, <<>>), !.inst = Put(@, c, IF Has(S.inst, c) THEN S.inst[c] + 1 ELSE 1)]
    [] s.op = "task"   -> LET fv == Callee(S, s.f, s.via)                \* task.create is context-bound too: the new evaluator starts in
                          IN Adv(IF fv.k = "func"                        \* the context its creator's functions see
                                 THEN [S EXCEPT !.tasks = Append(@, [fv |-> fv, from |-> CtxSeen(S), by |-> S.ev.id])] ELSE S)
    [] s.op = "sleep"  -> Suspend(S, s.t, "")                            \* suspend: another evaluator runs
    [] s.op = "try"    -> Adv([S EXCEPT !.stack[Len(S.stack)].hs = Append(@, [fin |-> f.pc + s.fin, st |-> "body", pend |-> "none"])])
    [] s.op = "endtry" -> Adv([S EXCEPT !.stack[Len(S.stack)].hs[Len(f.hs)].st = "fin"])      \* the body ended normally: the fin code follows
    [] s.op = "endfin" -> LET h == f.hs[Len(f.hs)]
                              S1 == [S EXCEPT !.stack[Len(S.stack)].hs = SubSeq(@, 1, Len(@) - 1)]
                          IN IF h.pend = "none" THEN Adv(S1) ELSE Unwind(S1, fl, h.pend)
    [] s.op = "unique" ->                                                \* context-bound: the name space is that of the running code's context
         LET key == [c |-> IF "unique-names-global" \in fl THEN "" ELSE CtxSeen(S), n |-> s.n]
             held == IF Has(S.uniq, key) THEN S.uniq[key].id # S.ev.id ELSE FALSE
             S0 == IF held THEN [ObsCtx(S) EXCEPT !.kills = @ \cup {[own |-> f.own, reg |-> S.uniq[key].own, self |-> s.killme]}] ELSE ObsCtx(S)
         IN IF held /\ s.killme
            THEN [Suspend(S0, Forever, "") EXCEPT !.cancels = Append(@, [id |-> S.ev.id, self |-> TRUE])]      \* waits to be cancelled
            ELSE Adv([S0 EXCEPT !.uniq = Put(@, key, [id |-> S.ev.id, own |-> f.own]),
                                !.cancels = IF held THEN Append(@, [id |-> S.uniq[key].id, self |-> FALSE]) ELSE @])
    [] s.op = "dcall"  ->
         IF f.d = 0 THEN Adv(S)
         ELSE LET fv == Callee(S, s.f, s.via)
                  cb == IF s.cb = "" THEN NoCb ELSE Lookup(S, s.cb)
              IN IF s.f = "_cb" /\ fv = NoCb THEN Adv(S)                                   \* no callback was passed
                 ELSE IF fv.k = "func" /\ cb.k \in {"func", "none"} THEN Enter(P, S, fv, "", fl, f.d - 1, cb)
                 ELSE Unwind(S, fl, "error")
    [] s.op = "setctx" -> Adv([S EXCEPT !.ptr = s.name, !.stack[Len(S.stack)].own = s.name])
    [] s.op \in {"getctx", "listctx"} -> Adv(Logv(ObsCtx(S), s.tag, Data(CtxSeen(S))))
    [] s.op = "wexpr"  -> LET v == Get(Table(S, CtxSeen(S)), s.x) IN          \* globals only: locals are not visible to the expression
                          IF v = Undef THEN Unwind(ObsCtx(S), fl, "error")                 \* NameError raised in the caller
                          ELSE IF v = Data(s.v) THEN Adv(Logv(ObsCtx(S), s.tag, Data("state")))
                          ELSE Suspend(ObsCtx(S), s.t, s.tag)

\* when no evaluator runs: created tasks first (in order); then the cancellations requested; then a suspended evaluator (index i of `sleepers`;
\* the acceptor resumes the one that wakes first, the state machine any of them); then the next file to load;
\* finally all events are fired in one burst (every triggered function becomes an evaluator)
StartFrame(P, fv) == Frame(BodyOf(P, fv), "", "", fv.ctx, "call", fv.src, D0, NoCb, fv, fv.fn, "", "")
RECURSIVE Fire(_, _, _)
Fire(P, S, q) ==
  IF q = <<>> THEN S
  ELSE LET w == Head(q) IN
       IF w.w = "event" /\ Has(S.trigs, w.e)
       THEN Fire(P, [S EXCEPT !.sleepers = Append(@, [ptr |-> S.trigs[w.e].ctx, stack |-> <<StartFrame(P, S.trigs[w.e])>>, wake |-> S.now,
                                                      ev |-> [id |-> S.nid, bound |-> S.nid, by |-> 0], note |-> ""]),
                              !.nid = @ + 1], Tail(q))
       ELSE Fire(P, S, Tail(q))
FirstAwake(S) == CHOOSE i \in 1..Len(S.sleepers) : \A j \in 1..Len(S.sleepers) :
                   S.sleepers[i].wake < S.sleepers[j].wake \/ (S.sleepers[i].wake = S.sleepers[j].wake /\ i <= j)
Resume(S, i) ==
  LET e == S.sleepers[i]
      S1 == [S EXCEPT !.ptr = e.ptr, !.stack = e.stack, !.now = IF e.wake > S.now THEN e.wake ELSE S.now, !.ev = e.ev,
                      !.sleepers = SubSeq(@, 1, i - 1) \o SubSeq(@, i + 1, Len(@))]
  IN IF e.note = "" THEN S1 ELSE Logv(S1, e.note, Data("timeout"))
Dispatch(P, S, fl, i) ==
  IF S.tasks # <<>>
  THEN LET t == Head(S.tasks)                \* a new evaluator, created in the creator's context, calls the function
           S1 == [S EXCEPT !.tasks = Tail(@), !.ptr = t.from, !.nid = @ + 1,
                           !.ev = [id |-> S.nid, bound |-> IF "task-funcs-of-creator" \in fl THEN t.by ELSE S.nid, by |-> t.by]]
       IN Enter(P, S1, t.fv, "", fl, D0, NoCb)
  ELSE IF S.cancels # <<>>
  THEN LET v == Head(S.cancels)          \* the victim (suspended) runs again, with the cancellation raised where it was suspended
           S0 == [S EXCEPT !.cancels = Tail(@)]
       IN IF \E k \in 1..Len(S.sleepers) : S.sleepers[k].ev.id = v.id
          THEN LET k == CHOOSE j \in 1..Len(S.sleepers) : S.sleepers[j].ev.id = v.id
                   e == S.sleepers[k]
               IN Unwind([S0 EXCEPT !.ptr = e.ptr, !.stack = e.stack, !.ev = e.ev, !.sleepers = SubSeq(@, 1, k - 1) \o SubSeq(@, k + 1, Len(@))],
                         fl, "cancel")
          ELSE S0                        \* ended meanwhile (cancelled twice)
  ELSE IF S.sleepers # <<>> THEN Resume(S, i)
  ELSE LET w == Head(S.queue) IN
       IF w.w = "file"
       THEN [S EXCEPT !.queue = Tail(@), !.stack = <<Frame(Flat(P.files[w.c].body), "", "", w.c, "file", w.c, D0, NoCb, Undef, NoCb, "", "")>>,
                      !.ptr = w.c, !.tabs = Put(@, w.c, <<>>), !.inst = Put(@, w.c, 1), !.ev = [id |-> S.nid, bound |-> S.nid, by |-> 0], !.nid = @ + 1]
       ELSE [Fire(P, S, S.queue) EXCEPT !.queue = <<>>]
StepPick(P, S, fl, i) == IF S.stack = <<>> THEN Dispatch(P, S, fl, i) ELSE Exec(P, S, fl)
Step(P, S, fl) == StepPick(P, S, fl, IF S.sleepers = <<>> THEN 0 ELSE FirstAwake(S))
Choices(S) == IF S.stack = <<>> /\ S.tasks = <<>> /\ S.cancels = <<>> /\ S.sleepers # <<>> THEN 1..Len(S.sleepers) ELSE {0}

\* run to the end (16 steps per level of recursion: TLC's recursion is Java's)
StepD(P, S, fl) == IF Done(S) THEN S ELSE Step(P, S, fl)
Step4(P, S, fl) == StepD(P, StepD(P, StepD(P, StepD(P, S, fl), fl), fl), fl)
Step16(P, S, fl) == Step4(P, Step4(P, Step4(P, Step4(P, S, fl), fl), fl), fl)
RECURSIVE RunAll(_, _, _, _)
RunAll(P, S, fl, fuel) == IF Done(S) \/ fuel <= 0 THEN S ELSE RunAll(P, Step16(P, S, fl), fl, fuel - 16)

\* ----------------------------------------------------------------------------- the statement
\* plain assignments / definitions only ever reach the globals of the context the code belongs to (the file
\* that defined the function; after pyscript.set_global_ctx the context switched to); other tables change only
\* through an imported module object
WritesOnlyToOwnGlobals(S) == \A w \in S.writes : w.via \in {"plain", "import"} => w.into = w.own
\* whenever code runs, the evaluator points at the context that code belongs to: in particular the caller's
\* context is back after every exit of a callee, normal or by exception
PointerRestoredOnEveryExit(S) ==
  /\ S.stack # <<>> => S.ptr = Top(S).own
  /\ \A i \in 1..Len(S.sleepers) : S.sleepers[i].ptr = S.sleepers[i].stack[Len(S.sleepers[i].stack)].own      \* suspended evaluators too
\* the context-bound functions (current context, expressions handed to task.wait_until) resolve against the context of
\* the code that calls them - whichever file, trigger or task started the evaluator that runs it
ContextFunctionsFollowTheCode(S) == \A o \in S.ctxobs : o.seen = o.own
\* task names are per context too: code of one file never cancels a task through a name registered by code of another file
TaskNamesPerContext(S) == \A k \in S.kills : k.own = k.reg
\* however many importers and import forms: every file was executed at most once
OneInstancePerModule(S) == \A c \in DOMAIN S.inst : S.inst[c] <= 1
\* ... and under one name: no two contexts run the text of the same file
OneContextPerFile(P, S) == \A c \in DOMAIN S.inst : c \in DOMAIN P.files
=============================================================================
