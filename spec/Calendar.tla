------------------------------ MODULE Calendar ------------------------------
(* Civil calendar and time-limb arithmetic shared by TimeSpec (C06) and the window function  *)
(* of C07.  TLC integers are 32 bit, so an instant is a pair of limbs                         *)
(*     T = <<sec, usec>>,   sec = seconds since 1970-01-01 00:00:00,  usec \in 0..999999      *)
(* `sec` counts either naive local wall-clock seconds or UTC seconds (the operator says       *)
(* which); both stay below 2^31 until 2038.  A day number is sec \div 86400.                  *)
EXTENDS Integers, Sequences, FiniteSets

Range(s) == { s[i] : i \in 1..Len(s) }

\* ---------- limbs ----------
Lt(a, b) == a[1] < b[1] \/ (a[1] = b[1] /\ a[2] < b[2])
Le(a, b) == a = b \/ Lt(a, b)
Norm(s, u) == IF u >= 1000000 THEN <<s + 1, u - 1000000>> ELSE IF u < 0 THEN <<s - 1, u + 1000000>> ELSE <<s, u>>
\* off = [neg : BOOLEAN, s : Nat, u : 0..999999]  (a signed duration)
AddOff(t, off) == IF off.neg THEN Norm(t[1] - off.s, t[2] - off.u) ELSE Norm(t[1] + off.s, t[2] + off.u)
AddSec(t, n)   == <<t[1] + n, t[2]>>
DayOf(t)       == t[1] \div 86400
SecOfDay(t)    == t[1] % 86400
\* least element of a non-empty finite set of instants
MinT(S)  == CHOOSE x \in S : \A y \in S : Le(x, y)
MinN(S)  == CHOOSE x \in S : \A y \in S : x <= y
\* floor((a - b) / n) for instants a, b and a whole number of seconds n > 0
FloorQuot(a, b, n) == (IF a[2] >= b[2] THEN a[1] - b[1] ELSE a[1] - b[1] - 1) \div n

\* ---------- proleptic Gregorian calendar, day 0 = 1970-01-01 ----------
DaysFromCivil(y0, m, d) ==
  LET y   == IF m <= 2 THEN y0 - 1 ELSE y0
      era == y \div 400
      yoe == y - era * 400
      mp  == IF m > 2 THEN m - 3 ELSE m + 9
      doy == (153 * mp + 2) \div 5 + d - 1
      doe == yoe * 365 + yoe \div 4 - yoe \div 100 + doy
  IN era * 146097 + doe - 719468
\* [y, m, d] of a day number
Civil(z0) ==
  LET z   == z0 + 719468
      era == z \div 146097
      doe == z - era * 146097
      yoe == (doe - doe \div 1460 + doe \div 36524 - doe \div 146096) \div 365
      doy == doe - (365 * yoe + yoe \div 4 - yoe \div 100)
      mp  == (5 * doy + 2) \div 153
      m   == IF mp < 10 THEN mp + 3 ELSE mp - 9
  IN [y |-> yoe + era * 400 + (IF m <= 2 THEN 1 ELSE 0), m |-> m, d |-> doy - (153 * mp + 2) \div 5 + 1]
YearOfDay(z) == Civil(z).y
IsLeap(y) == (y % 4 = 0 /\ y % 100 # 0) \/ y % 400 = 0
DaysIn(y, m) == CASE m \in {1,3,5,7,8,10,12} -> 31 [] m \in {4,6,9,11} -> 30 [] OTHER -> IF IsLeap(y) THEN 29 ELSE 28
ValidDate(y, m, d) == m \in 1..12 /\ d >= 1 /\ d <= DaysIn(y, m)
Weekday(day) == (day + 4) % 7            \* 1970-01-01 was a Thursday; Sunday = 0
=============================================================================
