SPECIFICATION Spec
INVARIANT T_Flatten
CHECK_DEADLOCK FALSE
