------------------------------ MODULE Imports ------------------------------
(* C17 (M): the import statement as the mechanism executes it - clause by clause: look for a  *)
(* pyscript module, apply the rule, load, bind - over a small universe of module names x      *)
(* statement forms x execution routes x configurations, with the invariants                   *)
(*   RefusedBindsNothing  no state (not even an intermediate one) has a name bound by a       *)
(*                        clause whose module the rule refuses                                *)
(*   AllowedIffRule       the final outcome is one the declarative rule (ImportCore!Outcomes) *)
(*                        admits, and it is a refusal exactly when the rule refuses           *)
(*   StubsIgnored         a from-import below `stubs` ends "ok", binds nothing, loads nothing *)
(* and prints the expected outcome table (one INFO line per statement x configuration).       *)
(* Constant Mutant injects the code mutants of the check into the mechanism to show that the  *)
(* invariants can fail (witness runs in the driver): "" | "prefix" | "skip-dotted" |          *)
(* "bind-first" | "bind-globals".                                                             *)
(* Round 3: the eval / exec routes carry namespace arguments (ImportCore!NsForms); the        *)
(* mechanism sets up the evaluator's local / global mapping from them (Setup) and binds into   *)
(* the local one; sc records per mapping ("script", "g", "l") what was bound.  "funcexec" =    *)
(* exec called inside a function body with explicit namespaces.                               *)
(* Round 4: relative from-imports (`from .m import b`, `from ..m import *`, `from . import m`) *)
(* executed by code of a package (app, module package, sub-package) or of no package: the      *)
(* mechanism resolves the member below the package and never falls back to an absolute module. *)
(* Mutants "rel-fallback" (a non-member goes on to the allow-list check under its bare name -   *)
(* the pinned tree) and "rel-exempt" (a relative clause is exempt from the check and loads the  *)
(* absolute module) violate the invariants.                                                    *)
EXTENDS ImportCore, TLC, Json
CONSTANT Mutant

M(parts, name) == [mod |-> name, parts |-> parts]
Mods == { M(<<"math">>, "math"), M(<<"mathx">>, "mathx"), M(<<"os">>, "os"), M(<<"os", "path">>, "os.path"),
          M(<<"json">>, "json"), M(<<"json", "decoder">>, "json.decoder"), M(<<"socket">>, "socket"),
          M(<<"homeassistant">>, "homeassistant"), M(<<"homeassistant", "const">>, "homeassistant.const"),
          M(<<"homeassistant", "core">>, "homeassistant.core"),
          M(<<"pk">>, "pk"), M(<<"pk", "sub">>, "pk.sub"), M(<<"app1">>, "app1"),
          M(<<"stubs">>, "stubs"), M(<<"stubs", "gen">>, "stubs.gen") }
\* installed in the interpreter (plain CPython can import it)
Installed == {"math", "os", "os.path", "json", "json.decoder", "socket", "homeassistant", "homeassistant.const", "homeassistant.core"}
P(n, cn, sc) == [name |-> n, ctxname |-> cn, scope |-> sc, pub |-> <<"b", "p1", "p2">>, star |-> <<"p1", "p2">>]
E0 == [allow |-> {"math", "json", "homeassistant.const"},
       pys   |-> { P("json", "modules.json", "any"),      \* shadows an allow-listed module
                   P("socket", "modules.socket", "any"),  \* shadows a refused module
                   P("pk", "modules.pk", "any"),
                   P("pk.sub", "modules.pk.sub", "any"),
                   P("pk.math", "modules.pk.math", "any"),          \* a member named like an allow-listed module
                   P("pk.deep", "modules.pk.deep", "any"),
                   P("pk.deep.er", "modules.pk.deep.er", "any"),
                   P("app1", "apps.app1", "app"),
                   P("app1.sib", "apps.app1.sib", "app") }]
IsPysName(m) == \E p \in E0.pys : p.name = m
Truth(m) == [imp |-> IF m.mod \in Installed \/ IsPysName(m.mod) THEN "ok" ELSE "ModuleNotFoundError",
             has |-> TRUE, star |-> <<"p1", "p2">>, pub |-> <<"p1", "p2">>]

ImportClauses == { [mod |-> m.mod, parts |-> m.parts, as |-> a, name |-> "-"] : m \in Mods, a \in {"-", "x"} }
FromClauses(m) == { [mod |-> m.mod, parts |-> m.parts, as |-> "-", name |-> "b"], [mod |-> m.mod, parts |-> m.parts, as |-> "c", name |-> "b"],
                    [mod |-> m.mod, parts |-> m.parts, as |-> "-", name |-> "*"] }
Second == { [mod |-> "math", parts |-> <<"math">>, as |-> "y", name |-> "-"], [mod |-> "os", parts |-> <<"os">>, as |-> "y", name |-> "-"] }
TruthOfClause(c) == Truth([mod |-> c.mod, parts |-> c.parts])
Stmts ==
  { [form |-> "import", clauses |-> <<c>>, truth |-> <<TruthOfClause(c)>>] : c \in ImportClauses } \cup
  { [form |-> "import", clauses |-> <<c, d>>, truth |-> <<TruthOfClause(c), TruthOfClause(d)>>] : c \in { x \in ImportClauses : x.as = "-" }, d \in Second } \cup
  { [form |-> "from", clauses |-> <<c>>, truth |-> <<TruthOfClause(c)>>] : c \in UNION { FromClauses(m) : m \in Mods } }
\* relative statements: names that are members of some package of the scenario (sub, sib, math, deep.er), names of
\* installed modules that are not (os: refused; math: allow-listed; json: allow-listed and shadowed by a pyscript module)
RelMods == { M(<<"math">>, "math"), M(<<"os">>, "os"), M(<<"json">>, "json"),
             M(<<"sub">>, "sub"), M(<<"sib">>, "sib"), M(<<"deep", "er">>, "deep.er") }
PkgClause(m, a) == [mod |-> m, parts |-> <<m>>, as |-> a, name |-> "-"]
PkgNames == {"math", "os", "json", "sub", "sib", "deep"}
RelStmts ==
  { [form |-> "from", clauses |-> <<c>>, truth |-> <<TruthOfClause(c)>>] : c \in UNION { FromClauses(m) : m \in RelMods } } \cup
  { [form |-> "frompkg", clauses |-> <<c>>, truth |-> <<TruthOfClause(c)>>] : c \in { PkgClause(m, a) : m \in PkgNames, a \in {"-", "x"} } } \cup
  { [form |-> "frompkg", clauses |-> <<c, d>>, truth |-> <<TruthOfClause(c), TruthOfClause(d)>>] :
        c \in { PkgClause(m, "-") : m \in {"sub", "sib", "os"} }, d \in { PkgClause(m, "y") : m \in {"os", "sub"} } }
Pkgs == { <<>>, <<"apps", "app1">>, <<"modules", "pk">>, <<"modules", "pk", "deep">> }
Levels == 1..3
RelStmtsNs == { s \in RelStmts : Len(s.clauses) = 1 /\ s.clauses[1].mod \in {"os", "sub"} }
Vias == {"direct", "func", "exec", "evalexec", "eval", "funcexec"}
\* explicit namespaces multiply the statement space by 20: there one module of every kind (allowed, refused, dotted,
\* shadowing an allowed / a refused module, submodule of a pyscript package, app package, stubs) and a fixed second clause
ModsNs == {"math", "os", "os.path", "json", "socket", "pk.sub", "app1", "stubs"}
StmtsNs == { s \in Stmts : s.clauses[1].mod \in ModsNs /\ (Len(s.clauses) = 1 \/ s.clauses[2].mod = "os") }

VARIABLES cs, k, phase, sc, ex, loaded, symt, globt
vars == <<cs, k, phase, sc, ex, loaded, symt, globt>>
\* "lost" = a private copy of the local mapping that nobody sees afterwards (exec with default locals)
Nothing == [q \in Places \cup {"lost"} |-> {}]
AllBound == UNION { sc[q] : q \in Places }

Configs(SS, V, NN) == { [form |-> s.form, clauses |-> s.clauses, truth |-> s.truth, via |-> v, ns |-> n, ctx |-> x, allow_all |-> a,
                          level |-> 0, pkg |-> IF x = "app" THEN <<"apps", "app1">> ELSE <<>>] :
                         s \in SS, v \in V, n \in NN, x \in {"file", "app"}, a \in BOOLEAN }
RelConfigsAll(SS, V, NN, PP, LL) ==
                       { [form |-> s.form, clauses |-> s.clauses, truth |-> s.truth, via |-> v, ns |-> n,
                          ctx |-> IF Len(p) > 0 /\ p[1] = "apps" THEN "app" ELSE "file", allow_all |-> a, level |-> l, pkg |-> p] :
                         s \in SS, v \in V, n \in NN, p \in PP, l \in LL, a \in BOOLEAN }
\* (a script outside any package: one dot is enough; packages: at most one level above the top)
RelConfigs(SS, V, NN, PP, LL) == { c \in RelConfigsAll(SS, V, NN, PP, LL) : c.level <= IF c.pkg = <<>> THEN 1 ELSE Len(c.pkg) }
\* (with namespace arguments: app packages from the app context, everything else from a script file)
NsCtxOK(c) == c.ctx = IF c.clauses[1].mod = "app1" THEN "app" ELSE "file"
Init == /\ cs \in Configs(Stmts, Vias \ {"funcexec"}, {NsNone})
                   \cup { c \in Configs(StmtsNs, {"exec", "evalexec", "funcexec"}, NsExplicit) : NsCtxOK(c) }
                   \cup { c \in Configs(StmtsNs, {"eval"}, {[g |-> "empty", l |-> "-"], [g |-> "globals", l |-> "locals"], [g |-> "data", l |-> "data"]}) : NsCtxOK(c) }
                   \cup RelConfigs(RelStmts, {"direct", "func", "exec"}, {NsNone}, Pkgs, Levels)     \* (at most one level above the top)
                   \cup RelConfigs(RelStmts, {"evalexec", "eval"}, {NsNone}, {<<"modules", "pk">>}, {1})
                   \cup RelConfigs(RelStmtsNs, {"exec", "funcexec"}, NsExplicit, {<<"modules", "pk">>, <<"apps", "app1">>}, {1})
        /\ k = 1 /\ phase = "parse" /\ sc = Nothing /\ ex = "none" /\ loaded = {}
        /\ symt = "script" /\ globt = "script"

Cl == cs.clauses[k]
\* the rule as the mechanism applies it (mutants weaken it)
IsPrefix(a, m) == Len(a) <= Len(m) /\ SubSeq(m, 1, Len(a)) = a
OnList(c) == IF Mutant = "prefix" THEN \E a \in E0.allow : IsPrefix(a, c.mod) ELSE c.mod \in E0.allow
Passes(c) == cs.allow_all \/ OnList(c) \/ (Mutant = "skip-dotted" /\ cs.form = "import" /\ Len(c.parts) > 1)
\* the names the mechanism binds for a clause (`import a.b` binds the dotted name)
Tr(j) == TruthOf(cs, j, E0)
Names(c) == IF cs.form \in {"import", "frompkg"} THEN {IF c.as # "-" THEN c.as ELSE c.mod}
            ELSE IF c.name = "*" THEN ToSet(Tr(k).star) ELSE {IF c.as # "-" THEN c.as ELSE c.name}
ExcName(e) == IF e = "refused" THEN Refusal ELSE e
\* the mapping the mechanism binds into: the evaluator's local one (mutant: the global one)
BindT == IF Mutant = "bind-globals" THEN globt ELSE symt

\* the evaluator of the text: its global mapping is the one passed (else the caller's), its local mapping the
\* locals passed, else the globals passed, else the caller's (eval_func in eval.py); `globals()` is the script's
\* table, `locals()` at module level too, inside a function a snapshot (another object)
SetupG == IF cs.ns.g = "-" THEN "script" ELSE IF cs.ns.g = "globals" THEN "script" ELSE "g"
SetupL == IF cs.ns.g = "-" THEN "script"
          ELSE IF cs.ns.l = "-" THEN SetupG
          ELSE IF cs.ns.l = "same" THEN SetupG
          ELSE IF cs.ns.l = "locals" THEN (IF cs.via = "funcexec" THEN "l" ELSE "script")
          ELSE "l"
\* eval(exec(stmt)): the exec inside the text has no arguments - it inherits the eval's mappings; where the local one
\* is not the global one it works on a copy (default locals)
Parse == /\ phase = "parse"
         /\ IF cs.via = "eval" THEN phase' = "done" /\ ex' = "SyntaxError" ELSE phase' = "resolve" /\ ex' = ex
         /\ globt' = SetupG /\ symt' = IF cs.via = "evalexec" /\ SetupL # SetupG THEN "lost" ELSE SetupL
         /\ UNCHANGED <<cs, k, sc, loaded>>
Resolve == /\ phase = "resolve"
           /\ IF cs.form = "from" /\ IsStub(Cl) THEN phase' = "done" /\ ex' = "ok"
              ELSE IF IsRel(cs)
                THEN IF NoParent(cs) \/ AboveParent(cs) THEN phase' = "done" /\ ex' = "ImportError"
                     ELSE IF RelPys(cs, Cl, E0) # {} THEN phase' = "load" /\ ex' = ex            \* the member below the package
                     ELSE IF Mutant = "rel-fallback" /\ cs.form = "from" THEN phase' = "check" /\ ex' = ex
                     ELSE IF Mutant = "rel-exempt" /\ cs.form = "from" THEN phase' = "load" /\ ex' = ex
                     ELSE phase' = "done" /\ ex' = "refused"                                    \* no member: never an absolute module
              ELSE IF IsPyscriptModule(Cl, cs.ctx, E0) THEN phase' = "load" /\ ex' = ex
              ELSE phase' = "check" /\ ex' = ex
           /\ sc' = IF Mutant = "bind-first" /\ ~(cs.form = "from" /\ IsStub(Cl)) THEN [sc EXCEPT ![BindT] = @ \cup Names(Cl)] ELSE sc
           /\ UNCHANGED <<cs, k, loaded, symt, globt>>
Check == /\ phase = "check"
         /\ IF Passes(Cl) THEN phase' = "load" /\ ex' = ex ELSE phase' = "done" /\ ex' = "refused"
         /\ UNCHANGED <<cs, k, sc, loaded, symt, globt>>
Load == /\ phase = "load"
        /\ IF Tr(k).imp = "ok" THEN phase' = "bind" /\ ex' = ex /\ loaded' = loaded \cup {Cl.mod}
           ELSE phase' = "done" /\ ex' = Tr(k).imp /\ loaded' = loaded
        /\ UNCHANGED <<cs, k, sc, symt, globt>>
Bind == /\ phase = "bind"
        /\ sc' = [sc EXCEPT ![BindT] = @ \cup Names(Cl)]
        /\ IF k < Len(cs.clauses) THEN k' = k + 1 /\ phase' = "resolve" /\ ex' = ex
           ELSE k' = k /\ phase' = "done" /\ ex' = "ok"
        /\ UNCHANGED <<cs, loaded, symt, globt>>
Next == Parse \/ Resolve \/ Check \/ Load \/ Bind
Spec == Init /\ [][Next]_vars

RelImpossible == IsRel(cs) /\ (NoParent(cs) \/ AboveParent(cs))
RefusedClause(j) == IF IsRel(cs) THEN ~RelImpossible /\ RelPys(cs, cs.clauses[j], E0) = {} /\ ~(cs.form = "from" /\ IsStub(cs.clauses[j]))
                    ELSE ~Allowed(cs.clauses[j], cs.ctx, cs.allow_all, E0) /\ ~(cs.form = "from" /\ IsStub(cs.clauses[j]))
AllNames(j) == UNION NamesOf(cs.form, cs.clauses[j], Tr(j), {})
RefusedBindsNothing == \A j \in 1..Len(cs.clauses) : (RefusedClause(j) \/ RelImpossible) /\ ~(\E i \in 1..Len(cs.clauses) : i # j /\ AllNames(i) \cap AllNames(j) # {})
                                                        => AllBound \cap AllNames(j) = {}
AllowedIffRule == phase = "done" =>
   /\ Out(ExcName(ex), AllBound) \in Outcomes(cs, E0, {})
   /\ cs.via # "eval" => (ex = "refused" <=> RefusedClause(k))
\* in every state, whatever is bound is bound in the mapping the call designates and nowhere else
BoundWhereDesignated == \A q \in Places : q # Place(cs.via, cs.ns) => sc[q] = {}
StubsIgnored == phase = "done" /\ cs.via # "eval" /\ cs.form = "from" /\ IsStub(cs.clauses[1]) => ex = "ok" /\ AllBound = {} /\ loaded = {}
\* a relative clause never loads anything but a member of the package
RelativeStaysInPackage == IsRel(cs) => \A m \in loaded : \E j \in 1..Len(cs.clauses) : cs.clauses[j].mod = m /\ RelPys(cs, cs.clauses[j], E0) # {}
ShadowResolvesToPyscript == phase = "bind" /\ (IF IsRel(cs) THEN TRUE ELSE IsPyscriptModule(Cl, cs.ctx, E0)) => ClassOf(cs, E0, Cl, {}) \in {"pysmod:" \o p.ctxname : p \in E0.pys} \cup {"attr:pysmod:" \o p.ctxname : p \in E0.pys}

\* expected outcome table: one line per final state; the w_* fields are the witnesses that the
\* antecedents of the invariants are not vacuous (the driver requires each to occur)
Table == phase = "done" =>
   PrintT("INFO " \o ToJson([form |-> cs.form, mods |-> [j \in 1..Len(cs.clauses) |-> cs.clauses[j].mod], as |-> cs.clauses[1].as,
                             name |-> cs.clauses[1].name, via |-> cs.via, ns |-> cs.ns, ctx |-> cs.ctx, allow_all |-> cs.allow_all,
                             level |-> cs.level, pkg |-> cs.pkg,
                             w_rel_member  |-> IsRel(cs) /\ ex = "ok" /\ AllBound # {},
                             w_rel_refused |-> IsRel(cs) /\ ex = "refused" /\ ~cs.allow_all,
                             w_rel_refused_allow_all |-> IsRel(cs) /\ ex = "refused" /\ cs.allow_all /\ Cl.mod \in Installed,
                             w_rel_refused_listed |-> IsRel(cs) /\ ex = "refused" /\ Cl.mod \in E0.allow,     \* where the pinned tree falls back
                             w_rel_impossible |-> IsRel(cs) /\ ex = "ImportError" /\ cs.via # "eval",
                             w_rel_level2  |-> cs.level = 2 /\ ex = "ok" /\ AllBound # {},
                             w_rel_partial |-> IsRel(cs) /\ ex = "refused" /\ AllBound # {},
                             w_rel_ns      |-> IsRel(cs) /\ cs.ns # NsNone /\ (sc["g"] # {} \/ sc["l"] # {}),
                             exc |-> ExcName(ex), bound |-> AllBound, place |-> Place(cs.via, cs.ns),
                             w_ns_g    |-> sc["g"] # {},
                             w_ns_l    |-> sc["l"] # {},
                             w_ns_script |-> cs.ns # NsNone /\ sc["script"] # {},
                             w_ns_refused |-> cs.ns # NsNone /\ ex = "refused",
                             w_ns_lost |-> sc["lost"] # {},
                             w_refused |-> ex = "refused",
                             w_shadow  |-> ex = "ok" /\ \E j \in 1..Len(cs.clauses) : IsPyscriptModule(cs.clauses[j], cs.ctx, E0) /\ cs.clauses[j].mod \in Installed,
                             w_stub    |-> cs.form = "from" /\ IsStub(cs.clauses[1]) /\ cs.via # "eval",
                             w_partial |-> ex = "refused" /\ AllBound # {}]))

\* witnesses (must be violated): the antecedents above are not vacuous
W_NeverRefused   == ~(phase = "done" /\ ex = "refused")
W_NeverShadow    == ~(phase = "bind" /\ IsPyscriptModule(Cl, cs.ctx, E0) /\ Cl.mod \in Installed)
W_NeverStub      == ~(phase = "done" /\ cs.form = "from" /\ IsStub(cs.clauses[1]) /\ cs.via # "eval")
W_NeverPartial   == ~(phase = "done" /\ ex = "refused" /\ AllBound # {})
=============================================================================
