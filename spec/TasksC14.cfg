\* C14, statement (flags = {}): two tasks, unique names + done-callback + cancellation (task.cancel and one
\* hass-side cancellation) at every suspension point, including inside the suspended done-callback.
SPECIFICATION Spec
CONSTANTS
  Task = {t1, t2}
  Foreign = {}
  Name = {n1}
  Ctx = {c1}
  Roam = FALSE
  Fn = {g1}
  MethFn = {}
  MaxArg = 1
  MaxOps = 2
  MaxEnv = 1
  Ops = {"unique", "sleep", "cancel", "addcb"}
  Kinds = {"trig"}
  Decos = {}
  Flags = {}
  None = None
INVARIANT TypeOK
INVARIANT MapsConsistent
INVARIANT OwnerIsLastLiveClaimant
INVARIANT ReleasedWhenOwnerEnds
INVARIANT CallbacksExactlyOncePerFunction
INVARIANT DoneInNoRegistryAtQuiescence
INVARIANT DoneInNoRegistry
INVARIANT ApiCallsAccepted
INVARIANT NoRunBlocksAnother
INVARIANT WaitReflectsOutcome
INVARIANT Witness
POSTCONDITION WitnessReport
SYMMETRY Sym
CHECK_DEADLOCK FALSE
