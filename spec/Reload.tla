------------------------------- MODULE Reload -------------------------------
(* C10 state machine: file tree + app configuration + loaded contexts under edits and reloads. *)
(* (M) TLC checks  mechanism |= post-condition  over all trees / import graphs / edit          *)
(*     sequences up to the bound: PostHolds (every reload step satisfies the statement's       *)
(*     clauses, incl. UntouchedContextsKeepState) for the intended mechanism (Flags = {}),     *)
(*     and for the pinned tree (Flags = CodeFlags) inside the masked space.                    *)
(* (R) tlc -simulate produces behaviours (lastAct carries every parameter) that the driver     *)
(*     replays on a real directory against the real integration.                               *)
EXTENDS ReloadCore, Json, IOUtils

CONSTANTS MaxSteps,      \* bound on the number of actions
          Flags,         \* named deviations present in the mechanism ({} = intended, CodeFlags = pinned tree)
          Univ,          \* paths that may exist
          Graph,         \* "dense": every file carries all its possible imports; "any": every subset
          Trees,         \* "all": every subset of Univ initially present; "full": all of Univ present;
                         \* "json": the trees listed in the file $TREES (random sample drawn by the driver; used
                         \* for tlc -simulate, which needs a small set of initial states)
          Cfgs,          \* codes of the app-configuration values in play (subset of CfgDomain: 0 = no entry, 1 = "p:" None,
                         \* 2 = {}, 3 = [], 4 / 5 = mappings, 6 = list), see ReloadCore
          Wrs,           \* write kinds in play for the app's main file (subset of WrDomain: what its code does with the object it
                         \* finds as pyscript.app_config: 0 reads only, 1-3 add / overwrite / remove at load, 4-6 the same from its trigger,
                         \* 7 / 8 add to a nested value at load / from its trigger)
          Mask,          \* generator masks, one per known finding: "keep-lazy", "no-orphaning", "no-named", "no-bare-unconfigure", "no-nested-write"
          NamedArgs,     \* context names used by reload(global_ctx = name)
          Ignore,        \* post-condition clauses not checked by PostHolds (known findings of the intended mechanism)
          ReloadWeight   \* simulation only: number of copies of each Reload successor (tlc -simulate picks uniformly)

VARIABLES files, hdirs, cfg, steps, lastAct,
          live      \* [ctx: loaded contexts, n: source files executed so far, post: verdict of the post-condition on the
                    \*  last reload step (first failing clause or "ok"), prev: [ctx, n] before the last reload]
                    \* (one variable so that TLC evaluates the mechanism once per step)
vars == <<files, hdirs, cfg, steps, lastAct, live>>
ctx      == live.ctx
nloads   == live.n
lastPost == live.post
prev     == live.prev

ImpChoices(p) == IF Graph = "dense" THEN {MaxImps(p)} ELSE SUBSET MaxImps(p)
WrChoices(p)  == IF MainFile(p) THEN Wrs ELSE {0}
InitChoices(p) == IF p \notin Univ THEN {Absent}
                  ELSE (IF Trees = "all" THEN {Absent} ELSE {}) \cup
                       { [ex |-> TRUE, hash |-> FALSE, gen |-> 1, mtime |-> 1, imps |-> s, wr |-> w] : s \in ImpChoices(p), w \in WrChoices(p) }
RECURSIVE Trees0(_)
Trees0(ps) == IF ps = {} THEN { <<>> }
              ELSE LET p == CHOOSE q \in ps : TRUE
                   IN { (p :> r) @@ f : r \in InitChoices(p), f \in Trees0(ps \ {p}) }

\* $TREES: [ [cfg |-> code in CfgDomain, files |-> << [p |-> path, imps |-> << targets >>, wr |-> write kind] >>] ]
JsonTrees == IF Trees = "json" THEN JsonDeserialize(IOEnv.TREES) ELSE <<>>
TreeFiles(t) == [p \in PathSet |->
                  IF \E k \in 1..Len(t.files) : t.files[k].p = p
                  THEN LET e == t.files[CHOOSE k \in 1..Len(t.files) : t.files[k].p = p]
                       IN [ex |-> TRUE, hash |-> FALSE, gen |-> 1, mtime |-> 1, imps |-> { e.imps[j] : j \in 1..Len(e.imps) }, wr |-> e.wr]
                  ELSE Absent]
InitTree == IF Trees = "json" THEN \E k \in 1..Len(JsonTrees) : files = TreeFiles(JsonTrees[k]) /\ cfg = JsonTrees[k].cfg
            ELSE files \in Trees0(PathSet) /\ cfg \in Cfgs

Init == /\ InitTree /\ hdirs = {}
        /\ live = LET r == Mechanism(files, {}, cfg, NoCtx, 0, "", Flags)
                  IN [ctx |-> r.ctx, n |-> r.n, post |-> "ok", prev |-> [ctx |-> NoCtx, n |-> 0]]
        /\ steps = 0
        /\ lastAct = [a |-> "init", cfg |-> cfg, tree |-> { [p |-> p, imps |-> files[p].imps, wr |-> files[p].wr] : p \in { q \in PathSet : files[q].ex } }]

\* masks: the edit must not take the file tree to a place where a known finding applies
LazyLoaded == LoadedIn(ctx) \ AutoCtx
MaskOk(F2, H2, G2) ==
  /\ "keep-lazy" \in Mask => \A c \in LazyLoaded : Discover(F2, H2, G2)[c].path # "" \/ (c = "apps.p.h" /\ G2 = 0)
  \* the app's main file (package form) stays loaded when the entry "p:" (None) is taken away
  /\ "no-bare-unconfigure" \in Mask => ~(G2 = 0 /\ ctx["apps.p"] # Unl /\ ctx["apps.p"].cfg = 0
                                          /\ ctx["apps.p"].path = "apps/p/__init__.py" /\ Vis(F2, H2, "apps/p/__init__.py"))
  \* an app's main file whose code writes into a nested value of its settings never meets settings that have one
  /\ "no-nested-write" \in Mask => ~(G2 = 6 /\ \E p \in PathSet : MainFile(p) /\ F2[p].ex /\ WrOp(F2[p].wr) = 4)
  /\ "no-orphaning" \in Mask => \A c \in LazyLoaded : ctx[c].path \in MayLoaded(World(F2, H2, G2)) \/ Discover(F2, H2, G2)[c].path = ""

\* an edit as the last action of a bounded behaviour cannot be observed by any reload: not generated
Edit(act) == /\ steps + 1 < MaxSteps /\ steps' = steps + 1 /\ lastAct' = act
             /\ files' = ApplyFiles(files, act) /\ hdirs' = ApplyDirs(hdirs, act) /\ cfg' = ApplyCfg(cfg, act)
             /\ MaskOk(files', hdirs', cfg')
             /\ UNCHANGED live
Fresh == steps + 2
Modify(p) == /\ files[p].ex
             /\ \E s \in ImpChoices(p), keep \in BOOLEAN, w \in WrChoices(p) :
                  Edit([a |-> "modify", p |-> p, gen |-> Fresh, mtime |-> IF keep THEN files[p].mtime ELSE Fresh, imps |-> s, wr |-> w])
Touch(p)  == files[p].ex /\ Edit([a |-> "touch", p |-> p, mtime |-> Fresh])
Create(p) == ~files[p].ex /\ p \in Univ /\ \E s \in ImpChoices(p), w \in WrChoices(p) : Edit([a |-> "create", p |-> p, gen |-> Fresh, mtime |-> Fresh, imps |-> s, wr |-> w])
Delete(p) == files[p].ex /\ Edit([a |-> "delete", p |-> p])
HashRename(p) == files[p].ex /\ Edit([a |-> "hash", p |-> p])
HashDir(d) == (\E p \in Univ : DirOf(p) = d) /\ Edit([a |-> "hashdir", d |-> d])
CfgSet(v) == cfg # v /\ Edit([a |-> "cfg", v |-> v])                      \* CfgAdd / CfgRemove / change of the app's yaml
Reload(arg) == /\ steps < MaxSteps /\ steps' = steps + 1 /\ lastAct' = [a |-> "reload", arg |-> arg]
               /\ ("no-named" \in Mask => arg \in {"", "*"})
               /\ live' = LET r == Mechanism(files, hdirs, cfg, ctx, nloads, arg, Flags)
                          IN [ctx |-> r.ctx, n |-> r.n, post |-> PostClause(ctx, nloads, files, hdirs, cfg, arg, r.ctx, TRUE),
                              prev |-> [ctx |-> ctx, n |-> nloads]]
               /\ UNCHANGED <<files, hdirs, cfg>>
Next == \/ \E p \in PathSet : Modify(p) \/ Touch(p) \/ Create(p) \/ Delete(p) \/ HashRename(p)
        \/ \E d \in Dirs : HashDir(d)
        \/ \E v \in Cfgs : CfgSet(v)
        \/ \E arg \in {"", "*"} \cup NamedArgs, k \in 1..ReloadWeight : Reload(arg)
Spec == Init /\ [][Next]_vars
View == <<files, hdirs, cfg, ctx, steps, lastAct.a, lastPost>>

\* ---------------- (M) the statement ----------------
\* every reload step satisfies every clause of the post-condition (Ignore = {} for the masked space)
PostHolds == lastPost \in {"ok"} \cup Ignore
\* the initial load as well: what a fresh start loads is what the documentation dictates
InitialLoadOk == steps = 0 => PostClause(NoCtx, 0, files, hdirs, cfg, "", ctx, TRUE) \in {"ok"} \cup Ignore
\* UntouchedContextsKeepState, stated on its own: a context outside the documented discard set keeps its
\* whole record (instance = variables, triggers, tasks; load counter)
\* (= clause "untouched-touched" of PostClause, which Reload evaluates on the step:
\*   \A c \in LoadedIn(pre) \ DiscardSets(pre, ...).may : SameButStart(post[c], pre[c]) )
UntouchedContextsKeepState == lastPost # "untouched-touched"
\* the changed set is discarded: nothing that the documentation says is discarded survives
\* (= clause "changed-not-discarded":  DiscardSets(pre, ...).must \subseteq Discarded(pre, post) )
ChangedAreDiscarded == lastPost # "changed-not-discarded"

\* witnesses (expected to be VIOLATED: the antecedents of the clauses are exercised)
W_NoImporterDiscard == ~(lastAct.a = "reload" /\ lastAct.arg = "" /\ \E c \in Discarded(prev.ctx, ctx) :
                           c \notin ChangedCtx(prev.ctx, World(files, hdirs, cfg)) /\ ~IsPkgMember(c))
W_NoWidening  == ~(lastAct.a = "reload" /\ lastAct.arg = "" /\ \E c \in Discarded(prev.ctx, ctx) :
                           c \notin ChangedCtx(prev.ctx, World(files, hdirs, cfg)) /\ c = "apps.p.h")
W_NoUntouched == ~(lastAct.a = "reload" /\ Discarded(prev.ctx, ctx) # {} /\ LoadedIn(prev.ctx) \ Discarded(prev.ctx, ctx) # {})
W_NoLazyReload == ~(lastAct.a = "reload" /\ \E c \in LazyLoaded : ctx[c].inst > prev.n /\ prev.ctx[c] # Unl)
W_NoFailedLoad == ~(lastAct.a = "reload" /\ \E c \in AutoCtx : DocSource(files, hdirs, cfg, c) # "" /\ ctx[c] = Unl)
W_NoNamed == ~(lastAct.a = "reload" /\ lastAct.arg \notin {"", "*"} /\ Cardinality(Discarded(prev.ctx, ctx)) > 1)

\* the known findings are reachable in the model of the pinned tree (expected to be VIOLATED with Flags = CodeFlags)
F_ChangedNotDiscarded == lastPost # "changed-not-discarded"
F_OrphanLoaded        == lastPost # "orphan-loaded"
F_NotStarted          == lastPost # "not-started"
F_NeededNotCurrent    == lastPost # "needed-not-current"
\* ... the app (package form) whose entry "p:" was taken away is still loaded after a default reload
F_UnconfiguredAppKept == ~(lastAct.a = "reload" /\ lastAct.arg = "" /\ cfg = 0 /\ ctx["apps.p"] # Unl /\ lastPost = "changed-not-discarded")
\* the configuration VALUE kinds are exercised: an entry without settings that is not None ({} or []) is taken away and the
\* app's package (main file and sibling) is discarded by a default reload; one present value is replaced by another one
\* (settings by settings / an empty entry by another empty entry) and the app is re-executed seeing the new value
W_NoEmptyCfgRemoved == ~(lastAct.a = "reload" /\ lastAct.arg = "" /\ cfg = 0 /\ prev.ctx["apps.p"].cfg \in {2, 3}
                         /\ prev.ctx["apps.p"].path = "apps/p/__init__.py" /\ prev.ctx["apps.p.h"] # Unl
                         /\ {"apps.p", "apps.p.h"} \subseteq Discarded(prev.ctx, ctx) /\ ctx["apps.p"] = Unl /\ lastPost = "ok")
W_NoCfgValueChange  == ~(lastAct.a = "reload" /\ lastAct.arg = "" /\ cfg > 0 /\ prev.ctx["apps.p"] # Unl
                         /\ prev.ctx["apps.p"].cfg # ValOf(cfg) /\ ctx["apps.p"].inst > prev.n /\ ctx["apps.p"].cfg = ValOf(cfg)
                         /\ ctx["apps.p"].path = prev.ctx["apps.p"].path /\ ctx["apps.p"].gen = prev.ctx["apps.p"].gen)
W_NoEmptyToEmpty    == ~(~W_NoCfgValueChange /\ ~Truthy(prev.ctx["apps.p"].cfg) /\ ~Truthy(ValOf(cfg)))

\* what the app's code writes into pyscript.app_config is its own business: a loaded app whose variable no longer holds what
\* it was handed (a write at load, or from its trigger) is left untouched by a default reload that discards something else
W_NoWriterUntouched == ~(lastAct.a = "reload" /\ lastAct.arg = "" /\ prev.ctx["apps.p"] # Unl /\ prev.ctx["apps.p"].now # prev.ctx["apps.p"].seen
                         /\ SameButStart(ctx["apps.p"], prev.ctx["apps.p"]) /\ Discarded(prev.ctx, ctx) # {} /\ lastPost = "ok")
W_NoLateWriter      == ~(~W_NoWriterUntouched /\ ctx["apps.p"].wr >= 4)
\* ... and the post-condition is sensitive to it: in the mechanism with the named deviation "cfg-shared" (Flags) the context
\* carries the written value, which the statement rejects on the spot; at the next default reload the app, of which nothing
\* changed, is discarded and re-executed
F_SharedCfgNotCurrent == ~(lastAct.a = "reload" /\ ctx["apps.p"] # Unl /\ ctx["apps.p"].wr # 0 /\ ctx["apps.p"].cfg # ValOf(cfg)
                           /\ lastPost = "executed-not-current")
F_SharedCfgReexecuted == ~(lastAct.a = "reload" /\ lastAct.arg = "" /\ prev.ctx["apps.p"] # Unl /\ ctx["apps.p"].inst > prev.n
                           /\ prev.ctx["apps.p"].path = ctx["apps.p"].path /\ prev.ctx["apps.p"].gen = ctx["apps.p"].gen
                           /\ prev.ctx["apps.p"].mtime = ctx["apps.p"].mtime /\ prev.ctx["apps.p"].seen = ctx["apps.p"].seen
                           /\ ctx["apps.p"].seen = ValOf(cfg) /\ Discarded(prev.ctx, ctx) \subseteq {"apps.p", "apps.p.h"})
\* the finding of the current tree ("cfg-shallow"): an app that wrote into a NESTED value of its settings, of which nothing
\* changed, is discarded and re-executed by a default reload
F_ShallowCfgReexecuted == ~(~F_SharedCfgReexecuted /\ WrOp(prev.ctx["apps.p"].wr) = 4 /\ lastPost = "executed-not-current")
\* all witnesses in one run (workers = 1): registers set by the invariant WitTrack, printed by the post-condition
\* a diamond with a deeper module behind the join: d changed (n itself not), and some discarded context reaches
\* n through two different direct imports (a -> m -> n -> d and a -> n -> d): the transitive-importer clause
\* has to find d behind a module that is met twice in one walk
W_NoDeepDiamond == ~(lastAct.a = "reload" /\ "modules.d" \in ChangedCtx(prev.ctx, World(files, hdirs, cfg))
                     /\ "modules.n" \notin ChangedCtx(prev.ctx, World(files, hdirs, cfg))
                     /\ \E x \in Discarded(prev.ctx, ctx) :
                          Cardinality({ y \in prev.ctx[x].imports : "modules.n" \in TransImports(prev.ctx, y) \cup {y} }) >= 2)
WitNames == << "W_NoImporterDiscard", "W_NoWidening", "W_NoUntouched", "W_NoLazyReload", "W_NoFailedLoad", "W_NoNamed",
               "F_ChangedNotDiscarded", "F_OrphanLoaded", "F_NotStarted", "F_NeededNotCurrent", "W_NoDeepDiamond",
               "F_UnconfiguredAppKept", "W_NoEmptyCfgRemoved", "W_NoCfgValueChange", "W_NoEmptyToEmpty",
               "W_NoWriterUntouched", "W_NoLateWriter", "F_SharedCfgNotCurrent", "F_SharedCfgReexecuted", "F_ShallowCfgReexecuted" >>
WitVal(k) == CASE k = 1 -> ~W_NoImporterDiscard [] k = 2 -> ~W_NoWidening [] k = 3 -> ~W_NoUntouched [] k = 4 -> ~W_NoLazyReload
               [] k = 5 -> ~W_NoFailedLoad [] k = 6 -> ~W_NoNamed [] k = 7 -> ~F_ChangedNotDiscarded [] k = 8 -> ~F_OrphanLoaded
               [] k = 9 -> ~F_NotStarted [] k = 10 -> ~F_NeededNotCurrent [] k = 11 -> ~W_NoDeepDiamond
               [] k = 12 -> ~F_UnconfiguredAppKept [] k = 13 -> ~W_NoEmptyCfgRemoved [] k = 14 -> ~W_NoCfgValueChange [] k = 15 -> ~W_NoEmptyToEmpty
               [] k = 16 -> ~W_NoWriterUntouched [] k = 17 -> ~W_NoLateWriter [] k = 18 -> ~F_SharedCfgNotCurrent [] k = 19 -> ~F_SharedCfgReexecuted [] k = 20 -> ~F_ShallowCfgReexecuted
ASSUME \A k \in 1..Len(WitNames) : TLCSet(k, FALSE)
WitTrack  == \A k \in 1..Len(WitNames) : (lastAct.a = "reload" /\ WitVal(k)) => TLCSet(k, TRUE)
WitReport == PrintT("INFO " \o ToJson([seen |-> { WitNames[k] : k \in { j \in 1..Len(WitNames) : TLCGet(j) } }]))

Short(C) == { <<c, C[c].path, C[c].gen, C[c].inst, C[c].started>> : c \in LoadedIn(C) }
Alias == [act |-> lastAct, cfg |-> cfg, hdirs |-> hdirs, post |-> lastPost,
          present |-> { <<p, files[p].gen, files[p].mtime, files[p].hash, files[p].imps, files[p].wr>> : p \in { q \in PathSet : files[q].ex } },
          before |-> Short(prev.ctx), loaded |-> Short(ctx)]
=============================================================================
