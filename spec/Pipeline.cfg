SPECIFICATION Spec
CONSTANTS MaxT = 9
 MaxCh = 4
INVARIANT RunsMatchStatement
INVARIANT RunsInTimeOrder
CHECK_DEADLOCK FALSE
