------------------------------ MODULE FaultTrace ------------------------------
(* Acceptor for recordings of the real integration (C18).  A case:                             *)
(*  [id, entry, sub, units (FaultCore program), entry_unit,                                     *)
(*   cpy  : report parts of CPython's own traceback for the same source (<<>> when the case has  *)
(*          no CPython run),                                                                    *)
(*   obs  : << [cls, start, parts] >>  tracebacks pyscript logged in the faulty step; cls =      *)
(*          class of the logger ("own": the script's logger or one below it, "module": the own   *)
(*          logger of a module whose load failed, "integration": another logger of the          *)
(*          integration), start = the unit whose activation that report must start with,         *)
(*   steps : << [v, returned, done, own, module, integration, foreign] >>  protocol steps: v = 0  *)
(*          faulty occurrence, v = 1 benign; returned = the Home Assistant side call returned    *)
(*          normally; done = completed runs of the entry's function; own / module / integration  *)
(*          = number of records carrying an exception report per logger class; foreign = error   *)
(*          records outside the integration + unhandled-exception callbacks of the event loop,   *)
(*   by_same, by_other : runs of the bystander functions (event trigger, service, state trigger)  *)
(*          the same file defines above the entry / of functions in two other files afterwards;  *)
(*          left = number of registrations of those (service, bus listener, state subscription)  *)
(*          still present - after a load-time fault there must be none and none may run,         *)
(*   main_loaded : the script's global context exists afterwards, nmodfail : number of modules   *)
(*          whose load is part of the faulty chain ]                                            *)
(* A parts element = [rel, exc, frames : << [file, name, line] >>]; pyscript's frame of a        *)
(* trigger expression itself has no counterpart in Python and is dropped by the recorder.       *)
EXTENDS FaultCore, TLC, Json, IOUtils
Cases == JsonDeserialize(IOEnv.CASES)

FlagSet == { FrameFlags[i] : i \in 1..Len(FrameFlags) }
ObsOK(cs, flags) == \A j \in 1..Len(cs.obs) : ReportEq(Expected(cs.units, cs.obs[j].start, flags), cs.obs[j].parts)
CpyOK(cs) == Len(cs.cpy) = 0 \/ ReportEq(Expected(cs.units, cs.entry_unit, {}), cs.cpy)
Explaining(cs) == { S \in SUBSET FlagSet : ObsOK(cs, S) }
MinExplaining(cs) == CHOOSE S \in Explaining(cs) : \A T \in Explaining(cs) : Cardinality(S) <= Cardinality(T)

\* containment clauses, first failing one ("" = none)
Faulty(cs) == { i \in 1..Len(cs.steps) : cs.steps[i].v = 0 }
Benign(cs) == { i \in 1..Len(cs.steps) : cs.steps[i].v # 0 }
IsLoad(cs) == cs.entry = "load"
ContainWhy(cs, flags) ==
  LET L == CatchLayer(cs.entry, cs.sub, flags) IN
  IF \E i \in Benign(cs) : i < (CHOOSE f \in Faulty(cs) : TRUE) /\ cs.steps[i].done # 1 THEN "benign-run-missing"
  ELSE IF \E i \in Benign(cs) : cs.steps[i].own + cs.steps[i].integration + cs.steps[i].module > 0 THEN "report-without-fault"
  ELSE IF \E i \in Faulty(cs) : LogsOnOwnLogger(L) /\ cs.steps[i].own = 0 THEN "not-logged-on-own-logger"
  ELSE IF \E i \in Faulty(cs) : cs.steps[i].own > 1 THEN "logged-more-than-once"
  ELSE IF \E i \in Faulty(cs) : LogsOnOwnLogger(L) /\ cs.steps[i].integration > 0 THEN "logged-on-integration-logger"
  ELSE IF \E i \in Faulty(cs) : ~LogsOnOwnLogger(L) /\ ~(cs.steps[i].own = 0 /\ cs.steps[i].integration = 1) THEN "deviation-not-as-described"
  ELSE IF \E i \in Faulty(cs) : cs.steps[i].module > cs.nmodfail THEN "module-load-error-logged-more-than-once"
  ELSE IF \E i \in 1..Len(cs.steps) : cs.steps[i].returned # TRUE \/ cs.steps[i].foreign > 0 THEN "propagated-into-home-assistant"
  ELSE IF \E i \in Benign(cs) : cs.steps[i].done # 1 THEN "trigger-stopped-serving"
  ELSE IF cs.by_other # 1 THEN (IF IsLoad(cs) THEN "load-error-disturbed-other-files" ELSE "others-disturbed")
  ELSE IF ~IsLoad(cs) /\ cs.by_same # 1 THEN "others-disturbed"
  ELSE IF IsLoad(cs) /\ (cs.main_loaded \/ cs.by_same # 0 \/ cs.left # 0) THEN "faulty-file-not-unloaded"
  ELSE IF ~IsLoad(cs) /\ ~cs.main_loaded THEN "runtime-fault-unloaded-the-file"
  ELSE ""

VARIABLE i
Init == i = 1
Next == i <= Len(Cases) /\ i' = i + 1
Spec == Init /\ [][Next]_i
Report_(cs) ==
  LET c0 == ContainWhy(cs, {})
      cw == IF c0 = "" THEN <<>>
            ELSE IF ContainWhy(cs, {ContainFlags[1]}) = "" THEN <<ContainFlags[1]>> ELSE <<c0>>
      fw == IF ~CpyOK(cs) THEN <<"cpython-disagrees-with-the-specification">>
            ELSE IF ObsOK(cs, {}) THEN <<>>
            ELSE IF Explaining(cs) = {} THEN <<"frames-differ">>
            ELSE LET S == MinExplaining(cs) IN SelectSeq(FrameFlags, LAMBDA f : f \in S)
  IN IF cw = <<>> /\ fw = <<>> THEN TRUE
     ELSE PrintT("REJECT " \o ToJson([id |-> cs.id, contain |-> cw, frames |-> fw,
                                      exp |-> [j \in 1..Len(cs.obs) |-> Expected(cs.units, cs.obs[j].start, {})],
                                      expentry |-> Expected(cs.units, cs.entry_unit, {})]))
Report == i <= Len(Cases) => Report_(Cases[i])
=============================================================================
