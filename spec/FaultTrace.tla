------------------------------ MODULE FaultTrace ------------------------------
(* Acceptor for recordings of the real integration (C18).  A case:                             *)
(*  [id, entry, sub, units (FaultCore program), entry_unit,                                     *)
(*   cpy  : report parts of CPython's own traceback for the same source, cpy_raised : CPython    *)
(*          raised at all (FALSE: the program handles the fault itself - FaultCore!Escapes must   *)
(*          say the same),                                                                      *)
(*   obs  : << [cls, start, parts] >>  tracebacks pyscript logged in the faulty step; cls =      *)
(*          class of the logger ("own": the script's logger or one below it, "module": the own   *)
(*          logger of a module whose load failed, "integration": another logger of the          *)
(*          integration), start = the unit whose activation that report must start with,         *)
(*   steps : << [v, returned, done, own, module, integration, foreign] >>  protocol steps: v = 0  *)
(*          faulty occurrence, v = 1 benign; returned = the Home Assistant side call returned    *)
(*          normally; done = completed runs of the entry's function; own / module / integration  *)
(*          = number of records carrying an exception report per logger class; foreign = error   *)
(*          records outside the integration + unhandled-exception callbacks of the event loop,   *)
(*   by_same_min, by_same_max, by_other : runs of the bystander functions (event trigger, service, *)
(*          state trigger; least / most of the three) the same file defines above the entry / of  *)
(*          functions in two other files afterwards;                                             *)
(*          left = number of registrations of those (service, bus listener, state subscription)  *)
(*          still present - after a load-time fault there must be none and none may run,         *)
(*   main_loaded : the script's global context exists afterwards, nmodfail : number of modules   *)
(*          whose load is part of the faulty chain ]                                            *)
(* A parts element = [rel, exc, frames : << [file, name, line] >>]; pyscript's frame of a        *)
(* trigger expression itself has no counterpart in Python and is dropped by the recorder.       *)
EXTENDS FaultCore, TLC, Json, IOUtils
Cases == JsonDeserialize(IOEnv.CASES)

FlagSet == { FrameFlags[i] : i \in 1..Len(FrameFlags) }
ObsOK(cs, flags) == \A j \in 1..Len(cs.obs) : ReportEq(Expected(cs.units, cs.obs[j].start, flags), cs.obs[j].parts)
CpyOK(cs) == IF cs.cpy_raised THEN ReportEq(Expected(cs.units, cs.entry_unit, {}), cs.cpy)
             ELSE ~Escapes(cs.units, cs.entry_unit)
\* the smallest set of known deviations that reproduces the observed report exactly: sets are tried by increasing size
\* (<<FALSE, {}>> = no set of flags explains it)
OfSize(k) == { S \in SUBSET FlagSet : Cardinality(S) = k }
RECURSIVE MinExplainingFrom(_, _)
MinExplainingFrom(cs, k) ==
  IF k > Len(FrameFlags) THEN <<FALSE, {}>>
  ELSE LET W == { S \in OfSize(k) : ObsOK(cs, S) } IN
       IF W # {} THEN <<TRUE, CHOOSE S \in W : TRUE>> ELSE MinExplainingFrom(cs, k + 1)

\* containment clauses, first failing one ("" = none)
Faulty(cs) == { i \in 1..Len(cs.steps) : cs.steps[i].v = 0 }
Benign(cs) == { i \in 1..Len(cs.steps) : cs.steps[i].v # 0 }
IsLoad(cs) == cs.entry = "load"
\* the fault leaves user code (otherwise the script handled its own error: that occurrence is like a benign one)
Esc(cs) == Escapes(cs.units, cs.entry_unit)
Reports(st) == st.own + st.integration + st.module
ContainWhy(cs, flags) ==
  LET L == CatchLayer(cs.entry, cs.sub, flags)
      esc == Esc(cs) IN
  IF \E i \in Benign(cs) : i < (CHOOSE f \in Faulty(cs) : TRUE) /\ cs.steps[i].done # 1 THEN "benign-run-missing"
  ELSE IF \E i \in Benign(cs) : Reports(cs.steps[i]) > 0 THEN "report-without-fault"
  ELSE IF ~esc /\ \E i \in Faulty(cs) : cs.steps[i].own + cs.steps[i].integration > 0 THEN "handled-fault-reported"
  ELSE IF ~esc /\ ~IsLoad(cs) /\ \E i \in Faulty(cs) : cs.steps[i].done # 1 THEN "handled-fault-ended-the-run"
  ELSE IF esc /\ \E i \in Faulty(cs) : LogsOnOwnLogger(L) /\ cs.steps[i].own = 0 THEN "not-logged-on-own-logger"
  ELSE IF \E i \in Faulty(cs) : cs.steps[i].own > 1 THEN "logged-more-than-once"
  ELSE IF esc /\ \E i \in Faulty(cs) : LogsOnOwnLogger(L) /\ cs.steps[i].integration > 0 THEN "logged-on-integration-logger"
  ELSE IF esc /\ \E i \in Faulty(cs) : ~LogsOnOwnLogger(L) /\ ~(cs.steps[i].own = 0 /\ cs.steps[i].integration = 1) THEN "deviation-not-as-described"
  ELSE IF \E i \in Faulty(cs) : cs.steps[i].module > cs.nmodfail THEN "module-load-error-logged-more-than-once"
  ELSE IF \E i \in 1..Len(cs.steps) : cs.steps[i].returned # TRUE \/ cs.steps[i].foreign > 0 THEN "propagated-into-home-assistant"
  ELSE IF \E i \in Benign(cs) : cs.steps[i].done # 1 THEN "trigger-stopped-serving"
  ELSE IF cs.by_other # 1 THEN (IF IsLoad(cs) THEN "load-error-disturbed-other-files" ELSE "others-disturbed")
  ELSE IF ~(IsLoad(cs) /\ esc) /\ cs.by_same_min # 1 THEN "others-disturbed"
  ELSE IF IsLoad(cs) /\ esc /\ (cs.main_loaded \/ cs.by_same_max # 0 \/ cs.left # 0) THEN "faulty-file-not-unloaded"
  ELSE IF ~(IsLoad(cs) /\ esc) /\ ~cs.main_loaded THEN (IF IsLoad(cs) THEN "handled-load-fault-unloaded-the-file" ELSE "runtime-fault-unloaded-the-file")
  ELSE ""

VARIABLE i
Init == i = 1
Next == i <= Len(Cases) /\ i' = i + 1
Spec == Init /\ [][Next]_i
Report_(cs) ==
  LET c0 == ContainWhy(cs, {})
      cw == IF c0 = "" THEN <<>>
            ELSE IF ContainWhy(cs, {ContainFlags[1]}) = "" THEN <<ContainFlags[1]>> ELSE <<c0>>
      fw == IF ~CpyOK(cs) THEN <<"cpython-disagrees-with-the-specification">>
            ELSE IF ObsOK(cs, {}) THEN <<>>
            ELSE LET m == MinExplainingFrom(cs, 1) IN
                 IF ~m[1] THEN <<"frames-differ">> ELSE SelectSeq(FrameFlags, LAMBDA f : f \in m[2])
  IN IF cw = <<>> /\ fw = <<>> THEN TRUE
     ELSE PrintT("REJECT " \o ToJson([id |-> cs.id, contain |-> cw, frames |-> fw,
                                      exp |-> [j \in 1..Len(cs.obs) |-> Expected(cs.units, cs.obs[j].start, {})],
                                      expentry |-> Expected(cs.units, cs.entry_unit, {})]))
Report == i <= Len(Cases) => Report_(Cases[i])
=============================================================================
