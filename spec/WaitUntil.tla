------------------------------ MODULE WaitUntil ------------------------------
(* C15 model: task.wait_until as a one-shot instance with explicit resources.               *)
(* Actions: Call (subscribe + initial check), EnvSet / EnvFire (occurrences before, during    *)
(* and after the call), TimerDue (time trigger or timeout expires), CondError is part of      *)
(* EnvSet / EnvFire (a condition raises), Cancel (the waiting task is cancelled), Tick.       *)
(* Every exit passes through Release.  The incremental mechanism is checked against the       *)
(* declarative reading (WaitCore!Outcome folded over the whole history).                      *)
EXTENDS WaitCore, FiniteSets, TLC

CONSTANTS MaxT
VARIABLES c, a0, a, now, phase, subs, out, hist
vars == <<c, a0, a, now, phase, subs, out, hist>>

Configs == [t0 : {2}, st : {"none", "eq1", "int"}, check : BOOLEAN, ev : {"none", "plain", "v1", "err"},
            tm : {NoneT, 3}, tmPast : {FALSE}, to : {NoneT, 0, 5}, S : {NoneT}, flags : {{}}, horizon : {MaxT}]
Resources(cc) == (IF cc.st # "none" THEN {"state-sub"} ELSE {}) \cup (IF cc.ev # "none" THEN {"event-listener"} ELSE {})
                 \cup (IF cc.tm # NoneT THEN {"time-timer"} ELSE {}) \cup (IF cc.to # NoneT THEN {"timeout-timer"} ELSE {})

Init == /\ c \in Configs /\ a0 \in {"0", "1", "x"} /\ a = a0 /\ now = 0
        /\ phase = "notcalled" /\ subs = {} /\ out = Out("go", 0, "-") /\ hist = <<>>

Exit(o) == /\ out' = o /\ phase' = "exited" /\ subs' = IF MayLeak(c, o) THEN subs ELSE {}       \* Release

Call == /\ phase = "notcalled" /\ now = c.t0
        /\ LET i0 == Initial(c, a) IN
           IF i0.k = "go" \/ (i0.k = "return" /\ i0.t > c.t0)
           THEN /\ phase' = "waiting" /\ subs' = Resources(c) /\ out' = i0
           ELSE Exit(i0)
        /\ UNCHANGED <<c, a0, a, now, hist>>

NoTimerDue == ~(phase = "waiting" /\ ((c.tm # NoneT /\ c.t0 + c.tm <= now) \/ (c.to # NoneT /\ c.t0 + c.to <= now)))
Free == now % 2 = 0 /\ (IF Len(hist) = 0 THEN TRUE ELSE hist[Len(hist)].t < now) /\ NoTimerDue     \* occurrences on the even grid, one per instant

EnvSet(v) ==
  /\ Free /\ now # c.t0 /\ hist' = Append(hist, [t |-> now, k |-> "set", v |-> v]) /\ a' = v
  /\ IF phase = "waiting" /\ out.k = "go" /\ c.st # "none" /\ v # a
     THEN IF c.st = "int" /\ ~IsNum(v) THEN Exit(Out("raise", now, "ValueError"))
          ELSE IF StTruth(c, v) THEN Exit(Ret(now, "state", v))
          ELSE UNCHANGED <<phase, subs, out>>
     ELSE UNCHANGED <<phase, subs, out>>
  /\ UNCHANGED <<c, a0, now>>
EnvFire(v) ==
  /\ Free /\ now # c.t0 /\ hist' = Append(hist, [t |-> now, k |-> "fire", v |-> v])
  /\ IF phase = "waiting" /\ out.k = "go" /\ c.ev # "none"
     THEN IF c.ev = "err" THEN Exit(Out("raise", now, "NameError"))
          ELSE IF c.ev = "plain" \/ v = "1" THEN Exit(Ret(now, "event", v))
          ELSE UNCHANGED <<phase, subs, out>>
     ELSE UNCHANGED <<phase, subs, out>>
  /\ UNCHANGED <<c, a0, a, now>>
Cancel ==
  /\ now % 2 = 1 /\ phase = "waiting" /\ NoTimerDue /\ ~\E i \in 1..Len(hist) : hist[i].k = "cancel"
  /\ hist' = Append(hist, [t |-> now, k |-> "cancel", v |-> "-"])
  /\ Exit(Out("cancelled", now, "-"))
  /\ UNCHANGED <<c, a0, a, now>>
TimerDue ==
  /\ phase = "waiting" /\ ~NoTimerDue
  /\ LET tmAt == IF c.tm = NoneT THEN NoneT ELSE c.t0 + c.tm
         toAt == IF c.to = NoneT THEN NoneT ELSE c.t0 + c.to
     IN IF out.k = "return" THEN Exit(out)                                        \* plain timeout sleep
        ELSE IF tmAt # NoneT /\ tmAt <= now /\ (toAt = NoneT \/ tmAt < toAt) THEN Exit(Ret(tmAt, "time", "-"))
        ELSE Exit(Ret(toAt, "timeout", "-"))
  /\ UNCHANGED <<c, a0, a, now, hist>>
Tick == /\ now < MaxT /\ NoTimerDue /\ (now = c.t0 => phase # "notcalled") /\ now' = now + 1
        /\ UNCHANGED <<c, a0, a, phase, subs, out, hist>>

Next == Call \/ (\E v \in {"0", "1", "x"} : EnvSet(v)) \/ (\E v \in {"0", "1"} : EnvFire(v)) \/ Cancel \/ TimerDue \/ Tick
Spec == Init /\ [][Next]_vars

\* ---------------- the statement ----------------
\* on every exit path everything the call created is released
ReleasedOnEveryExit == phase = "exited" => subs = {}
\* the outcome is the first qualifying condition after the call (declarative fold over the history)
ReturnIsFirstQualifying ==
  phase = "exited" => LET o == Outcome([c EXCEPT !.horizon = now], hist, a0) IN o.k # "waiting" /\ o = out
\* occurrences before the call or after the return have no effect
NoEffectOutsideTheCall == [][(phase \in {"notcalled", "exited"} /\ phase' = phase) => (out' = out /\ subs' = subs)]_vars
W_NeverCancelled == out.k # "cancelled"
W_NeverRaises == out.k # "raise"
W_NeverTimeout == ~(out.k = "return" /\ phase = "exited" /\ out.a.tt = "timeout")
W_NeverEventAfterIgnoredState == ~(phase = "exited" /\ out.k = "return" /\ out.a.tt = "event" /\ \E i \in 1..Len(hist) : hist[i].k = "set" /\ hist[i].t > c.t0)
=============================================================================
