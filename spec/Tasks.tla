------------------------------- MODULE Tasks -------------------------------
(* pyscript task management (C13: task.unique; C14: independent runs whose exit cleans up).     *)
(*                                                                                            *)
(* One named action per linearisation point of function.py / trigger.py.  Operations of a     *)
(* task are chosen NONDETERMINISTICALLY at each step (no stored programs): TLC explores every   *)
(* program of at most MaxOps operations per task; TasksTrace constrains each choice with the   *)
(* logged line of a recording of the real code.                                                *)
(*                                                                                            *)
(* `cur` is the task that holds the event loop.  asyncio runs a task atomically from one       *)
(* suspension point to the next and pyscript's interpreter adds no hidden yield, so every      *)
(* action of another task, of the reaper and of the environment requires cur = None, while     *)
(* each operation of the running task is still its own TLC action.                             *)
(*                                                                                            *)
(* flags = {} is the property statement.  Each named deviation flag switches one action to     *)
(* what the pinned code does instead (DESIGN section 7):                                       *)
(*   "foreign-killme-cancelled"    a task not started by pyscript that calls                   *)
(*                                 task.unique(n, kill_me=True) while another owns n is        *)
(*                                 cancelled (documentation: does nothing)                     *)
(*   "cb-raise-breaks"             a raising done-callback stops the remaining callbacks       *)
(*   "cancel-in-cb-skips-cleanup"  cancellation while a done-callback is suspended skips the   *)
(*                                 whole cleanup                                               *)
(*   "cancel-unstarted-typeerror"  task.cancel(t) before t's first step raises TypeError       *)
(*   "svc-addcb-keyerror"          task.add_done_callback / remove_done_callback on a service- *)
(*                                 started task raise KeyError (run_coro gets no ast_ctx: no   *)
(*                                 task2cb entry)                                              *)
(*   "deco-killme-claims"          @task_unique(n, kill_me=True), legacy subsystem: the check  *)
(*                                 is made when the trigger fires, the claim at the task's     *)
(*                                 first step is made WITHOUT kill_me: of two same-instant      *)
(*                                 occurrences the later one kills the earlier one             *)
(*   "call-couples-cancel"         a blocking pyscript-to-pyscript service call ties caller    *)
(*                                 and callee together (the handler awaits the callee's task   *)
(*                                 inside the caller's task): cancelling the blocked caller    *)
(*                                 cancels the callee instead (the caller follows when the     *)
(*                                 callee is done), and a cancelled callee cancels its caller  *)
(*   "method-cb-per-lookup"        a bound method of a pyscript class instance (MethFn) is a   *)
(*                                 new callback function at every attribute lookup: adding it  *)
(*                                 again adds a second entry (both run, each with its own      *)
(*                                 arguments), remove_done_callback never finds it              *)
EXTENDS Naturals, Sequences, FiniteSets, TLC

CONSTANTS Task,      \* tasks started by pyscript (trigger occurrence, service call, task.create)
          Foreign,   \* tasks not started by pyscript (loader preamble, Jupyter cell)
          Name, Ctx, \* unique names are keyed by (global context, name)
          Roam,      \* BOOLEAN: may a task call task.unique while it executes code of a global context other than
                     \* the one it was started in (a function imported from modules/, another file's function)?
          Fn,        \* done-callback functions
          MethFn,    \* those of them that are bound methods of pyscript class instances (only the deviation
                     \* "method-cb-per-lookup" treats them differently)
          MaxArg,    \* callback argument versions 1..MaxArg ("later add overwrites args")
          MaxOps,    \* operations per task
          MaxEnv,    \* hass-side cancellations (Function.reaper_cancel: shutdown, reload, trigger stop)
          Ops,       \* enabled operation kinds: subset of AllOps
          Kinds,     \* how the environment starts tasks: subset of {"trig", "svc"}
          Decos,     \* @task_unique decorations available to trigger tasks: set of [n, km]
          Flags,     \* deviation flags of this run
          None

AllOps   == {"unique", "sleep", "raise", "create", "cancel", "addcb", "rmcb", "wait", "exec", "call", "cbtab"}
\* ("cbtab": a done-callback that is running calls task.add_done_callback / remove_done_callback itself)
AllFlags == {"foreign-killme-cancelled", "cb-raise-breaks", "cancel-in-cb-skips-cleanup",
             "cancel-unstarted-typeerror", "svc-addcb-keyerror", "deco-killme-claims", "call-couples-cancel",
             "method-cb-per-lookup"}
All == Task \cup Foreign
Key == Ctx \X Name
DecosAll == [n : Name, km : BOOLEAN]
DecosKm  == [n : Name, km : {TRUE}]
NoDeco == [n |-> None, km |-> FALSE]       \* a record, so that decorations are never compared with None

VARIABLES
  flags,    \* deviation flags (never change)
  cur,      \* task holding the event loop, or None
  st,       \* absent | new | run | ready | parked | cparked | waiting | calling | done
            \* (waiting: task.wait({waitOn}); calling: blocked in a blocking service call, callee = waitOn)
  phase,    \* body | exit | cb       (run_coro: awaiting the coroutine / in finally / in a done-callback)
  nops, nenv,
  ctxOf, kind, deco,
  pend,     \* cancel() called, CancelledError not yet delivered
  rq, rbusy,            \* reaper queue; victim the reaper awaits
  n2t, t2n,             \* Function.unique_name2task, unique_task2name
  ours, cbKeys, ctxKeys,\* Function.our_tasks, task2cb keys, task2context keys
  cbs,      \* [All -> [Fn -> 0..MaxArg]]   registered callback and its argument version, 0 = none
  ran, ranArg, cbcur, cbstop,
  outcome,  \* none | ok | raised | cancelled | refused
  waitOn,
  \* history, for the invariants only
  lastClaim, claimed, kmBad, crossKill, apiErr, exitCancelled,
  stale,    \* [All -> [Fn -> Seq(1..MaxArg)]]  only under "method-cb-per-lookup": argument versions of the
            \* earlier entries of a method that was added again (they run before the latest one)
  alt       \* [All -> [Fn -> SUBSET 1..MaxArg]]  the callback table of a task was changed while the task was already
            \* in its exit protocol (by one of its own done-callbacks, or by another task while a done-callback was
            \* suspended): every argument version the entry of f has had since then.  The statement does not say
            \* whether such an f still runs / with which of these arguments ("loose"); every OTHER function does

core == <<flags, cur, st, phase, nops, nenv, ctxOf, kind, deco, pend, rq, rbusy, n2t, t2n, ours, cbKeys,
          ctxKeys, cbs, ran, ranArg, cbcur, cbstop, outcome, waitOn>>
hist == <<lastClaim, claimed, kmBad, crossKill, apiErr, exitCancelled, stale, alt>>
vars == <<core, hist>>

Has(f) == f \in flags

InitWith(fl) ==
  /\ flags = fl /\ cur = None
  /\ st = [t \in All |-> "absent"] /\ phase = [t \in All |-> "body"]
  /\ nops = [t \in All |-> 0] /\ nenv = 0
  /\ ctxOf = [t \in All |-> None]
  /\ kind = [t \in All |-> IF t \in Foreign THEN "foreign" ELSE "create"]
  /\ deco = [t \in All |-> NoDeco]
  /\ pend = [t \in All |-> FALSE] /\ rq = <<>> /\ rbusy = None
  /\ n2t = [k \in Key |-> None] /\ t2n = [t \in All |-> {}]
  /\ ours = {} /\ cbKeys = {} /\ ctxKeys = {}
  /\ cbs = [t \in All |-> [f \in Fn |-> 0]] /\ ran = [t \in All |-> [f \in Fn |-> 0]]
  /\ ranArg = [t \in All |-> [f \in Fn |-> 0]] /\ cbcur = [t \in All |-> None]
  /\ cbstop = [t \in All |-> FALSE]
  /\ outcome = [t \in All |-> "none"] /\ waitOn = [t \in All |-> None]
  /\ lastClaim = [k \in Key |-> None] /\ claimed = [t \in All |-> {}]
  /\ kmBad = FALSE /\ crossKill = FALSE /\ apiErr = {} /\ exitCancelled = [t \in All |-> FALSE]
  /\ stale = [t \in All |-> [f \in Fn |-> <<>>]]
  /\ alt = [t \in All |-> [f \in Fn |-> {}]]
Init == InitWith(Flags)

Done(t)    == st[t] = "done"
Live(t)    == st[t] \notin {"absent", "done"}
Running(t) == Live(t) /\ phase[t] = "body"        \* neither ended nor cancelled (not in its exit protocol)
Other(t, k) == n2t[k] # None /\ n2t[k] # t          \* another task owns k

\* ------------------------------------------------------------------ pieces reused by several actions
\* task t claims key k (caller in our_tasks); enq = victims appended to the reaper queue
ClaimVars(t, k, enq) ==
  /\ n2t' = [n2t EXCEPT ![k] = t]
  /\ t2n' = [x \in All |-> IF x = t THEN t2n[x] \cup {k}
                           ELSE IF x = n2t[k] THEN t2n[x] \ {k} ELSE t2n[x]]
  /\ lastClaim' = [lastClaim EXCEPT ![k] = t]
  /\ claimed' = [claimed EXCEPT ![t] = @ \cup {k}]
  /\ rq' = rq \o enq
  /\ crossKill' = (crossKill \/ \E i \in 1..Len(enq) : k \notin claimed[enq[i]])

Victims(t, k) == IF Other(t, k) /\ n2t[k] \in ours THEN <<n2t[k]>> ELSE <<>>

\* the running task t leaves its body: run_coro's finally starts (foreign tasks have no run_coro)
LeaveBody(t, how) ==
  /\ outcome' = [outcome EXCEPT ![t] = how]
  /\ IF t \in Foreign
     THEN /\ st' = [st EXCEPT ![t] = "done"] /\ cur' = None /\ UNCHANGED phase
     ELSE /\ phase' = [phase EXCEPT ![t] = "exit"] /\ st' = [st EXCEPT ![t] = "run"] /\ cur' = t

CanOp(t, o) == cur = t /\ phase[t] = "body" /\ nops[t] < MaxOps /\ o \in Ops
Count(t) == nops' = [nops EXCEPT ![t] = @ + 1]

\* ------------------------------------------------------------------ environment
\* a trigger occurrence / service call creates task t in context c; d = its @task_unique decoration
Spawn(t, kd, c, d) ==
  /\ cur = None /\ t \in Task /\ st[t] = "absent" /\ kd \in Kinds
  /\ d.n # None => (kd = "trig" /\ d \in Decos)
  /\ ctxOf' = [ctxOf EXCEPT ![t] = c] /\ kind' = [kind EXCEPT ![t] = kd] /\ deco' = [deco EXCEPT ![t] = d]
  /\ LET used == d.n # None /\ d.km /\ n2t[<<c, d.n>>] # None IN
     \* kill_me decoration: the statement says "before the function body starts" - refusing when the
     \* trigger fires is allowed (legacy does exactly this), refusing at the first step as well (dm)
     \/ /\ used
        /\ st' = [st EXCEPT ![t] = "done"] /\ outcome' = [outcome EXCEPT ![t] = "refused"]
        /\ UNCHANGED cbKeys
     \/ /\ (~used \/ ~Has("deco-killme-claims"))
        /\ st' = [st EXCEPT ![t] = "new"] /\ cbKeys' = cbKeys \cup {t} /\ UNCHANGED outcome
  /\ UNCHANGED <<flags, cur, phase, nops, nenv, pend, rq, rbusy, n2t, t2n, ours, ctxKeys, cbs, ran, ranArg,
                 cbcur, cbstop, waitOn, hist>>

SpawnForeign(f, c) ==
  /\ cur = None /\ f \in Foreign /\ st[f] = "absent"
  /\ ctxOf' = [ctxOf EXCEPT ![f] = c] /\ st' = [st EXCEPT ![f] = "new"]
  /\ UNCHANGED <<flags, cur, phase, nops, nenv, kind, deco, pend, rq, rbusy, n2t, t2n, ours, cbKeys, ctxKeys,
                 cbs, ran, ranArg, cbcur, cbstop, outcome, waitOn, hist>>

\* hass-side Function.reaper_cancel(v)
EnvCancel(v) ==
  /\ cur = None /\ v \in Task /\ Live(v) /\ st[v] # "new" /\ nenv < MaxEnv
  /\ nenv' = nenv + 1 /\ rq' = Append(rq, v)
  /\ UNCHANGED <<flags, cur, st, phase, nops, ctxOf, kind, deco, pend, rbusy, n2t, t2n, ours, cbKeys, ctxKeys,
                 cbs, ran, ranArg, cbcur, cbstop, outcome, waitOn, hist>>

\* ------------------------------------------------------------------ resumption
\* first step: run_coro registers the task; a trigger task stores its HA context and applies its decoration
Start(t) ==
  /\ cur = None /\ st[t] = "new" /\ ~pend[t]
  /\ LET d == deco[t]
         k == <<ctxOf[t], d.n>>
         km == d.km /\ ~Has("deco-killme-claims")
     IN
     IF d.n # None /\ km /\ Other(t, k)
     THEN \* @task_unique(kill_me=True) and another live owner: the body never starts
          /\ st' = [st EXCEPT ![t] = "done"] /\ outcome' = [outcome EXCEPT ![t] = "refused"]
          /\ cbKeys' = cbKeys \ {t}
          /\ UNCHANGED <<cur, ours, ctxKeys, n2t, t2n, rq, lastClaim, claimed, crossKill, kmBad>>
     ELSE /\ st' = [st EXCEPT ![t] = "run"] /\ cur' = t
          /\ ours' = IF t \in Task THEN ours \cup {t} ELSE ours
          /\ ctxKeys' = IF kind[t] = "trig" THEN ctxKeys \cup {t} ELSE ctxKeys
          /\ UNCHANGED <<outcome, cbKeys>>
          /\ IF d.n = None THEN UNCHANGED <<n2t, t2n, rq, lastClaim, claimed, crossKill, kmBad>>
             ELSE /\ ClaimVars(t, k, Victims(t, k))
                  \* the rule: a kill_me caller never cancels anybody
                  /\ kmBad' = (kmBad \/ (d.km /\ Other(t, k)))
  /\ UNCHANGED <<flags, phase, nops, nenv, ctxOf, kind, deco, pend, rbusy, cbs, ran, ranArg, cbcur, cbstop,
                 waitOn, apiErr, exitCancelled, stale, alt>>

Wake(t) ==        \* the sleep of a parked task expires (any relative timing, incl. same instant)
  /\ cur = None /\ st[t] = "parked" /\ st' = [st EXCEPT ![t] = "ready"]
  /\ UNCHANGED <<flags, cur, phase, nops, nenv, ctxOf, kind, deco, pend, rq, rbusy, n2t, t2n, ours, cbKeys,
                 ctxKeys, cbs, ran, ranArg, cbcur, cbstop, outcome, waitOn, hist>>

\* under "call-couples-cancel" the CancelledError of a cancelled callee is raised in its blocked caller
CalleeKills(t) == /\ st[t] = "calling" /\ Has("call-couples-cancel")
                  /\ Done(waitOn[t]) /\ outcome[waitOn[t]] = "cancelled"
WaitWake(t) ==    \* task.wait: the awaited task is done / blocking service call: the called run is done
  /\ cur = None /\ st[t] \in {"waiting", "calling"} /\ Done(waitOn[t]) /\ st' = [st EXCEPT ![t] = "ready"]
  /\ pend' = IF CalleeKills(t) THEN [pend EXCEPT ![t] = TRUE] ELSE pend
  /\ UNCHANGED <<flags, cur, phase, nops, nenv, ctxOf, kind, deco, rq, rbusy, n2t, t2n, ours, cbKeys,
                 ctxKeys, cbs, ran, ranArg, cbcur, cbstop, outcome, waitOn, hist>>

Continue(t) ==    \* a woken task gets the loop (in its body or inside a done-callback)
  /\ cur = None /\ st[t] = "ready" /\ ~pend[t]
  /\ st' = [st EXCEPT ![t] = "run"] /\ cur' = t
  /\ UNCHANGED <<flags, phase, nops, nenv, ctxOf, kind, deco, pend, rq, rbusy, n2t, t2n, ours, cbKeys,
                 ctxKeys, cbs, ran, ranArg, cbcur, cbstop, outcome, waitOn, hist>>

\* CancelledError is thrown into the task at its suspension point, before any further user code
DeliverCancel(t) ==
  /\ cur = None /\ st[t] \in {"new", "ready"} /\ pend[t]
  /\ pend' = [pend EXCEPT ![t] = FALSE]
  /\ outcome' = [outcome EXCEPT ![t] = "cancelled"]
  /\ IF t \in Foreign
     THEN /\ st' = [st EXCEPT ![t] = "done"] /\ UNCHANGED <<cur, phase, cbcur, cbstop, exitCancelled>>
     ELSE IF phase[t] = "cb"
     THEN \* cancelled while a done-callback is suspended
          /\ exitCancelled' = [exitCancelled EXCEPT ![t] = TRUE]
          /\ cbcur' = [cbcur EXCEPT ![t] = None]
          /\ IF Has("cancel-in-cb-skips-cleanup")
             THEN /\ st' = [st EXCEPT ![t] = "done"] /\ phase' = [phase EXCEPT ![t] = "exit"]
                  /\ UNCHANGED <<cur, cbstop>>
             ELSE \* the callback is aborted; whether the remaining callbacks still run is not specified
                  /\ st' = [st EXCEPT ![t] = "run"] /\ cur' = t /\ phase' = [phase EXCEPT ![t] = "exit"]
                  /\ \E b \in BOOLEAN : cbstop' = [cbstop EXCEPT ![t] = b]
     ELSE /\ st' = [st EXCEPT ![t] = "run"] /\ cur' = t /\ phase' = [phase EXCEPT ![t] = "exit"]
          /\ UNCHANGED <<cbcur, cbstop, exitCancelled>>
  /\ UNCHANGED <<flags, nops, nenv, ctxOf, kind, deco, rq, rbusy, n2t, t2n, ours, cbKeys, ctxKeys, cbs, ran,
                 ranArg, waitOn, lastClaim, claimed, kmBad, crossKill, apiErr, stale, alt>>

\* ------------------------------------------------------------------ operations of the running task
\* the global context in which a piece of code of task t may execute: the context t was started in, and - a
\* pyscript function always runs in the global context it was DEFINED in, whoever calls it - any other one
CodeCtx(t) == IF Roam THEN Ctx ELSE {ctxOf[t]}

\* task.unique(n, kill_me=km) called by t while it executes code of global context c: the name is c's
OpUnique(t, c, n, km) ==
  /\ CanOp(t, "unique") /\ Count(t) /\ c \in CodeCtx(t)
  /\ LET k == <<c, n>>
         rule == km /\ Other(t, k) /\ t \in Task
         act  == km /\ Other(t, k) /\ (t \in Task \/ Has("foreign-killme-cancelled"))
     IN /\ kmBad' = (kmBad \/ (act # rule))
        /\ IF act
           THEN \* kill_me: ask the reaper to cancel the caller, wait to be cancelled
                /\ rq' = Append(rq, t) /\ st' = [st EXCEPT ![t] = "cparked"] /\ cur' = None
                /\ UNCHANGED <<n2t, t2n, lastClaim, claimed, crossKill>>
           ELSE /\ UNCHANGED <<st, cur>>
                /\ LET enq == IF km THEN <<>> ELSE Victims(t, k) IN
                   IF t \in ours THEN ClaimVars(t, k, enq)
                   ELSE /\ rq' = rq \o enq
                        /\ crossKill' = (crossKill \/ \E i \in 1..Len(enq) : k \notin claimed[enq[i]])
                        /\ UNCHANGED <<n2t, t2n, lastClaim, claimed>>
  /\ UNCHANGED <<flags, phase, nenv, ctxOf, kind, deco, pend, rbusy, ours, cbKeys, ctxKeys, cbs, ran, ranArg,
                 cbcur, cbstop, outcome, waitOn, apiErr, exitCancelled, stale, alt>>

\* what task.name2id() shows to code of global context c: the owner of every name of c (None: NameError)
View(c) == [n \in Name |-> n2t[<<c, n>>]]

OpSleep(t) ==
  /\ CanOp(t, "sleep") /\ Count(t)
  /\ st' = [st EXCEPT ![t] = "parked"] /\ cur' = None
  /\ UNCHANGED <<flags, phase, nenv, ctxOf, kind, deco, pend, rq, rbusy, n2t, t2n, ours, cbKeys, ctxKeys, cbs,
                 ran, ranArg, cbcur, cbstop, outcome, waitOn, hist>>

OpRaise(t) ==
  /\ CanOp(t, "raise") /\ Count(t) /\ LeaveBody(t, "raised")
  /\ UNCHANGED <<flags, nenv, ctxOf, kind, deco, pend, rq, rbusy, n2t, t2n, ours, cbKeys, ctxKeys, cbs, ran,
                 ranArg, cbcur, cbstop, waitOn, hist>>

OpFinish(t) ==
  /\ cur = t /\ phase[t] = "body" /\ LeaveBody(t, "ok")
  /\ UNCHANGED <<flags, nops, nenv, ctxOf, kind, deco, pend, rq, rbusy, n2t, t2n, ours, cbKeys, ctxKeys, cbs,
                 ran, ranArg, cbcur, cbstop, waitOn, hist>>

OpCreate(t, ch) ==        \* task.create: the child lives in the creator's global context
  /\ CanOp(t, "create") /\ Count(t) /\ t \in Task /\ ch \in Task /\ st[ch] = "absent"
  /\ st' = [st EXCEPT ![ch] = "new"] /\ kind' = [kind EXCEPT ![ch] = "create"]
  /\ ctxOf' = [ctxOf EXCEPT ![ch] = ctxOf[t]] /\ cbKeys' = cbKeys \cup {ch}
  /\ UNCHANGED <<flags, cur, phase, nenv, deco, pend, rq, rbusy, n2t, t2n, ours, ctxKeys, cbs, ran, ranArg,
                 cbcur, cbstop, outcome, waitOn, hist>>

\* the operation raised in the caller (the generated worker lets the exception end the task)
ApiError(t, what) ==
  /\ apiErr' = apiErr \cup {what} /\ LeaveBody(t, "raised")
  /\ UNCHANGED <<rq, cbs>>
PerLookup(f) == f \in MethFn /\ Has("method-cb-per-lookup")

OpCancel(t, v) ==         \* task.cancel(v) / task.cancel(): only enqueued to the reaper
  /\ CanOp(t, "cancel") /\ Count(t) /\ t \in Task /\ v \in Task /\ Live(v)
  /\ IF v = t
     THEN /\ rq' = Append(rq, t) /\ st' = [st EXCEPT ![t] = "cparked"] /\ cur' = None
          /\ UNCHANGED <<phase, outcome, apiErr, cbs>>
     ELSE IF st[v] = "new" /\ Has("cancel-unstarted-typeerror") THEN ApiError(t, "cancel")
     ELSE /\ rq' = Append(rq, v) /\ UNCHANGED <<st, cur, phase, outcome, apiErr, cbs>>
  /\ UNCHANGED <<flags, nenv, ctxOf, kind, deco, pend, rbusy, n2t, t2n, ours, cbKeys, ctxKeys, ran, ranArg,
                 cbcur, cbstop, waitOn, lastClaim, claimed, kmBad, crossKill, exitCancelled, stale, alt>>

\* the target may already be in its exit protocol (a done-callback of it is suspended): see `alt`
CbTarget(t, v) == t \in Task /\ v \in Task /\ Live(v)
InExit(v) == Live(v) /\ phase[v] # "body"
AltAdd(v, f, a) == IF InExit(v) THEN [alt EXCEPT ![v][f] = (@ \cup {cbs[v][f], a}) \ {0}] ELSE alt
AltRm(v, f)     == IF InExit(v) THEN [alt EXCEPT ![v][f] = (@ \cup {cbs[v][f]}) \ {0}] ELSE alt
Loose(t) == {f \in Fn : alt[t][f] # {}}
OpAddCb(t, v, f, a) ==    \* one entry per callback function, a later add overwrites the arguments
  /\ CanOp(t, "addcb") /\ Count(t) /\ CbTarget(t, v) /\ a \in 1..MaxArg
  /\ IF kind[v] = "svc" /\ Has("svc-addcb-keyerror") THEN ApiError(t, "addcb")
     ELSE /\ cbs' = [cbs EXCEPT ![v][f] = a] /\ UNCHANGED <<st, cur, phase, outcome, apiErr, rq>>
  /\ alt' = IF kind[v] = "svc" /\ Has("svc-addcb-keyerror") THEN alt ELSE AltAdd(v, f, a)
  /\ stale' = IF PerLookup(f) /\ cbs[v][f] # 0 /\ ~(kind[v] = "svc" /\ Has("svc-addcb-keyerror"))
              THEN [stale EXCEPT ![v][f] = Append(@, cbs[v][f])] ELSE stale
  /\ UNCHANGED <<flags, nenv, ctxOf, kind, deco, pend, rbusy, n2t, t2n, ours, cbKeys, ctxKeys, ran, ranArg,
                 cbcur, cbstop, waitOn, lastClaim, claimed, kmBad, crossKill, exitCancelled>>

OpRmCb(t, v, f) ==
  /\ CanOp(t, "rmcb") /\ Count(t) /\ CbTarget(t, v)        \* removing an unregistered function: no effect
  /\ IF kind[v] = "svc" /\ Has("svc-addcb-keyerror") THEN ApiError(t, "rmcb")
     ELSE /\ cbs' = [cbs EXCEPT ![v][f] = IF PerLookup(f) THEN @ ELSE 0]
          /\ UNCHANGED <<st, cur, phase, outcome, apiErr, rq>>
  /\ alt' = IF (kind[v] = "svc" /\ Has("svc-addcb-keyerror")) \/ PerLookup(f) THEN alt ELSE AltRm(v, f)
  /\ UNCHANGED <<flags, nenv, ctxOf, kind, deco, pend, rbusy, n2t, t2n, ours, cbKeys, ctxKeys, ran, ranArg,
                 cbcur, cbstop, waitOn, lastClaim, claimed, kmBad, crossKill, exitCancelled, stale>>

\* the done-callback of t that is running right now calls task.add_done_callback / task.remove_done_callback: for
\* the ending task itself (task.current_task() is that task: a one-shot callback that takes itself off, a callback
\* that removes or chains another one) or for any other live task.  The call is an ordinary API call: it does not
\* raise, the callback goes on, the outcome of the ending task is untouched, and every function whose entry was
\* not changed still runs exactly once with its arguments.
CanCbTab(t) == cur = t /\ phase[t] = "cb" /\ nops[t] < MaxOps /\ "cbtab" \in Ops
CbAdd(t, v, f, a) ==
  /\ CanCbTab(t) /\ Count(t) /\ CbTarget(t, v) /\ a \in 1..MaxArg
  /\ cbs' = [cbs EXCEPT ![v][f] = a] /\ alt' = AltAdd(v, f, a)
  /\ UNCHANGED <<flags, cur, st, phase, nenv, ctxOf, kind, deco, pend, rq, rbusy, n2t, t2n, ours, cbKeys, ctxKeys,
                 ran, ranArg, cbcur, cbstop, outcome, waitOn, lastClaim, claimed, kmBad, crossKill, apiErr,
                 exitCancelled, stale>>
CbRm(t, v, f) ==
  /\ CanCbTab(t) /\ Count(t) /\ CbTarget(t, v)
  /\ cbs' = [cbs EXCEPT ![v][f] = 0] /\ alt' = AltRm(v, f)
  /\ UNCHANGED <<flags, cur, st, phase, nenv, ctxOf, kind, deco, pend, rq, rbusy, n2t, t2n, ours, cbKeys, ctxKeys,
                 ran, ranArg, cbcur, cbstop, outcome, waitOn, lastClaim, claimed, kmBad, crossKill, apiErr,
                 exitCancelled, stale>>

OpWait(t, v) ==           \* task.wait({v}): asyncio.wait always suspends, also for a done task
  /\ CanOp(t, "wait") /\ Count(t) /\ t \in Task /\ v \in Task /\ v # t /\ st[v] # "absent"
  /\ st' = [st EXCEPT ![t] = "waiting"] /\ waitOn' = [waitOn EXCEPT ![t] = v] /\ cur' = None
  /\ UNCHANGED <<flags, phase, nenv, ctxOf, kind, deco, pend, rq, rbusy, n2t, t2n, ours, cbKeys, ctxKeys, cbs,
                 ran, ranArg, cbcur, cbstop, outcome, hist>>

\* a pyscript service called from a run (pyscript.svc(...) / service.call): the call starts a task of its
\* own in the service's global context c; a blocking call suspends the caller until that run is done -
\* whatever its outcome - and ties nothing else of the two runs together
OpCall(t, ch, c, bl) ==
  /\ CanOp(t, "call") /\ Count(t) /\ t \in Task /\ ch \in Task /\ st[ch] = "absent"
  /\ kind' = [kind EXCEPT ![ch] = "svc"] /\ ctxOf' = [ctxOf EXCEPT ![ch] = c] /\ cbKeys' = cbKeys \cup {ch}
  /\ IF bl THEN /\ st' = [st EXCEPT ![ch] = "new", ![t] = "calling"]
                /\ waitOn' = [waitOn EXCEPT ![t] = ch] /\ cur' = None
     ELSE /\ st' = [st EXCEPT ![ch] = "new"] /\ UNCHANGED <<waitOn, cur>>
  /\ UNCHANGED <<flags, phase, nenv, deco, pend, rq, rbusy, n2t, t2n, ours, ctxKeys, cbs, ran, ranArg,
                 cbcur, cbstop, outcome, hist>>

OpExec(t) ==              \* task.executor(f, ...): no suspension on the loop's side, no registry touched
  /\ CanOp(t, "exec") /\ Count(t)
  /\ UNCHANGED <<flags, cur, st, phase, nenv, ctxOf, kind, deco, pend, rq, rbusy, n2t, t2n, ours, cbKeys,
                 ctxKeys, cbs, ran, ranArg, cbcur, cbstop, outcome, waitOn, hist>>

\* ------------------------------------------------------------------ the reaper task
\* "call-couples-cancel": cancel() of a task blocked in a blocking service call is passed on to the task it
\* awaits - the callee (and so on to the innermost one); the blocked task itself is not woken
RECURSIVE Inner(_)
Inner(v) == IF st[v] = "calling" /\ ~Done(waitOn[v]) THEN Inner(waitOn[v]) ELSE v
ReaperTake ==             \* dequeue, cancel(), start awaiting the victim
  /\ cur = None /\ rbusy = None /\ rq # <<>>
  /\ LET v == Head(rq)
         w == IF Has("call-couples-cancel") THEN Inner(v) ELSE v
     IN
     /\ rq' = Tail(rq)
     /\ IF Done(v) THEN UNCHANGED <<st, pend, rbusy>>
        ELSE /\ pend' = [pend EXCEPT ![w] = TRUE]
             /\ st' = [st EXCEPT ![w] = IF @ \in {"parked", "cparked", "waiting", "calling"} THEN "ready" ELSE @]
             /\ rbusy' = v
  /\ UNCHANGED <<flags, cur, phase, nops, nenv, ctxOf, kind, deco, n2t, t2n, ours, cbKeys, ctxKeys, cbs, ran,
                 ranArg, cbcur, cbstop, outcome, waitOn, hist>>

ReaperDone ==             \* the awaited victim is done: back to the queue (head-of-line blocking until then)
  /\ cur = None /\ rbusy # None /\ Done(rbusy) /\ rbusy' = None
  /\ UNCHANGED <<flags, cur, st, phase, nops, nenv, ctxOf, kind, deco, pend, rq, n2t, t2n, ours, cbKeys,
                 ctxKeys, cbs, ran, ranArg, cbcur, cbstop, outcome, waitOn, hist>>

\* ------------------------------------------------------------------ exit protocol (run_coro's finally)
\* (stale is empty unless "method-cb-per-lookup": then the earlier entries of a method run first, in order)
PendingCb(t) == {f \in Fn : cbs[t][f] # 0 /\ ran[t][f] <= Len(stale[t][f])}

CbStart(t, f) ==          \* one done-callback at a time, with the latest arguments
  /\ cur = t /\ phase[t] = "exit" /\ ~cbstop[t] /\ f \in PendingCb(t) /\ ran[t][f] = Len(stale[t][f])
  /\ phase' = [phase EXCEPT ![t] = "cb"] /\ cbcur' = [cbcur EXCEPT ![t] = f]
  /\ ran' = [ran EXCEPT ![t][f] = @ + 1] /\ ranArg' = [ranArg EXCEPT ![t][f] = cbs[t][f]]
  /\ UNCHANGED <<flags, cur, st, nops, nenv, ctxOf, kind, deco, pend, rq, rbusy, n2t, t2n, ours, cbKeys,
                 ctxKeys, cbs, cbstop, outcome, waitOn, hist>>

StaleArg(t, f) == stale[t][f][ran[t][f] + 1]
CbStartStale(t, f) ==     \* "method-cb-per-lookup": an earlier entry of a method that was added again
  /\ cur = t /\ phase[t] = "exit" /\ ~cbstop[t] /\ f \in PendingCb(t) /\ ran[t][f] < Len(stale[t][f])
  /\ phase' = [phase EXCEPT ![t] = "cb"] /\ cbcur' = [cbcur EXCEPT ![t] = f]
  /\ ran' = [ran EXCEPT ![t][f] = @ + 1] /\ ranArg' = [ranArg EXCEPT ![t][f] = StaleArg(t, f)]
  /\ UNCHANGED <<flags, cur, st, nops, nenv, ctxOf, kind, deco, pend, rq, rbusy, n2t, t2n, ours, cbKeys,
                 ctxKeys, cbs, cbstop, outcome, waitOn, hist>>

\* a function whose entry was changed after the exit protocol had begun: it may run (once) with any of the
\* argument versions its entry has had since then, or not at all
CbStartLoose(t, f, a) ==
  /\ cur = t /\ phase[t] = "exit" /\ ~cbstop[t] /\ ran[t][f] = 0 /\ a \in alt[t][f]
  /\ phase' = [phase EXCEPT ![t] = "cb"] /\ cbcur' = [cbcur EXCEPT ![t] = f]
  /\ ran' = [ran EXCEPT ![t][f] = 1] /\ ranArg' = [ranArg EXCEPT ![t][f] = a]
  /\ UNCHANGED <<flags, cur, st, nops, nenv, ctxOf, kind, deco, pend, rq, rbusy, n2t, t2n, ours, cbKeys,
                 ctxKeys, cbs, cbstop, outcome, waitOn, hist>>

CbFinish(t) ==
  /\ cur = t /\ phase[t] = "cb"
  /\ phase' = [phase EXCEPT ![t] = "exit"] /\ cbcur' = [cbcur EXCEPT ![t] = None]
  /\ UNCHANGED <<flags, cur, st, nops, nenv, ctxOf, kind, deco, pend, rq, rbusy, n2t, t2n, ours, cbKeys,
                 ctxKeys, cbs, ran, ranArg, cbstop, outcome, waitOn, hist>>

CbRaise(t) ==             \* the exception is logged; the remaining callbacks still run (statement)
  /\ cur = t /\ phase[t] = "cb"
  /\ phase' = [phase EXCEPT ![t] = "exit"] /\ cbcur' = [cbcur EXCEPT ![t] = None]
  /\ cbstop' = [cbstop EXCEPT ![t] = @ \/ Has("cb-raise-breaks")]
  /\ UNCHANGED <<flags, cur, st, nops, nenv, ctxOf, kind, deco, pend, rq, rbusy, n2t, t2n, ours, cbKeys,
                 ctxKeys, cbs, ran, ranArg, outcome, waitOn, hist>>

CbSuspend(t) ==           \* the callback sleeps: the ending task is parked inside its exit protocol
  /\ cur = t /\ phase[t] = "cb"
  /\ st' = [st EXCEPT ![t] = "parked"] /\ cur' = None
  /\ UNCHANGED <<flags, phase, nops, nenv, ctxOf, kind, deco, pend, rq, rbusy, n2t, t2n, ours, cbKeys, ctxKeys,
                 cbs, ran, ranArg, cbcur, cbstop, outcome, waitOn, hist>>

Cleanup(t) ==             \* release the unique names, forget HA context, callbacks and the task
  /\ cur = t /\ phase[t] = "exit" /\ (cbstop[t] \/ PendingCb(t) \ Loose(t) = {})
  /\ n2t' = [k \in Key |-> IF k \in t2n[t] THEN None ELSE n2t[k]]
  /\ t2n' = [t2n EXCEPT ![t] = {}]
  /\ ours' = ours \ {t} /\ cbKeys' = cbKeys \ {t} /\ ctxKeys' = ctxKeys \ {t}
  /\ st' = [st EXCEPT ![t] = "done"] /\ cur' = None
  /\ UNCHANGED <<flags, phase, nops, nenv, ctxOf, kind, deco, pend, rq, rbusy, cbs, ran, ranArg, cbcur, cbstop,
                 outcome, waitOn, hist>>

\* ------------------------------------------------------------------ next-state relation
Resume(t) == Start(t) \/ Continue(t) \/ DeliverCancel(t)
RunStep(t) ==             \* what the task holding the loop can do next
  \/ \E c \in Ctx, n \in Name, km \in BOOLEAN : OpUnique(t, c, n, km)
  \/ OpSleep(t) \/ OpRaise(t) \/ OpFinish(t) \/ OpExec(t)
  \/ \E v \in Task : OpCreate(t, v) \/ OpCancel(t, v) \/ OpWait(t, v)
  \/ \E v \in Task, c \in Ctx, bl \in BOOLEAN : OpCall(t, v, c, bl)
  \/ \E v \in Task, f \in Fn : OpRmCb(t, v, f) \/ \E a \in 1..MaxArg : OpAddCb(t, v, f, a)
  \/ \E f \in Fn : CbStart(t, f) \/ CbStartStale(t, f) \/ \E a \in 1..MaxArg : CbStartLoose(t, f, a)
  \/ \E v \in Task, f \in Fn : CbRm(t, v, f) \/ \E a \in 1..MaxArg : CbAdd(t, v, f, a)
  \/ CbFinish(t) \/ CbRaise(t) \/ CbSuspend(t) \/ Cleanup(t)
Env ==
  \/ \E t \in Task, kd \in Kinds, c \in Ctx, d \in Decos \cup {NoDeco} : Spawn(t, kd, c, d)
  \/ \E f \in Foreign, c \in Ctx : SpawnForeign(f, c)
  \/ \E v \in Task : EnvCancel(v)
Next == Env \/ (\E t \in All : Resume(t) \/ Wake(t) \/ WaitWake(t) \/ RunStep(t)) \/ ReaperTake \/ ReaperDone
Spec == Init /\ [][Next]_vars
\* TLC evaluates every constant definition at start-up, also where no SYMMETRY is configured (the trace
\* specification has a dozen callback functions): only small sets are permuted
SmallPerms(S) == IF Cardinality(S) <= 5 THEN Permutations(S) ELSE {}
Sym == SmallPerms(Task) \cup SmallPerms(Name) \cup SmallPerms(Ctx) \cup SmallPerms(Fn)

\* ------------------------------------------------------------------ properties
Quiescent ==
  /\ cur = None /\ rq = <<>> /\ rbusy = None
  /\ \A t \in All : /\ st[t] \in {"absent", "parked", "cparked", "waiting", "calling", "done"} /\ ~pend[t]
                    /\ st[t] \in {"waiting", "calling"} => ~Done(waitOn[t])

\* nothing can move before a timer expires or the environment acts (what settle() reaches on the virtual
\* clock): unlike Quiescent the reaper may still be blocked on a victim whose done-callback sleeps
Settled ==
  /\ cur = None /\ (rbusy = None => rq = <<>>) /\ (rbusy # None => ~Done(rbusy))
  /\ \A t \in All : /\ st[t] \in {"absent", "parked", "cparked", "waiting", "calling", "done"} /\ ~pend[t]
                    /\ st[t] \in {"waiting", "calling"} => ~Done(waitOn[t])

TypeOK ==
  /\ cur \in All \cup {None} /\ (cur # None => st[cur] = "run")
  /\ \A t \in All : st[t] = "run" => cur = t
  /\ ours \subseteq Task /\ ctxKeys \subseteq Task /\ cbKeys \subseteq Task

\* ---- C13
MapsConsistent ==
  /\ \A k \in Key : n2t[k] # None => k \in t2n[n2t[k]]
  /\ \A t \in All : \A k \in t2n[t] : n2t[k] = t
\* the owner reported by task.name2id is the last claimant while it lives, nobody afterwards
OwnerIsLastLiveClaimant ==
  \A k \in Key : n2t[k] = IF lastClaim[k] # None /\ ~Done(lastClaim[k]) THEN lastClaim[k] ELSE None
OwnerIsLiveOurs == \A k \in Key : n2t[k] # None => Live(n2t[k]) /\ n2t[k] \in Task
OneLiveClaimantAtQuiescence ==
  Quiescent => \A k \in Key : \A t \in All : (Running(t) /\ k \in claimed[t]) => n2t[k] = t
ReleasedWhenOwnerEnds == \A t \in All : Done(t) => t2n[t] = {} /\ \A k \in Key : n2t[k] # t
\* nobody is killed by a claim of a key he never claimed himself (the key is (context of the calling code, name):
\* the same spelling in another context is another name); a task holds only what it claimed; as long as tasks
\* do not roam, all of that lies in the context the task was started in
ContextsIndependent ==
  /\ ~crossKill
  /\ \A t \in All : t2n[t] \subseteq claimed[t]
  /\ ~Roam => \A t \in All : \A k \in claimed[t] : k[1] = ctxOf[t]
ForeignNeverCancelled ==
  \A f \in Foreign : /\ outcome[f] # "cancelled" /\ ~pend[f]
                     /\ \A i \in 1..Len(rq) : rq[i] # f
KillMeKillsCallerIffOtherLiveOwner == ~kmBad

\* ---- C14
\* each registered, not removed callback function runs exactly once with its latest arguments, whatever
\* the outcome; if a further cancellation hits the exit protocol itself: at most once
CallbacksExactlyOncePerFunction ==
  \A t \in Task : \A f \in Fn :
    /\ ran[t][f] <= 1
    /\ ran[t][f] = 1 => IF alt[t][f] = {} THEN cbs[t][f] # 0 /\ ranArg[t][f] = cbs[t][f]
                                          ELSE ranArg[t][f] \in alt[t][f]
    /\ (Done(t) /\ outcome[t] # "refused" /\ ~exitCancelled[t] /\ cbs[t][f] # 0 /\ alt[t][f] = {}) => ran[t][f] = 1
DoneInNoRegistry ==
  \A t \in All : Done(t) => /\ t \notin ours /\ t \notin cbKeys /\ t \notin ctxKeys
                            /\ t2n[t] = {} /\ \A k \in Key : n2t[k] # t
DoneInNoRegistryAtQuiescence == Quiescent => DoneInNoRegistry
ApiCallsAccepted == apiErr = {}        \* task.cancel / add_done_callback of a live pyscript task never raise
\* a parked, raising, cancelled or ending task never keeps another task from running:
\* whoever is runnable can take the loop as soon as it is free, and whoever holds it can go on
NoRunBlocksAnother ==
  /\ cur = None => \A t \in All : /\ st[t] \in {"new", "ready"} => ENABLED Resume(t)
                                  /\ st[t] = "parked" => ENABLED Wake(t)
                                  /\ (st[t] \in {"waiting", "calling"} /\ Done(waitOn[t])) => ENABLED WaitWake(t)
  /\ cur # None => ENABLED RunStep(cur)
\* a run is terminated by cancellation only if somebody asked for exactly that run to be cancelled (task.cancel,
\* a task.unique claim, kill_me, the hass side - all of them go through the reaper's queue): a CancelledError is
\* on its way to no other task than the one the reaper has just taken from its queue - no run takes another with it
OnlyReapedAreCancelled == \A t \in All : pend[t] => rbusy = t
\* a task that returned from task.wait({v}) / from a blocking call of v sees v done, with its final outcome
WaitReflectsOutcome ==
  \A t \in All : (waitOn[t] # None /\ st[t] = "run" /\ phase[t] = "body") =>
                    Done(waitOn[t]) /\ outcome[waitOn[t]] # "none"

\* ---- witnesses: situations the exhaustive runs must have visited (antecedents are not vacuous).
\* Collected in TLC registers by an always-true invariant (needs -workers 1), reported by a POSTCONDITION.
WitnessConds == <<
  \E t \in Task : outcome[t] = "cancelled",                                   \* 1 a task was killed
  \E t \in All : st[t] = "cparked",                                           \* 2 kill_me / task.cancel() waits to be cancelled
  \E k \in Key : Cardinality({t \in All : k \in claimed[t]}) > 1,            \* 3 two claimants of one name
  \E t \in Task : exitCancelled[t],                                           \* 4 cancelled inside a suspended done-callback
  \E t \in Task : Cardinality({f \in Fn : ran[t][f] = 1}) > 1,               \* 5 two callbacks of one task ran
  rbusy # None /\ rq # <<>>,                                                  \* 6 reaper head-of-line blocking
  \E t \in All : waitOn[t] # None /\ st[t] = "run" /\ phase[t] = "body",     \* 7 task.wait returned
  \E t \in Task : outcome[t] = "refused",                                     \* 8 @task_unique(kill_me) refused a run
  \E t \in Task : st[t] = "new" /\ pend[t],                                  \* 9 cancelled before the first step
  \E t \in Task : phase[t] = "cb" /\ st[t] = "parked" /\ t2n[t] # {},        \* 10 owner suspended in its exit protocol
  \E t \in Task : st[t] = "calling" /\ st[waitOn[t]] = "parked",              \* 11 blocked in a service call whose run sleeps
  \E t \in Task : /\ Done(t) /\ outcome[t] = "cancelled" /\ waitOn[t] # None   \* 12 caller cancelled inside a blocking
                  /\ kind[waitOn[t]] = "svc" /\ Live(waitOn[t])                 \*    call, the called run lives on
                  /\ phase[waitOn[t]] = "body",
  \E t \in Task : /\ st[t] = "run" /\ phase[t] = "body" /\ waitOn[t] # None    \* 13 called run cancelled, the caller
                  /\ kind[waitOn[t]] = "svc" /\ outcome[waitOn[t]] = "cancelled",   \* goes on
  \E t \in Task : \E k \in t2n[t] : k[1] # ctxOf[t],                          \* 14 a name held in another context than
                                                                             \*    the one the task was started in
  \E t \in Task : /\ outcome[t] = "cancelled"                                 \* 15 killed by a task that was started in
                  /\ \E k \in claimed[t] : /\ lastClaim[k] \notin {None, t}   \*    ANOTHER context (both claimed the
                                           /\ ctxOf[lastClaim[k]] # ctxOf[t],  \*    name inside the same third-party code)
  \E t, u \in Task : /\ t # u /\ ctxOf[t] = ctxOf[u] /\ Running(t) /\ Running(u)  \* 16 one spelling, one starting context,
                     /\ \E n \in Name : \E c, d \in Ctx :                       \*    two live owners: the names live in
                          c # d /\ n2t[<<c, n>>] = t /\ n2t[<<d, n>>] = u,       \*    different code contexts
  \E t \in Task : \E f, g \in Fn : /\ phase[t] = "cb" /\ cbcur[t] = g /\ f # g     \* 17 the table of an ending task was
                                   /\ alt[t][f] # {} /\ alt[t][g] = {},          \*    changed, an untouched callback runs
  \E t \in Task : \E f \in Fn : /\ Done(t) /\ ~exitCancelled[t] /\ cbs[t][f] # 0   \* 18 a callback added during the exit
                                /\ ran[t][f] = 0 /\ outcome[t] # "refused",      \*    protocol never ran
  \E t \in Task : \E f \in Fn : ran[t][f] = 1 /\ cbs[t][f] = 0,                  \* 19 a callback removed itself / ran
                                                                              \*    though it was removed meanwhile
  \E t, u \in Task : \E f \in Fn : /\ t # u /\ cur = u /\ phase[u] = "body"         \* 20 another task changed the table of
                                   /\ phase[t] = "cb" /\ alt[t][f] # {} >>       \*    a task suspended in a done-callback
NW == 20
ASSUME \A i \in 1..NW : TLCSet(100 + i, FALSE)
Witness == \A i \in 1..NW : WitnessConds[i] => TLCSet(100 + i, TRUE)
WitnessReport == \A i \in 1..NW : TLCGet(100 + i) \/ PrintT(<<"UNSEEN", i>>)

\* ---- the same as violable invariants, for manual runs: the counterexample is a shortest behaviour reaching the situation
W_NoKill        == \A t \in Task : outcome[t] # "cancelled"
W_NoKillMe      == \A t \in All : st[t] # "cparked"
W_NoTwoClaimants == \A k \in Key : Cardinality({t \in All : k \in claimed[t]}) <= 1
W_NoCbSuspendedCancel == \A t \in Task : ~exitCancelled[t]
W_NoTwoCallbacks == \A t \in Task : Cardinality({f \in Fn : ran[t][f] = 1}) <= 1
W_NoHeadOfLine  == ~(rbusy # None /\ rq # <<>>)
W_NoWaitSeen    == \A t \in All : ~(waitOn[t] # None /\ st[t] = "run")
W_NoRefused     == \A t \in Task : outcome[t] # "refused"
=============================================================================
