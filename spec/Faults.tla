------------------------------ MODULE Faults ------------------------------
(* C18 (M): containment of script errors.  Two script files: "a" (its user code can fault at    *)
(* every entry point) and "b" (a bystander).  An exception raised by user code travels up the    *)
(* stack of handlers of that entry point (FaultCore!CatchLayer says which layer the code gives   *)
(* a handler): the entry wrapper logs on the script's own logger and changes nothing else;       *)
(* run_coro's catch-all logs on the integration's logger; the trigger's watch loop logs on the   *)
(* integration's logger and ENDS the loop; past that the exception is Home Assistant's.          *)
(* Invariants: LoggedOnceOnOwnLogger, TriggerStillServes, OthersUndisturbed,                     *)
(* NeverPropagatesIntoHA, LoadErrorUnloadsOnlyThatFile.                                          *)
(* Flags = named deviations: FaultCore's "dm-trigger-func-uncaught" (what the code does), and    *)
(* the model-level mutants "expr-uncaught", "entry-uncaught-anywhere", "load-error-stops-all",   *)
(* "logs-twice", used by the driver to show that each invariant can fail.                        *)
EXTENDS FaultCore, TLC
CONSTANTS Sub, Flags, MaxOcc

Runtime == Entries \ {"load", "import-load"}
ExprEntries == {"trigger-expr", "filter-expr", "active-expr"}
LayersOf(e) == IF e \in {"load", "import-load"} THEN <<"entry", "ha">>
               ELSE IF e \in ExprEntries THEN <<"entry", "loop", "ha">>
               ELSE <<"entry", "runcoro", "ha">>
HandlerAt(e, layer) ==
  CASE layer = "entry"   -> /\ CatchLayer(e, Sub, Flags) = "entry"
                            /\ ~("expr-uncaught" \in Flags /\ e \in ExprEntries)
                            /\ ~("entry-uncaught-anywhere" \in Flags /\ e = "service-func")
    [] layer = "runcoro" -> ~("entry-uncaught-anywhere" \in Flags)
    [] layer = "loop"    -> TRUE
    [] layer = "ha"      -> TRUE

VARIABLES loaded,     \* files whose global context exists
          everB,      \* "b" was loaded at some time
          serving,    \* entry point of "a" -> its trigger / service / loop is alive
          log,        \* records carrying an exception report: sequence of logger classes "own" | "integration"
          ha,         \* "ok" | "raised": an exception reached Home Assistant
          act,        \* activation in progress: [e, pos] (pos = index into LayersOf(e)) or Idle
          faults,     \* faults raised so far
          occ         \* occurrences so far (bound)
vars == <<loaded, everB, serving, log, ha, act, faults, occ>>
Idle == [e |-> "-", pos |-> 0]

Init == /\ loaded = {} /\ everB = FALSE /\ serving = [e \in Runtime |-> FALSE] /\ log = <<>> /\ ha = "ok"
        /\ act = Idle /\ faults = 0 /\ occ = 0

LoadOk(f) == /\ act = Idle /\ f \notin loaded /\ occ < MaxOcc
             /\ loaded' = loaded \cup {f} /\ everB' = (everB \/ f = "b")
             /\ serving' = IF f = "a" THEN [e \in Runtime |-> TRUE] ELSE serving
             /\ occ' = occ + 1 /\ UNCHANGED <<log, ha, act, faults>>
\* user code at module level of "a" (or of a module it imports) raises while the file loads
LoadFaulty(e) == /\ act = Idle /\ "a" \notin loaded /\ occ < MaxOcc /\ e \in {"load", "import-load"}
                 /\ act' = [e |-> e, pos |-> 1] /\ faults' = faults + 1 /\ occ' = occ + 1
                 /\ UNCHANGED <<loaded, everB, serving, log, ha>>
Benign(e) == /\ act = Idle /\ "a" \in loaded /\ e \in Runtime /\ serving[e] /\ occ < MaxOcc
             /\ occ' = occ + 1 /\ UNCHANGED <<loaded, everB, serving, log, ha, act, faults>>
Fault(e) == /\ act = Idle /\ "a" \in loaded /\ e \in Runtime /\ serving[e] /\ occ < MaxOcc
            /\ act' = [e |-> e, pos |-> 1] /\ faults' = faults + 1 /\ occ' = occ + 1
            /\ UNCHANGED <<loaded, everB, serving, log, ha>>
\* the exception is at layer LayersOf(e)[pos]: caught there or passed on
Travel == /\ act # Idle
          /\ LET e == act.e  layer == LayersOf(e)[act.pos] IN
             IF ~HandlerAt(e, layer) THEN act' = [act EXCEPT !.pos = @ + 1] /\ UNCHANGED <<loaded, everB, serving, log, ha, faults, occ>>
             ELSE /\ act' = Idle
                  /\ log' = CASE layer = "entry" -> log \o (IF "logs-twice" \in Flags /\ e = "done-callback" THEN <<"own", "own">> ELSE <<"own">>)
                              [] layer \in {"runcoro", "loop"} -> Append(log, "integration")
                              [] OTHER -> log
                  /\ ha' = IF layer = "ha" THEN "raised" ELSE ha
                  /\ serving' = IF layer = "loop" THEN [serving EXCEPT ![e] = FALSE] ELSE serving
                  /\ loaded' = IF e \in {"load", "import-load"} /\ "load-error-stops-all" \in Flags THEN {} ELSE loaded   \* a load error leaves "a" unloaded
                  /\ UNCHANGED <<everB, faults, occ>>
Next == \/ \E f \in {"a", "b"} : LoadOk(f)
        \/ \E e \in Entries : LoadFaulty(e) \/ Benign(e) \/ Fault(e)
        \/ Travel
Spec == Init /\ [][Next]_vars

Count(s, x) == Cardinality({ i \in 1..Len(s) : s[i] = x })
LoggedOnceOnOwnLogger == act = Idle => Count(log, "own") = faults /\ Count(log, "integration") = 0
TriggerStillServes == "a" \in loaded => \A e \in Runtime : serving[e]
OthersUndisturbed == everB => "b" \in loaded
NeverPropagatesIntoHA == ha = "ok"
LoadErrorUnloadsOnlyThatFile == act # Idle /\ act.e \in {"load", "import-load"} => "a" \notin loaded
\* witnesses (to be violated)
W_NoFaultCaught == ~(act = Idle /\ faults > 1 /\ "a" \in loaded /\ "b" \in loaded)
=============================================================================
