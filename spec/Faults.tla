------------------------------ MODULE Faults ------------------------------
(* C18 (M): containment of script errors.  Two script files: "a" (its user code can fault at    *)
(* every entry point) and "b" (a bystander).  An exception raised by user code travels up the    *)
(* stack of handlers of that entry point (FaultCore!CatchLayer says which layer the code gives   *)
(* a handler): the entry wrapper logs on the script's own logger and changes nothing else;       *)
(* run_coro's catch-all logs on the integration's logger; the trigger's watch loop logs on the   *)
(* integration's logger and ENDS the loop; past that the exception is Home Assistant's.          *)
(* Invariants: LoggedOnceOnOwnLogger, TriggerStillServes, OthersUndisturbed,                     *)
(* NeverPropagatesIntoHA, LoadErrorUnloadsOnlyThatFile.                                          *)
(* Flags = named deviations: FaultCore's "dm-trigger-func-uncaught" (what the code does), and    *)
(* the model-level mutants "expr-uncaught", "entry-uncaught-anywhere", "load-error-stops-all",   *)
(* "logs-twice", "deliverer-logs-too" (the machinery that hands a wait expression's exception to  *)
(* the waiting function also logs it), used by the driver to show that each invariant can fail.  *)
(* User code may handle its own fault (guard = "chain": inside the faulting call chain, "waiter": *)
(* the waiting function around task.wait_until): then nothing may be logged and the run goes on.  *)
EXTENDS FaultCore, TLC
CONSTANTS Sub, Flags, MaxOcc

Runtime == Entries \ {"load", "import-load"}
ExprEntries == {"trigger-expr", "filter-expr", "active-expr"}
LayersOf(e) == IF e \in {"load", "import-load"} THEN <<"user", "entry", "ha">>
               ELSE IF e \in ExprEntries THEN <<"user", "entry", "loop", "ha">>
               ELSE IF e \in WaitEntries THEN <<"user", "deliver", "waiter", "entry", "runcoro", "ha">>
               ELSE <<"user", "entry", "runcoro", "ha">>
Guards(e) == IF e \in WaitEntries THEN {"none", "chain", "waiter"} ELSE {"none", "chain"}
HandlerAt(e, layer, guard) ==
  CASE layer = "user"    -> guard = "chain"
    [] layer = "deliver" -> FALSE
    [] layer = "waiter"  -> guard = "waiter"
    [] layer = "entry"   -> /\ CatchLayer(e, Sub, Flags) = "entry"
                            /\ ~("expr-uncaught" \in Flags /\ e \in ExprEntries)
                            /\ ~("entry-uncaught-anywhere" \in Flags /\ e = "service-func")
    [] layer = "runcoro" -> ~("entry-uncaught-anywhere" \in Flags)
    [] layer = "loop"    -> TRUE
    [] layer = "ha"      -> TRUE

VARIABLES loaded,     \* files whose global context exists
          everB,      \* "b" was loaded at some time
          serving,    \* entry point of "a" -> its trigger / service / loop is alive
          log,        \* records carrying an exception report: sequence of logger classes "own" | "integration"
          ha,         \* "ok" | "raised": an exception reached Home Assistant
          act,        \* activation in progress: [e, pos, guard] (pos = index into LayersOf(e)) or Idle
          faults,     \* faults raised so far that user code does not handle itself
          handled,    \* faults raised so far that user code handles itself
          occ         \* occurrences so far (bound)
vars == <<loaded, everB, serving, log, ha, act, faults, handled, occ>>
Idle == [e |-> "-", pos |-> 0, guard |-> "none"]

Init == /\ loaded = {} /\ everB = FALSE /\ serving = [e \in Runtime |-> FALSE] /\ log = <<>> /\ ha = "ok"
        /\ act = Idle /\ faults = 0 /\ handled = 0 /\ occ = 0

LoadOk(f) == /\ act = Idle /\ f \notin loaded /\ occ < MaxOcc
             /\ loaded' = loaded \cup {f} /\ everB' = (everB \/ f = "b")
             /\ serving' = IF f = "a" THEN [e \in Runtime |-> TRUE] ELSE serving
             /\ occ' = occ + 1 /\ UNCHANGED <<log, ha, act, faults, handled>>
\* user code at module level of "a" (or of a module it imports) raises while the file loads
LoadFaulty(e, g) == /\ act = Idle /\ "a" \notin loaded /\ occ < MaxOcc /\ e \in {"load", "import-load"} /\ g \in Guards(e)
                    /\ act' = [e |-> e, pos |-> 1, guard |-> g] /\ occ' = occ + 1
                    /\ faults' = faults + (IF g = "none" THEN 1 ELSE 0) /\ handled' = handled + (IF g = "none" THEN 0 ELSE 1)
                    /\ UNCHANGED <<loaded, everB, serving, log, ha>>
Benign(e) == /\ act = Idle /\ "a" \in loaded /\ e \in Runtime /\ serving[e] /\ occ < MaxOcc
             /\ occ' = occ + 1 /\ UNCHANGED <<loaded, everB, serving, log, ha, act, faults, handled>>
Fault(e, g) == /\ act = Idle /\ "a" \in loaded /\ e \in Runtime /\ serving[e] /\ occ < MaxOcc /\ g \in Guards(e)
               /\ act' = [e |-> e, pos |-> 1, guard |-> g] /\ occ' = occ + 1
               /\ faults' = faults + (IF g = "none" THEN 1 ELSE 0) /\ handled' = handled + (IF g = "none" THEN 0 ELSE 1)
               /\ UNCHANGED <<loaded, everB, serving, log, ha>>
\* the exception is at layer LayersOf(e)[pos]: caught there or passed on
Travel == /\ act # Idle
          /\ LET e == act.e  layer == LayersOf(e)[act.pos] IN
             IF ~HandlerAt(e, layer, act.guard)
             THEN /\ act' = [act EXCEPT !.pos = @ + 1]
                  /\ log' = IF layer = "deliver" /\ "deliverer-logs-too" \in Flags THEN Append(log, "own") ELSE log
                  /\ UNCHANGED <<loaded, everB, serving, ha, faults, handled, occ>>
             ELSE /\ act' = Idle
                  /\ log' = CASE layer = "entry" -> log \o (IF "logs-twice" \in Flags /\ e = "done-callback" THEN <<"own", "own">> ELSE <<"own">>)
                              [] layer \in {"runcoro", "loop"} -> Append(log, "integration")
                              [] OTHER -> log                                        \* user code handled it: nothing is logged
                  /\ ha' = IF layer = "ha" THEN "raised" ELSE ha
                  /\ serving' = IF layer = "loop" THEN [serving EXCEPT ![e] = FALSE]
                                ELSE IF layer = "user" /\ e \in {"load", "import-load"} THEN [x \in Runtime |-> TRUE]
                                ELSE serving
                  \* a load error leaves "a" unloaded; a fault the module-level code handles itself does not stop the load
                  /\ loaded' = IF e \in {"load", "import-load"} /\ layer = "user" THEN loaded \cup {"a"}
                               ELSE IF e \in {"load", "import-load"} /\ "load-error-stops-all" \in Flags THEN {} ELSE loaded
                  /\ UNCHANGED <<everB, faults, handled, occ>>
Next == \/ \E f \in {"a", "b"} : LoadOk(f)
        \/ \E e \in Entries : Benign(e) \/ \E g \in {"none", "chain", "waiter"} : LoadFaulty(e, g) \/ Fault(e, g)
        \/ Travel
Spec == Init /\ [][Next]_vars

Count(s, x) == Cardinality({ i \in 1..Len(s) : s[i] = x })
LoggedOnceOnOwnLogger == act = Idle => Count(log, "own") = faults /\ Count(log, "integration") = 0
TriggerStillServes == "a" \in loaded => \A e \in Runtime : serving[e]
OthersUndisturbed == everB => "b" \in loaded
NeverPropagatesIntoHA == ha = "ok"
LoadErrorUnloadsOnlyThatFile == act # Idle /\ act.e \in {"load", "import-load"} => "a" \notin loaded
\* witnesses (to be violated)
\* reachable: escaped faults logged once each, faults the script handled itself logged nowhere, everything still loaded
W_NoFaultCaught == ~(act = Idle /\ faults > 1 /\ handled > 0 /\ Len(log) = faults /\ "a" \in loaded /\ "b" \in loaded)
=============================================================================
