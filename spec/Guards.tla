------------------------------- MODULE Guards -------------------------------
(* C07 model: occurrences of any trigger type pass through the guard stage (GuardCore,      *)
(* flags = {}); the statement is written declaratively over the history of occurrences.     *)
(* Actions: Occur(kind, b) - an occurrence of a state / event / time trigger or a direct     *)
(* call happens now, with entity b having value bv; Tick - time advances.                    *)
EXTENDS GuardCore, Sequences, FiniteSets, TLC

CONSTANTS MaxT, MaxOcc
Windows == { <<>>,
             <<[neg |-> FALSE, s |-> 2, e |-> 5]>>,
             <<[neg |-> TRUE,  s |-> 3, e |-> 4]>>,
             <<[neg |-> FALSE, s |-> 1, e |-> 6], [neg |-> TRUE, s |-> 3, e |-> 4]>>,
             <<[neg |-> FALSE, s |-> 5, e |-> 1]>>,                                   \* wraps
             <<[neg |-> FALSE, s |-> 0, e |-> 1], [neg |-> FALSE, s |-> 4, e |-> 5], [neg |-> TRUE, s |-> 5, e |-> 0]>> }
SAs == { [k |-> "none"], [k |-> "eq", n |-> [e |-> "b", f |-> "v"], c |-> "1"] }

VARIABLES g, gs, now, occs, ran
vars == <<g, gs, now, occs, ran>>

Val(bv) == [cur |-> [e \in Ent |-> [v |-> IF e = "b" THEN bv ELSE "0", x |-> "p"]], old |-> [e \in Ent |-> Unset]]

Init == /\ g \in [sa : SAs, ta : Windows, ho : {NoneT, 0, 2, 3}, flags : {{}}]
        /\ gs = GS0 /\ now = 0 /\ occs = <<>> /\ ran = <<>>

Occur(k, bv) ==
  /\ Len(occs) < MaxOcc
  /\ LET o == [k |-> k, t |-> now, val |-> Val(bv)]
         r == GStep(g, gs, o)
     IN /\ occs' = Append(occs, o) /\ ran' = Append(ran, r.run) /\ gs' = r.gs
  /\ UNCHANGED <<g, now>>
Tick == now < MaxT /\ now' = now + 1 /\ UNCHANGED <<g, gs, occs, ran>>
Next == (\E k \in {"state", "direct"}, bv \in {"0", "1"} : Occur(k, bv)) \/ Tick
Spec == Init /\ [][Next]_vars

\* ---------------- the statement ----------------
N == Len(occs)
Contains(w, t) == IF w.s <= w.e THEN (t >= w.s /\ t <= w.e) ELSE ~(t > w.e /\ t < w.s)
InSomePositive(t) == \E i \in 1..Len(g.ta) : ~g.ta[i].neg /\ Contains(g.ta[i], t)
NoPositive == \A i \in 1..Len(g.ta) : g.ta[i].neg
InSomeNegative(t) == \E i \in 1..Len(g.ta) : g.ta[i].neg /\ Contains(g.ta[i], t)
\* an occurrence runs iff state_active holds on its values, its time lies in at least one positive
\* window (or none is given) and in no negated one, and no *accepted* occurrence is less than ho before it
Accepted(i) == occs[i].k # "direct" /\ ran[i]
ShouldRun(i) ==
  \/ occs[i].k = "direct"
  \/ /\ (g.sa.k = "none" \/ occs[i].val.cur["b"].v = "1")
     /\ (NoPositive \/ InSomePositive(occs[i].t)) /\ ~InSomeNegative(occs[i].t)
     /\ (g.ho = NoneT \/ \A j \in 1..(i - 1) : Accepted(j) => occs[i].t - occs[j].t >= g.ho)
RunIffGuardsPass == \A i \in 1..N : ran[i] <=> ShouldRun(i)
AcceptedSpacing  == g.ho # NoneT => \A i, j \in 1..N : (i < j /\ Accepted(i) /\ Accepted(j)) => occs[j].t - occs[i].t >= g.ho
\* guards never start a run by themselves: the number of runs changes only when an occurrence is consumed
GuardsNeverStartRuns == [][ran' # ran => Len(occs') = Len(occs) + 1]_vars
\* direct calls do not affect hold_off
DirectIsTransparent == [][\A bv \in {"0", "1"} : Occur("direct", bv) => gs' = gs]_vars

\* witnesses (must be violated)
W_NoHoldOffReject == ~\E i \in 1..N : occs[i].k # "direct" /\ ~ran[i] /\ g.ho > 0 /\
                        (g.sa.k = "none" \/ occs[i].val.cur["b"].v = "1") /\ (NoPositive \/ InSomePositive(occs[i].t)) /\ ~InSomeNegative(occs[i].t)
W_NoNegativeReject == ~\E i \in 1..N : occs[i].k # "direct" /\ InSomePositive(occs[i].t) /\ InSomeNegative(occs[i].t)
W_NoWrapAccept == ~\E i \in 1..N : Accepted(i) /\ \E w \in 1..Len(g.ta) : g.ta[w].s > g.ta[w].e /\ Contains(g.ta[w], occs[i].t)
=============================================================================
