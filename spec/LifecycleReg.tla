---------------------------- MODULE LifecycleReg ----------------------------
(* C12, inductive form of  Registered = {s : cnt[s] > 0}  for the reference counting of         *)
(* Function.service_register / service_remove (register: count + 1 and HA entry present;          *)
(* remove: count - 1 while > 1, else count 0 and HA entry removed).  Integers and sets only, for  *)
(* Apalache:  apalache-mc check --cinit=CInit --init=Inv --inv=Inv --length=1 LifecycleReg.tla    *)
(* (inductive step) and  --init=Init --inv=Inv --length=0  (base).  Unbounded counts.             *)
EXTENDS Integers, FiniteSets
CONSTANT
  \* @type: Set(Str);
  Svc
VARIABLES
  \* @type: Str -> Int;
  cnt,
  \* @type: Set(Str);
  registered

CInit == Svc = {"s1", "s2", "s3"}
Init == cnt = [s \in Svc |-> 0] /\ registered = {}
Register(s) == cnt' = [cnt EXCEPT ![s] = @ + 1] /\ registered' = registered \union {s}
Remove(s) == /\ cnt[s] > 0
             /\ IF cnt[s] > 1 THEN cnt' = [cnt EXCEPT ![s] = @ - 1] /\ UNCHANGED registered
                ELSE cnt' = [cnt EXCEPT ![s] = 0] /\ registered' = registered \ {s}
Next == \E s \in Svc : Register(s) \/ Remove(s)
Inv == /\ cnt \in [Svc -> Int] /\ \A s \in Svc : cnt[s] >= 0
       /\ registered = { s \in Svc : cnt[s] > 0 }
=============================================================================
