SPECIFICATION Spec
CONSTANT Chains = 1
INVARIANT Report
CHECK_DEADLOCK FALSE
