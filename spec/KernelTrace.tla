---------------------------- MODULE KernelTrace ----------------------------
(* Trace validation of recorded sessions of the real kernel (C19, T2): a recording is         *)
(* accepted iff it is the `log` of a behaviour of the model (KernelCore with Mech = "spec")    *)
(* that ends quiescent.  The model's actions are reused unchanged; the only additions are the  *)
(* request taken from the recording and the constraint that `log` follows the recording.       *)
(* Steps that log nothing (a cell that does not parse, the handshake) are inferred by TLC.     *)
(* Batch form: one initial state per case; the furthest matched line, a diagnosis of the first *)
(* unmatched one and the acceptance flag are kept in TLC registers (run with -workers 1).      *)
(* A case: [id, trace, closed, io2]  (closed: the kernel closed the shell connection;         *)
(* io2: what a second iopub subscriber received).                                              *)
EXTENDS KernelCore, Json, IOUtils

\* the case file is parsed once (TLC re-evaluates a definition over IOEnv at every use); register 1 holds
\* it, registers 1 + c and 1 + N + c hold the progress and the acceptance flag of case c
ASSUME TLCSet(1, JsonDeserialize(IOEnv.CASES))
Cases == TLCGet(1)
N     == Len(Cases)
R(c)  == 1 + c
A(c)  == 1 + N + c

VARIABLE cid
vars  == <<cid, alive, ecount, pc, cur, todo, phdr, hq, acc, log, inbox, nreq>>
Trace == Cases[cid].trace

Init  == cid \in 1..N /\ KInit
SendT == /\ Len(log) < Len(Trace) /\ Trace[Len(log) + 1].e = "req"
         /\ Send(Trace[Len(log) + 1])
Follows == \/ log' = log
           \/ /\ Len(log') = Len(log) + 1 /\ Len(log') <= Len(Trace)
              /\ log'[Len(log')] = Trace[Len(log')]
Next == (SendT \/ Internal) /\ Follows /\ UNCHANGED cid
Spec == Init /\ [][Next]_vars

Accepting == Len(log) = Len(Trace) /\ Quiescent /\ (Cases[cid].closed <=> ~alive)

\* why the next line of the recording cannot be produced from this state
OriginOut(h) == LET S == { i \in 1..Len(log) : log[i].e = "req" /\ log[i].hdr = h } IN
                IF S = {} THEN "?" ELSE log[CHOOSE i \in S : TRUE].cell.out
Diag ==
  IF Len(log) = Len(Trace)
  THEN (IF hq # <<>> THEN "stdout-lost" ELSE IF pc # "wait" THEN "incomplete-at-" \o pc
        ELSE IF Cases[cid].closed /\ alive THEN "closed-without-forged-request" ELSE "ok")
  ELSE LET x == Trace[Len(log) + 1] IN
       IF x.e = "out" /\ x.t = "stream" /\ hq # <<>> /\ x.text = hq[1].text /\ x.parent # hq[1].origin
         THEN "stdout-parent/" \o (IF OriginOut(hq[1].origin) = "error" THEN "execute-error" ELSE "execute-ok")
       ELSE IF x.e = "out" /\ x.t = "stream" /\ hq # <<>> /\ x.text # hq[1].text
         THEN "stdout-lost-or-reordered"          \* the record at the head of the queue was never published
       ELSE IF x.e = "out" /\ ~x.sigok THEN "bad-signature-on-" \o x.t
       ELSE IF x.e = "out" THEN "unexpected-" \o x.t \o "-at-" \o pc
       ELSE "unexpected-" \o x.e \o "-at-" \o pc

ASSUME \A c \in 1..N : TLCSet(R(c), <<0, "nothing-matched">>) /\ TLCSet(A(c), FALSE)
Track == /\ IF Len(log) >= TLCGet(R(cid))[1] THEN TLCSet(R(cid), <<Len(log), Diag>>) ELSE TRUE
         /\ IF Accepting THEN TLCSet(A(cid), TRUE) ELSE TRUE

IoPub(c) == SelectSeq(c.trace, LAMBDA x : x.e = "out" /\ x.ch = "iopub")
Accepted ==
  /\ PrintT("INFO " \o ToJson([cases |-> N, accepted |-> Cardinality({ c \in 1..N : TLCGet(A(c)) })]))
  /\ \A c \in 1..N :
   IF ~TLCGet(A(c))
     THEN PrintT("REJECT " \o ToJson([id |-> Cases[c].id, line |-> TLCGet(R(c))[1] + 1, why |-> TLCGet(R(c))[2]]))
   ELSE IF IoPub(Cases[c]) # Cases[c].io2
     THEN PrintT("REJECT " \o ToJson([id |-> Cases[c].id, line |-> 0, why |-> "iopub-subscribers-differ"]))
   ELSE TRUE
=============================================================================
