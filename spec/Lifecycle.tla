------------------------------ MODULE Lifecycle ------------------------------
(* C09 / C12: life cycle of decorated functions.                                            *)
(*                                                                                          *)
(* A *generation* is one evaluation of a decorated `def` (top level, Jupyter cell, file     *)
(* load, or a closure created by a factory).  It carries a declaration d:                   *)
(*   d.st   names watched by @state_trigger ("a", "a.old", "a.x", "b", "c": several names   *)
(*          of ONE entity and several entities),  d.ev  event types,                        *)
(*   d.tt   subset of {"startup","shutdown","timer"},  d.svc  service names (aliases),      *)
(*   d.resp supports_response in {"none","optional","only"},  d.sf  how the aliases are     *)
(*          written ("stack": one @service per name, "args": one @service with all names),  *)
(*   d.dup  the service names the function declares TWICE (a declaration is a multiset of   *)
(*          names: @service("a.b", "a.b") / two stacked @service("a.b")): each entry is     *)
(*          registered and counted, all of them go when the function goes.                  *)
(* Generations are referenced from global names (bind), a list L and a dict slot D of their *)
(* global context (cont).  Contexts: c1 (script file), c2 (app), c3 (Jupyter session),      *)
(* c4 (a module, modules/mx.py: NOT loaded until some context imports it - at the top of a   *)
(* file being loaded, by a top-level statement / Jupyter cell of a started context, or       *)
(* inside a running function; it then stays loaded, whatever happens to its importers, until *)
(* its file is removed or the integration is unloaded).                                     *)
(* A file / app / module whose top level RAISES after some of its definitions were evaluated *)
(* is not loaded: nothing it defined is active afterwards (fail = TRUE).                     *)
(* Service names are spelled as written ("S3" has an upper-case letter; HA folds the name,   *)
(* the script does not): one name, one count, one owner, whatever the spelling.             *)
(*                                                                                          *)
(* The resource tables are explicit: service registry (cnt = reference count, own = owning  *)
(* context, hd = generation whose callback HA holds), state subscriptions per *entity*      *)
(* (subs), bus listeners (lst), timers (tm), per-generation startup/shutdown counters.      *)
(*                                                                                          *)
(* flags = {} is the INTENDED rule (the specification).  What the code does differently is  *)
(* a named deviation flag:                                                                  *)
(*  "service-handler-not-repointed"  removing a declaration leaves HA's handler unchanged   *)
(*        unless the count drops to 0: with two live declarations of one name, deleting the *)
(*        newer one leaves the service running the deleted function (both subsystems)       *)
(*  "notify-del-returns-early"  State.notify_del returns at the first name whose entity was *)
(*        already unsubscribed: other entities keep a dead queue (order = hash seed)         *)
(*  "dm-delayed-start-ignores-drop"  (dm) a definition overwritten/deleted while its context*)
(*        is still loading (validated, start delayed) is started anyway with the context    *)
(*  "dm-start-order-arbitrary"  (dm) delayed managers are started in set order: with two     *)
(*        definitions of one service in one file the handler is either of them              *)
(*  "dm-service-owner-is-evaluator-name"  (dm) @service of a closure created inside a        *)
(*        running function registers under the evaluator's name, not the global context's:  *)
(*        a legitimate re-registration is refused as a foreign take-over                    *)
(*  "dm-service-multi-arg-rejected"  (dm) @service("a.b", "c.d") (documented) is refused      *)
(*  "legacy-stop-before-first-run-leaks"  (legacy) a function stopped before its trigger    *)
(*        task ran its first step (deleted / redefined / context closed right after the     *)
(*        start, no quiescence in between): TrigInfo.stop finds nothing to unsubscribe, the *)
(*        task then subscribes and is cancelled - the queues and the bus listener stay      *)
(*  "session-import-module-not-started"  a module imported by a Jupyter CELL is loaded while *)
(*        the session's auto-start is switched off for the cell: its functions are delayed  *)
(*        and nobody starts them (until an unrelated pyscript.reload starts every context)   *)
(*  "service-bookkeeping-keyed-by-spelling"  counts and owners are kept per SPELLING of a     *)
(*        service name while HA folds names: two live declarations that spell one name        *)
(*        differently ("pyscript.s1" / "pyscript.S1") do not share a count - removing one     *)
(*        unregisters the service the other still declares, and a second context takes the    *)
(*        name over.  (d.alt = the declaration spells its names the other way; the intended   *)
(*        rule does not look at it; what the code does from such a collision on is not        *)
(*        modelled: the acceptor judges the recording up to that step, see LifecycleTrace)    *)
(*                                                                                          *)
(*  "dm-stop-only-scheduled"  (dm; NOT present in the pinned tree: the model of what the      *)
(*        same-tick rule excludes) the stop of a function whose last reference went away is   *)
(*        only scheduled: until the event loop runs it the function keeps its listeners,       *)
(*        queues and services, and an occurrence delivered in that window runs it              *)
(*                                                                                          *)
(* Tick: a structural script statement (def, del, rebind, container store / removal) may be  *)
(* followed BY THE SAME SCRIPT, without yielding to the event loop, by an occurrence (it      *)
(* fires an event, sets a state, calls a service): tick = TRUE between the two, cold = the     *)
(* generations whose last reference went away with the statement, hot = the generations the    *)
(* statement created.  INTENDED ("... deactivates them, after which no occurrence runs the     *)
(* old function"): the occurrence runs no cold generation - the deactivation has released     *)
(* the subscriptions / listeners / services when the deleting statement returns (only the      *)
(* end of the trigger task - its timer, its shutdown run - may come later); every other live   *)
(* generation runs as at a quiescent point; whether a generation created by the very same      *)
(* statement already reacts is not specified (it may or may not run).                         *)
(*                                                                                          *)
(* Rush: a structural action may be followed by the next one before quiescence (quiet =     *)
(* FALSE; hot = generations whose start is still in progress).  INTENDED: the result is the *)
(* same as with quiescence in between - a stopped function / manager starts nothing more.   *)
(*                                                                                          *)
(* Eager = TRUE: deactivation completes within the action (what is compared with the code,  *)
(* which is sampled at quiescence and - Tick - right behind the statement).  Eager = FALSE:  *)
(* the END of a deactivation is deferred: subscriptions, listeners and services are released *)
(* at once (both subsystems), the trigger task ends later - StopDeferred (dm) / ReaperCancel *)
(* (legacy: cancelled through the reaper) remove its timer and make the shutdown run;        *)
(* occurrences may arrive in the window and must not run the pending generation.  The other  *)
(* invariants constrain quiescent states only.                                              *)
EXTENDS Integers, Sequences, FiniteSets, TLC

CONSTANTS MaxGen, MaxSteps, Ctx, Name, FlagSets, SubSet, StartedSet, Eager, DeclSet, Acts,
          MaxDefs,     \* definitions per file content (0..2)
          Vias,        \* how closures are created: subset of {"exec", "run"}
          Rush         \* TRUE: the next action may be issued before the previous one has become quiescent

Session == "c3"
Module == "c4"
Svc == {"s1", "s2", "S3"}
Ev  == {"e1", "e2"}
Ent == {"a", "b", "c"}
EntOf(n) == IF n \in {"a", "a.old", "a.x"} THEN "a" ELSE IF n \in {"b", "b.old"} THEN "b" ELSE "c"
Ents(d) == { EntOf(n) : n \in d.st }
NoOwner == "-"
AllFlags == {"legacy-stop-before-first-run-leaks", "service-handler-not-repointed", "notify-del-returns-early", "dm-delayed-start-ignores-drop",
             "dm-start-order-arbitrary", "dm-service-owner-is-evaluator-name", "dm-service-multi-arg-rejected",
             "session-import-module-not-started", "service-bookkeeping-keyed-by-spelling", "dm-stop-only-scheduled"}

Dc(st, ev, tt, svc, resp, sf) == [st |-> st, ev |-> ev, tt |-> tt, svc |-> svc, resp |-> resp, sf |-> sf, alt |-> FALSE, dup |-> {}]
\* how often the declaration d lists the service name s
Mult(d, s) == IF s \notin d.svc THEN 0 ELSE IF s \in d.dup THEN 2 ELSE 1
\* the declarations; a configuration selects some by index (constant DeclSet)
DeclList == <<
  Dc({}, {}, {}, {"s1"}, "none", "stack"),                                        \*  1 service
  Dc({}, {}, {}, {"s1"}, "optional", "stack"),                                    \*  2 service returning a response
  Dc({}, {}, {}, {"s1", "s2"}, "only", "stack"),                                  \*  3 two aliases, response only
  Dc({}, {"e1"}, {}, {"s2"}, "none", "stack"),                                    \*  4 service + event trigger
  Dc({"a"}, {}, {}, {}, "none", "stack"),                                         \*  5 any change of one entity
  Dc({"a", "a.old", "b"}, {"e1"}, {}, {}, "none", "stack"),                       \*  6 two names of one entity + another entity
  Dc({}, {"e1"}, {"startup", "shutdown"}, {}, "none", "stack"),                   \*  7 startup / shutdown
  Dc({"b"}, {}, {"timer"}, {"s1"}, "none", "stack"),                              \*  8 timer + state + service
  Dc({"a", "a.old", "b", "c"}, {}, {}, {}, "none", "stack"),                      \*  9 the notify_del witness
  Dc({"b"}, {}, {}, {}, "none", "stack"),                                         \* 10
  Dc({}, {"e1"}, {}, {"s1", "s2"}, "none", "args"),                               \* 11 aliases as arguments of one @service
  Dc({"a", "a.old", "a.x", "b", "c"}, {"e2"}, {"startup"}, {"s2"}, "optional", "stack"),   \* 12 everything
  Dc({"c"}, {"e1", "e2"}, {"shutdown", "timer"}, {}, "none", "stack"),            \* 13
  Dc({}, {}, {"startup", "shutdown"}, {"s1", "s2"}, "optional", "args"),          \* 14
  Dc({}, {}, {}, {"s2"}, "only", "stack"),                                        \* 15
  Dc({"b", "c"}, {"e2"}, {"startup"}, {}, "none", "stack"),                       \* 16
  Dc({}, {}, {}, {"S3"}, "none", "stack"),                                        \* 17 a name with an upper-case letter
  Dc({}, {"e2"}, {}, {"s1", "S3"}, "optional", "stack"),                          \* 18
  Dc({"a"}, {"e1"}, {"startup"}, {"s2", "S3"}, "none", "args"),                   \* 19
  [Dc({}, {}, {}, {"s1"}, "none", "stack") EXCEPT !.alt = TRUE],                  \* 20 "pyscript.S1": the same name as in 1
  [Dc({}, {"e1"}, {}, {"s2", "S3"}, "optional", "stack") EXCEPT !.alt = TRUE],    \* 21 "pyscript.S2", "pyscript.s3"
  [Dc({}, {}, {}, {"s1"}, "none", "args") EXCEPT !.dup = {"s1"}],                 \* 22 @service("pyscript.s1", "pyscript.s1")
  [Dc({}, {"e1"}, {}, {"s1", "s2"}, "optional", "stack") EXCEPT !.dup = {"s2"}],  \* 23 s2 stacked twice, s1 once
  [Dc({"a"}, {}, {}, {"s1", "S3"}, "none", "args") EXCEPT !.dup = {"s1", "S3"}] >>  \* 24 both names twice
AllDecls == 1..Len(DeclList)
\* declarations outside the loci of the known deviations (one name per entity; several names as arguments of one
\* @service are no longer masked: repaired in the code)
MaskedDecls == { i \in AllDecls : Cardinality(Ents(DeclList[i])) = Cardinality(DeclList[i].st) /\ ~DeclList[i].alt /\ DeclList[i].dup = {} }
Decls == { DeclList[i] : i \in DeclSet }
Data == {"-", "p=1", "p=2,q=x"}
\* Outgoing service calls from scripts (service.call(domain, name, **kw) and domain.name(**kw)).  A keyword is
\* [k, t, v]: name, type of the value ("str" | "int" | "bool" | "none" | "ctx" = a Context object), value as text.
\* RULE: a keyword is an option of the call iff it is one of the three names context / blocking / return_response
\* AND its value has the qualifying type (Context, bool, bool); every other keyword - in particular a keyword of
\* one of these names with a value of another type - is a service parameter and is delivered as data unchanged.
Kw(k, t, v) == [k |-> k, t |-> t, v |-> v]
IsOption(kw) == \/ kw.k = "context" /\ kw.t = "ctx"
                \/ kw.k \in {"blocking", "return_response"} /\ kw.t = "bool"
\* the keyword sets tried (each sorted by name): ordinary parameters, options of qualifying type, and parameters
\* that are merely NAMED like options
OutGives == {
  <<Kw("p", "str", "1")>>,
  <<Kw("p", "str", "2"), Kw("q", "str", "x")>>,
  <<Kw("blocking", "bool", "True"), Kw("p", "str", "1")>>,
  <<Kw("p", "str", "2"), Kw("q", "str", "x"), Kw("return_response", "bool", "False")>>,
  <<Kw("blocking", "bool", "False")>>,
  <<Kw("context", "str", "evening"), Kw("level", "int", "3")>>,
  <<Kw("blocking", "str", "later"), Kw("p", "str", "1")>>,
  <<Kw("blocking", "int", "0"), Kw("context", "none", "None"), Kw("return_response", "int", "3")>>,
  <<Kw("context", "ctx", "vfctx"), Kw("p", "str", "1")>>,
  <<Kw("blocking", "bool", "True"), Kw("context", "ctx", "vfctx"), Kw("return_response", "bool", "True"), Kw("x", "int", "1")>>,
  <<Kw("return_response", "str", "no"), Kw("x", "int", "1")>>,
  <<Kw("blocking", "none", "None"), Kw("return_response", "bool", "True")>> }
\* what the called service must see: data = the non-option keywords (name, type, value unchanged); ctx = the call
\* ran under the given Context; blk = the caller waited for the service (blocking given, else implied by
\* return_response=True, else HA's default: no); rsp = the service's response came back to the script
NoOut == [data |-> <<>>, ctx |-> FALSE, blk |-> FALSE, rsp |-> FALSE]
OutExpect(give) ==
  LET opt(name) == { i \in 1..Len(give) : give[i].k = name /\ IsOption(give[i]) }
      isTrue(name) == \E i \in opt(name) : give[i].v = "True"
      NotOption(kw) == ~IsOption(kw)
  IN [ data |-> SelectSeq(give, NotOption),
       ctx  |-> opt("context") # {},
       blk  |-> IF opt("blocking") # {} THEN isTrue("blocking") ELSE isTrue("return_response"),
       rsp  |-> isTrue("return_response") ]
OutForms == {"name", "call"}

VARIABLES flags, sub, started, unloaded, loaded, G, bind, cont, cnt, own, hd, subs, lst, tm,
          runs, res, steps, lastAct, quiet, hot,
          imp,         \* file / app contexts whose present incarnation has imported the module
          tick,        \* TRUE: the script that made the last step has not yielded yet and now produces an occurrence
          cold         \* tick: generations whose deactivation the last step began (their last reference went away)
vars == <<flags, sub, started, unloaded, loaded, G, bind, cont, cnt, own, hd, subs, lst, tm,
          runs, res, steps, lastAct, quiet, hot, imp, tick, cold>>
\* G[g] = [c, d, via, s, su, sd]: context, declaration, how created ("exec" | "run" | "file"), status, startup/
\*   shutdown run counters.  status: "delayed" (context not started yet) | "zdelayed" (delayed, lost its last
\*   reference, will be started anyway: deviation) | "live" | "zombie" (live without reference: deviation) |
\*   "pending" (deactivation deferred, Eager = FALSE) | "dead" (was active) | "dropped" (never active) |
\*   "inert" (referenced, activation refused: another context owns a service name) | "spurious" (referenced,
\*   activation refused by a deviation)
\* runs = runs caused by the LAST step (set of [g, k, x, data]);  res = result of the last Call / Out
\* Occurrences (Fire / SetState / Call / Out) change runs and res only and do not count as steps: with VIEW they
\* are leaves of the exhaustive search; what they run is constrained by action properties.

Range(s) == { s[i] : i \in 1..Len(s) }
Res(k, g, data) == [k |-> k, g |-> g, data |-> data, o |-> NoOut]
NoRes == Res("-", 0, "-")
EmptyCont == [L |-> <<>>, D |-> 0]
Run(g, k, x, data) == [g |-> g, k |-> k, x |-> x, data |-> data]
MaxOf(S) == CHOOSE x \in S : \A y \in S : y <= x
SortedSeq(S) == LET RECURSIVE F(_)
                    F(T) == IF T = {} THEN <<>> ELSE LET m == CHOOSE x \in T : \A y \in T : x <= y IN <<m>> \o F(T \ {m})
                IN F(S)
Gen == 1..Len(G)
IsActive(st) == st \in {"live", "zombie", "pending"}

RefIn(g, b, k) == \E c \in Ctx : (\E n \in Name : b[c][n] = g) \/ g \in Range(k[c].L) \/ k[c].D = g
Referenced(g) == RefIn(g, bind, cont)

Init == /\ flags \in FlagSets /\ sub \in SubSet /\ started \in StartedSet /\ unloaded = FALSE /\ loaded = Ctx \ {Module}
        /\ imp = {} /\ tick = FALSE /\ cold = {}
        /\ G = <<>> /\ bind = [c \in Ctx |-> [n \in Name |-> 0]] /\ cont = [c \in Ctx |-> EmptyCont]
        /\ cnt = [s \in Svc |-> 0] /\ own = [s \in Svc |-> NoOwner] /\ hd = [s \in Svc |-> 0]
        /\ subs = [x \in Ent |-> {}] /\ lst = [e \in Ev |-> {}] /\ tm = {}
        /\ runs = {} /\ res = NoRes /\ quiet = TRUE /\ hot = {} /\ steps = 0 /\ lastAct = [a |-> "init"]

\* ------------------------------------------------------------------ activation / deactivation
Cur == [G |-> G, cnt |-> cnt, own |-> own, hd |-> hd, subs |-> subs, lst |-> lst, tm |-> tm, runs |-> {}]

RegCtx(w, g) == IF "dm-service-owner-is-evaluator-name" \in flags /\ sub = "dm" /\ w.G[g].via = "run"
                THEN w.G[g].c \o "!run" ELSE w.G[g].c
Refused(d) == "dm-service-multi-arg-rejected" \in flags /\ sub = "dm" /\ d.sf = "args" /\ Cardinality(d.svc) >= 2
Conflict(w, g) == \E s \in w.G[g].d.svc : w.own[s] \notin {NoOwner, RegCtx(w, g)}
\* a generation whose deactivation is pending holds no registrations any more (released at once, only the task
\* remains) - except under the deviation "the stop is only scheduled" (dm), where everything goes at StopDeferred
DmLate == "dm-stop-only-scheduled" \in flags /\ sub = "dm"
HoldsTables(st) == st \in {"live", "zombie"} \/ (st = "pending" /\ DmLate)
Declarers(w, s) == { h \in 1..Len(w.G) : HoldsTables(w.G[h].s) /\ s \in w.G[h].d.svc }

\* start the triggers and register the services of g (register: count + 1, HA holds g's callback)
Activate(w, g, zombie) ==
  LET d == w.G[g].d IN
  IF Refused(d) \/ Conflict(w, g)
  THEN \* "inert": refused because ANOTHER context owns a name (intended); "spurious": refused by a deviation
       [w EXCEPT !.G[g].s = IF ~Refused(d) /\ \E s \in d.svc : w.own[s] \notin {NoOwner, w.G[g].c, w.G[g].c \o "!run"}
                            THEN "inert" ELSE "spurious"]
  ELSE [w EXCEPT !.G[g].s = IF zombie THEN "zombie" ELSE "live",
                 !.G[g].su = IF "startup" \in d.tt THEN @ + 1 ELSE @,
                 !.cnt = [s \in Svc |-> @[s] + Mult(d, s)],
                 !.own = [s \in Svc |-> IF s \in d.svc THEN RegCtx(w, g) ELSE @[s]],
                 !.hd  = [s \in Svc |-> IF s \in d.svc THEN g ELSE @[s]],
                 !.subs = [x \in Ent |-> IF x \in Ents(d) THEN @[x] \cup {g} ELSE @[x]],
                 !.lst = [e \in Ev |-> IF e \in d.ev THEN @[e] \cup {g} ELSE @[e]],
                 !.tm  = IF "timer" \in d.tt THEN @ \cup {g} ELSE @,
                 !.runs = IF "startup" \in d.tt THEN @ \cup {Run(g, "startup", "-", "-")} ELSE @]

\* release everything g holds.  leak: entities whose subscription is NOT released (deviation only).
\* INTENDED: the handler of a service that is still declared becomes the latest remaining declaration.
\* keep: nothing of g's subscriptions / listeners is released (deviation only)
Release(w, g, leak, newStatus, keep) ==
  LET d == w.G[g].d
      cnt1 == [s \in Svc |-> w.cnt[s] - Mult(d, s)]
      rest(s) == Declarers(w, s) \ {g}
  IN [w EXCEPT !.G[g].s = newStatus,
               !.cnt = cnt1,
               !.own = [s \in Svc |-> IF cnt1[s] = 0 THEN NoOwner ELSE @[s]],
               !.hd  = [s \in Svc |-> IF s \notin d.svc THEN @[s]
                                      ELSE IF cnt1[s] = 0 \/ rest(s) = {} THEN 0
                                      ELSE IF "service-handler-not-repointed" \in flags THEN @[s]
                                      ELSE MaxOf(rest(s))],
               !.subs = [x \in Ent |-> IF ~keep /\ x \in Ents(d) \ leak THEN @[x] \ {g} ELSE @[x]],
               !.lst = [e \in Ev |-> IF keep THEN @[e] ELSE @[e] \ {g}]]
Finish(w, g) ==        \* the trigger task ends: its timer goes, the shutdown run is made
  LET d == w.G[g].d IN
  [w EXCEPT !.G[g].s = "dead", !.G[g].sd = IF "shutdown" \in d.tt THEN @ + 1 ELSE @,
            !.tm = @ \ {g},
            !.runs = IF "shutdown" \in d.tt THEN @ \cup {Run(g, "shutdown", "-", "-")} ELSE @]
Deactivate(w, g, leak, keep) ==
  IF Eager THEN Finish(Release(w, g, leak, "dead", keep), g)
  ELSE IF ~DmLate THEN Release(w, g, leak, "pending", keep)          \* subscriptions/services released at once
  ELSE [w EXCEPT !.G[g].s = "pending"]                           \* deviation (dm): everything stays until StopDeferred

RECURSIVE SumMult(_, _)
SumMult(S, s) == IF S = {} THEN 0 ELSE LET g == CHOOSE x \in S : TRUE IN Mult(G[g].d, s) + SumMult(S \ {g}, s)
RECURSIVE FoldAct(_, _, _), FoldDeact(_, _, _, _)
FoldAct(w, q, zs) == IF q = <<>> THEN w ELSE FoldAct(Activate(w, Head(q), Head(q) \in zs), Tail(q), zs)
\* (a new generation that is unreferenced when the step completes ends with it, provided it was activated at all)
FoldDeact(w, q, lk, hk) == IF q = <<>> THEN w
                           ELSE FoldDeact(IF w.G[Head(q)].s \in {"live", "zombie"} THEN Deactivate(w, Head(q), lk[Head(q)], Head(q) \in hk) ELSE w,
                                          Tail(q), lk, hk)

\* entities that may keep a dead queue when the deviation is present: the iteration over the name set stops at
\* the first name whose entity was already handled, i.e. behind a prefix of names with distinct entities
PossibleLeaks(d) == LET E == Ents(d)
                        multi == { e \in E : Cardinality({ n \in d.st : EntOf(n) = e }) >= 2 }
                    IN { lk \in SUBSET E : lk = {} \/ multi \ lk # {} }
RECURSIVE LeakFnsX(_, _)
LeakFnsX(GG, S) == IF S = {} THEN { [g \in {} |-> {}] }
                   ELSE LET g == CHOOSE x \in S : TRUE
                            ch == IF "notify-del-returns-early" \in flags THEN PossibleLeaks(GG[g].d) ELSE {{}}
                        IN { (g :> l) @@ f : l \in ch, f \in LeakFnsX(GG, S \ {g}) }
LeakFns(S) == LeakFnsX(G, S)

\* generations that end with this step: live ones without reference, and whatever a stopped context still runs;
\* also a NEW generation that is activated at once ("new") and not referenced when the step completes (the
\* definitions of a module whose top level fails after them, imported by a started context)
DeadOfX(GG, b1, k1, stopC) == { g \in 1..Len(GG) : \/ GG[g].s \in {"live", "new"} /\ ~RefIn(g, b1, k1)
                                                   \/ GG[g].s = "zombie" /\ GG[g].c \in stopC }
DeadOf(b1, k1, stopC) == DeadOfX(G, b1, k1, stopC)

\* The common transition: new bindings b1 / containers k1, new generations newG (appended), contexts stopped
\* (stopC) and contexts started at the end (startC); lk = leak choice per ending generation.
\* Order as in the code: new definitions of a started context are activated first (register before remove),
\* then generations without reference are deactivated, then delayed ones are started with their context.
Trans(b1, k1, newG, stopC, startC, lk, hk) ==
  LET n0  == Len(G)
      G1  == G \o newG
      new == (n0 + 1)..Len(G1)
      now == { g \in new : G1[g].s = "new" }                                   \* activated immediately
      w1  == FoldAct([Cur EXCEPT !.G = G1], SortedSeq(now), {})
      w2  == FoldDeact(w1, SortedSeq(DeadOfX(G1, b1, k1, stopC)), lk, hk)
      zflag == "dm-delayed-start-ignores-drop" \in flags /\ sub = "dm"
      \* delayed / inert generations that lost their reference
      G3  == [g \in 1..Len(G1) |->
                LET r == w2.G[g] IN
                IF g <= n0 /\ r.s \in {"delayed", "zdelayed"} /\ r.c \in stopC THEN [r EXCEPT !.s = "dropped"]
                ELSE IF r.s = "delayed" /\ ~RefIn(g, b1, k1) THEN [r EXCEPT !.s = IF zflag THEN "zdelayed" ELSE "dropped"]
                ELSE IF r.s \in {"inert", "spurious"} /\ ~RefIn(g, b1, k1) THEN [r EXCEPT !.s = "dropped"]
                ELSE r]
      w3  == [w2 EXCEPT !.G = G3]
      go  == { g \in 1..Len(G1) : G3[g].s \in {"delayed", "zdelayed"} /\ G3[g].c \in startC }
  IN FoldAct(w3, SortedSeq(go), { g \in go : G3[g].s = "zdelayed" })

\* generations started with their context in this step, per service (for the start-order deviation)
StartedNow(w, s) == { g \in 1..Len(w.G) : /\ IsActive(w.G[g].s) /\ s \in w.G[g].d.svc
                                          /\ (g > Len(G) \/ G[g].s \in {"delayed", "zdelayed"}) }
\* Deviations that make the handler nondeterministic: the start order of delayed managers; and - with handlers
\* that are not re-pointed - a manager whose start is still in progress (hot) may register its services AFTER a
\* newer definition did, so HA keeps the older (possibly already stopped) generation's callback.
HdChoices(w, delayedStart) ==
  LET order == delayedStart /\ "dm-start-order-arbitrary" \in flags /\ sub = "dm"
      late  == "service-handler-not-repointed" \in flags /\ sub = "dm" /\ hot # {}
      ch(s) == { w.hd[s] }
               \cup (IF order /\ Cardinality(StartedNow(w, s)) >= 2 THEN StartedNow(w, s) ELSE {})
               \cup (IF late /\ w.cnt[s] > 0 THEN { h \in hot : s \in G[h].d.svc } ELSE {})
  IN IF order \/ late THEN { f \in [Svc -> 0..Len(w.G)] : \A s \in Svc : f[s] \in ch(s) } ELSE { w.hd }

\* statements of a script that the same script can follow by an occurrence before it yields (Tick)
TickActs == {"define", "del", "rebind", "push", "pop", "clear"}
StepC(a) == /\ steps < MaxSteps /\ steps' = steps + 1 /\ UNCHANGED <<flags, sub>>
            /\ quiet' \in (IF Rush THEN BOOLEAN ELSE {TRUE})
            /\ tick' \in (IF "tick" \in Acts /\ a.a \in TickActs /\ quiet /\ quiet' THEN BOOLEAN ELSE {FALSE})
            /\ lastAct' = a @@ [tick |-> tick']
Step(a) == ~unloaded /\ ~tick /\ StepC(a)
Quiescent == \A g \in Gen : G[g].s # "pending"
\* generations that may keep everything they subscribed: stopped while their start was still in progress
KeepChoices(dead) == IF "legacy-stop-before-first-run-leaks" \in flags /\ sub = "legacy" THEN SUBSET (dead \cap hot) ELSE {{}}
Apply(b1, k1, newG, stopC, startC, delayedStart) ==
  \E lk \in LeakFnsX(G \o newG, DeadOfX(G \o newG, b1, k1, stopC)), hk \in KeepChoices(DeadOf(b1, k1, stopC)) :
    LET w == Trans(b1, k1, newG, stopC, startC, lk, hk) IN
    \E h \in HdChoices(w, delayedStart) :
      /\ hot' = IF quiet' /\ ~tick' THEN {} ELSE { g \in 1..Len(w.G) : w.G[g].s = "live" /\ (g > Len(G) \/ G[g].s # "live") }
      /\ cold' = IF tick' THEN { g \in Gen : G[g].s \in {"live", "zombie"} /\ w.G[g].s \notin {"live", "zombie"} } ELSE {}
      /\ G' = w.G /\ cnt' = w.cnt /\ own' = w.own /\ hd' = h /\ subs' = w.subs /\ lst' = w.lst /\ tm' = w.tm
      /\ runs' = w.runs /\ res' = NoRes
      /\ bind' = b1 /\ cont' = k1

NewGen(c, d, via) == [c |-> c, d |-> d, via |-> via, s |-> "new", su |-> 0, sd |-> 0]
\* A Jupyter cell is evaluated with auto-start off and the context is started after the cell: in dm the new
\* definition's manager starts only then, i.e. AFTER the generation it replaces has been stopped (legacy registers
\* services at definition time in every case).  Without deviations the result is the same.
CellDelays(c) == c = Session /\ sub = "dm"
\* (a closure created inside a running function is not created by a cell: it starts at once)
ExecGen(c, d, via) == IF CellDelays(c) /\ via = "exec" THEN [NewGen(c, d, via) EXCEPT !.s = "delayed"] ELSE NewGen(c, d, via)
ExecStart(c, via) == IF CellDelays(c) /\ via = "exec" THEN {c} ELSE {}
\* cross-context conflicts are generated only for declarations with ONE service (what happens to the other
\* decorators of a refused function is not specified and differs between the subsystems)
\* a declaration that spells a name differently from a declaration of that name which holds registrations now
\* (exc: contexts whose generations end before the new declaration is evaluated - the context being reloaded)
SpellingCollisionX(d, exc) == \E h \in Gen : /\ HoldsTables(G[h].s) /\ G[h].c \notin exc
                                              /\ G[h].d.svc \cap d.svc # {} /\ G[h].d.alt # d.alt
SpellingCollision(d) == SpellingCollisionX(d, {})
SpellingCollisionIn(defs, exc) ==
  \/ \E i \in 1..Len(defs) : SpellingCollisionX(defs[i].d, exc)
  \/ \E i, j \in 1..Len(defs) : defs[i].d.svc \cap defs[j].d.svc # {} /\ defs[i].d.alt # defs[j].d.alt
OwnedElsewhere(c, s) == own[s] \notin {NoOwner, c, c \o "!run"}
ConflictOK(c, d) == (\E s \in d.svc : OwnedElsewhere(c, s)) => Cardinality(d.svc) = 1
ExecOK(c) == started /\ c \in loaded

\* ------------------------------------------------------------------ actions
Define(c, n, d) ==        \* def / redefinition of global name n (top level statement, Jupyter cell)
  /\ "define" \in Acts /\ ExecOK(c) /\ Len(G) < MaxGen /\ ConflictOK(c, d)
  /\ Step([a |-> "define", c |-> c, n |-> n, d |-> d, g |-> Len(G) + 1])
  /\ Apply([bind EXCEPT ![c][n] = Len(G) + 1], cont, <<ExecGen(c, d, "exec")>>, {}, ExecStart(c, "exec"), FALSE)
  /\ UNCHANGED <<started, unloaded, loaded, imp>>

Del(c, n) ==
  /\ "del" \in Acts /\ ExecOK(c) /\ bind[c][n] # 0 /\ Step([a |-> "del", c |-> c, n |-> n])
  /\ Apply([bind EXCEPT ![c][n] = 0], cont, <<>>, {}, {}, FALSE)
  /\ UNCHANGED <<started, unloaded, loaded, imp>>

Rebind(c, n, m) ==        \* n = m : a second reference, or overwriting the last reference of n's old value
  /\ "rebind" \in Acts /\ ExecOK(c) /\ n # m /\ bind[c][m] # 0 /\ bind[c][n] # bind[c][m]
  /\ Step([a |-> "rebind", c |-> c, n |-> n, m |-> m])
  /\ Apply([bind EXCEPT ![c][n] = bind[c][m]], cont, <<>>, {}, {}, FALSE)
  /\ UNCHANGED <<started, unloaded, loaded, imp>>

\* closure created by a factory and stored in the list L / the dict slot D["k"]; via = "run": the factory is
\* called inside a running (triggered) function instead of a top level statement
Push(c, d, where, via) ==
  /\ "push" \in Acts /\ ExecOK(c) /\ Len(G) < MaxGen /\ ConflictOK(c, d)
  /\ where = "L" => Len(cont[c].L) < 2
  /\ via = "run" => d.tt = {} /\ Cardinality(d.svc) <= 1
  /\ Step([a |-> "push", c |-> c, d |-> d, where |-> where, via |-> via, g |-> Len(G) + 1])
  /\ Apply(bind, IF where = "L" THEN [cont EXCEPT ![c].L = Append(@, Len(G) + 1)] ELSE [cont EXCEPT ![c].D = Len(G) + 1],
           <<ExecGen(c, d, via)>>, {}, ExecStart(c, via), FALSE)
  /\ UNCHANGED <<started, unloaded, loaded, imp>>

Pop(c) ==
  /\ "pop" \in Acts /\ ExecOK(c) /\ cont[c].L # <<>> /\ Step([a |-> "pop", c |-> c])
  /\ Apply(bind, [cont EXCEPT ![c].L = SubSeq(@, 1, Len(@) - 1)], <<>>, {}, {}, FALSE)
  /\ UNCHANGED <<started, unloaded, loaded, imp>>

Clear(c, where) ==
  /\ "clear" \in Acts /\ ExecOK(c) /\ (IF where = "L" THEN cont[c].L # <<>> ELSE cont[c].D # 0)
  /\ Step([a |-> "clear", c |-> c, where |-> where])
  /\ Apply(bind, IF where = "L" THEN [cont EXCEPT ![c].L = <<>>] ELSE [cont EXCEPT ![c].D = 0], <<>>, {}, {}, FALSE)
  /\ UNCHANGED <<started, unloaded, loaded, imp>>

\* (re)write the file of context c with the given definitions and reload: everything of the old context ends,
\* the definitions are evaluated in order while the context is not started, then the context is started
ContentOK(c, defs) ==
  /\ \A i \in 1..Len(defs) : ConflictOK(c, defs[i].d)
  \* a definition overwritten during the load never starts; whether its shutdown trigger runs is not specified
  /\ \A i \in 1..Len(defs) : (\E j \in (i + 1)..Len(defs) : defs[j].n = defs[i].n) => "shutdown" \notin defs[i].d.tt
SvcOf(defs) == UNION { defs[i].d.svc : i \in 1..Len(defs) }
\* global names bound by a content: the last definition of each name; generations numbered off + 1 ...
BindOf(defs, off) == [n \in Name |-> LET last == { i \in 1..Len(defs) : defs[i].n = n } IN
                                     IF last = {} THEN 0 ELSE off + MaxOf(last)]
NoBind == [n \in Name |-> 0]
\* A content that FAILS: its top level raises after the listed definitions were evaluated (what would follow is
\* never evaluated).  The context is then not loaded and none of the definitions is ever active.  (The legacy
\* subsystem runs the shutdown trigger of a function that never started: not specified, not generated.)
FailOK(defs, fail) == fail => ("fail" \in Acts /\ \A i \in 1..Len(defs) : "shutdown" \notin defs[i].d.tt)
\* the module's content when it is loaded by an import executed in a STARTED context: every definition is
\* activated as it is evaluated (no definition of a name twice: the first would live for a moment)
DistinctNames(defs) == \A i, j \in 1..Len(defs) : i # j => defs[i].n # defs[j].n
\* im: the file begins with "import mx"; mdefs = the module's content if that import loads it (else <<>>).  The
\* module is loaded while its importer is, i.e. delayed, and started with it; it stays loaded when the importer's
\* own top level fails later.  Module and importer declaring one service in one load: not generated (as in Boot).
Reload(c, defs, fail, im, mdefs) ==
  /\ "reload" \in Acts /\ started /\ c \notin {Session, Module}
  /\ Len(G) + Len(defs) + Len(mdefs) <= MaxGen /\ ContentOK(c, defs) /\ FailOK(defs, fail)
  /\ IF im THEN /\ "import" \in Acts /\ Module \in Ctx
                /\ IF Module \in loaded THEN mdefs = <<>>
                   ELSE ContentOK(Module, mdefs) /\ SvcOf(mdefs) \cap SvcOf(defs) = {}
     ELSE mdefs = <<>>
  /\ Step([a |-> "reload", c |-> c, defs |-> defs, fail |-> fail, im |-> im, mdefs |-> mdefs, g |-> Len(G) + 1,
           fresh |-> im /\ Module \notin loaded])      \* fresh: the module's file is (re)written for this step
  /\ LET nm == Len(mdefs)
         modNew == im /\ Module \notin loaded
         b0 == [bind EXCEPT ![c] = IF fail THEN NoBind ELSE BindOf(defs, Len(G) + nm)]
         b1 == IF modNew THEN [b0 EXCEPT ![Module] = BindOf(mdefs, Len(G))] ELSE b0
         newG == [i \in 1..(nm + Len(defs)) |->
                    IF i <= nm THEN [NewGen(Module, mdefs[i].d, "file") EXCEPT !.s = "delayed"]
                    ELSE [NewGen(c, defs[i - nm].d, "file") EXCEPT !.s = IF fail THEN "dropped" ELSE "delayed"]]
     IN /\ Apply(b1, [cont EXCEPT ![c] = EmptyCont], newG, {c}, {c} \cup (IF modNew THEN {Module} ELSE {}), TRUE)
        /\ loaded' = (IF fail THEN loaded \ {c} ELSE loaded \cup {c}) \cup (IF modNew THEN {Module} ELSE {})
        /\ imp' = IF im /\ ~fail THEN imp \cup {c} ELSE imp \ {c}
  /\ UNCHANGED <<started, unloaded>>

\* "import mx" executed in the started context c: by a top-level statement / Jupyter cell (via = "exec") or inside
\* a running function (via = "run").  If the module is not loaded yet its file (content mdefs, written just
\* before) is loaded now and - the importer being started - its functions are active at once; fail: the module's
\* top level raises after mdefs: the definitions were active (a startup trigger has run) until then, the failure
\* ends them, the module is not loaded.  If it is loaded already nothing changes.
SessionImportDelays(c, via) == "session-import-module-not-started" \in flags /\ c = Session /\ via = "exec"
Import(c, mdefs, via, fail) ==
  /\ "import" \in Acts /\ Module \in Ctx /\ c # Module /\ ExecOK(c)
  /\ IF Module \in loaded THEN mdefs = <<>> /\ ~fail
     ELSE /\ Len(G) + Len(mdefs) <= MaxGen /\ ContentOK(Module, mdefs) /\ DistinctNames(mdefs) /\ FailOK(mdefs, fail)
          \* (whether a module that fails while a session CELL imports it was started at all: not specified)
          /\ fail => ~(c = Session /\ via = "exec")
  /\ Step([a |-> "import", c |-> c, mdefs |-> mdefs, via |-> via, fail |-> fail, g |-> Len(G) + 1,
           fresh |-> Module \notin loaded])
  /\ IF Module \in loaded
     THEN Apply(bind, cont, <<>>, {}, {}, FALSE) /\ loaded' = loaded
     ELSE LET st == IF SessionImportDelays(c, via) THEN "delayed" ELSE "new"
              newG == [i \in 1..Len(mdefs) |-> [NewGen(Module, mdefs[i].d, "file") EXCEPT !.s = st]]
              b1 == IF fail THEN bind ELSE [bind EXCEPT ![Module] = BindOf(mdefs, Len(G))]
          IN /\ Apply(b1, cont, newG, {}, {}, FALSE)
             /\ loaded' = IF fail THEN loaded ELSE loaded \cup {Module}
  /\ imp' = IF fail THEN imp ELSE imp \cup {c}
  /\ UNCHANGED <<started, unloaded>>

\* remove the file and reload / close the Jupyter session
\* (removing the module's file also reloads every file / app that has imported it: generated only when no loaded
\* file / app holds an import of it - its importers were sessions, or were reloaded / removed since)
Close(c) ==
  /\ "close" \in Acts /\ started /\ c \in loaded /\ Step([a |-> "close", c |-> c])
  /\ c = Module => imp \cap {"c1", "c2"} = {}
  /\ Apply([bind EXCEPT ![c] = [n \in Name |-> 0]], [cont EXCEPT ![c] = EmptyCont], <<>>, {c}, {}, FALSE)
  /\ loaded' = loaded \ {c}
  /\ imp' = imp \ {c}
  /\ UNCHANGED <<started, unloaded>>

Unload ==                 \* unload the integration
  /\ "unload" \in Acts /\ started /\ Step([a |-> "unload"])
  /\ Apply([c \in Ctx |-> [n \in Name |-> 0]], [c \in Ctx |-> EmptyCont], <<>>, Ctx, {}, FALSE)
  /\ loaded' = {} /\ unloaded' = TRUE /\ imp' = {}
  /\ UNCHANGED started

\* The integration is set up while HA is starting, with the given file contents (d1 for c1, d2 for c2): the
\* definitions are evaluated but nothing starts until EVENT_HOMEASSISTANT_STARTED; then every file / app context is
\* started.  (A reload before that event starts all contexts as well, so this is the only delayed phase.)
\* Who wins a cross-context service conflict during this phase is not specified: not generated.
\* f1 / f2: the file of c1 / c2 fails (see FailOK): that context is not loaded.
Boot(d1, d2, f1, f2) ==
  /\ "boot" \in Acts /\ ~started /\ Len(d1) + Len(d2) <= MaxGen
  /\ ContentOK("c1", d1) /\ ContentOK("c2", d2) /\ SvcOf(d1) \cap SvcOf(d2) = {}
  /\ FailOK(d1, f1) /\ FailOK(d2, f2)
  /\ ("c1" \notin Ctx => d1 = <<>> /\ ~f1) /\ ("c2" \notin Ctx => d2 = <<>> /\ ~f2)
  /\ Step([a |-> "boot", d1 |-> d1, d2 |-> d2, f1 |-> f1, f2 |-> f2, g |-> 1])
  /\ started' = TRUE
  /\ LET b1 == [c \in Ctx |-> IF c = "c1" THEN (IF f1 THEN NoBind ELSE BindOf(d1, 0))
                              ELSE IF c = "c2" THEN (IF f2 THEN NoBind ELSE BindOf(d2, Len(d1))) ELSE bind[c]]
         newG == [i \in 1..(Len(d1) + Len(d2)) |->
                    IF i <= Len(d1) THEN [NewGen("c1", d1[i].d, "file") EXCEPT !.s = IF f1 THEN "dropped" ELSE "delayed"]
                    ELSE [NewGen("c2", d2[i - Len(d1)].d, "file") EXCEPT !.s = IF f2 THEN "dropped" ELSE "delayed"]]
     IN Apply(b1, cont, newG, {}, Ctx \ {Session}, TRUE)
  /\ loaded' = loaded \ ((IF f1 THEN {"c1"} ELSE {}) \cup (IF f2 THEN {"c2"} ELSE {}))
  /\ UNCHANGED <<unloaded, imp>>

\* (quiet and not tick: hot = cold = {}.  tick: the occurrence is produced by the script that made the last step,
\* before it yields; afterwards everything becomes quiescent)
Occur(a, rs, r) == /\ ~unloaded /\ quiet /\ lastAct' = a @@ [tick |-> FALSE] /\ runs' = rs /\ res' = r
                   /\ tick' = FALSE /\ hot' = {} /\ cold' = {}
                   /\ UNCHANGED <<quiet, flags, sub, steps, started, unloaded, loaded, imp, G, bind, cont, cnt, own, hd, subs, lst, tm>>
\* who reacts to an occurrence: every active holder of the subscription; a generation created by the statement
\* just executed (hot, tick only) may or may not react yet; under the deviation "the stop is only scheduled" a
\* generation whose last reference has just gone (cold) may still react
Reacting(holders, late) ==
  LET must == { h \in holders : IsActive(G[h].s) } \ hot
      may  == ({ h \in holders : IsActive(G[h].s) } \cap hot) \cup (IF DmLate THEN late ELSE {})
  IN { must \cup opt : opt \in SUBSET may }
Fire(e) == /\ "fire" \in Acts /\ started
           /\ \E R \in Reacting(lst[e], { g \in cold : e \in G[g].d.ev }) :
                 Occur([a |-> "fire", e |-> e], { Run(g, "event", e, "p=1") : g \in R }, NoRes)
SetState(x) == /\ "set" \in Acts /\ started
               /\ \E R \in Reacting(subs[x], { g \in cold : x \in Ents(G[g].d) }) :
                     Occur([a |-> "set", x |-> x], { Run(g, "state", x, "-") : g \in R }, NoRes)
\* service call from outside; rr = return_response.  HA itself refuses rr for a service registered without
\* response support.  A plain call of a response-only service is not generated: HA refuses it when the
\* registration carries the enum, the statement does not ask for that (legacy registers the raw string).
\* A call made by the script right behind its statement (tick): without a response; which handler a name has
\* while a generation created by that very statement is still registering it is not specified: not generated.
Call(s, data, rr) ==
  /\ "call" \in Acts /\ started /\ (hd[s] # 0 /\ G[hd[s]].d.resp = "only" => rr)
  /\ tick => (~rr /\ \A g \in hot : s \notin G[g].d.svc)
  /\ LET a == [a |-> "call", s |-> s, data |-> data, rr |-> rr] IN
     \/ IF hd[s] = 0 THEN Occur(a, {}, Res("notfound", 0, "-"))
        ELSE LET g == hd[s]  rp == G[g].d.resp IN
             IF (rr /\ rp = "none") \/ (~rr /\ rp = "only") THEN Occur(a, {}, Res("err", 0, "-"))
             ELSE Occur(a, { Run(g, "service", "-", data) },
                        IF rr THEN Res("val", g, data) ELSE Res("none", 0, "-"))
     \* deviation: the service of a generation whose stop is only scheduled is still registered with its callback
     \/ /\ DmLate /\ tick
        /\ \E g \in { h \in cold : s \in G[h].d.svc /\ G[h].d.resp # "only" } :
              Occur(a, { Run(g, "service", "-", data) }, Res("none", 0, "-"))
\* a script calls a foreign service (vt.sink): exactly the given keyword parameters are delivered
Out(c, form, give) ==
  /\ "out" \in Acts /\ ExecOK(c)
  /\ Occur([a |-> "out", c |-> c, form |-> form, give |-> give], {}, [k |-> "out", g |-> 0, data |-> "-", o |-> OutExpect(give)])

\* deferred completion of a deactivation (Eager = FALSE only)
Complete(g, name) ==
  /\ G[g].s = "pending" /\ ~tick /\ StepC([a |-> name, g |-> g])
  /\ \E lk \in LeakFns({g}) :
       LET w == IF ~DmLate THEN Finish(Cur, g) ELSE Finish(Release(Cur, g, lk[g], "dead", FALSE), g) IN
       /\ G' = w.G /\ cnt' = w.cnt /\ own' = w.own /\ hd' = w.hd /\ subs' = w.subs /\ lst' = w.lst /\ tm' = w.tm
       /\ runs' = w.runs /\ res' = NoRes
  /\ hot' = IF quiet' THEN {} ELSE hot
  /\ cold' = {}
  /\ UNCHANGED <<started, unloaded, loaded, imp, bind, cont>>
StopDeferred(g) == sub = "dm" /\ Complete(g, "stopdeferred")
ReaperCancel(g) == sub = "legacy" /\ Complete(g, "reapercancel")

\* two-definition contents: with many declarations only a representative few are paired (service, service +
\* event, several names of one entity + event, startup / shutdown + event); the random sequences (T) pair all
PairDecls == IF Cardinality(Decls) <= 4 THEN Decls ELSE { DeclList[i] : i \in DeclSet \cap {1, 4, 6, 7} }
Contents == { <<>> } \cup (IF MaxDefs >= 1 THEN { <<[n |-> n, d |-> d]>> : n \in Name, d \in Decls } ELSE {})
            \cup (IF MaxDefs >= 2 THEN { <<[n |-> n1, d |-> d1], [n |-> n2, d |-> d2]>> :
                                          n1 \in Name, n2 \in Name, d1 \in PairDecls, d2 \in PairDecls } ELSE {})

\* (in a configuration whose declarations never use the third name, calling it is calling an unregistered name
\* once more)
CallSvc == IF "S3" \in UNION { d.svc : d \in Decls } THEN Svc ELSE Svc \ {"S3"}
FailSet == IF "fail" \in Acts THEN BOOLEAN ELSE {FALSE}
ImSet == IF "import" \in Acts /\ Module \in Ctx THEN BOOLEAN ELSE {FALSE}
ModContents == { c \in Contents : DistinctNames(c) }
\* with many declarations the pairs of two-definition contents are too many to enumerate at boot
BootContents == IF Cardinality(Decls) > 4 THEN { c \in Contents : Len(c) <= 1 } ELSE Contents
\* One disjunct per kind of action, parameters quantified behind a guard: TLC's simulator picks a disjunct
\* first, so the kinds are drawn evenly whatever the number of their parameter values.
Next == \/ (started /\ \E c \in Ctx, n \in Name, d \in Decls : Define(c, n, d))
        \/ (started /\ \E c \in Ctx, n \in Name : Del(c, n))
        \/ (started /\ \E c \in Ctx, n \in Name, m \in Name : Rebind(c, n, m))
        \/ (started /\ \E c \in Ctx, d \in Decls, wh \in {"L", "D"}, via \in Vias : Push(c, d, wh, via))
        \/ (started /\ \E c \in Ctx : Pop(c))
        \/ (started /\ \E c \in Ctx : Close(c))
        \/ (started /\ \E c \in Ctx, wh \in {"L", "D"} : Clear(c, wh))
        \/ (started /\ \E c \in Ctx, defs \in Contents, fail \in FailSet, im \in ImSet :
                         \E mdefs \in (IF im /\ Module \notin loaded THEN ModContents ELSE {<<>>}) : Reload(c, defs, fail, im, mdefs))
        \/ (started /\ "import" \in Acts /\ \E c \in Ctx, via \in Vias :
                         \E mdefs \in (IF Module \in loaded THEN {<<>>} ELSE ModContents), fail \in (IF Module \in loaded THEN {FALSE} ELSE FailSet) :
                            Import(c, mdefs, via, fail))
        \/ Unload
        \/ (~started /\ \E d1 \in BootContents, d2 \in BootContents, f1 \in FailSet, f2 \in FailSet : Boot(d1, d2, f1, f2))
        \/ (started /\ \E e \in Ev : Fire(e))
        \/ (started /\ \E x \in Ent : SetState(x))
        \/ (started /\ \E s \in CallSvc, data \in Data, rr \in BOOLEAN : Call(s, data, rr))
        \/ (started /\ \E c \in Ctx, f \in OutForms, give \in OutGives : Out(c, f, give))
        \/ (started /\ \E g \in Gen : StopDeferred(g) \/ ReaperCancel(g))
Spec == Init /\ [][Next]_vars
View == <<flags, sub, started, unloaded, loaded, imp, G, bind, cont, cnt, own, hd, subs, lst, tm, steps, quiet, hot, tick, cold>>

\* ------------------------------------------------------------------ projection compared with the code
Min(a, b) == IF a < b THEN a ELSE b
WithDecorators(g) == G[g].d.st # {} \/ G[g].d.ev # {} \/ G[g].d.tt # {} \/ G[g].d.svc # {}
Clean == /\ \A s \in Svc : cnt[s] = 0 /\ hd[s] = 0 /\ own[s] = NoOwner
         /\ \A x \in Ent : subs[x] = {}
         /\ \A e \in Ev : lst[e] = {}
         /\ tm = {}
Proj == [ runs |-> runs, res |-> res,
          cnt  |-> [s \in Svc |-> cnt[s]], has |-> [s \in Svc |-> hd[s] # 0], own |-> [s \in Svc |-> own[s]],
          sr   |-> [s \in Svc |-> IF hd[s] = 0 THEN "-" ELSE G[hd[s]].d.resp],
          sub  |-> [x \in Ent |-> Cardinality(subs[x])],
          evq  |-> [e \in Ev |-> Cardinality(lst[e])],
          evl  |-> [e \in Ev |-> IF sub = "legacy" THEN Min(1, Cardinality(lst[e])) ELSE Cardinality(lst[e])],
          tm   |-> Cardinality(tm),
          act  |-> [c \in {"c1", "c2", "c3", "c4"} |-> Cardinality({ g \in Gen : G[g].c = c /\ G[g].s \in {"live", "zombie"} })],
          ctx  |-> [c \in {"c1", "c2", "c3", "c4"} |-> c \in loaded],
          oth  |-> 0,
          base |-> IF ~unloaded THEN "-" ELSE IF Clean THEN "clean"
                   ELSE IF \E e \in Ev : lst[e] # {} THEN "listeners" ELSE "tables" ]

\* ------------------------------------------------------------------ invariants (quiescent states)
LiveGens == { g \in Gen : G[g].s = "live" }
ShouldBeActive(g) == Referenced(g) /\ G[g].c \in loaded /\ G[g].s # "inert"
\* C09
ActiveIffReferencedAndLoaded ==
  Quiescent => \A g \in Gen : (G[g].s \in {"live", "zombie"}) <=> ShouldBeActive(g)
TablesEqualUnionOfActive ==
  Quiescent => /\ \A x \in Ent : subs[x] = { g \in LiveGens : x \in Ents(G[g].d) }
               /\ \A e \in Ev : lst[e] = { g \in LiveGens : e \in G[g].d.ev }
               /\ tm = { g \in LiveGens : "timer" \in G[g].d.tt }
               /\ \A s \in Svc : cnt[s] = SumMult({ g \in LiveGens : s \in G[g].d.svc }, s)
\* checked on every transition: an occurrence runs live generations only - at a quiescent point, in the window
\* in which the end of a deactivation is still pending (Eager = FALSE), and right behind the statement that took
\* the last reference away (tick): "after which no occurrence runs the old function"; at a quiescent point a
\* startup run belongs to a generation that is live afterwards, a shutdown run to one that has just ended
NoRunOfDeadGeneration ==
  [][\A r \in runs' : CASE r.k \in {"event", "state", "service"} -> G[r.g].s = "live"
                         [] r.k = "startup" -> (Quiescent => G'[r.g].s = "live")
                         [] OTHER -> (Quiescent => G'[r.g].s = "dead")]_vars
AfterUnloadBaseline == (unloaded /\ Quiescent) => Clean /\ \A g \in Gen : ~IsActive(G[g].s) /\ G[g].s # "delayed"
WasActive(g) == G[g].s \in {"live", "zombie", "pending", "dead"}
StartupOncePerDefine ==
  \A g \in Gen : G[g].su = IF WasActive(g) /\ "startup" \in G[g].d.tt THEN 1 ELSE 0
ShutdownOncePerRemoval ==
  \A g \in Gen : G[g].sd = IF G[g].s = "dead" /\ "shutdown" \in G[g].d.tt THEN 1 ELSE 0
\* C12
RegisteredIffCounted == { s \in Svc : hd[s] # 0 } = { s \in Svc : cnt[s] > 0 }
CountIsLiveDeclarations == Quiescent => \A s \in Svc : cnt[s] = SumMult({ g \in LiveGens : s \in G[g].d.svc }, s)
HandlerIsLatestLiveDeclaration ==
  Quiescent => \A s \in Svc : LET ds == { g \in LiveGens : s \in G[g].d.svc } IN
                              hd[s] = IF ds = {} THEN 0 ELSE MaxOf(ds)
NoTakeoverAcrossContexts ==
  \A s \in Svc : cnt[s] > 0 => /\ own[s] # NoOwner
                               /\ \A g \in Gen : (HoldsTables(G[g].s) /\ s \in G[g].d.svc) => G[g].c = own[s]
\* a refused declaration leaves the registry untouched (action form of "no takeover")
RefusedLeavesRegistry ==
  [][(lastAct'.a \in {"define", "push"} /\ steps' = steps + 1)
        => \A s \in lastAct'.d.svc : OwnedElsewhere(lastAct'.c, s) => (hd'[s] = hd[s] /\ own'[s] = own[s] /\ cnt'[s] = cnt[s])]_vars
\* a call of a registered service (that HA does not refuse) runs exactly one function: the handler, with
\* kwargs = call data + trigger_type "service" (k = "service", data = the call's data)
CallDeliversDataAndTriggerType ==
  [][(lastAct'.a = "call" /\ steps' = steps /\ res'.k \in {"val", "none"})
        => runs' = { Run(hd[lastAct'.s], "service", "-", lastAct'.data) }]_vars
\* the function's result comes back exactly when a response was asked for (and the declaration supports one)
ResponseReturnedWhenSupported ==
  [][(lastAct'.a = "call" /\ steps' = steps /\ hd[lastAct'.s] # 0)
        => LET g == hd[lastAct'.s]  rp == G[g].d.resp IN
           IF lastAct'.rr THEN (IF rp = "none" THEN res'.k = "err" ELSE res' = Res("val", g, lastAct'.data))
           ELSE (IF rp = "only" THEN res'.k = "err" ELSE res'.k = "none")]_vars
OutgoingCallDeliversGivenKeywords ==
  [][(lastAct'.a = "out" /\ steps' = steps)
        => res' = [k |-> "out", g |-> 0, data |-> "-", o |-> OutExpect(lastAct'.give)]]_vars
\* generator mask for "service-handler-not-repointed": at most one live declaration per service
MaskOneDeclaration == \A s \in Svc : cnt[s] <= 1
\* generator mask for "session-import-module-not-started": no cell of the session loads the module
MaskNoSessionImport == IF lastAct.a = "import" THEN ~(lastAct.c = Session /\ lastAct.via = "exec" /\ lastAct.fresh) ELSE TRUE
Masked == MaskOneDeclaration /\ MaskNoSessionImport
\* witnesses (must be violated: the interesting situations are reachable)
W_NoTwoDeclarers == ~\E s \in Svc : cnt[s] >= 2
W_NoRefusal == ~\E g \in Gen : G[g].s = "inert"
W_NoUnloadAfterActivity == ~(unloaded /\ \E g \in Gen : G[g].s = "dead")
W_NoShutdownRun == ~\E g \in Gen : G[g].sd > 0
W_NoClosureHeld == ~\E c \in Ctx : cont[c].L # <<>> /\ cont[c].D # 0
\* round 4: a statement that takes the last reference of a function with an event trigger away, followed by the
\* same script by an occurrence, while another function listens to the same event
W_NoTickBehindRemoval == ~(tick /\ \E g \in cold, e \in Ev : e \in G[g].d.ev /\ lst[e] # {})
\* the parts added in round 3 are reachable (one witness per driver: every TLC run costs a JVM start).
\* a module's function made active by an import executed inside a running function, which outlives the reload of
\* its importer
ModuleOutlivesImporter == imp = {} /\ \E g, h \in Gen : g < h /\ G[g].c = Module /\ G[g].s = "live" /\ G[g].su = 1 /\ G[h].c # Module
\* a load that failed after a definition with a service, and a context left unloaded by it
FailedLoad == \E c \in Ctx : c \notin loaded /\ ~unloaded /\ \E g \in Gen : G[g].c = c /\ G[g].s = "dropped" /\ G[g].d.svc # {}
\* a service whose spelling has an upper-case letter: redefined (the old declaration ended, a new one lives)
MixedCaseRedeclared == \E g, h \in Gen : g < h /\ "S3" \in G[g].d.svc \cap G[h].d.svc /\ G[g].s = "dead" /\ G[h].s = "live"
W_NoModuleOutlivesImporterNorFailedLoad == ~(ModuleOutlivesImporter /\ FailedLoad)
W_NoMixedCaseRedeclaredNorFailedLoad == ~(MixedCaseRedeclared /\ FailedLoad)
\* round 4: a function that declared a service name twice has ended while another declaration of the name lives on
W_NoDuplicateDeclarationEnded == ~\E g, h \in Gen, s \in Svc : /\ G[g].s = "dead" /\ s \in G[g].d.dup
                                                              /\ G[h].s = "live" /\ s \in G[h].d.svc /\ hd[s] = h
=============================================================================
