------------------------------ MODULE GuardCore ------------------------------
(* The guard stage shared by every trigger type (C07): @state_active on the triggering       *)
(* values, @time_active windows (positive = OR, "not" = AND-NOT, none = true), hold_off      *)
(* measured from the last *accepted* occurrence.  Pure operators; used by Guards.tla (model) *)
(* and GuardTrace.tla (acceptor of real recordings).                                         *)
(* A guard configuration g:                                                                  *)
(*   g.sa    state_active expression (TrigCore expression tree, [k |-> "none"] if absent)    *)
(*   g.ta    sequence of windows [neg, s, e] - daily range(s, e) in milliseconds of the day; *)
(*           e < s wraps around midnight; both end points included                           *)
(*   g.ho    hold_off in ms, NoneT if absent                                                 *)
(*   g.flags named deviations of the code:                                                   *)
(*     "ta-per-argument"   each @time_active argument is checked on its own and the first    *)
(*                         one that is satisfied lets the occurrence through                 *)
(*     "holdoff-from-passed-window"  hold_off is measured from the last occurrence that      *)
(*                         passed @time_active, even if a later guard rejected it            *)
(* An occurrence o = [k (state|event|time|direct), t (ms of the day), val (valuation), ...]. *)
EXTENDS TrigCore, Integers

NoneT == -1
DayMs == 86400000

InRange(w, t) == IF w.s <= w.e THEN w.s <= t /\ t <= w.e          \* both end points included
                 ELSE t >= w.s \/ t <= w.e                         \* end before start: wraps around midnight
ActiveAll(ta, t) ==
  LET pos == { i \in 1..Len(ta) : ~ta[i].neg }
      neg == { i \in 1..Len(ta) : ta[i].neg }
  IN /\ (pos = {} \/ \E i \in pos : InRange(ta[i], t))
     /\ \A i \in neg : ~InRange(ta[i], t)
\* the deviation: arguments checked one by one, any satisfied argument is enough
ActiveEach(ta, t) == Len(ta) = 0 \/ \E i \in 1..Len(ta) : ActiveAll(<<ta[i]>>, t)
TimeActive(g, t) == IF "ta-per-argument" \in g.flags THEN ActiveEach(g.ta, t) ELSE ActiveAll(g.ta, t)

StateActive(g, o) == g.sa.k = "none" \/ EvalE(g.sa, o.val)

\* guard state gs = [last (time of the last accepted occurrence, NoneT if none)]
HoldOffOk(g, gs, t) == g.ho = NoneT \/ gs.last = NoneT \/ t - gs.last >= g.ho

\* one occurrence: returns [run (BOOLEAN), gs]
GStep(g, gs, o) ==
  IF o.k = "direct" THEN [run |-> TRUE, gs |-> gs]                 \* direct calls bypass the guards entirely
  ELSE IF "holdoff-from-passed-window" \in g.flags
       THEN \* code order: hold_off test and window test come first and stamp the time; state_active after
            IF ~HoldOffOk(g, gs, o.t) \/ ~TimeActive(g, o.t) THEN [run |-> FALSE, gs |-> gs]
            ELSE [run |-> StateActive(g, o), gs |-> [last |-> o.t]]
       ELSE IF StateActive(g, o) /\ TimeActive(g, o.t) /\ HoldOffOk(g, gs, o.t)
            THEN [run |-> TRUE, gs |-> [last |-> o.t]]
            ELSE [run |-> FALSE, gs |-> gs]
GS0 == [last |-> NoneT]
=============================================================================
