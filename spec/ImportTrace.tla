------------------------------ MODULE ImportTrace ------------------------------
(* Acceptor for recordings of the real interpreter (C17).  Input (IOEnv.CASES):               *)
(*   [allow : <<names>>  (const.ALLOWED_IMPORTS of the code under test, read at run time),    *)
(*    pys   : << [name, ctxname, scope, pub, star] >>  (files the scenario placed below        *)
(*            modules/, apps/; their public names and the names their star import binds),     *)
(*    cases : << case >>]                                                                     *)
(* case kinds                                                                                 *)
(*  "import"  an ImportCore statement + obs = [exc, bound : <<names>>, vals : << [n, c] >>,    *)
(*            places : [script, g, l : <<names newly bound in that mapping>>]]                *)
(*            bound = all names bound anywhere; places tells in which mapping (the script's   *)
(*            global table, the globals / locals mapping passed to eval / exec)              *)
(*            (c = identity class of what name n is bound to: "module:M" = sys.modules[M],    *)
(*            "pysmod:CTX" = the module object of pyscript context CTX, "attr:..." = the      *)
(*            attribute of that module, anything else = something foreign)                    *)
(*  "builtin" [name, scope, ns, out]  out = what the plain name evaluates to: "NameError" |    *)
(*            "builtin" (the real builtins object) | "replacement" | "exc:<class>"            *)
(*  "log"     [fn, where, via, ns, ctxname, func, loggers : <<logger names that received the  *)
(*            marker>>, stdout : the marker reached the process's stdout]  the call fn(marker) *)
(*            written directly (via "direct") or inside text given to exec / eval / eval(exec) *)
(*            with namespace arguments ns                                                     *)
(* Rejections name the clause; deviations that one named flag of ImportCore explains are      *)
(* reported under the flag's name.                                                            *)
EXTENDS ImportCore, TLC, Json, IOUtils
In == JsonDeserialize(IOEnv.CASES)
Cases == In.cases
E == [allow |-> ToSet(In.allow), pys |-> ToSet(In.pys)]
ImportFlags == <<"stubs-as-refused", "star-ignores-all", "from-missing-attributeerror", "compiled-native", "relative-falls-back-absolute">>
LoggerBase == "custom_components.pyscript."

Obs(cs) == Out(cs.obs.exc, ToSet(cs.obs.bound))
\* every reported value is what some clause of the statement is expected to bind under that name
ValOK(cs, v, flags) ==
  \E k \in 1..Len(cs.clauses) :
    LET c == cs.clauses[k] IN
      \/ /\ v.n \in UNION NamesOf(cs.form, c, TruthOf(cs, k, E), flags)
         /\ \/ v.c = ClassOf(cs, E, c, flags)
            \/ cs.via = "compiled" /\ "compiled-native" \in flags
      \/ cs.form = "import" /\ c.as = "-" /\ Len(c.parts) > 1 /\ v.n = c.parts[1] /\ v.c = "module:" \o c.parts[1]
\* the names are bound in the mapping the call designates (ImportCore!Place) and in no other
PlacesOK(cs) == \A q \in Places : ToSet(cs.obs.places[q]) = IF q = Place(cs.via, cs.ns) THEN ToSet(cs.obs.bound) ELSE {}
ImportOK(cs, flags) == /\ Obs(cs) \in Outcomes(cs, E, flags)
                       /\ \A i \in 1..Len(cs.obs.vals) : ValOK(cs, cs.obs.vals[i], flags)
                       /\ PlacesOK(cs)

ImportWhy(cs) ==
  LET X == Outcomes(cs, E, {})  o == Obs(cs)
      fl == { i \in 1..Len(ImportFlags) : ImportOK(cs, {ImportFlags[i]}) }
  IN IF fl # {} THEN ImportFlags[CHOOSE i \in fl : \A j \in fl : i <= j]
     ELSE IF \A x \in X : x.exc # "ok"
          THEN IF o.exc = "ok" THEN (IF \A x \in X : x.exc = Refusal THEN "refused-import-succeeds" ELSE "failing-import-succeeds")
               ELSE IF \A x \in X : x.exc # o.exc THEN "wrong-exception"
               ELSE "failed-import-binds-names"
     ELSE IF o.exc # "ok" /\ \A x \in X : x.exc = "ok" THEN (IF o.exc = Refusal THEN "allowed-import-refused" ELSE "allowed-import-fails")
     ELSE IF o \notin X THEN "wrong-names-bound"
     ELSE IF ~PlacesOK(cs) THEN "bound-in-wrong-namespace"
     ELSE "wrong-object-bound"

GDeclScopes == {"global-decl", "global-decl-nested", "global-decl-method", "global-decl-exec", "global-decl-eval", "global-decl-many"}
BuiltinOK(cs, flags) ==
  cs.name \in Excluded \cup CtxBound => \/ cs.out \in NameResolves(cs.name, FALSE, cs.scope \in GDeclScopes)
                                        \/ "compiled-native-builtins" \in flags /\ cs.scope \in {"lambda", "compiled"}
\* the call fn(marker): where the rule says the name is the context-bound function, exactly one record on the
\* script's logger; where NameError is admissible too (`global print` in a function), none or that one
LogOK(cs) == LET R == NameResolves(cs.fn, FALSE, cs.where = "global-decl") IN
             /\ ~cs.stdout
             /\ \/ "NameError" \in R /\ Len(cs.loggers) = 0
                \/ /\ "replacement" \in R
                   /\ Len(cs.loggers) = 1
                   /\ cs.loggers[1] \in {LoggerBase \o cs.ctxname, LoggerBase \o cs.ctxname \o "." \o cs.func}

\* the recording is well-formed: relative levels only on from-imports, the scope of absolute names follows from the package
WellFormed(cs) == /\ cs.ctx = AbsScope(cs)
                  /\ cs.level \in 0..4
                  /\ (cs.level > 0 <=> cs.form = "frompkg") \/ cs.form = "from"
                  /\ Len(cs.truth) = Len(cs.clauses)
                  /\ cs.ns \in NsForms
                  /\ cs.via \in {"direct", "func", "compiled"} => cs.ns = NsNone       \* only eval / exec take namespace arguments
                  /\ cs.via = "funcexec" => cs.ns # NsNone
Why(cs) == CASE cs.kind = "import"  -> IF ~WellFormed(cs) THEN "malformed-recording" ELSE IF ImportOK(cs, {}) THEN "" ELSE ImportWhy(cs)
             [] cs.kind = "builtin" -> IF BuiltinOK(cs, {}) THEN ""
                                       ELSE IF BuiltinOK(cs, {"compiled-native-builtins"}) THEN "compiled-native-builtins"
                                       ELSE IF cs.out = "builtin" THEN "excluded-builtin-reachable"
                                       ELSE "context-function-unreachable"     \* print is not the function bound to the script
             [] cs.kind = "log"     -> IF LogOK(cs) THEN "" ELSE IF cs.stdout THEN "writes-to-stdout" ELSE "not-on-the-scripts-logger"
             [] OTHER -> "unknown-case-kind"

VARIABLE i
Init == i = 1
Next == i <= Len(Cases) /\ i' = i + 1
Spec == Init /\ [][Next]_i
Report == i <= Len(Cases) =>
  LET cs == Cases[i]  w == Why(cs)
  IN IF w = "" THEN TRUE
     ELSE PrintT("REJECT " \o ToJson([id |-> cs.id, why |-> w,
                  exp |-> IF cs.kind = "import" THEN Outcomes(cs, E, {}) ELSE {}]))
=============================================================================
