SPECIFICATION Spec
CONSTANT Chains = 4
INVARIANT Report
CHECK_DEADLOCK FALSE
