------------------------------ MODULE PipeTrace ------------------------------
(* The composed trigger pipeline: state-trigger qualification (TrigCore) -> state_hold       *)
(* automaton (HoldCore) -> guard stage (GuardCore) -> run.  This is where the pieces meet:   *)
(* the guards are evaluated when the hold period ENDS, at that time, but on the values of     *)
(* the change that STARTED it (the trigger variable's value and .old); other variables are    *)
(* read as they are when the guard is evaluated.  Acceptor for recordings of real functions   *)
(* carrying @state_trigger(expr, state_hold=S) + @state_active + @time_active(hold_off).      *)
(* A case: [id, S, g : [sa, ta, ho, taFirst], init : [a, b], events : <<[t, e, s]>>, horizon,  *)
(*          runs : <<[t, v, ov]>>]   (run time, value and old value of a it carries)          *)
EXTENDS GuardCore, Sequences, FiniteSets, TLC, Json, IOUtils
H == INSTANCE HoldCore
Cases == JsonDeserialize(IOEnv.CASES)
Truth(s) == s # Absent /\ s.v = "1"

\* hand a hold-stage run (time t, arguments a = [new, old] of the first event) to the guard stage
Guarded(g, gs, t, a, hass) ==
  GStep(g, gs, [k |-> "state", t |-> t,
                val |-> [cur |-> [e \in Ent |-> IF e = "a" THEN a.new ELSE hass[e]],
                         old |-> [e \in Ent |-> IF e = "a" THEN a.old ELSE Unset]]])

\* drain the runs the hold stage produced since the last call (kept in m.runs) through the guards
RECURSIVE Drain(_, _, _, _, _, _)
Drain(g, gs, hruns, k, hass, out) ==
  IF k > Len(hruns) THEN [gs |-> gs, out |-> out]
  ELSE LET r == Guarded(g, gs, hruns[k].t, hruns[k].a, hass) IN
       Drain(g, r.gs, hruns, k + 1, hass,
             IF r.run THEN Append(out, [t |-> hruns[k].t, v |-> hruns[k].a.new.v, ov |-> hruns[k].a.old.v]) ELSE out)

RECURSIVE Fold(_, _, _, _, _, _, _)
Fold(c, hc, i, hass, m, gs, out) ==
  LET upto  == IF i > Len(c.events) THEN c.horizon ELSE c.events[i].t
      m1    == H!HExpire(hc, [m EXCEPT !.runs = <<>>], upto, i <= Len(c.events))     \* strictly before the next event
      d1    == Drain(c.g, gs, m1.runs, 1, hass, out)
  IN IF i > Len(c.events) THEN d1.out
     ELSE LET ev == c.events[i]
              h2 == [hass EXCEPT ![ev.e] = ev.s] IN
          IF ev.s = hass[ev.e] THEN Fold(c, hc, i + 1, hass, [m1 EXCEPT !.runs = <<>>], d1.gs, d1.out)
          ELSE IF ev.e # "a" THEN Fold(c, hc, i + 1, h2, [m1 EXCEPT !.runs = <<>>], d1.gs, d1.out)
          ELSE LET a  == [new |-> ev.s, old |-> hass["a"]]
                   m2 == IF ev.s.v = hass["a"].v
                         THEN H!HNonEval(hc, [m1 EXCEPT !.runs = <<>>], ev.t, a)          \* attribute-only: no evaluation
                         ELSE H!HEval(hc, [m1 EXCEPT !.runs = <<>>], ev.t, Truth(ev.s), a)
                   d2 == Drain(c.g, d1.gs, m2.runs, 1, h2, d1.out)                         \* S = None: fires at once
               IN Fold(c, hc, i + 1, h2, [m2 EXCEPT !.runs = <<>>], d2.gs, d2.out)

Expected(c) ==
  LET hc == [S |-> c.S, H |-> H!NoneT, check |-> FALSE, mode |-> "dec", t0 |-> 0, flags |-> {}]
      g  == [sa |-> c.g.sa, ta |-> c.g.ta, ho |-> c.g.ho, flags |-> {}]
  IN Fold([c EXCEPT !.g = g], hc, 1, c.init, H!M0([new |-> Absent, old |-> Absent]), GS0, <<>>)

VARIABLE i
Init == i = 1
Next == i <= Len(Cases) /\ i' = i + 1
Spec == Init /\ [][Next]_i
Report == i <= Len(Cases) =>
  LET c == Cases[i]  e == Expected(c)
  IN IF e = c.runs THEN TRUE
     ELSE PrintT("REJECT " \o ToJson([id |-> c.id, exp |-> e, obs |-> c.runs]))
=============================================================================
