SPECIFICATION Spec
CONSTANTS
  Horizon = 10
  MaxStim = 3
  Modes = {"pending", "legacy", "cached"}
  Entries = {1, 2, 3, 4, 5}
INVARIANT T_PendingIsProduct
INVARIANT T_LegacyOffTie
INVARIANT T_LegacyDenoted
INVARIANT Witnesses
CHECK_DEADLOCK FALSE
