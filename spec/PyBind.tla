------------------------------- MODULE PyBind -------------------------------
(* Python's argument binding (C03), written declaratively: which parameters are filled from  *)
(* positional arguments, which from keywords, which from defaults - as sets, not as          *)
(* CPython's left-to-right algorithm.  Pure operators, shared by the model-checking module   *)
(* (PyBindMC: theorems over the whole bounded family), the acceptor of recorded outcomes     *)
(* (PyBindTrace) and the scoping machine (PyScope: every call of a generated program).       *)
(*                                                                                          *)
(*  sig   = [po, pk : Seq(STRING), ndef : Nat, va : BOOLEAN,                                 *)
(*           ko : Seq([name : STRING, hasdef : BOOLEAN]), kw : BOOLEAN]                      *)
(*          def f(po.., /, pk.., *va, ko.., **kw); the last ndef of po \o pk have defaults   *)
(*  shape = [pos : Seq([star : BOOLEAN, n : Nat]),           the call as written:            *)
(*           kws : Seq([star : BOOLEAN, names : Seq(STRING)])]   plain argument = star FALSE, *)
(*          n = 1 / names = <<k>>;  *seq = star TRUE, n = len(seq);  **map = star TRUE        *)
(*  call  = [npos : Nat, kws : Seq(STRING)]                  the flattened call (positional  *)
(*          values are numbered 1..npos from the left; kws may repeat a name only via a **map)   *)
(*  Reserved : the intended deviation of pyscript - unexpected keywords with these names are *)
(*          dropped when the callee has no **kwargs and does not declare them (parameters   *)
(*          may themselves be named like reserved keywords).  Reserved = {} is Python.      *)
(*  val   : a valuation - which VALUE is written at which source (default expression of a     *)
(*          parameter, i-th positional value, value of a keyword); see Values below.         *)
(*  flags : named deviations of the pinned code (known findings); {} is the statement.       *)
(*     "posonly-kw"  a keyword naming a positional-only parameter raises TypeError even      *)
(*                   though **kwargs should absorb it                                       *)
(*     "dup-kw"      a keyword repeated through **map overwrites instead of raising          *)
EXTENDS Naturals, Sequences, FiniteSets

Range(s) == { s[i] : i \in 1..Len(s) }
Min(a, b) == IF a < b THEN a ELSE b

RECURSIVE SumN(_, _), CatNames(_, _)
SumN(items, i) == IF i > Len(items) THEN 0 ELSE items[i].n + SumN(items, i + 1)
CatNames(items, i) == IF i > Len(items) THEN <<>> ELSE items[i].names \o CatNames(items, i + 1)
Flatten(shape) == [npos |-> SumN(shape.pos, 1), kws |-> CatNames(shape.kws, 1)]

Positional(sig) == sig.po \o sig.pk
KoNames(sig)    == { sig.ko[i].name : i \in 1..Len(sig.ko) }
AllParams(sig)  == sig.po \o sig.pk \o [i \in 1..Len(sig.ko) |-> sig.ko[i].name]
Named(sig)      == Range(sig.pk) \cup KoNames(sig)          \* parameters that accept a keyword
HasDefault(sig, p) ==
  \/ \E i \in 1..Len(Positional(sig)) : Positional(sig)[i] = p /\ i > Len(Positional(sig)) - sig.ndef
  \/ \E i \in 1..Len(sig.ko) : sig.ko[i].name = p /\ sig.ko[i].hasdef
PosIndex(sig, p) == CHOOSE i \in 1..Len(Positional(sig)) : Positional(sig)[i] = p
Repeated(kws) == \E i, j \in 1..Len(kws) : i < j /\ kws[i] = kws[j]

Bind(sig, call, Reserved, flags) ==
  LET P        == Positional(sig)
      n        == Len(P)
      K        == Range(call.kws)
      byPos    == { P[i] : i \in 1..Min(call.npos, n) }       \* filled from positional arguments
      byKw     == K \cap Named(sig)                           \* filled from keywords
      extra    == K \ Named(sig)                              \* keywords naming no keyword-capable parameter
      bound    == byPos \cup byKw
      needP    == { P[i] : i \in 1..(n - sig.ndef) }          \* positional parameters without default
      needK    == { sig.ko[i].name : i \in { j \in 1..Len(sig.ko) : ~sig.ko[j].hasdef } }
      \* pyscript's intended deviation: UNDECLARED reserved keywords are dropped (a keyword naming a
      \* positional-only parameter is declared: it stays an error, as in Python)
      dropped  == IF sig.kw THEN {} ELSE (extra \cap Reserved) \ Range(sig.po)
      err ==
        \/ Repeated(call.kws) /\ "dup-kw" \notin flags                 \* keyword given twice (through **)
        \/ call.npos > n /\ ~sig.va                                    \* too many positional arguments
        \/ byKw \cap byPos # {}                                        \* multiple values for a parameter
        \/ ~sig.kw /\ (extra \ dropped) # {}                           \* unexpected keyword / posonly by keyword
        \/ (needP \cup needK) \ bound # {}                             \* missing required argument
        \/ "posonly-kw" \in flags /\ sig.kw /\ K \cap Range(sig.po) # {}
  IN IF err THEN [k |-> "TypeError"]
     ELSE [k |-> "ok", pos |-> byPos, kwd |-> byKw, dflt |-> Range(AllParams(sig)) \ bound,
           va  |-> IF call.npos > n THEN [j \in 1..(call.npos - n) |-> n + j] ELSE <<>>,
           kwmap |-> IF sig.kw THEN extra ELSE {}, dropped |-> dropped]

\* where does parameter p get its value from under outcome r (r.k = "ok")
PosTag == <<"p1", "p2", "p3", "p4", "p5", "p6", "p7", "p8">>
Source(sig, r, p) == IF p \in r.pos THEN PosTag[PosIndex(sig, p)]
                     ELSE IF p \in r.kwd THEN "k:" \o p ELSE "d:" \o p
Sources(sig, r) == [i \in 1..Len(AllParams(sig)) |-> Source(sig, r, AllParams(sig)[i])]

(* ---- values.  Bind decides WHERE every parameter's value comes from; which value that is depends on the   *)
(* valuation of the program text: val = Seq(<<source tag, value tag>>) gives the value written at a source    *)
(* ("d:<param>" the default expression of a parameter, "p<i>" the i-th positional value of the call,          *)
(* "k:<name>" the value of keyword <name>); a source not listed carries its own tag as value (a distinct      *)
(* truthy constant).  Value tags are opaque here ("NoneType:None", "int:0", "list:[]", ..): Python's binding  *)
(* never looks at a value - a falsy default is a default, a None argument is an argument.                    *)
ValOf(val, s) == IF \E i \in 1..Len(val) : val[i][1] = s
                 THEN val[CHOOSE i \in 1..Len(val) : val[i][1] = s][2] ELSE s
Values(sig, r, val) == [i \in 1..Len(AllParams(sig)) |-> ValOf(val, Source(sig, r, AllParams(sig)[i]))]
VaValues(r, val)    == [j \in 1..Len(r.va) |-> ValOf(val, PosTag[r.va[j]])]

(* ---- theorems of the transcription (checked by TLC over the whole family, PyBindMC) ---- *)
EveryParameterBoundExactlyOnce(sig, r) ==
  r.k = "ok" => /\ r.pos \cup r.kwd \cup r.dflt = Range(AllParams(sig))
                /\ r.pos \cap r.kwd = {} /\ r.pos \cap r.dflt = {} /\ r.kwd \cap r.dflt = {}
                /\ \A p \in r.dflt : HasDefault(sig, p)
\* every parameter carries the value written at exactly one place: its default expression iff neither a
\* positional argument nor a keyword fills it, whatever that value is (in particular whatever its truth value)
ValuesFollowSources(sig, r, val) ==
  r.k = "ok" => \A i \in 1..Len(AllParams(sig)) :
     LET p == AllParams(sig)[i]  v == Values(sig, r, val)[i] IN
     /\ p \in r.dflt => (HasDefault(sig, p) /\ v = ValOf(val, "d:" \o p))
     /\ p \in r.kwd  => v = ValOf(val, "k:" \o p)
     /\ p \in r.pos  => v = ValOf(val, PosTag[PosIndex(sig, p)])
NoExtraNames(sig, call, Reserved, r) ==
  r.k = "ok" => /\ r.kwmap \subseteq Range(call.kws) \ Named(sig)
                /\ (~sig.kw => r.kwmap = {})
                /\ r.dropped \subseteq Reserved /\ (sig.kw => r.dropped = {})
                /\ r.dropped \cap Range(AllParams(sig)) = {}                       \* a declared name is never dropped
                /\ Range(call.kws) = r.kwd \cup r.kwmap \cup r.dropped        \* every keyword accounted for, once
                /\ r.kwd \cap r.kwmap = {} /\ r.kwd \cap r.dropped = {} /\ r.kwmap \cap r.dropped = {}
                /\ (Len(r.va) > 0 => sig.va)
                /\ Cardinality(r.pos) + Len(r.va) = call.npos                  \* every positional value accounted for

(* An independent reading: an *assignment* gives every parameter one source; it is valid when *)
(* every argument of the call is consumed exactly once under Python's matching rules.        *)
\* admissible sources of the parameter at index i of AllParams, looking at this parameter only
Options(sig, call, i) ==
  LET p == AllParams(sig)[i]  n == Len(sig.po) + Len(sig.pk) IN
  (IF i <= n /\ i <= call.npos THEN {"pos"} ELSE {})
  \cup (IF i > Len(sig.po) /\ p \in Range(call.kws) THEN {"kw"} ELSE {})
  \cup (IF (IF i <= n THEN i > n - sig.ndef ELSE sig.ko[i - n].hasdef) THEN {"dflt"} ELSE {})
ValidAssignment(sig, call, Reserved, s) ==
  LET AP == AllParams(sig)  n == Len(sig.po) + Len(sig.pk)  named == Named(sig) IN
  /\ ~Repeated(call.kws)
  \* every positional value is consumed: by the parameter at its position, else by *va
  /\ \A i \in 1..call.npos : IF i <= n THEN s[i] = "pos" ELSE sig.va
  \* every keyword is consumed: by the parameter it names if that accepts keywords, else by **kw, else dropped
  /\ \A k \in Range(call.kws) :
       IF k \in named THEN \E i \in 1..Len(AP) : AP[i] = k /\ s[i] = "kw"
       ELSE sig.kw \/ (k \in Reserved /\ k \notin Range(sig.po))
\* number of valid assignments extending the partial assignment s (depth-first over the admissible sources)
RECURSIVE CountValid(_, _, _, _, _)
CountValid(sig, call, Reserved, opts, s) ==
  IF Len(s) = Len(opts) THEN (IF ValidAssignment(sig, call, Reserved, s) THEN 1 ELSE 0)
  ELSE LET o == opts[Len(s) + 1] IN
       (IF "pos" \in o THEN CountValid(sig, call, Reserved, opts, Append(s, "pos")) ELSE 0)
       + (IF "kw" \in o THEN CountValid(sig, call, Reserved, opts, Append(s, "kw")) ELSE 0)
       + (IF "dflt" \in o THEN CountValid(sig, call, Reserved, opts, Append(s, "dflt")) ELSE 0)
NumValid(sig, call, Reserved) ==
  CountValid(sig, call, Reserved, [i \in 1..Len(AllParams(sig)) |-> Options(sig, call, i)], <<>>)
\* TypeError iff no valid assignment exists; otherwise the valid assignment is unique and is the one Bind yields
ErrorIffNoValidAssignment(sig, call, Reserved, r) ==
  IF r.k = "TypeError" THEN NumValid(sig, call, Reserved) = 0
  ELSE /\ NumValid(sig, call, Reserved) = 1
       /\ ValidAssignment(sig, call, Reserved,
            [i \in 1..Len(AllParams(sig)) |->
               LET p == AllParams(sig)[i] IN IF p \in r.pos THEN "pos" ELSE IF p \in r.kwd THEN "kw" ELSE "dflt"])
=============================================================================
