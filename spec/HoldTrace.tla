----------------------------- MODULE HoldTrace -----------------------------
(* Acceptor for timed recordings of @state_trigger / task.wait_until with state_check_now,  *)
(* state_hold, state_hold_false (C05), folding the HoldCore automaton over the recorded     *)
(* operation list.  A case:                                                                 *)
(*  [id, S, H, check, mode, t0, init : [v, x], ops : <<[t, k, v, x]>>, horizon, runs]       *)
(* ops: k = "set" (watched entity a gets value v, attribute x) | "other" (unwatched entity).*)
(* runs: <<[t, v, x, ov]>> observed (virtual seconds; value, attribute, old value of the    *)
(* event whose arguments the run carries; v = "init" for the definition-time trigger).      *)
(* Verdict: ACCEPT iff the runs are those of the statement's automaton (flags = {}).  If    *)
(* not, the acceptor looks for the smallest set of *named deviations* (HoldCore flags) that *)
(* explains the recording and prints it - that set is the signature of a known finding;     *)
(* "unexplained" otherwise.                                                                 *)
EXTENDS HoldCore, FiniteSets, TLC, Json, IOUtils
Cases == JsonDeserialize(IOEnv.CASES)
InitArgs == [v |-> "init", x |-> "-", ov |-> "-"]
Truth(s) == s.v \in {"1", "2"}          \* the expression is  pyscript.a in ['1', '2']: a change 1 -> 2 is a further TRUE evaluation
AllFlags == {"noneval-false", "latest-args", "no-init-fire", "wait-no-false-start"}

RECURSIVE Run(_, _, _, _)
Run(c, m, cur, k) ==
  IF k > Len(c.ops) THEN HExpire(c, m, c.horizon, FALSE)
  ELSE LET op == c.ops[k]
           m0 == HExpire(c, m, op.t, TRUE)
       IN IF op.k = "other" THEN Run(c, m0, cur, k + 1)                    \* unwatched entity: nothing
          ELSE LET new == [v |-> op.v, x |-> op.x]
                   a   == [v |-> new.v, x |-> new.x, ov |-> cur.v] IN
               IF new = cur THEN Run(c, m0, cur, k + 1)                     \* identical re-set: no event
               ELSE IF new.v = cur.v THEN Run(c, HNonEval(c, m0, op.t, a), new, k + 1)   \* attribute-only update
               ELSE Run(c, HEval(c, m0, op.t, Truth(new), a), new, k + 1)

Flat(rs) == [i \in 1..Len(rs) |-> [t |-> rs[i].t, v |-> rs[i].a.v, x |-> rs[i].a.x, ov |-> rs[i].a.ov]]
Expected(c, flags) ==
  LET cc == [S |-> c.S, H |-> c.H, check |-> c.check, mode |-> c.mode, t0 |-> c.t0, flags |-> flags,
             ops |-> c.ops, horizon |-> c.horizon]
      r  == Flat(Run(cc, HStart(cc, M0(InitArgs), Truth(c.init), InitArgs), c.init, 1).runs)
  IN IF c.mode = "wait" THEN (IF r = <<>> THEN <<>> ELSE <<r[1]>>) ELSE r     \* wait_until returns at the first one

Explaining(c) == { fs \in SUBSET AllFlags : Expected(c, fs) = c.runs }
Smallest(S) == CHOOSE fs \in S : \A g \in S : Cardinality(fs) <= Cardinality(g)
SetToSeq(S) == LET RECURSIVE F(_)
                   F(T) == IF T = {} THEN <<>> ELSE LET x == CHOOSE y \in T : TRUE IN <<x>> \o F(T \ {x})
               IN F(S)

VARIABLE i
Init == i = 1
Next == i <= Len(Cases) /\ i' = i + 1
Spec == Init /\ [][Next]_i
Report == i <= Len(Cases) =>
  LET c == Cases[i]  e == Expected(c, {})
  IN IF e = c.runs THEN TRUE
     ELSE LET ex == Explaining(c) IN
          PrintT("REJECT " \o ToJson([id |-> c.id, exp |-> e, obs |-> c.runs,
                                      why |-> IF ex = {} THEN <<"unexplained">> ELSE SetToSeq(Smallest(ex))]))
=============================================================================
