----------------------------- MODULE GuardTrace -----------------------------
(* Acceptor for recordings of real guarded trigger functions (C07), folding GuardCore over  *)
(* the recorded timeline.  A case:                                                           *)
(*   [id, g : [sa, ta, ho, taFirst], init : [a, b : St], events : <<ev>>, runs : <<[t, k]>>] *)
(* ev = [t, k, e, s]: k = "set" (entity e gets state s; a change of a's value is a state     *)
(* trigger occurrence, b is not watched), "fire" (event occurrence), "time" (time trigger    *)
(* occurrence), "call" (the function is called directly).  g.wb: a second @state_trigger      *)
(* decorator watches b too.  Times in ms of the day; events are settled one at a time except   *)
(* bursts of changes of ONE entity at one instant, so values are unambiguous.  Observed runs carry the time and    *)
(* trigger_type.  Deviations are classified by the named flags of GuardCore.                 *)
EXTENDS GuardCore, Sequences, FiniteSets, TLC, Json, IOUtils
Cases == JsonDeserialize(IOEnv.CASES)
AllFlags == {"ta-per-argument", "holdoff-from-passed-window"}

Occ(k, t, hass, e, old) == [k |-> k, t |-> t,
                            val |-> [cur |-> hass, old |-> [x \in Ent |-> IF x = e THEN old ELSE Unset]]]

RECURSIVE Fold(_, _, _, _, _, _)
Fold(g, evs, i, hass, gs, runs) ==
  IF i > Len(evs) THEN runs
  ELSE LET ev == evs[i] IN
    CASE ev.k = "set" ->
           IF ev.s = hass[ev.e] THEN Fold(g, evs, i + 1, hass, gs, runs)            \* identical re-set: no event
           ELSE LET h2 == [hass EXCEPT ![ev.e] = ev.s] IN
                IF (ev.e = "a" \/ g.wb) /\ ev.s.v # hass[ev.e].v
                THEN LET r == GStep(g, gs, Occ("state", ev.t, h2, ev.e, hass[ev.e])) IN
                     Fold(g, evs, i + 1, h2, r.gs, IF r.run THEN Append(runs, [t |-> ev.t, k |-> "state"]) ELSE runs)
                ELSE Fold(g, evs, i + 1, h2, gs, runs)
      [] ev.k = "fire" -> LET r == GStep(g, gs, Occ("event", ev.t, hass, "-", Unset)) IN
                          Fold(g, evs, i + 1, hass, r.gs, IF r.run THEN Append(runs, [t |-> ev.t, k |-> "event"]) ELSE runs)
      [] ev.k = "time" -> LET r == GStep(g, gs, Occ("time", ev.t, hass, "-", Unset)) IN
                          Fold(g, evs, i + 1, hass, r.gs, IF r.run THEN Append(runs, [t |-> ev.t, k |-> "time"]) ELSE runs)
      [] ev.k = "call" -> LET r == GStep(g, gs, Occ("direct", ev.t, hass, "-", Unset)) IN
                          Fold(g, evs, i + 1, hass, r.gs, Append(runs, [t |-> ev.t, k |-> "direct"]))
      [] OTHER -> Fold(g, evs, i + 1, hass, gs, runs)

Expected(c, flags) ==
  LET g == [sa |-> c.g.sa, ta |-> c.g.ta, ho |-> c.g.ho, wb |-> c.g.wb,
            flags |-> IF c.g.taFirst THEN flags ELSE flags \ {"holdoff-from-passed-window"}]
  IN Fold(g, c.events, 1, c.init, GS0, <<>>)

Explaining(c) == { fs \in SUBSET AllFlags : Expected(c, fs) = c.runs }
Smallest(S) == CHOOSE fs \in S : \A h \in S : Cardinality(fs) <= Cardinality(h)
SetToSeq(S) == LET RECURSIVE F(_)
                   F(T) == IF T = {} THEN <<>> ELSE LET x == CHOOSE y \in T : TRUE IN <<x>> \o F(T \ {x})
               IN F(S)
\* every observed run corresponds to an occurrence of the timeline (guards never start runs)
RunsAreOccurrences(c) == \A j \in 1..Len(c.runs) : \E i \in 1..Len(c.events) :
                            c.events[i].t = c.runs[j].t /\
                            (c.events[i].k = "set" => c.runs[j].k = "state") /\ (c.events[i].k = "fire" => c.runs[j].k = "event") /\
                            (c.events[i].k = "time" => c.runs[j].k = "time") /\ (c.events[i].k = "call" => c.runs[j].k = "direct")

VARIABLE i
Init == i = 1
Next == i <= Len(Cases) /\ i' = i + 1
Spec == Init /\ [][Next]_i
Report == i <= Len(Cases) =>
  LET c == Cases[i]  e == Expected(c, {})
  IN IF e = c.runs THEN TRUE
     ELSE LET ex == Explaining(c) IN
          PrintT("REJECT " \o ToJson([id |-> c.id, exp |-> e, obs |-> c.runs,
                   why |-> IF ~RunsAreOccurrences(c) THEN <<"run-without-occurrence">>
                           ELSE IF ex = {} THEN <<"unexplained">> ELSE SetToSeq(Smallest(ex))]))
=============================================================================
