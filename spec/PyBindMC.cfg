SPECIFICATION Spec
INVARIANTS T_All T_ReservedOnlyDrops
CHECK_DEADLOCK FALSE
