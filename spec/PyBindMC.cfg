SPECIFICATION Spec
INVARIANT T_All
CHECK_DEADLOCK FALSE
