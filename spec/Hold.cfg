SPECIFICATION Spec
CONSTANTS MaxT = 8
 MaxEvals = 4
INVARIANT RunsMatchStatement
INVARIANT RunsInTimeOrder
INVARIANT DefinitionTimeTrigger
PROPERTY NonEvalIsStuttering
CHECK_DEADLOCK FALSE
