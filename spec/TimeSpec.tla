------------------------------ MODULE TimeSpec ------------------------------
(* Denotation of pyscript's time specifications (C06) and of @time_active windows (C07).      *)
(*                                                                                            *)
(* Everything is written as "the set of instants a specification denotes" and "the least      *)
(* element after now"; nothing here follows the implementation's day-offset search.           *)
(*                                                                                            *)
(* Instants are naive local wall-clock limbs <<sec, usec>> (module Calendar).  `now` is a     *)
(* record [t |-> <<sec, usec>>, fold |-> 0 | 1] (fold = 1: second pass through the hour       *)
(* repeated when clocks are set back, PEP 495); `startup` is a plain instant.                 *)
(*                                                                                            *)
(* Environment (inputs, supplied with every batch / model):                                   *)
(*   Env.tz  : << [utc |-> Int, off |-> Int], ... >>  UTC offset (seconds east) in force from *)
(*             UTC second `utc` on; ascending; the first entry covers everything before.      *)
(*   Env.sun : [day0, rise, set]  rise[d - day0 + 1] = local second-of-day of sunrise on day  *)
(*             number d (whole seconds, what the astral helper pyscript calls returns).       *)
(*                                                                                            *)
(* Data shapes (the harness renders the same structures to pyscript's text syntax):           *)
(*   off  = [neg : BOOLEAN, s : Nat, u : 0..999999]                                           *)
(*   dt   = [date : [k : "full"|"md"|"dow"|"today"|"tomorrow"|"none"|"now", y, m, d, w],      *)
(*           tod  : [k : "clock"|"sunrise"|"sunset", s, u],  off : off]                       *)
(*   spec = [kind |-> "once",   dt]                                                           *)
(*        | [kind |-> "period", start : dt, isec : Nat \ {0}, hasend : BOOLEAN, end : dt]     *)
(*        | [kind |-> "cron",   mins, hours, doms, mons, dows, secs : sequences of numbers,   *)
(*                              domstar, dowstar : BOOLEAN]                                   *)
(*   window (time_active) = [neg : BOOLEAN, k : "range", start : dt, end : dt]                *)
(*                        | [neg : BOOLEAN, k : "cron", c : cron spec, hassec : BOOLEAN]      *)
(*                                                                                            *)
(* Points on which the property statement is silent are nondeterministic: a variant record    *)
(*   v = [ref : day, elapsed : BOOLEAN, incl : BOOLEAN]                                       *)
(* chooses the reference day of `today`/`tomorrow` (day of now or of startup), the time scale *)
(* in which a dated period() is equally spaced (local wall clock, as the repository's tests   *)
(* expect, or elapsed time, as the documentation says), and whether now = startup coinciding  *)
(* with an instant of a non-`now` form counts.  Next(...) is the SET of admissible answers.   *)
EXTENDS Calendar
CONSTANT Env

None  == [k |-> "none"]
At(t) == [k |-> "at", t |-> t]

\* ------------------------------------------------------------------ time zone
TZ == Env.tz
OffAtUtc(u) == TZ[CHOOSE i \in 1..Len(TZ) : (i = 1 \/ TZ[i].utc <= u) /\ (i = Len(TZ) \/ TZ[i + 1].utc > u)].off
\* local seconds that do not exist (clocks set forward) / exist twice (clocks set back) at transition i
GapIdx(L) == { i \in 2..Len(TZ) : TZ[i].utc + TZ[i - 1].off <= L /\ L < TZ[i].utc + TZ[i].off }
AmbIdx(L) == { i \in 2..Len(TZ) : TZ[i].utc + TZ[i].off <= L /\ L < TZ[i].utc + TZ[i - 1].off }
\* UTC second of local second L (PEP 495: fold 0 = offset before the transition, fold 1 = after)
UtcSec(L, fold) ==
  IF GapIdx(L) \cup AmbIdx(L) # {}
  THEN LET i == CHOOSE i \in GapIdx(L) \cup AmbIdx(L) : TRUE IN L - (IF fold = 0 THEN TZ[i - 1].off ELSE TZ[i].off)
  ELSE L - TZ[CHOOSE j \in 1..Len(TZ) : (j = 1 \/ TZ[j].utc + TZ[j].off <= L) /\
                                        (j = Len(TZ) \/ TZ[j + 1].utc + TZ[j + 1].off > L)].off
Utc(N)     == <<UtcSec(N.t[1], N.fold), N.t[2]>>
UtcOfT(t)  == <<UtcSec(t[1], 0), t[2]>>                    \* a label carries no fold: fold 0
LocalOf(u) == LET L == u[1] + OffAtUtc(u[1])
              IN [t |-> <<L, u[2]>>, fold |-> IF \E i \in AmbIdx(L) : u[1] >= TZ[i].utc THEN 1 ELSE 0]
IsGap(t)   == GapIdx(t[1]) # {}
\* the wait pyscript must report: now + (elapsed time between now and the local instant t)
Adj(N, t)  == <<N.t[1] + UtcSec(t[1], 0) - UtcSec(N.t[1], N.fold), t[2]>>

\* ------------------------------------------------------------------ sun
SunSec(day, which) == LET i == day - Env.sun.day0 + 1
                      IN IF which = "sunrise" THEN Env.sun.rise[i] ELSE Env.sun.set[i]

\* ------------------------------------------------------------------ datetime forms
TodOn(day, dt) == IF dt.tod.k = "clock" THEN <<day * 86400 + dt.tod.s, dt.tod.u>>
                  ELSE <<day * 86400 + SunSec(day, dt.tod.k), 0>>
Inst(day, dt)  == AddOff(TodOn(day, dt), dt.off)
IsNowForm(dt)  == dt.date.k = "now"
Dated(dt)      == dt.date.k \in {"full", "now", "today", "tomorrow"}       \* denotes exactly one instant

\* the instants a datetime form denotes, restricted to a window of days around t (wide enough
\* to contain the least one after t and everything an offset can bring back before it)
Den(dt, t, startup, v) ==
  LET nd == DayOf(t) - (IF dt.off.neg THEN 0 - dt.off.s \div 86400 ELSE dt.off.s \div 86400)   \* day of t minus the offset's whole days
      ny == YearOfDay(nd)
  IN CASE dt.date.k = "full"     -> { Inst(DaysFromCivil(dt.date.y, dt.date.m, dt.date.d), dt) }
       [] dt.date.k = "md"       -> { Inst(DaysFromCivil(y, dt.date.m, dt.date.d), dt) :
                                       y \in { yy \in (ny - 1)..(ny + 4) : ValidDate(yy, dt.date.m, dt.date.d) } }
       [] dt.date.k = "dow"      -> { Inst(d, dt) : d \in { dd \in (nd - 9)..(nd + 9) : Weekday(dd) = dt.date.w } }
       [] dt.date.k = "none"     -> { Inst(d, dt) : d \in (nd - 3)..(nd + 3) }
       [] dt.date.k = "today"    -> { Inst(v.ref, dt) }
       [] dt.date.k = "tomorrow" -> { Inst(v.ref + 1, dt) }
       [] dt.date.k = "now"      -> { AddOff(startup, dt.off) }
The(S) == CHOOSE x \in S : TRUE

\* "strictly after now"; the documented exception: `now` itself counts at startup (startup == once(now));
\* the same coincidence for other forms is left open (v.incl)
After(x, N, startup, isnow, v) == Lt(N.t, x) \/ (x = N.t /\ N.t = startup /\ (isnow \/ v.incl))

\* ------------------------------------------------------------------ once()
NextOnce(dt, N, startup, v) ==
  LET C == { x \in Den(dt, N.t, startup, v) : After(x, N, startup, IsNowForm(dt) /\ dt.off.s = 0 /\ dt.off.u = 0, v) }
  IN IF C = {} THEN None ELSE At(MinT(C))

\* ------------------------------------------------------------------ period()
\* least element of { S + k*i : k >= 0 } (and <= E) that comes after t;  inclS: S itself counts when
\* it equals t, inclAny: any element equal to t counts
ProgNext(S, i, hasE, E, t, inclS, inclAny) ==
  LET q  == FloorQuot(t, S, i)
      ks == { k \in {0, q, q + 1} : k >= 0 /\ LET x == AddSec(S, k * i)
                                              IN Lt(t, x) \/ (x = t /\ (inclAny \/ (inclS /\ k = 0))) }
  IN IF ks = {} THEN None
     ELSE LET x == AddSec(S, MinN(ks) * i) IN IF hasE /\ Lt(E, x) THEN None ELSE At(x)

NextPeriod(p, N, startup, v) ==
  LET atStart == N.t = startup
      inclS   == atStart /\ IsNowForm(p.start) /\ p.start.off.s = 0 /\ p.start.off.u = 0
      inclAny == atStart /\ v.incl
  IN IF Dated(p.start)
     THEN \* one anchor; equally spaced in local wall-clock time or in elapsed time (v.elapsed)
          LET S == The(Den(p.start, N.t, startup, v))
              E == IF p.hasend THEN The(Den(p.end, N.t, startup, v)) ELSE <<0, 0>>
          IN IF ~v.elapsed THEN ProgNext(S, p.isec, p.hasend, E, N.t, inclS, inclAny)
             ELSE LET r == ProgNext(UtcOfT(S), p.isec, p.hasend, UtcOfT(E), Utc(N), inclS, inclAny)
                  IN IF r.k = "none" THEN None ELSE At(LocalOf(r.t).t)
     ELSE \* time-only start: one progression per day, anchored at that day's start; without an end a
          \* day's progression runs until the next day's anchor, with an end until the end resolved on
          \* the same day (on the following day when it precedes the start)
          LET nd == DayOf(N.t)
              one(d) == LET S == Inst(d, p.start)
                            E == IF ~p.hasend THEN AddOff(S, [neg |-> FALSE, s |-> 86399, u |-> 999999])
                                 ELSE IF Lt(Inst(d, p.end), S) THEN Inst(d + 1, p.end) ELSE Inst(d, p.end)
                        IN ProgNext(S, p.isec, TRUE, E, N.t, FALSE, inclAny)
              R == { one(d) : d \in (nd - 2)..(nd + 2) } \ {None}
          IN IF R = {} THEN None ELSE At(MinT({ r.t : r \in R }))

\* ------------------------------------------------------------------ cron()
In(x, seq) == \E i \in 1..Len(seq) : seq[i] = x          \* membership in a sequence
\* crontab's day rule: day of month and day of week both restricted -> either may match
DayCond(c, dom, wd) == IF c.domstar \/ c.dowstar THEN In(dom, c.doms) /\ In(wd, c.dows)
                       ELSE In(dom, c.doms) \/ In(wd, c.dows)
CronDayOk(c, day) == LET cv == Civil(day) IN In(cv.m, c.mons) /\ DayCond(c, cv.d, Weekday(day))
\* the days of month (y, m) that satisfy the day rule
MonthDays(c, y, m) == { DaysFromCivil(y, m, d) : d \in { dd \in 1..DaysIn(y, m) : DayCond(c, dd, Weekday(DaysFromCivil(y, m, dd))) } }
\* least day after d0 that satisfies month and day rule (searched month by month, up to 5 years), or -1
NextCronDay(c, d0) ==
  LET cv  == Civil(d0)
      mi0 == cv.y * 12 + cv.m - 1
      MonthNo(k) == ((mi0 + k) % 12) + 1
      MD(k) == IF In(MonthNo(k), c.mons)
               THEN { d \in MonthDays(c, (mi0 + k) \div 12, MonthNo(k)) : d > d0 } ELSE {}
      First(lo, hi) == LET Ks == { k \in lo..hi : MD(k) # {} } IN IF Ks = {} THEN 0 - 1 ELSE MinN(Ks)
      k1 == First(0, 1)
      k2 == First(2, 12)
      k3 == First(13, 60)
  IN IF k1 >= 0 THEN MinN(MD(k1)) ELSE IF k2 >= 0 THEN MinN(MD(k2)) ELSE IF k3 >= 0 THEN MinN(MD(k3)) ELSE 0 - 1
\* membership: the wall-clock second `sec` (naive) is an instant of the cron specification
CronDenotes(c, sec) == /\ CronDayOk(c, sec \div 86400)
                       /\ In((sec % 86400) \div 3600, c.hours)
                       /\ In((sec % 3600) \div 60, c.mins)
                       /\ In(sec % 60, c.secs)
\* least second-of-day in hours x mins x secs (lexicographic = numeric order) greater than s0, or -1
TodSucc(c, s0) ==
  LET H == Range(c.hours)  M == Range(c.mins)  S == Range(c.secs)
      h0 == s0 \div 3600  m0 == (s0 % 3600) \div 60  x0 == s0 % 60
  IN IF h0 \in H /\ m0 \in M /\ (\E s \in S : s > x0) THEN h0 * 3600 + m0 * 60 + MinN({ s \in S : s > x0 })
     ELSE IF h0 \in H /\ (\E m \in M : m > m0) THEN h0 * 3600 + MinN({ m \in M : m > m0 }) * 60 + MinN(S)
     ELSE IF \E h \in H : h > h0 THEN MinN({ h \in H : h > h0 }) * 3600 + MinN(M) * 60 + MinN(S)
     ELSE 0 - 1
\* A cron instant w comes after now iff it is later on the wall clock AND later in elapsed time
\* (in the second pass through a repeated hour the first-pass labels are over).  For every now
\* that exists on the wall clock this is "w > CronThr(now)" (lemma checked by TimeMC).
CronAfter(w, N) == w > N.t[1] /\ UtcSec(w, 0) > UtcSec(N.t[1], N.fold)
CronThr(N) == IF N.fold = 1 /\ AmbIdx(N.t[1]) # {}
              THEN LET i == CHOOSE i \in AmbIdx(N.t[1]) : TRUE IN TZ[i].utc + TZ[i - 1].off - 1
              ELSE N.t[1]
NextCron(c, N, startup, v) ==
  LET thr   == IF v.incl /\ N.t = startup /\ N.t[2] = 0 THEN CronThr(N) - 1 ELSE CronThr(N)
      d0    == thr \div 86400
      today == IF CronDayOk(c, d0) THEN TodSucc(c, thr % 86400) ELSE 0 - 1
      first == TodSucc(c, 0 - 1)
      pick  == NextCronDay(c, d0)
  IN IF today >= 0 THEN At(<<d0 * 86400 + today, 0>>)
     ELSE IF pick < 0 \/ first < 0 THEN None ELSE At(<<pick * 86400 + first, 0>>)

\* ------------------------------------------------------------------ Next
NextOne(sp, N, startup, v) ==
  CASE sp.kind = "once"   -> NextOnce(sp.dt, N, startup, v)
    [] sp.kind = "period" -> NextPeriod(sp, N, startup, v)
    [] sp.kind = "cron"   -> NextCron(sp, N, startup, v)
\* minimum over the list; idx = a specification that attains it
NextV(specs, N, startup, v) ==
  LET R == [i \in 1..Len(specs) |-> NextOne(specs[i], N, startup, v)]
      A == { i \in 1..Len(specs) : R[i].k = "at" }
  IN IF A = {} THEN [k |-> "none"]
     ELSE LET i == CHOOSE i \in A : \A j \in A : Le(R[i].t, R[j].t)
          IN [k |-> "at", t |-> R[i].t, adj |-> Adj(N, R[i].t), idx |-> i]

UsesDayWord(sp) == \/ sp.kind = "once" /\ sp.dt.date.k \in {"today", "tomorrow"}
                   \/ sp.kind = "period" /\ (sp.start.date.k \in {"today", "tomorrow"} \/
                                             (sp.hasend /\ sp.end.date.k \in {"today", "tomorrow"}))
Variants(specs, N, startup) ==
  [ ref     : IF \E i \in 1..Len(specs) : UsesDayWord(specs[i]) THEN {DayOf(N.t), DayOf(startup)} ELSE {DayOf(N.t)},
    elapsed : IF \E i \in 1..Len(specs) : specs[i].kind = "period" /\ Dated(specs[i].start) THEN BOOLEAN ELSE {FALSE},
    incl    : IF N.t = startup THEN BOOLEAN ELSE {FALSE} ]
\* the admissible answers: [k |-> "none"] or [k |-> "at", t, adj, idx]
Next(specs, N, startup) == { NextV(specs, N, startup, v) : v \in Variants(specs, N, startup) }
\* an observed answer [k, t, adj] is admissible (a label inside a skipped hour may also be
\* reported as the existing wall-clock time of the same instant)
Admissible(obs, specs, N, startup) ==
  \E e \in Next(specs, N, startup) :
     /\ e.k = obs.k
     /\ e.k = "at" => /\ obs.t = e.t \/ (IsGap(e.t) /\ obs.t = LocalOf(UtcOfT(e.t)).t)
                      /\ obs.adj = e.adj

\* ------------------------------------------------------------------ @time_active windows (C07)
\* a range() end point is resolved the way the documentation describes: a time-only form on the
\* day of the reference instant, a yearless date in the reference's year, `now` relative to startup
Resolve(dt, ref, startup) ==
  CASE dt.date.k = "full" -> Inst(DaysFromCivil(dt.date.y, dt.date.m, dt.date.d), dt)
    [] dt.date.k = "md"   -> Inst(DaysFromCivil(YearOfDay(DayOf(ref)), dt.date.m, dt.date.d), dt)
    [] dt.date.k = "now"  -> AddOff(startup, dt.off)
    [] OTHER              -> Inst(DayOf(ref), dt)
InRange(r, t, startup) ==
  LET s == Resolve(r.start, t, startup)
      e == Resolve(r.end, s, startup)                 \* the end is resolved on the start's day
  IN IF Le(s, e) THEN Le(s, t) /\ Le(t, e)            \* both end points included
     ELSE Le(s, t) \/ Le(t, e)                        \* end before start: wraps around midnight
CronMatch(w, t) == /\ CronDayOk(w.c, DayOf(t))
                   /\ In(SecOfDay(t) \div 3600, w.c.hours)
                   /\ In((t[1] % 3600) \div 60, w.c.mins)
                   /\ w.hassec => In(t[1] % 60, w.c.secs)
InWindow(w, t, startup) == IF w.k = "cron" THEN CronMatch(w, t) ELSE InRange(w, t, startup)
Active(specs, t, startup) ==
  LET pos == { i \in 1..Len(specs) : ~specs[i].neg }
      neg == { i \in 1..Len(specs) : specs[i].neg }
  IN /\ (pos = {} \/ \E i \in pos : InWindow(specs[i], t, startup))
     /\ \A i \in neg : ~InWindow(specs[i], t, startup)
=============================================================================
