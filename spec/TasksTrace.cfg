SPECIFICATION TSpec
CONSTANTS
  Task = {"t1", "t2", "t3", "t4", "t5", "t6"}
  Foreign = {"f1", "f2"}
  Name = {"n1", "n2", "n3"}
  Ctx = {"c1", "c2", "c3"}
  Roam = TRUE
  Fn = {"g1", "g2", "g3", "q1", "p1", "p2", "a1", "l1", "b1", "b2", "m1", "m2"}
  MethFn = {"m1", "m2"}
  MaxArg = 9
  MaxOps = 1000
  MaxEnv = 1000
  Ops = {"unique", "sleep", "raise", "create", "cancel", "addcb", "rmcb", "wait", "exec", "call", "cbtab"}
  Kinds = {"trig", "svc"}
  Decos <- DecosAll
  Flags = {}
  None = "-"
CONSTRAINT Track
INVARIANT TypeOK
INVARIANT MapsConsistent
POSTCONDITION Accepted
CHECK_DEADLOCK FALSE
