------------------------------ MODULE HoldCore ------------------------------
(* state_check_now / state_hold / state_hold_false automaton (C05), as pure operators on a  *)
(* record  m = [waiting, hs (hold start), ha (hold args), ft (false time), runs]  so that   *)
(* the model (Hold.tla) and the acceptor of real recordings (HoldTrace.tla) share them.     *)
(* A configuration c has  S, H (NoneT = not given), check (state_check_now in effect),      *)
(* mode ("dec" | "wait"), t0 (definition time) and flags: the set of *named deviations*     *)
(* of the code from the statement.  flags = {} is the statement.                            *)
(*   "noneval-false"       a non-evaluating change of the subscribed entity is handled as a *)
(*                         false evaluation (cancels the hold, starts the false period)     *)
(*   "latest-args"         a pending hold's arguments are overwritten by later notifications*)
(*   "no-init-fire"        check_now + hold_false + initially true: no trigger at definition*)
(*   "wait-no-false-start" wait_until, check_now, hold_false, initially false: the false    *)
(*                         period does not start at the call                                *)
EXTENDS Integers, Sequences

NoneT == -1

HFire(m, t, a) == [m EXCEPT !.runs = Append(@, [t |-> t, a |-> a])]

\* the hold stage, shared by the initial check and by evaluations caused by changes
HHoldStage(c, m, now, ok, a) ==
  IF c.S # NoneT
  THEN IF ok THEN IF ~m.waiting THEN [m EXCEPT !.waiting = TRUE, !.hs = now, !.ha = a]
                                ELSE m                               \* neither restarts nor cancels
             ELSE [m EXCEPT !.waiting = FALSE]                       \* a false evaluation cancels
  ELSE IF ok THEN HFire(m, now, a) ELSE m

\* expiry of a pending hold due strictly before / up to `upto`
HExpire(c, m, upto, strict) ==
  IF m.waiting /\ (IF strict THEN m.hs + c.S < upto ELSE m.hs + c.S <= upto)
  THEN [HFire(m, m.hs + c.S, m.ha) EXCEPT !.waiting = FALSE] ELSE m

\* definition time (decorator start / wait_until call); ok = initial truth, a0 = initial arguments
HStart(c, m, ok, a0) ==
  IF c.check \/ c.H # NoneT
  THEN LET noFalseStart == "wait-no-false-start" \in c.flags /\ c.mode = "wait" /\ c.check /\ c.H # NoneT /\ ~ok
           m1 == IF c.H # NoneT /\ ~noFalseStart THEN [m EXCEPT !.ft = IF ok THEN NoneT ELSE c.t0] ELSE m
           noFire == "no-init-fire" \in c.flags /\ c.mode = "dec" /\ c.H # NoneT /\ ok
       IN IF c.check /\ ~noFire THEN HHoldStage(c, m1, c.t0, ok, a0) ELSE m1
  ELSE m

\* one evaluation caused by a watched change, with truth ok and arguments a
HEval(c, m, now, ok, a) ==
  LET m0 == IF "latest-args" \in c.flags /\ m.waiting THEN [m EXCEPT !.ha = a] ELSE m IN
  IF c.H # NoneT
  THEN IF m0.ft = NoneT
       THEN IF ok THEN m0                                            \* not preceded by false: ignored
                  ELSE HHoldStage(c, [m0 EXCEPT !.ft = now], now, FALSE, a)
       ELSE IF ok THEN IF now - m0.ft < c.H THEN [m0 EXCEPT !.ft = NoneT]      \* too soon: start over
                                           ELSE HHoldStage(c, [m0 EXCEPT !.ft = NoneT], now, TRUE, a)
                  ELSE HHoldStage(c, m0, now, FALSE, a)
  ELSE HHoldStage(c, m0, now, ok, a)

\* a change of the subscribed entity that causes no evaluation (attribute-only update of a
\* value-watched entity): a stuttering step of the statement's automaton
HNonEval(c, m, now, a) ==
  LET m0 == IF "latest-args" \in c.flags /\ m.waiting THEN [m EXCEPT !.ha = a] ELSE m IN
  IF "noneval-false" \in c.flags
  THEN IF c.H # NoneT /\ m0.ft = NoneT THEN HHoldStage(c, [m0 EXCEPT !.ft = now], now, FALSE, a)
                                        ELSE HHoldStage(c, m0, now, FALSE, a)
  ELSE m0

M0(a0) == [waiting |-> FALSE, hs |-> 0, ha |-> a0, ft |-> NoneT, runs |-> <<>>]
=============================================================================
