----------------------------- MODULE PyFlowCore -----------------------------
(* C02 - Python control flow as a completion-record statement machine.                     *)
(*                                                                                          *)
(* One set of rules, two uses:                                                              *)
(*   env.chk = TRUE   the machine CHECKS a recording env.tr (trace acceptor, PyFlow.tla):   *)
(*                    every event the rules produce must be the next recorded event;        *)
(*                    condition values are read from the recording.                         *)
(*   env.chk = FALSE  the machine GENERATES its own trace from an oracle vector env.orc     *)
(*                    (operator Run, used by PyFlowMC.tla to check machine theorems);       *)
(*                    with env.gh it also emits ghost events (statement/block spans).       *)
(*                                                                                          *)
(* Program (JSON): funcs = << body_1, ..., body_k >>, body = sequence of statements         *)
(*   [k|->"t",n] [k|->"pass"] [k|->"break"] [k|->"continue"] [k|->"return",n] [k|->"ret0"]  *)
(*   [k|->"raise",exc,n,cause] [k|->"reraise"] [k|->"assert",n]                             *)
(*   [k|->"if",n,body,orelse] [k|->"while",n,body,orelse] [k|->"for",n,count,body,orelse]   *)
(*   [k|->"try",body,handlers:<<[types,bind,name,n,body]>>,orelse,final]                           *)
(*   [k|->"with",items:<<[n,sup,er,xr,q,ev,tg,sx]>>,body]   [k|->"call",f,n]                *)
(*     item: ev = kind of value __enter__ returns ("self","int","t0".."t3" = tuple of 0..3   *)
(*     ints n, n+1, ..), tg = form of the `as` target ("" none, "name", "tup" (a, b), "lst"  *)
(*     [a, b], "star" (a, *b), "tupst" (a, H.x), "attr" H.x, "sub" H[0], "slot" attribute of *)
(*     an object without it, "idx" index outside a list), sx = exception class raised by the *)
(*     recording holder H's store ("" = the store succeeds)                                  *)
(* Recording alphabet:                                                                      *)
(*   [e"t",n] tracer | [e"c",n,v] condition site n evaluated to v | [e"it",n] iterator of   *)
(*   for-loop n created | [e"nx",n] its __next__ called | [e"mk",n] manager constructed |   *)
(*   [e"enter",n] | [e"exit",n,x,s] __exit__ called with exception class x raised at site s *)
(*   ("None",0 without) | [e"x",n,x,s] handler n bound exception (x,s) to its `as` name |   *)
(*   [e"r",n,rv] call site n returned rv (0 = None) | final [e"end",k"value",rv] or         *)
(*   [e"end",k"raise",x,s,c] (class, site, class of __cause__).                             *)
(* Exception classes: BaseException > Exception > {E1 > E2, E3, AE, RE, TE, VE, AT, IE};    *)
(* B1 < BaseException.  (TE/VE/AT/IE = TypeError/ValueError/AttributeError/IndexError.)    *)
EXTENDS Naturals, Sequences, TLC

Norm      == [k |-> "norm"]
Brk(le)   == [k |-> "break", le |-> le]       \* le: issued in the else clause of an inner loop
Cont(le)  == [k |-> "continue", le |-> le]
Ret(v)    == [k |-> "return", v |-> v]
Exc(x)    == [k |-> "raise", x |-> x]         \* x = [e |-> class, s |-> site, c |-> cause class]
X(e, s, c) == [e |-> e, s |-> s, c |-> c]
NoExc     == X("", 0, "None")

IsSub(e, c) == \/ e = c
               \/ e = "E2" /\ c = "E1"
               \/ c = "Exception" /\ e # "B1"
               \/ c = "BaseException"

W(k, cl) == [k |-> k, cl |-> cl]
NoEv == [e |-> ""]

\* b1, unb: sticky facts about the run so far that delimit known deviations of the implementation (reported with a
\* rejection, never used by the rules): an exception outside the Exception hierarchy has been raised; a handler's
\* `as` name was already unbound when the handler ended (fine in Python).  bound = `as` names bound in this frame.
St0 == [ok |-> TRUE, why |-> "", l |-> 1, o |-> 1, out |-> <<>>, want |-> NoEv, w |-> W("", ""), decs |-> <<>>,
        b1 |-> FALSE, unb |-> FALSE, bound |-> {}]

Fail(st, why, ev, w) == IF st.ok THEN [st EXCEPT !.ok = FALSE, !.why = why, !.want = ev, !.w = w] ELSE st

\* an unobserved decision of the machine; the list since the last agreed event is reported on rejection
Dec5(st, k, cl, a, b, x) == IF st.ok /\ Len(st.decs) < 6
                           THEN [st EXCEPT !.decs = Append(@, [k |-> k, cl |-> cl, a |-> a, b |-> b, x |-> x])] ELSE st
Dec(st, k, cl) == Dec5(st, k, cl, "", "", "")

\* produce (generate) or demand (check) one event
Emit(env, st, ev, w) ==
  IF ~st.ok THEN st
  ELSE IF env.chk
       THEN IF st.l > Len(env.tr) THEN Fail(st, "recording ends early", ev, w)
            ELSE IF env.tr[st.l] # ev THEN Fail(st, "unexpected event", ev, w)
            ELSE [st EXCEPT !.l = @ + 1, !.decs = <<>>]
       ELSE [st EXCEPT !.l = @ + 1, !.out = Append(@, ev)]

\* ghost events exist only in generated runs
Ghost(env, st, g, p, kind, x) ==
  IF env.gh /\ st.ok /\ ~env.chk
  THEN [st EXCEPT !.out = Append(@, [e |-> "g", g |-> g, p |-> p, kind |-> kind, x |-> x])]
  ELSE st

\* a condition site: value from the recording (check) or from the oracle (generate; FALSE when exhausted,
\* exactly like the harness' c())
Cond(env, st, n, w) ==
  IF ~st.ok THEN [st |-> st, v |-> FALSE]
  ELSE IF env.chk
       THEN IF st.l <= Len(env.tr) /\ env.tr[st.l].e = "c" /\ env.tr[st.l].n = n
            THEN [st |-> [st EXCEPT !.l = @ + 1, !.decs = <<>>], v |-> env.tr[st.l].v]
            ELSE [st |-> Fail(st, IF st.l > Len(env.tr) THEN "recording ends early" ELSE "unexpected event",
                              [e |-> "c", n |-> n], w), v |-> FALSE]
       ELSE LET v == IF st.o > Len(env.orc) THEN FALSE ELSE env.orc[st.o]
            IN [st |-> [st EXCEPT !.l = @ + 1, !.o = @ + 1, !.out = Append(@, [e |-> "c", n |-> n, v |-> v])], v |-> v]

R(st, c) == [st |-> st, c |-> c]
Cx(hx, le, p) == [hx |-> hx, le |-> le, p |-> p]
Sub(env, cx, slot, i) == IF env.gh THEN Append(Append(cx.p, slot), i) ELSE cx.p      \* paths: <<slot, index, slot, index, ...>>
\* tags of a completion for decision records (no string building: TLC interns every new string)
CTag(c) == CASE c.k = "break"    -> IF c.le THEN "break-in-loop-else" ELSE "break"
             [] c.k = "continue" -> IF c.le THEN "continue-in-loop-else" ELSE "continue"
             [] OTHER            -> c.k
CExc(c) == IF c.k = "raise" THEN c.x.e ELSE ""
CtxCl(n, i) == IF n = 1 THEN "context-expr" ELSE IF i = 1 THEN "context-expr-first-of-many" ELSE "context-expr-later-item"
EntCl(n, i) == IF n = 1 THEN "enter" ELSE IF i = 1 THEN "enter-first-of-many" ELSE "enter-later-item"


\* ---------------------------------------------------------------- `with ITEM as TARGET`
\* The value of __enter__ is bound to the target INSIDE the region the manager protects (Python: the statement is
\* `mgr = ITEM; v = mgr.__enter__(); try: TARGET = v; SUITE ... `): a binding that raises is handed to this
\* manager's __exit__ (and to the outer ones), which may swallow it; the later items and the body do not run.
Ints(a, k) == CASE k = 0 -> <<>> [] k = 1 -> <<a>> [] k = 2 -> <<a, a + 1>> [] OTHER -> <<a, a + 1, a + 2>>
IsSeqVal(ev) == ev \in {"t0", "t1", "t2", "t3"}
SeqLen(ev) == CASE ev = "t1" -> 1 [] ev = "t2" -> 2 [] ev = "t3" -> 3 [] OTHER -> 0
ValOf(ev, n) == IF IsSeqVal(ev) THEN Ints(n, SeqLen(ev)) ELSE <<n>>                 \* the value, flattened
Unpacks(tg) == tg \in {"tup", "lst", "star", "tupst"}
\* unpacking: a non-iterable value is a TypeError, a wrong length a ValueError, nothing is bound or stored then
UnpackErr(tg, ev) == IF ~Unpacks(tg) THEN ""
                     ELSE IF ~IsSeqVal(ev) THEN "TE"
                     ELSE IF tg = "star" THEN (IF SeqLen(ev) >= 1 THEN "" ELSE "VE")
                     ELSE IF SeqLen(ev) = 2 THEN "" ELSE "VE"
Stores(tg) == tg \in {"attr", "sub", "tupst"}
StoredVal(tg, ev, n) == IF tg = "tupst" THEN <<n + 1>> ELSE ValOf(ev, n)
HasVars(tg) == tg \in {"name", "tup", "lst", "star", "tupst"}
\* only evaluated when the binding succeeded
BoundVars(tg, ev, n) == CASE tg = "name"            -> << ValOf(ev, n) >>
                          [] tg \in {"tup", "lst"}  -> << <<n>>, <<n + 1>> >>
                          [] tg = "star"            -> << <<n>>, IF SeqLen(ev) >= 1 THEN Ints(n + 1, SeqLen(ev) - 1) ELSE <<>> >>
                          [] tg = "tupst"           -> << <<n>> >>
                          [] OTHER                  -> <<>>

RECURSIVE Blk(_, _, _, _, _), Block(_, _, _, _, _, _), Stmt(_, _, _, _), Stmt0(_, _, _, _), Loop(_, _, _, _, _),
          Handlers(_, _, _, _, _, _), Enter(_, _, _, _, _), ExitAll(_, _, _, _, _, _, _), BoundEvents(_, _, _, _)

\* binding the target of item m: [st, x]; x.e = "" when it succeeded
Bind(env, m, st) ==
  IF m.tg = "" \/ ~st.ok THEN [st |-> st, x |-> NoExc]
  ELSE LET ue == UnpackErr(m.tg, m.ev)
       IN IF ue # "" THEN [st |-> Dec5(st, "with", "as-target-raised", "", m.tg, ue), x |-> X(ue, 0, "None")]
          ELSE IF m.tg = "slot" THEN [st |-> Dec5(st, "with", "as-target-raised", "", m.tg, "AT"), x |-> X("AT", 0, "None")]
          ELSE IF m.tg = "idx" THEN [st |-> Dec5(st, "with", "as-target-raised", "", m.tg, "IE"), x |-> X("IE", 0, "None")]
          ELSE IF Stores(m.tg)
               THEN LET st1 == Emit(env, st, [e |-> "st", n |-> m.n, bv |-> StoredVal(m.tg, m.ev, m.n)], W("with", "as-target-store"))
                    IN IF m.sx # ""
                       THEN [st |-> Dec5([st1 EXCEPT !.b1 = @ \/ m.sx = "B1"], "with", "as-target-raised", "", m.tg, m.sx),
                             x |-> X(m.sx, m.n, "None")]
                       ELSE [st |-> st1, x |-> NoExc]
          ELSE [st |-> st, x |-> NoExc]

\* what the variables of the `as` targets hold when the body starts (every binding succeeded)
BoundEvents(env, items, i, st) ==
  IF i > Len(items) \/ ~st.ok THEN st
  ELSE LET m == items[i]
       IN BoundEvents(env, items, i + 1,
                      IF HasVars(m.tg) THEN Emit(env, st, [e |-> "b", n |-> m.n, vs |-> BoundVars(m.tg, m.ev, m.n)], W("with", "as-bound-values"))
                      ELSE st)

\* a block slot of the statement at cx.p (ghost span B+ .. B- with the block's completion)
Blk(env, b, slot, st, cx) ==
  IF ~env.gh THEN Block(env, b, 1, slot, st, cx)
  ELSE LET r == Block(env, b, 1, slot, Ghost(env, st, "B+", cx.p, slot, ""), cx)
       IN R(Ghost(env, r.st, "B-", cx.p, slot, r.c.k), r.c)

Block(env, b, i, slot, st, cx) ==
  IF i > Len(b) \/ ~st.ok THEN R(st, Norm)
  ELSE LET r == Stmt(env, b[i], st, [cx EXCEPT !.p = Sub(env, cx, slot, i)])
       IN IF r.c.k # "norm" THEN r ELSE Block(env, b, i + 1, slot, r.st, cx)

Stmt(env, s, st, cx) ==
  IF ~env.gh THEN Stmt0(env, s, st, cx)
  ELSE LET r == Stmt0(env, s, Ghost(env, st, "S+", cx.p, s.k, IF s.k = "try" /\ Len(s.final) > 0 THEN "final" ELSE ""), cx)
       IN R(Ghost(env, r.st, "S-", cx.p, s.k, r.c.k), r.c)

\* one round of a loop: test (while) or __next__ (for); body; else on exhaustion only
Loop(env, s, left, st, cx) ==
  IF ~st.ok THEN R(st, Norm)
  ELSE
  LET go == IF s.k = "while" THEN Cond(env, st, s.n, W("while", "test"))
            ELSE [st |-> Emit(env, st, [e |-> "nx", n |-> s.n], W("for", "next")), v |-> left > 0]
  IN IF ~go.st.ok THEN R(go.st, Norm)
     ELSE IF ~go.v
          \* the else clause runs; its completion (including break/continue, which then belong
          \* to the enclosing loop) propagates as it is
          THEN Blk(env, s.orelse, "orelse", Dec(go.st, s.k, "exhausted-else-runs"), [cx EXCEPT !.le = TRUE])
          ELSE LET r == Blk(env, s.body, "body", go.st, [cx EXCEPT !.le = FALSE])
               IN CASE r.c.k = "break" -> R(Dec(r.st, s.k, "break-consumed-else-skipped"), Norm)
                    [] r.c.k = "continue" -> Loop(env, s, IF s.k = "for" THEN left - 1 ELSE left,
                                                  Dec(r.st, s.k, "continue-consumed"), cx)
                    [] r.c.k = "norm" -> Loop(env, s, IF s.k = "for" THEN left - 1 ELSE left, r.st, cx)
                    [] OTHER -> r

\* first handler with a matching class (a handler without classes matches everything)
Handlers(env, hs, i, x, st, cx) ==
  IF i > Len(hs) THEN R(Dec5(st, "try", "no-handler-matches", "", "", x.e), Exc(x))
  ELSE IF Len(hs[i].types) = 0 \/ \E j \in 1..Len(hs[i].types) : IsSub(x.e, hs[i].types[j])
       THEN LET st1 == Dec5(st, "try", "handler-matches", "", "", x.e)
                st2 == IF hs[i].bind THEN Emit(env, st1, [e |-> "x", n |-> hs[i].n, x |-> x.e, s |-> x.s], W("try", "as-binding"))
                       ELSE st1
                \* inside the handler the handled exception is x; leaving the handler (any completion)
                \* unbinds the name without any further effect
                st3 == IF hs[i].bind THEN [st2 EXCEPT !.bound = @ \cup {hs[i].name}] ELSE st2
                r   == Blk(env, hs[i].body, "handler", st3, [cx EXCEPT !.hx = x, !.p = Sub(env, cx, "h", i)])
            IN IF hs[i].bind
               THEN R([r.st EXCEPT !.bound = @ \ {hs[i].name}, !.unb = @ \/ (r.st.ok /\ hs[i].name \notin r.st.bound)], r.c)
               ELSE r
       ELSE Handlers(env, hs, i + 1, x, st, cx)

\* context expression i, then its __enter__, then the binding of its `as` target, then item i+1: returns
\* [st, c, entered]; a manager whose __enter__ raised is not entered, one whose target binding raised is
Enter(env, items, i, st, cx) ==
  IF i > Len(items) \/ ~st.ok THEN [st |-> st, c |-> Norm, entered |-> i - 1]
  ELSE LET m   == items[i]
           st1 == IF m.q THEN st ELSE Emit(env, st, [e |-> "mk", n |-> m.n], W("with", CtxCl(Len(items), i)))
           st2 == Emit(env, st1, [e |-> "enter", n |-> m.n], W("with", EntCl(Len(items), i)))
       IN IF m.er # ""
          THEN [st |-> Ghost(env, Dec(st2, "with", "enter-raised"), "EF", cx.p, "with", ""),
                c |-> Exc(X(m.er, m.n, "None")), entered |-> i - 1]
          ELSE LET bd == Bind(env, m, st2)
               IN IF bd.x.e # ""
                  THEN [st |-> Ghost(env, bd.st, "BF", cx.p, "with", bd.x.e), c |-> Exc(bd.x), entered |-> i]
                  ELSE Enter(env, items, i + 1, bd.st, cx)

\* __exit__ of managers i..1, each with the completion pending at that point; inner = what an inner
\* manager's exit did ("" nothing, "suppressed", "raised")
ExitAll(env, items, i, st, c, inner, cx) ==
  IF i < 1 \/ ~st.ok THEN R(Dec5(st, "with", "exits-done", CTag(c), inner, CExc(c)), c)
  ELSE LET m   == items[i]
           ev  == IF c.k = "raise" THEN [e |-> "exit", n |-> m.n, x |-> c.x.e, s |-> c.x.s]
                  ELSE [e |-> "exit", n |-> m.n, x |-> "None", s |-> 0]
           cl  == IF inner = "suppressed" THEN "outer-exit-after-inner-exit-suppressed"
                  ELSE IF inner = "raised" THEN "outer-exit-after-inner-exit-raised"
                  ELSE IF i < Len(items) THEN "outer-exit" ELSE "exit"
           st1 == Emit(env, st, ev, W("with", cl))
           c1  == IF m.xr # "" THEN Exc(X(m.xr, m.n, "None"))              \* an exception raised by __exit__ replaces everything
                  ELSE IF c.k = "raise" /\ m.sup THEN Norm                 \* truthy result swallows the pending exception
                  ELSE c
           in1 == IF m.xr # "" THEN "raised" ELSE IF c.k = "raise" /\ m.sup THEN "suppressed" ELSE inner
           st2 == IF m.xr # "" THEN Dec(st1, "with", "exit-raised")
                  ELSE IF c.k = "raise" /\ m.sup THEN Dec(st1, "with", IF Len(items) = 1 THEN "suppressed" ELSE IF i = Len(items) THEN "suppressed-by-inner" ELSE "suppressed-by-outer")
                  ELSE st1
       IN ExitAll(env, items, i - 1, st2, c1, in1, cx)

Stmt0(env, s, st, cx) ==
  IF ~st.ok THEN R(st, Norm)
  ELSE CASE s.k = "t"        -> R(Emit(env, st, [e |-> "t", n |-> s.n], W("expr", "tracer")), Norm)
    [] s.k = "pass"     -> R(st, Norm)
    [] s.k = "break"    -> R(Dec(st, "break", IF cx.le THEN "in-loop-else" ELSE "in-loop-body"), Brk(cx.le))
    [] s.k = "continue" -> R(Dec(st, "continue", IF cx.le THEN "in-loop-else" ELSE "in-loop-body"), Cont(cx.le))
    [] s.k = "return"   -> R(Dec(Emit(env, st, [e |-> "t", n |-> s.n], W("return", "value")), "return", "value"), Ret(s.n))
    [] s.k = "ret0"     -> R(Dec(st, "return", "none"), Ret(0))
    [] s.k = "raise"    -> R(Dec5([st EXCEPT !.b1 = @ \/ s.exc = "B1"], "raise", "explicit", "", "", s.exc), Exc(X(s.exc, s.n, IF s.cause = "" THEN "None" ELSE s.cause)))
    [] s.k = "reraise"  -> IF cx.hx.e = "" THEN R(Dec(st, "raise", "bare-no-active"), Exc(X("RE", 0, "None")))
                           ELSE R(Dec5(st, "raise", "bare", "", "", cx.hx.e), Exc(cx.hx))
    [] s.k = "assert"   -> LET t == Cond(env, st, s.n, W("assert", "test"))
                           IN IF t.v \/ ~t.st.ok THEN R(t.st, Norm) ELSE R(Dec(t.st, "assert", "fails"), Exc(X("AE", s.n, "None")))
    [] s.k = "if"       -> LET t == Cond(env, st, s.n, W("if", "test"))
                           IN IF ~t.st.ok THEN R(t.st, Norm)
                              ELSE IF t.v THEN Blk(env, s.body, "body", t.st, cx) ELSE Blk(env, s.orelse, "orelse", t.st, cx)
    [] s.k = "while"    -> Loop(env, s, 0, st, cx)
    [] s.k = "for"      -> Loop(env, s, s.count, Emit(env, st, [e |-> "it", n |-> s.n], W("for", "iter")), cx)
    [] s.k = "try" ->
         LET rb == Blk(env, s.body, "body", st, cx)
             r1 == CASE rb.c.k = "raise" -> Handlers(env, s.handlers, 1, rb.c.x, rb.st, cx)
                     [] rb.c.k = "norm"  -> Blk(env, s.orelse, "orelse", rb.st, cx)
                     [] OTHER            -> rb
             \* finally always runs; an exception in flight is the handled one there
             rf == Blk(env, s.final, "final", r1.st, [cx EXCEPT !.hx = IF r1.c.k = "raise" THEN r1.c.x ELSE cx.hx])
         IN IF Len(s.final) = 0 THEN r1
            ELSE IF rf.c.k # "norm" THEN R(Dec5(rf.st, "try", "finally-overrides", CTag(rf.c), r1.c.k, CExc(rf.c)), rf.c)
            ELSE R(Dec5(rf.st, "try", "finally-resumes", CTag(r1.c), "", CExc(r1.c)), r1.c)
    [] s.k = "with" ->
         LET en == Enter(env, s.items, 1, st, cx)
         IN IF en.c.k = "raise"
            THEN ExitAll(env, s.items, en.entered, en.st, en.c, "", cx)       \* only the managers already entered
            ELSE LET rb == Blk(env, s.body, "body", BoundEvents(env, s.items, 1, en.st), cx)
                 IN ExitAll(env, s.items, Len(s.items), rb.st, rb.c, "", cx)
    [] s.k = "call" ->
         \* a new function: jumps do not cross it; a bare raise inside still sees the caller's handled exception
         LET r0 == Blk(env, env.fs[s.f], "func", [st EXCEPT !.bound = {}], Cx(cx.hx, FALSE, Sub(env, cx, "f", s.f)))
             r  == R([r0.st EXCEPT !.bound = st.bound], r0.c)
         IN CASE r.c.k = "return" -> R(Emit(env, Dec(r.st, "call", "returns-value"), [e |-> "r", n |-> s.n, rv |-> r.c.v], W("call", "result")), Norm)
              [] r.c.k = "norm"   -> R(Emit(env, Dec(r.st, "call", "falls-off-end"), [e |-> "r", n |-> s.n, rv |-> 0], W("call", "result")), Norm)
              [] r.c.k = "raise"  -> r
              [] OTHER -> R(Fail(r.st, "jump escapes function (program not well formed)", NoEv, W("call", "boundary")), Norm)
    [] OTHER -> R(Fail(st, "unknown statement kind", NoEv, W("", "")), Norm)

\* whole program: funcs[1] is the main body (a function f1, or the module body when top = "module")
Main(env, funcs) ==
  LET r   == Blk(env, funcs[1], "func", St0, Cx(NoExc, FALSE, <<>>))
      fin == CASE r.c.k = "return" -> [e |-> "end", k |-> "value", rv |-> r.c.v]
               [] r.c.k = "raise"  -> [e |-> "end", k |-> "raise", x |-> r.c.x.e, s |-> r.c.x.s, c |-> r.c.x.c]
               [] r.c.k = "norm"   -> [e |-> "end", k |-> "value", rv |-> 0]
               [] OTHER            -> [e |-> "end", k |-> "jump-escapes"]
  IN [st |-> Emit(env, r.st, fin, W("function", "outcome")), c |-> r.c]

\* ---------------------------------------------------------------- acceptor
Accept(funcs, trace) ==
  LET env == [chk |-> TRUE, gh |-> FALSE, tr |-> trace, orc |-> <<>>, fs |-> funcs]
      st  == Main(env, funcs).st
  IN IF ~st.ok THEN [ok |-> FALSE, why |-> st.why, at |-> st.l, want |-> st.want, w |-> st.w, decs |-> st.decs, b1 |-> st.b1, unb |-> st.unb]
     ELSE IF st.l # Len(trace) + 1
          THEN [ok |-> FALSE, why |-> "extra events", at |-> st.l, want |-> NoEv, w |-> W("function", "after-outcome"), decs |-> st.decs,
                b1 |-> st.b1, unb |-> st.unb]
     ELSE [ok |-> TRUE, why |-> "", at |-> st.l, want |-> NoEv, w |-> W("", ""), decs |-> <<>>, b1 |-> FALSE, unb |-> FALSE]

\* ---------------------------------------------------------------- generator
Run(funcs, orc, ghosts) ==
  LET env == [chk |-> FALSE, gh |-> ghosts, tr |-> <<>>, orc |-> orc, fs |-> funcs]
      m   == Main(env, funcs)
  IN [ok |-> m.st.ok, why |-> m.st.why, out |-> m.st.out, c |-> m.c]

Strip(run) == SelectSeq(run, LAMBDA ev : ev.e # "g")
=============================================================================
