------------------------------ MODULE PyExprMC ------------------------------
(* (M) for C01: TLC explores the PyExprCore machine ITSELF on expression / statement        *)
(* skeletons (IOEnv.SKELS) with symbolic oracles.  The machine is run in generation mode:   *)
(* on a prefix of a recording the acceptor stops with "recording ends early" and st.want =  *)
(* the event it requires next; Next appends that event with every admissible outcome        *)
(*   - result truthy / falsy (tracer leaves, comparisons, contains), truthy for the rest,   *)
(*   - the primitive raises "Err",                                                          *)
(*   - `next`: StopIteration (forced after MaxIter items).                                  *)
(* Invariants = machine theorems:                                                           *)
(*   NoStuck     the machine always either completes or demands exactly one next event      *)
(*   AtMostOnce  every operand leaf is evaluated at most once per dynamic evaluation of its *)
(*               parent (leaves in a comprehension body: at most once per delivered item;   *)
(*               plainiter = items of display iterables, which produce no `next` events)    *)
(*   InOrder     leaves are evaluated in the order of the rule (rank = source order except  *)
(*               test-before-body, iterable-before-element, value-before-target,            *)
(*               aug-target-before-value), given per skeleton by an independent walk        *)
(*   RaiseLast   a raising primitive is the last event: the machine completes with that     *)
(*               exception and demands nothing more                                         *)
(*   ScopeRestored  a name that the program binds ONLY as a comprehension loop variable      *)
(*               (Skels[sk].scoped, computed by an independent walk of the ast) has, after   *)
(*               every completed run - normal or raising - exactly the binding it had        *)
(*               before: bound to the same value, or still unbound.  The skeletons pre-bind  *)
(*               such names (env0) to None, a falsy scalar, a recorder object, or not at all.*)
(*               Run with the deviation flag comp-leak-on-raise (Skels[sk].fl) the theorem   *)
(*               must be VIOLATED: it separates the machine from its leaking variant.        *)
(*   HeapExpect  (Round 4) heap skeletons (Skels[sk].expect # <<>>): plain lists / dicts reached  *)
(*               through two access paths (x and z: the same object, or a copy), changed by   *)
(*               subscript / slice stores, del, += and by unpacking targets that store into   *)
(*               the object being unpacked.  After every completed run without a raise the    *)
(*               names have exactly the values CPython leaves behind when the skeleton is     *)
(*               executed with symbolic leaves (c01.heap_expect): "leaf n" = the object the   *)
(*               n-th tracer leaf returned in THIS run.                                        *)
(*   HeapClosed  every reference in the final bindings / heap points to an allocated object   *)
(*   Witness_*   (expected to be VIOLATED) non-vacuity: raises in the middle, short-circuits, *)
(*               a shadowing loop variable is read inside, a raise while it is shadowed      *)
EXTENDS PyExprCore

ASSUME TLCSet(2, JsonDeserialize(IOEnv.SKELS))
Skels == TLCGet(2)
MaxIter == 2
Opts0 == [cmpbool |-> FALSE, noinplace |-> FALSE, quietstr |-> FALSE]

VARIABLES sk, tr, res        \* res: summary of the machine's run on tr (computed once per state)
vars == <<sk, tr, res>>

FlagsOf(s) == {Skels[s].fl[j] : j \in 1..Len(Skels[s].fl)}
ScopedOf(s) == {Skels[s].scoped[j] : j \in 1..Len(Skels[s].scoped)}
Run(s, t) == Exec(Skels[s].body, 1, St0(FlagsOf(s), Opts0, ""), t, Skels[s].env0)
\* senv: the final bindings of the scoped names; xval: the final value of x (witnesses only)
ExpNames(s) == {Skels[s].expect[j].name : j \in 1..Len(Skels[s].expect)}
RECURSIVE Refs(_)
Refs(v) == CASE v.k = "ref" -> {v.a}
             [] v.k \in {"seq", "slice"} -> UNION {Refs(v.e[j]) : j \in 1..Len(v.e)}
             [] v.k = "dict" -> UNION {Refs(v.ks[j]) : j \in 1..Len(v.ks)} \cup UNION {Refs(v.vs[j]) : j \in 1..Len(v.vs)}
             [] OTHER -> {}
Closed(r) == (UNION {Refs(r.env[m]) : m \in DOMAIN r.env} \cup UNION {Refs(r.st.h[a]) : a \in 1..Len(r.st.h)}) \subseteq 1..Len(r.st.h)
Summ(s, r, t) == [fenv |-> [m \in ExpNames(s) \cap DOMAIN r.env |-> Reify(r.st.h, r.env[m])], hok |-> Closed(r), ok |-> r.st.ok, nm |-> r.st.nm, want |-> r.st.want, x |-> r.x, complete |-> r.st.ok /\ r.st.l = Len(t) + 1,
                  senv |-> [m \in ScopedOf(s) \cap DOMAIN r.env |-> Reify(r.st.h, r.env[m])],
                  xval |-> IF "x" \in DOMAIN r.env THEN Reify(r.st.h, r.env["x"]) ELSE NoneV]

NewV(b) == [k |-> "v", id |-> 100 + Len(tr), b |-> b]
Ev(w, r, x) == [e |-> w.e, op |-> w.op, n |-> w.n, xs |-> w.xs, names |-> w.names, r |-> r, x |-> x]
NextsOn(it) == Cardinality({i \in 1..Len(tr) : tr[i].e = "next" /\ tr[i].x = "" /\ tr[i].xs[1] = it})

Outcomes(w) ==
  {Ev(w, NoneV, "Err")} \cup
  CASE w.e \in {"t", "cmp"} -> {Ev(w, NewV(TRUE), ""), Ev(w, NewV(FALSE), "")}
    [] w.e = "contains" -> {Ev(w, B(TRUE), ""), Ev(w, B(FALSE), "")}
    [] w.e = "next" -> {Ev(w, NoneV, "StopIteration")} \cup (IF NextsOn(w.xs[1]) < MaxIter THEN {Ev(w, NewV(TRUE), "")} ELSE {})
    [] w.e \in {"setitem", "setattr", "delitem", "delattr"} -> {Ev(w, NoneV, "")}
    [] w.e \in {"format", "conv"} -> {Ev(w, StrC("s"), "")}
    [] w.e = "keys" -> {Ev(w, SeqV("list", <<StrC("ka")>>), "")}
    [] OTHER -> {Ev(w, NewV(TRUE), "")}

Init == sk \in 1..Len(Skels) /\ tr = <<>> /\ res = Summ(sk, Run(sk, <<>>), <<>>)
Next == /\ ~res.ok /\ ~res.nm /\ res.want.e # ""
        /\ \E ev \in Outcomes(res.want) : tr' = Append(tr, ev)
        /\ UNCHANGED sk
        /\ res' = Summ(sk, Run(sk, tr'), tr')
Spec == Init /\ [][Next]_vars

\* ------------------------------------------------------------------ theorems
Raised == \E i \in 1..Len(tr) : tr[i].x = "Err"
\* (r.st.nm: the skeleton put a plain value where only recorder objects are modelled - terminal)
NoStuck == res.ok \/ res.nm \/ (res.want.e # "" /\ ~Raised)

Count(n) == Cardinality({i \in 1..Len(tr) : tr[i].e = "t" /\ tr[i].n = n})
Delivered == Cardinality({i \in 1..Len(tr) : tr[i].e = "next" /\ tr[i].x = ""})
AtMostOnce == \A j \in 1..Len(Skels[sk].leaves) :
                 LET lf == Skels[sk].leaves[j] IN Count(lf.n) <= (IF lf.loop THEN Delivered + Skels[sk].plainiter ELSE 1)

Rank(n) == LET j == CHOOSE j \in 1..Len(Skels[sk].leaves) : Skels[sk].leaves[j].n = n IN Skels[sk].leaves[j].rank
IsLoop(n) == LET j == CHOOSE j \in 1..Len(Skels[sk].leaves) : Skels[sk].leaves[j].n = n IN Skels[sk].leaves[j].loop
InOrder == \A i, j \in 1..Len(tr) :
             (i < j /\ tr[i].e = "t" /\ tr[j].e = "t" /\ ~IsLoop(tr[i].n) /\ ~IsLoop(tr[j].n)) => Rank(tr[i].n) < Rank(tr[j].n)
\* inside a loop body the order holds between two deliveries
InOrderLoop == Skels[sk].plainiter = 0 => \A i, j \in 1..Len(tr) :   \* (display iterables deliver without events)
             (i < j /\ tr[i].e = "t" /\ tr[j].e = "t" /\ IsLoop(tr[i].n) /\ IsLoop(tr[j].n)
              /\ ~\E m \in i..j : tr[m].e = "next") => Rank(tr[i].n) < Rank(tr[j].n)

RaiseLast == /\ \A i \in 1..Len(tr) : tr[i].x = "Err" => i = Len(tr)
             /\ (Len(tr) > 0 /\ tr[Len(tr)].x = "Err") => (res.complete /\ res.x = "Err")
\* a completed run without a raise never ends in an exception the oracle did not inject
NoSpontaneous == (res.complete /\ ~Raised) => res.x \in {"", "ValueError", "NameError", "TypeError"}

\* comprehension loop variables live in the comprehension's own scope
Env0 == Skels[sk].env0
ScopeRestored == res.complete => \A m \in ScopedOf(sk) :
                   /\ (m \in DOMAIN res.senv) = (m \in DOMAIN Env0)
                   /\ (m \in DOMAIN Env0 => res.senv[m] = Env0[m])

\* plain mutable containers: the final values are those of CPython's own run of the skeleton
LeafVal(n) == tr[CHOOSE i \in 1..Len(tr) : tr[i].e = "t" /\ tr[i].n = n].r
RECURSIVE ExpVal(_)
ExpVal(e) == CASE e.k = "leaf" -> LeafVal(e.n)
               [] e.k = "seq" -> SeqV(e.t, [j \in 1..Len(e.e) |-> ExpVal(e.e[j])])
               [] e.k = "dict" -> [k |-> "dict", ks |-> [j \in 1..Len(e.ks) |-> ExpVal(e.ks[j])], vs |-> [j \in 1..Len(e.vs) |-> ExpVal(e.vs[j])]]
               [] OTHER -> e.v
Clean == res.complete /\ res.x = "" /\ ~Raised
HeapExpect == Clean => \A j \in 1..Len(Skels[sk].expect) :
                 LET e == Skels[sk].expect[j] IN e.name \in DOMAIN res.fenv /\ res.fenv[e.name] = ExpVal(e.val)
HeapClosed == res.hok

Theorems == NoStuck /\ AtMostOnce /\ InOrder /\ InOrderLoop /\ RaiseLast /\ NoSpontaneous /\ ScopeRestored /\ HeapExpect /\ HeapClosed

\* ------------------------------------------------------------------ witnesses (must be violated)
NLeaves == Len(Skels[sk].leaves)
Evaluated == Cardinality({n \in {Skels[sk].leaves[j].n : j \in 1..NLeaves} : Count(n) > 0})
Witness_NoMidRaise == ~(Raised /\ Evaluated < NLeaves)                                 \* a raise abandons later operands
Witness_NoShortCircuit == ~(res.complete /\ ~Raised /\ res.x = "" /\ Evaluated < NLeaves)
Witness_NoLoopTwice == ~(\E j \in 1..NLeaves : Count(Skels[sk].leaves[j].n) >= 2)
\* scope: a loop variable that shadows an enclosing binding is read INSIDE as the delivered item (the value of x
\* contains an object delivered by `next`), and a primitive raises while the enclosing binding is shadowed
Shadowing == ScopedOf(sk) \cap DOMAIN Env0 # {}
DeliveredVals == {tr[i].r : i \in {j \in 1..Len(tr) : tr[j].e = "next" /\ tr[j].x = ""}}
Witness_NoShadowedRead == ~(res.complete /\ res.x = "" /\ Shadowing /\ res.xval.k = "seq"
                            /\ \E j \in 1..Len(res.xval.e) : res.xval.e[j] \in DeliveredVals)
Witness_NoRaiseWhileShadowed == ~(res.complete /\ res.x = "Err" /\ Shadowing /\ Delivered > 0)

\* heap: an unpacking target received an item that the statement's own stores have meanwhile overwritten in the object;
\* a store through x is seen through z (the same object) - and not seen when z is a copy
HeapTag == Skels[sk].tag
ItemsOfV(v) == IF v.k = "seq" THEN {v.e[j] : j \in 1..Len(v.e)} ELSE IF v.k = "dict" THEN {v.vs[j] : j \in 1..Len(v.vs)} ELSE {}
Witness_NoSnapshot == ~(HeapTag = "snap" /\ Clean /\ "x" \in DOMAIN res.fenv
                        /\ \E m \in DOMAIN res.fenv \ {"x", "z"} : res.fenv[m].k = "v" /\ res.fenv[m] \notin ItemsOfV(res.fenv["x"]))
Witness_NoAliasStore == ~(HeapTag = "alias" /\ Clean /\ {"x", "z"} \subseteq DOMAIN res.fenv /\ res.fenv["x"] = res.fenv["z"]
                          /\ LeafVal(NLeaves) \in ItemsOfV(res.fenv["z"]))
Witness_NoCopyKeeps == ~(HeapTag = "copy" /\ Clean /\ {"x", "z"} \subseteq DOMAIN res.fenv /\ res.fenv["x"] # res.fenv["z"])

\* All witnesses in ONE run (one worker): the invariant fails as soon as every witness condition has been observed
\* in some reachable state; register 3 collects the names seen so far, each is announced by an INFO line.  The
\* skeleton file of this run also holds the scope skeletons with fl = {comp-leak-on-raise}: on those the witness is
\* a violation of the theorem ScopeRestored (the theorem separates the machine from its leaking variant).
ASSUME TLCSet(3, {})
Plain == FlagsOf(sk) = {}
WitnessNames == {"mid-raise", "short-circuit", "loop-twice", "shadowed-read", "raise-while-shadowed", "leak-violates-ScopeRestored",
                 "snapshot-not-live", "alias-sees-store", "copy-keeps"}
WitnessNow == {w \in WitnessNames :
                 CASE w = "mid-raise" -> Plain /\ ~Witness_NoMidRaise
                   [] w = "short-circuit" -> Plain /\ ~Witness_NoShortCircuit
                   [] w = "loop-twice" -> Plain /\ ~Witness_NoLoopTwice
                   [] w = "shadowed-read" -> Plain /\ ~Witness_NoShadowedRead
                   [] w = "raise-while-shadowed" -> Plain /\ ~Witness_NoRaiseWhileShadowed
                   [] w = "snapshot-not-live" -> Plain /\ ~Witness_NoSnapshot
                   [] w = "alias-sees-store" -> Plain /\ ~Witness_NoAliasStore
                   [] w = "copy-keeps" -> Plain /\ ~Witness_NoCopyKeeps
                   [] OTHER -> ~Plain /\ ~ScopeRestored}
Witness_All == LET new == WitnessNow \ TLCGet(3) IN
               IF new = {} THEN TRUE
               ELSE /\ \A w \in new : PrintT("INFO " \o ToJson([witness |-> w]))
                    /\ TLCSet(3, TLCGet(3) \cup new)
                    /\ TLCGet(3) # WitnessNames
=============================================================================
