------------------------------ MODULE MsgTrace ------------------------------
(* Acceptor for recordings of real event / MQTT / webhook triggers (C08), reusing MsgCore.    *)
(* A case: [id, trigs : <<T>>, bursts : << [msgs : <<M>>, runs : <<R>>, emits : <<E>>] >>,   *)
(*          ends : <<[fid, tag, n, tid]>>]                                                          *)
(*  M = [kind, key, d, args, ctx]  d = data the filter sees, args = keyword arguments HA      *)
(*      hands over besides the type header (for events = d), ctx = occurrence context id      *)
(*  R = [fid, tag, n, kw, tid, inctx]  one observed run start: n = message number it reports, *)
(*      kw = its keyword arguments (strings), tid = task identity, inctx = id of the context  *)
(*      argument it received ("-" if none)                                                    *)
(*  E = [n, fid, tag, via, parent, cid, data]  something the run emitted (event.fire /       *)
(*      state.set / service.call): context id, its parent id, and for event.fire the data     *)
(* A burst = messages handed over back to back, then settled (earlier runs may still sleep).  *)
EXTENDS MsgCore, TLC, Json, IOUtils
Cases == JsonDeserialize(IOEnv.CASES)

Hdr(M) == CASE M.kind = "event"   -> [trigger_type |-> "event", event_type |-> M.key]
            [] M.kind = "mqtt"    -> [trigger_type |-> "mqtt", topic |-> M.key]
            [] M.kind = "webhook" -> [trigger_type |-> "webhook", webhook_id |-> M.key]
ExpKw(T, M) == Merged(Merged(Hdr(M), M.args), T.kw)

RunsOfT(b, T)  == SelectSeq(b.runs, LAMBDA r : r.fid = T.fid /\ r.tag = T.tag)
AccOfT(b, T)   == SelectSeq(b.msgs, LAMBDA m : Accepts(T, m))
MsgN(b, n)     == LET S == { i \in 1..Len(b.msgs) : b.msgs[i].d.n = n } IN b.msgs[CHOOSE i \in S : TRUE]

\* event.fire('out', n=, fid=, tag=, v=<the message's v or '-'>, <xp>='X'): exactly these parameters must arrive, also
\* when the extra parameter is named like an option of some other call (context, blocking, ...)
VOf(d) == IF "v" \in DOMAIN d THEN d.v ELSE "-"
TrigOf(c, fid, tag) == c.trigs[CHOOSE t \in 1..Len(c.trigs) : c.trigs[t].fid = fid /\ c.trigs[t].tag = tag]
Xp(T) == [k \in (IF T.xp = "-" THEN {} ELSE {T.xp}) |-> "X"]
\* first failing clause for one burst ("" = none)
BurstWhy(c, b) ==
  IF \E j \in 1..Len(b.runs) : ~\E t \in 1..Len(c.trigs) : c.trigs[t].fid = b.runs[j].fid /\ c.trigs[t].tag = b.runs[j].tag
    THEN "run-of-unknown-trigger"
  ELSE IF \E t \in 1..Len(c.trigs) : Len(RunsOfT(b, c.trigs[t])) > Len(AccOfT(b, c.trigs[t]))
           \/ \E k \in 1..Len(RunsOfT(b, c.trigs[t])) : ~\E m \in 1..Len(b.msgs) :
                    b.msgs[m].d.n = RunsOfT(b, c.trigs[t])[k].n /\ Accepts(c.trigs[t], b.msgs[m])
    THEN "spurious-or-duplicate-run"
  ELSE IF \E t \in 1..Len(c.trigs) : Len(RunsOfT(b, c.trigs[t])) < Len(AccOfT(b, c.trigs[t]))
    THEN "lost-run"
  ELSE IF \E t \in 1..Len(c.trigs) : \E k \in 1..Len(RunsOfT(b, c.trigs[t])) :
            RunsOfT(b, c.trigs[t])[k].n # AccOfT(b, c.trigs[t])[k].d.n
    THEN "reordered"
  ELSE IF \E t \in 1..Len(c.trigs) : \E k \in 1..Len(RunsOfT(b, c.trigs[t])) :
            RunsOfT(b, c.trigs[t])[k].kw # ExpKw(c.trigs[t], AccOfT(b, c.trigs[t])[k])
    THEN "wrong-kwargs"
  ELSE IF \E t \in 1..Len(c.trigs) : \E k \in 1..Len(RunsOfT(b, c.trigs[t])) :
            RunsOfT(b, c.trigs[t])[k].inctx # AccOfT(b, c.trigs[t])[k].ctx
    THEN "wrong-incoming-context"
  ELSE IF \E i, j \in 1..Len(b.runs) : i # j /\ b.runs[i].tid = b.runs[j].tid
    THEN "runs-share-a-task"
  ELSE IF \E k \in 1..Len(b.emits) : MsgN(b, b.emits[k].n).ctx # "-" /\ b.emits[k].parent # MsgN(b, b.emits[k].n).ctx
    THEN "context-parent-is-not-the-occurrence"
  ELSE IF \E i, j \in 1..Len(b.emits) :
            (b.emits[i].n = b.emits[j].n /\ b.emits[i].fid = b.emits[j].fid /\ b.emits[i].tag = b.emits[j].tag) # (b.emits[i].cid = b.emits[j].cid)
    THEN "run-context-not-one-per-run"
  ELSE IF \E k \in 1..Len(b.emits) : b.emits[k].via = "event" /\
            b.emits[k].data # Merged([n |-> b.emits[k].n, fid |-> b.emits[k].fid, tag |-> b.emits[k].tag, v |-> VOf(MsgN(b, b.emits[k].n).d)],
                                     Xp(TrigOf(c, b.emits[k].fid, b.emits[k].tag)))
    THEN "event-fire-parameters-differ"
  ELSE ""

\* every run that was started also ended, still holding the parameters of its own message (runs overlap: earlier
\* ones sleep while later ones start); ends = <<[fid, tag, n, tid]>> collected after everything has finished;
\* tid is the identity of the task the run executes in, so two overlapping runs that swap their parameters are told apart
Count(seq, x) == Cardinality({ k \in 1..Len(seq) : seq[k] = x })
AllRuns(c) == LET RECURSIVE Cat(_)
                  Cat(k) == IF k > Len(c.bursts) THEN <<>>
                            ELSE [j \in 1..Len(c.bursts[k].runs) |-> [fid |-> c.bursts[k].runs[j].fid, tag |-> c.bursts[k].runs[j].tag,
                                                                      n |-> c.bursts[k].runs[j].n, tid |-> c.bursts[k].runs[j].tid]] \o Cat(k + 1)
              IN Cat(1)
EndsOk(c) == LET rs == AllRuns(c) IN
             /\ Len(rs) = Len(c.ends)
             /\ \A k \in 1..Len(rs) : Count(rs, rs[k]) = Count(c.ends, rs[k])

RECURSIVE Bursts(_, _)
Bursts(c, k) == IF k > Len(c.bursts) THEN [ok |-> TRUE, at |-> 0, why |-> ""]
                ELSE LET w == BurstWhy(c, c.bursts[k]) IN
                     IF w = "" THEN Bursts(c, k + 1) ELSE [ok |-> FALSE, at |-> k, why |-> w]

VARIABLE i
Init == i = 1
Next == i <= Len(Cases) /\ i' = i + 1
Spec == Init /\ [][Next]_i
Report == i <= Len(Cases) =>
  LET v == Bursts(Cases[i], 1)
  IN IF ~v.ok THEN PrintT("REJECT " \o ToJson([id |-> Cases[i].id, burst |-> v.at, why |-> v.why]))
     ELSE IF ~EndsOk(Cases[i]) THEN PrintT("REJECT " \o ToJson([id |-> Cases[i].id, burst |-> 0, why |-> "run-ended-with-other-parameters"]))
     ELSE TRUE
=============================================================================
