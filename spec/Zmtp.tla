-------------------------------- MODULE Zmtp --------------------------------
(* C19 framing model: the stream written by the send routines, cut into arbitrary TCP        *)
(* segments, is read back identically by the receive routine.                                *)
(*   Deliver     one more octet of a segment has arrived (StreamReader.feed_data)            *)
(*   Read        one `await reader.read(need)` inside ZmqSocket.read_bytes: returns what is  *)
(*               buffered, at most `need` octets; read_bytes loops until the unit (flag,     *)
(*               size, body) is complete, then ZmqSocket.recv interprets it                  *)
(* Every fragmentation of the stream is an interleaving of Deliver and Read.  With           *)
(* Chunks = "byte" exactly one octet is buffered whenever the reader looks and the next one  *)
(* arrives when it has been consumed (the finest fragmentation, Deliver fused into Read);    *)
(* with Chunks = "all" every segmentation and every scheduling of the reader against the     *)
(* arrivals is explored.                                                                     *)
EXTENDS ZmtpCore, FiniteSets, TLC, Json

CONSTANTS MaxLen, MaxFrames, Byte, Chunks, WithCmd

Bodies == UNION { [1..l -> Byte] : l \in 0..MaxLen }
Msgs   == UNION { [1..n -> Bodies] : n \in 1..MaxFrames }
\* optional command frame in front of the message (what the handshake's READY looks like to recv)
Cmds   == IF WithCmd THEN {<<>>} \cup { <<b>> : b \in Bodies } ELSE {<<>>}

WireOf(c, m) == Expand((IF c = <<>> THEN <<>> ELSE EncCmdBody(Raw(c[1]))) \o Encode([i \in 1..Len(m) |-> Raw(m[i])], 1))

VARIABLES cmd, msg, wire, avail, pos, mode, need, acc, flag, parts, out
vars == <<cmd, msg, wire, avail, pos, mode, need, acc, flag, parts, out>>

Init == /\ cmd \in Cmds /\ msg \in Msgs /\ wire = WireOf(cmd, msg)
        /\ avail = (IF Chunks = "byte" THEN 1 ELSE 0) /\ pos = 1
        /\ mode = "flag" /\ need = 1 /\ acc = <<>> /\ flag = 0 /\ parts = <<>> /\ out = <<>>

\* a segment of k octets = k consecutive Deliver steps with no Read in between (same reachable states as
\* a single step of size k, far fewer transitions)
Deliver ==
  /\ avail < Len(wire)
  /\ Chunks = "all"
  /\ avail' = avail + 1
  /\ UNCHANGED <<cmd, msg, wire, pos, mode, need, acc, flag, parts, out>>

IsLong(f) == (f \div 2) % 2 = 1
IsMore(f) == f % 2 = 1
IsCmd(f)  == (f \div 4) % 2 = 1
\* a complete frame body: skipped (command), collected (MORE) or the message is returned
Complete(body) ==
  /\ mode' = "flag" /\ need' = 1 /\ acc' = <<>> /\ UNCHANGED flag
  /\ IF IsCmd(flag) THEN UNCHANGED <<parts, out>>
     ELSE IF IsMore(flag) THEN parts' = Append(parts, body) /\ UNCHANGED out
     ELSE out' = Append(out, Append(parts, body)) /\ parts' = <<>>

Read ==
  /\ pos <= avail
  /\ LET n == IF need <= avail - pos + 1 THEN need ELSE avail - pos + 1
         a == acc \o SubSeq(wire, pos, pos + n - 1)
     IN /\ pos' = pos + n
        /\ IF n < need THEN /\ acc' = a /\ need' = need - n /\ UNCHANGED <<mode, flag, parts, out>>
           ELSE CASE mode = "flag" ->
                       /\ flag' = a[1] /\ mode' = "len" /\ acc' = <<>>
                       /\ need' = IF IsLong(a[1]) THEN 8 ELSE 1
                       /\ UNCHANGED <<parts, out>>
                  [] mode = "len" ->
                       LET l == IF IsLong(flag) THEN Val8(a) ELSE a[1] IN
                       IF l = 0 THEN Complete(<<>>)          \* read_bytes(0) returns b"" without reading
                       ELSE /\ mode' = "body" /\ need' = l /\ acc' = <<>> /\ UNCHANGED <<flag, parts, out>>
                  [] mode = "body" -> Complete(a)
  /\ avail' = IF Chunks = "byte" /\ avail < Len(wire) THEN avail + 1 ELSE avail   \* "byte": the next octet arrives only now
  /\ UNCHANGED <<cmd, msg, wire>>

Next == Read \/ Deliver
Spec == Init /\ [][Next]_vars

Done == pos > Len(wire)
\* the statement
Lossless     == Done => out = <<msg>> /\ mode = "flag" /\ parts = <<>> /\ acc = <<>>
NothingEarly == ~Done => out = <<>>
\* no read ever runs past what has arrived, the reader never needs more than the stream holds
Sane         == pos <= avail + 1 /\ avail <= Len(wire) /\ (Done => need = 1)
\* the functional decoder used by the acceptor agrees with the state machine
DecoderAgrees == Done => LET d == Decode(Raw(wire)) IN d.ok /\ d.msgs = <<NormF([i \in 1..Len(msg) |-> Raw(msg[i])])>>
\* witnesses: each is expected to be FALSE in some reachable state; one run checks them all (CONSTRAINT
\* TrackW, POSTCONDITION WitnessesSeen, -workers 1)
W_NoLongFrame  == ~(mode = "len" /\ IsLong(flag))
W_NoSplitRead  == ~(mode = "body" /\ acc # <<>>)
W_NoEmptyFrame == ~(Done /\ \E i \in 1..Len(msg) : msg[i] = <<>>)
W_NoCmd        == ~(Done /\ cmd # <<>>)
W_NoCoalesced  == ~(avail - pos >= 3)
WNames == <<"W_NoLongFrame", "W_NoSplitRead", "W_NoEmptyFrame", "W_NoCmd", "W_NoCoalesced">>
WVal(k) == CASE k = 1 -> W_NoLongFrame [] k = 2 -> W_NoSplitRead [] k = 3 -> W_NoEmptyFrame [] k = 4 -> W_NoCmd [] k = 5 -> W_NoCoalesced
ASSUME \A k \in 1..Len(WNames) : TLCSet(k, FALSE)
TrackW == \A k \in 1..Len(WNames) : IF TLCGet(k) THEN TRUE ELSE IF ~WVal(k) THEN TLCSet(k, TRUE) ELSE TRUE
WitnessesSeen == PrintT("INFO " \o ToJson([unseen |-> { WNames[k] : k \in { j \in 1..Len(WNames) : ~TLCGet(j) } }]))
=============================================================================
