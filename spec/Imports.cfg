SPECIFICATION Spec
CONSTANT Mutant = ""
INVARIANT RefusedBindsNothing
INVARIANT AllowedIffRule
INVARIANT StubsIgnored
INVARIANT ShadowResolvesToPyscript
INVARIANT Table
CHECK_DEADLOCK FALSE
