------------------------------- MODULE PyExpr -------------------------------
(* C01 batch acceptor.  IOEnv.CASES = JSON list of cases                                    *)
(*   [id, body (JSON AST), env0, opts, cpy : [trace, exc, final, heap], pys : [...]]        *)
(* One TLC state per case; invariant Report prints one line per rejected recording:         *)
(*   REJECT {id, who, flags, kind, why, at, nm}                                             *)
(* who = "cpy": CPython's own recording is not a behaviour of the machine (a SPEC bug, or   *)
(*   nm = TRUE: the program leaves the modelled fragment - the case is skipped).            *)
(* who = "pys": pyscript's recording.  It is first matched against the statement (no flags) *)
(*   and must then agree with CPython's recording in exception type, final bindings and the *)
(*   final heap (values of all recorder objects).  If it is rejected the acceptor searches  *)
(*   the smallest set of NAMED DEVIATION FLAGS (PyExprCore!AllFlags) under which the        *)
(*   machine produces exactly this recording: `flags` is that set, or <<"unexplained">>     *)
(*   together with construct kind / clause / event position of the statement's rejection.   *)
EXTENDS PyExprCore

\* deserialised ONCE (a plain definition is re-evaluated at every reference: quadratic)
ASSUME TLCSet(1, JsonDeserialize(IOEnv.CASES))
Cases == TLCGet(1)

RECURSIVE Kinds(_)
Kids(n) ==
  CASE n.k \in {"BinOp"} -> <<n.l, n.r>>
    [] n.k \in {"UnaryOp", "Attribute", "NamedExpr", "Expr", "Starred"} -> <<n.v>>
    [] n.k = "BoolOp" -> n.vals
    [] n.k = "Compare" -> <<n.l>> \o n.cs
    [] n.k = "IfExp" -> <<n.test, n.body, n.orelse>>
    [] n.k = "Subscript" -> <<n.v, n.s>>
    [] n.k = "Slice" -> <<n.lo, n.hi, n.step>>
    [] n.k = "Call" -> <<n.f>> \o n.args \o [j \in 1..Len(n.kws) |-> n.kws[j].v]
                       \o (IF \E j \in 1..Len(n.kws) : n.kws[j].name = "" THEN <<[k |-> "DStar"]>> ELSE <<>>)
    [] n.k \in {"List", "Tuple", "Set"} -> n.elts
    [] n.k = "Dict" -> n.keys \o n.vals
    [] n.k \in {"ListComp", "SetComp", "GeneratorExp", "DictComp"} ->
         (IF n.k = "DictComp" THEN <<n.key, n.val>> ELSE <<n.elt>>)
         \o [j \in 1..Len(n.gens) |-> n.gens[j].target] \o [j \in 1..Len(n.gens) |-> n.gens[j].iter]
         \o [j \in 1..Len(n.gens) |-> [k |-> "BoolOp", op |-> "and", vals |-> n.gens[j].ifs]]
    [] n.k = "JoinedStr" -> n.vals
    [] n.k = "FormattedValue" -> <<n.v, n.spec>>
    [] n.k = "Assign" -> n.targets \o <<n.v>>
    [] n.k = "AugAssign" -> <<n.t, n.v>>
    [] n.k = "Delete" -> n.targets
    [] OTHER -> <<>>
Kinds(n) == {n.k} \cup UNION {Kinds(Kids(n)[j]) : j \in 1..Len(Kids(n))}

Trigger(f) ==
  CASE f = "dict-value-first" -> {"Dict"}
    [] f \in {"call-kw-first", "call-callee-eq", "call-str-args"} -> {"Call"}
    [] f \in {"cmp-operand-twice", "cmp-bool-result"} -> {"Compare"}
    [] f \in {"aug-target-twice", "aug-binary-op"} -> {"AugAssign"}
    [] f = "fstring-conv-ignored" -> {"FormattedValue"}
    [] f = "uadd-noop" -> {"UnaryOp"}
    [] f = "matmul-unsupported" -> {"BinOp", "AugAssign"}
    [] f = "unpack-consumes-all" -> {"Tuple", "List"}
    [] f = "comp-leak-on-raise" -> {"ListComp", "SetComp", "DictComp"}
    [] f = "genexp-unsupported" -> {"GeneratorExp"}
    [] f \in {"del-attr-as-state", "del-tuple-unsupported"} -> {"Delete"}
    [] f = "list-target-unsupported" -> {"List"}
    [] f \in {"dstar-pairs", "kw-dup-accepted"} -> {"DStar"}
    [] f \in {"star-target-nonname", "star-uses-add"} -> {"Starred"}
    [] OTHER -> {}

Applicable(c) ==
  LET ks == UNION {Kinds(c.body[j]) : j \in 1..Len(c.body)} IN {f \in AllFlags : Trigger(f) \cap ks # {}}

SetToSeq(SS) == LET RECURSIVE F(_)
                   F(T) == IF T = {} THEN <<>> ELSE LET x == CHOOSE y \in T : TRUE IN <<x>> \o F(T \ {x})
               IN F(SS)

\* A flag set explains the recording if the flagged machine accepts it - or follows it
\* at least as far as the statement does (at0 = where the unflagged machine rejected) and then leaves the
\* modelled fragment: a deviation sent a plain value into a plain primitive whose outcome the machine
\* cannot compute (e.g. `~(a < b)` once the comparison has been replaced by True).  Such partial
\* explanations are marked `partial` in the verdict (the position need not advance: the plain primitive
\* produces no event).
Expl(c, fs, at0) == LET v == Accept(c, c.pys, fs) IN v.ok \/ (v.nm /\ fs # {} /\ v.at >= at0)

\* exhaustive: some explaining subset of A of size k (k..kmax), {} if none
RECURSIVE Exhaust(_, _, _, _, _)
Exhaust(c, A, k, kmax, at0) ==
  IF k > kmax \/ k > Cardinality(A) THEN {}
  ELSE LET ex == {fs \in SUBSET A : Cardinality(fs) = k /\ Expl(c, fs, at0)} IN
       IF ex # {} THEN CHOOSE fs \in ex : TRUE ELSE Exhaust(c, A, k + 1, kmax, at0)

\* greedy: add the flag that lets the machine follow the recording furthest, until it is explained
RECURSIVE Greedy(_, _, _, _, _), Stuck(_, _, _, _, _, _)
\* several deviations meet at the same event: try to add k = 2, 3 flags at once
Stuck(c, A, fs, at, at0, k) ==
  IF k > 3 THEN {}
  ELSE LET cand == A \ fs
           sets == {pr \in SUBSET cand : Cardinality(pr) = k}
           okp  == {pr \in sets : Expl(c, fs \cup pr, at0)} IN
       IF okp # {} THEN fs \cup (CHOOSE pr \in okp : TRUE)
       ELSE LET adv == {pr \in sets : Accept(c, c.pys, fs \cup pr).at > at} IN
            IF adv = {} THEN Stuck(c, A, fs, at, at0, k + 1)
            ELSE LET pr == CHOOSE pr \in adv : \A q \in adv : Accept(c, c.pys, fs \cup q).at <= Accept(c, c.pys, fs \cup pr).at
                 IN Greedy(c, A, fs \cup pr, Accept(c, c.pys, fs \cup pr).at, at0)
Greedy(c, A, fs, at, at0) ==
  LET cand == A \ fs
      res  == [f \in cand |-> Accept(c, c.pys, fs \cup {f})]
      oks  == {f \in cand : Expl(c, fs \cup {f}, at0)}
  IN IF oks # {} THEN fs \cup {CHOOSE f \in oks : TRUE}
     ELSE LET best == {f \in cand : res[f].at > at /\ \A g \in cand : res[g].at <= res[f].at} IN
          IF best # {} THEN LET f == CHOOSE f \in best : TRUE IN Greedy(c, A, fs \cup {f}, res[f].at, at0)
          ELSE Stuck(c, A, fs, at, at0, 2)

\* drop flags that are not needed (1-minimal explanation)
RECURSIVE Minim(_, _, _)
Minim(c, fs, at0) ==
  LET drop == {f \in fs : Expl(c, fs \ {f}, at0)} IN
  IF drop = {} \/ Cardinality(fs) = 1 THEN fs ELSE Minim(c, fs \ {CHOOSE f \in drop : TRUE}, at0)

Explain(c, A, at) ==
  LET e1 == Exhaust(c, A, 1, 2, at) IN
  IF e1 # {} THEN e1
  ELSE LET g == Greedy(c, A, {}, at, at) IN
       IF g # {} THEN Minim(c, g, at) ELSE Exhaust(c, A, 3, 3, at)

\* Differential conditions.  Recorder ids are creation-order numbers: they line up between the two
\* runs iff the events occur in the same order.  Where the machine tolerates two placements of an
\* event (sole starred argument, f-string conversion) the orders may legitimately differ: then the
\* heaps are compared as multisets and the bindings by shape.
EvKinds(tr) == [j \in 1..Len(tr) |-> <<tr[j].e, tr[j].op, tr[j].n>>]
SameBag(a, b) == Len(a) = Len(b) /\ \A j \in 1..Len(a) :
                   Cardinality({m \in 1..Len(a) : a[m] = a[j]}) = Cardinality({m \in 1..Len(b) : b[m] = a[j]})
RECURSIVE Shape(_)
Shape(v) == CASE v.k = "v" -> [k |-> "v", b |-> v.b]
              [] v.k = "seq" -> [k |-> "seq", t |-> v.t, e |-> IF v.t = "set" THEN <<>> ELSE [j \in 1..Len(v.e) |-> Shape(v.e[j])], n |-> Len(v.e)]
              [] v.k = "dict" -> [k |-> "dict", ks |-> [j \in 1..Len(v.ks) |-> Shape(v.ks[j])], vs |-> [j \in 1..Len(v.vs) |-> Shape(v.vs[j])]]
              [] v.k = "slice" -> [k |-> "slice", e |-> [j \in 1..Len(v.e) |-> Shape(v.e[j])]]
              [] OTHER -> v
Differ(c) ==
  IF c.pys.exc # c.cpy.exc THEN "exception type differs from CPython: '" \o c.pys.exc \o "' vs '" \o c.cpy.exc \o "'"
  ELSE IF EvKinds(c.pys.trace) = EvKinds(c.cpy.trace) THEN
       IF c.pys.final # c.cpy.final THEN "final bindings differ from CPython"
       ELSE IF c.pys.heap # c.cpy.heap THEN "final values of recorder objects differ from CPython"
       ELSE ""
  ELSE IF DOMAIN c.pys.final # DOMAIN c.cpy.final \/ \E m \in DOMAIN c.pys.final : Shape(c.pys.final[m]) # Shape(c.cpy.final[m])
       THEN "final bindings differ from CPython"
  ELSE IF c.pys.exc = "" /\ ~SameBag(c.pys.heap, c.cpy.heap) THEN "final values of recorder objects differ from CPython"
  ELSE ""       \* (an exception can cut off a tolerated, differently placed iteration: heaps not comparable)

Line(c, who, flags, v, partial) == PrintT("REJECT " \o ToJson([id |-> c.id, who |-> who, flags |-> flags, kind |-> v.kind,
                                                      why |-> v.why, at |-> v.at, nm |-> v.nm, partial |-> partial]))

VARIABLE i
Init == i = 1
Next == i <= Len(Cases) /\ i' = i + 1
Spec == Init /\ [][Next]_i
Report == i <= Len(Cases) =>
  LET c  == Cases[i]
      vc == Accept(c, c.cpy, {})
  IN IF ~vc.ok THEN Line(c, "cpy", <<>>, vc, FALSE)
     ELSE LET vp == Accept(c, c.pys, {}) IN
          IF vp.ok THEN
               LET d == Differ(c) IN
               IF d = "" THEN TRUE
               ELSE \* the unflagged machine accepts both recordings although they differ: an object whose content it does
                    \* not compute (Opq) is a wildcard.  The difference counts as explained by a flag set under which the
                    \* machine tells the two apart - it still produces pyscript's recording and no longer CPython's.
                    LET A  == Applicable(c)
                        ex == {fs \in SUBSET A : Cardinality(fs) \in 1..2 /\ Accept(c, c.pys, fs).ok /\ ~Accept(c, c.cpy, fs).ok}
                        e1 == {fs \in ex : Cardinality(fs) = 1}
                    IN Line(c, "pys", IF ex = {} THEN <<"unexplained">> ELSE SetToSeq(CHOOSE fs \in (IF e1 # {} THEN e1 ELSE ex) : TRUE),
                            [kind |-> "program", why |-> d, at |-> 0, nm |-> FALSE], FALSE)
          ELSE LET fs == Explain(c, Applicable(c), vp.at) IN
               Line(c, "pys", IF fs = {} THEN <<"unexplained">> ELSE SetToSeq(fs), vp, fs # {} /\ ~Accept(c, c.pys, fs).ok)
=============================================================================
