----------------------------- MODULE KernelCore -----------------------------
(* C19: one Jupyter kernel session (Kernel.shell_listen / shell_handler / housekeep_run of     *)
(* jupyter_kernel.py) as a state machine.  Shared by the model (Kernel.tla: request sequences  *)
(* chosen by TLC) and the trace specification (KernelTrace.tla: requests and observations      *)
(* taken from recordings of the real kernel).                                                  *)
(*                                                                                             *)
(* Signatures are abstract: Sig(key, frames) is an injective pairing (strength of HMAC is out  *)
(* of scope); a request carries the key it was signed with and what happened to it on the way  *)
(* (`tamper`: nothing, the signature frame altered, or one of the four signed frames altered). *)
(*                                                                                             *)
(* Everything observable is appended to `log`, in the order in which the kernel performs it:   *)
(*   [e |-> "req", ...]    a client has written a complete request message to a shell          *)
(*                         connection (it waits in `inbox` until the handler reads it)         *)
(*   [e |-> "exec", id]    the cell of request `id` started running (side-effect marker)       *)
(*   [e |-> "out", ...]    one message written to a shell connection or broadcast on iopub     *)
(* The statement is written over `log` (Kernel.tla), independently of the mechanism below.     *)
(*                                                                                             *)
(* Mech selects the mechanism:                                                                 *)
(*   "spec"   what the statement allows: a stdout message carries the header of the request    *)
(*            whose cell printed it and may be published at any time after the print; the      *)
(*            shell reply and the iopub result/error of a request come in either order;        *)
(*            a forged request may or may not end the session.  Recordings are validated       *)
(*            against this one.                                                                *)
(*   "code"   the mechanism of the pinned tree: stdout goes through the housekeeping queue     *)
(*            and is published with Kernel.parent_header *as it is when the queue is drained*; *)
(*            the handshake that drains the queue before `idle` exists on the ok path only;    *)
(*            a forged request ends the session.                                               *)
(*   "fixed"  "code" with the handshake on the error path as well (notes/C19-fixes).           *)
EXTENDS Integers, Sequences, FiniteSets, TLC

CONSTANTS Mech, SessionKey,
          HqBound    \* 0: housekeep_q is unbounded (asyncio.Queue(0), the code).  n > 0 (under "code"/"fixed" only):
                     \* a queue of n places filled with put_nowait - what does not fit is dropped.  NOT what the
                     \* statement allows; Kernel.tla uses it to show that StdoutInOrder is violated by that class.

VARIABLES alive,    \* the session accepts requests
          ecount,      \* Kernel.execution_count
          pc,       \* where shell_handler stands: wait busy input run post hs idle
          cur,      \* the request being handled
          todo,     \* messages still owed in phase "post": subset of {"result", "reply", "error"}
          phdr,     \* Kernel.parent_header
          hq,       \* stdout records waiting in housekeep_q: <<[text, origin]>>
          acc,      \* the session's memory: ids of the cells that appended themselves, in order
          log,
          inbox,    \* requests written by clients, not yet read by shell_listen (TCP buffer, FIFO)
          nreq      \* number of requests read so far
kvars == <<alive, ecount, pc, cur, todo, phdr, hq, acc, log, inbox, nreq>>

NoCell == [runs |-> FALSE, append |-> FALSE, prints |-> <<>>, out |-> "none", ename |-> "", rtext |-> ""]
NoReq  == [e |-> "req", id |-> 0, hdr |-> "", kind |-> "", key |-> "", tamper |-> "none", ids |-> <<>>,
           conn |-> 0, store |-> FALSE, cell |-> NoCell]

\* ---------------------------------------------------------------- signatures
Sig(key, frames) == <<"sig", key, frames>>
SentFrames(r) == IF r.tamper \in {"header", "parent", "metadata", "content"} THEN <<"altered", r.tamper>> ELSE <<"orig">>
ReqSig(r)     == IF r.tamper = "sig" THEN <<"altered-sig">> ELSE Sig(r.key, <<"orig">>)
Valid(r)      == ReqSig(r) = Sig(SessionKey, SentFrames(r))

\* ---------------------------------------------------------------- messages
IsExec(r) == r.kind = "execute_request"
ReplyType(kind) == CASE kind = "execute_request"     -> "execute_reply"
                     [] kind = "kernel_info_request" -> "kernel_info_reply"
                     [] kind = "complete_request"    -> "complete_reply"
                     [] kind = "is_complete_request" -> "is_complete_reply"
                     [] kind = "comm_info_request"   -> "comm_info_reply"
                     [] kind = "history_request"     -> "history_reply"
                     [] OTHER -> "none"
Out0 == [e |-> "out", ch |-> "iopub", conn |-> 0, t |-> "", parent |-> "", sigok |-> TRUE, ids |-> <<>>,
         state |-> "", cnt |-> 0, text |-> "", status |-> "", ename |-> ""]
StatusMsg(h, s)  == [Out0 EXCEPT !.t = "status", !.parent = h, !.state = s]
InputMsg(h, n)   == [Out0 EXCEPT !.t = "execute_input", !.parent = h, !.cnt = n]
StreamMsg(h, x)  == [Out0 EXCEPT !.t = "stream", !.parent = h, !.text = x]
ResultMsg(h, n, x) == [Out0 EXCEPT !.t = "execute_result", !.parent = h, !.cnt = n, !.text = x]
ErrorMsg(h, en)  == [Out0 EXCEPT !.t = "error", !.parent = h, !.ename = en]
ReplyMsg(r, n)   == [Out0 EXCEPT !.ch = "shell", !.conn = r.conn, !.t = ReplyType(r.kind), !.parent = r.hdr, !.ids = r.ids,
                                 !.cnt = IF IsExec(r) THEN n ELSE 0,
                                 !.status = IF ~IsExec(r) THEN "" ELSE IF r.cell.out = "error" THEN "error" ELSE "ok",
                                 !.ename = IF IsExec(r) /\ r.cell.out = "error" THEN r.cell.ename ELSE ""]
ExecMark(r) == [e |-> "exec", id |-> r.id]

\* repr of the session memory, e.g. "[1, 3]" (what a cell ending in the expression `acc` displays)
RECURSIVE JoinInts(_, _)
JoinInts(s, i) == IF i > Len(s) THEN "" ELSE (IF i > 1 THEN ", " ELSE "") \o ToString(s[i]) \o JoinInts(s, i + 1)
ListText(s) == "[" \o JoinInts(s, 1) \o "]"
ResultText(r, a) == IF r.cell.out = "acc" THEN ListText(a) ELSE r.cell.rtext

\* ---------------------------------------------------------------- actions
Emit(x) == log' = Append(log, x)

\* a client writes a request (possibly while earlier ones are still unread: pipelining)
Send(r) ==
  /\ Emit(r)
  /\ inbox' = Append(inbox, r)
  /\ UNCHANGED <<alive, ecount, pc, cur, todo, phdr, hq, acc, nreq>>

\* shell_listen reads the next complete message; shell_handler checks the signature (deserialize_wire_msg)
Take ==
  /\ alive /\ pc = "wait" /\ inbox # <<>>
  /\ inbox' = Tail(inbox) /\ nreq' = nreq + 1
  /\ LET r == Head(inbox) IN
     IF Valid(r)
     THEN /\ cur' = r /\ phdr' = r.hdr /\ pc' = "busy"
          /\ UNCHANGED <<alive, ecount, todo, hq, acc, log>>
     ELSE \* BadSignature: never executed, never answered.  The real kernel ends the whole session
          \* (ValueError -> shell_listen -> housekeeping "shutdown"); the statement does not ask for that.
          /\ alive' \in (IF Mech = "spec" THEN BOOLEAN ELSE {FALSE})
          /\ UNCHANGED <<ecount, pc, cur, todo, phdr, hq, acc, log>>

Busy ==
  /\ pc = "busy"
  /\ Emit(StatusMsg(cur.hdr, "busy"))
  /\ IF IsExec(cur) THEN pc' = "input" /\ UNCHANGED todo
     ELSE pc' = "post" /\ todo' = (IF ReplyType(cur.kind) = "none" THEN {} ELSE {"reply"})
  /\ UNCHANGED <<alive, ecount, cur, phdr, hq, acc, inbox, nreq>>

Input ==
  /\ pc = "input"
  /\ Emit(InputMsg(cur.hdr, ecount))
  /\ pc' = "run"
  /\ UNCHANGED <<alive, ecount, cur, todo, phdr, hq, acc, inbox, nreq>>

\* parse + eval of the cell: marker, memory, prints handed to the housekeeping queue, outcome
Run ==
  /\ pc = "run"
  /\ LET c == cur.cell IN
     /\ IF c.runs THEN Emit(ExecMark(cur)) ELSE UNCHANGED log
     /\ acc' = IF c.runs /\ c.append THEN Append(acc, cur.id) ELSE acc
     /\ LET room == IF HqBound = 0 \/ Mech = "spec" THEN Len(c.prints)
                     ELSE IF HqBound - Len(hq) < 0 THEN 0
                     ELSE IF HqBound - Len(hq) < Len(c.prints) THEN HqBound - Len(hq) ELSE Len(c.prints)
        IN hq' = IF c.runs THEN hq \o [i \in 1..room |-> [text |-> c.prints[i] \o "\n", origin |-> cur.hdr]] ELSE hq
     /\ todo' = CASE c.out = "error" -> {"reply", "error"} [] c.out = "none" -> {"reply"} [] OTHER -> {"result", "reply"}
  /\ pc' = "post"
  /\ UNCHANGED <<alive, ecount, cur, phdr, inbox, nreq>>

\* order of the owed messages: free in "spec"; in the code  result < reply  and  reply < error
Ordered(x) == \/ Mech = "spec"
              \/ x = "result"
              \/ x = "reply" /\ "result" \notin todo
              \/ x = "error" /\ "reply" \notin todo
NeedsHandshake == IsExec(cur) /\ (Mech = "fixed" \/ (Mech = "code" /\ cur.cell.out # "error"))
AfterPost(t) == IF t # {} THEN "post" ELSE IF NeedsHandshake THEN "hs" ELSE "idle"
Post(x) ==
  /\ pc = "post" /\ x \in todo /\ Ordered(x)
  /\ Emit(CASE x = "result" -> ResultMsg(cur.hdr, ecount, ResultText(cur, acc))
            [] x = "error"  -> ErrorMsg(cur.hdr, cur.cell.ename)
            [] x = "reply"  -> ReplyMsg(cur, ecount))
  /\ todo' = todo \ {x}
  /\ pc' = AfterPost(todo')
  /\ UNCHANGED <<alive, ecount, cur, phdr, hq, acc, inbox, nreq>>
PostNone ==            \* a message type that is not answered (not generated by the checks)
  /\ pc = "post" /\ todo = {} /\ pc' = AfterPost({})
  /\ UNCHANGED <<alive, ecount, cur, todo, phdr, hq, acc, log, inbox, nreq>>

\* the handler waits until the housekeeping task has drained everything queued before
Handshake ==
  /\ pc = "hs" /\ hq = <<>>
  /\ pc' = "idle"
  /\ UNCHANGED <<alive, ecount, cur, todo, phdr, hq, acc, log, inbox, nreq>>

Idle ==
  /\ pc = "idle"
  /\ Emit(StatusMsg(cur.hdr, "idle"))
  /\ ecount' = IF IsExec(cur) /\ cur.store THEN ecount + 1 ELSE ecount
  /\ pc' = "wait" /\ cur' = NoReq
  /\ UNCHANGED <<alive, todo, phdr, hq, acc, inbox, nreq>>

\* housekeep_run publishes one queued stdout record; it runs whenever the handler yields, which the
\* model over-approximates by "at any time"
Flush ==
  /\ hq # <<>>
  /\ Emit(StreamMsg(IF Mech = "spec" THEN hq[1].origin ELSE phdr, hq[1].text))
  /\ hq' = Tail(hq)
  /\ UNCHANGED <<alive, ecount, pc, cur, todo, phdr, acc, inbox, nreq>>

KInit == /\ alive = TRUE /\ ecount = 1 /\ pc = "wait" /\ cur = NoReq /\ todo = {} /\ phdr = "" /\ hq = <<>>
         /\ acc = <<>> /\ log = <<>> /\ inbox = <<>> /\ nreq = 0
Internal == Take \/ Busy \/ Input \/ Run \/ (\E x \in {"result", "reply", "error"} : Post(x)) \/ PostNone \/ Handshake \/ Idle \/ Flush
Quiescent == pc = "wait" /\ hq = <<>> /\ (inbox = <<>> \/ ~alive)
=============================================================================
