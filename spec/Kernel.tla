------------------------------- MODULE Kernel -------------------------------
(* C19 model: TLC chooses the request sequence (<= MaxReqs requests from the universe below,  *)
(* valid and forged, two client identities, store_history on/off) and every interleaving of   *)
(* the housekeeping task with the handler.  The statement is written over the history `log`.  *)
EXTENDS KernelCore, Json

CONSTANTS MaxReqs, Tags, TwoClients, Stores,
          Burst,        \* number of stdout records a "burst" cell emits in one go (without yielding to the loop)
          Pipelining    \* FALSE: clients write the next request only when the session is quiescent
\* identities (routing prefix) of the requesting client: one frame, or two frames (a client behind a proxy)
Who == IF TwoClients THEN {<<"A">>, <<"B", "b2">>} ELSE {<<"A">>}

\* ---------------------------------------------------------------- request universe
CellOf(tag, n) ==
  CASE tag = "ok"     -> [NoCell EXCEPT !.runs = TRUE, !.append = TRUE, !.out = "acc"]
    [] tag = "stmt"   -> [NoCell EXCEPT !.runs = TRUE, !.append = TRUE]
    [] tag = "print"  -> [NoCell EXCEPT !.runs = TRUE, !.prints = <<"p" \o ToString(n)>>, !.out = "acc"]
    [] tag = "burst"  -> [NoCell EXCEPT !.runs = TRUE, !.prints = [k \in 1..Burst |-> "b" \o ToString(n) \o "." \o ToString(k)], !.out = "acc"]
    [] tag = "err"    -> [NoCell EXCEPT !.runs = TRUE, !.append = TRUE, !.out = "error", !.ename = "ZeroDivisionError"]
    [] tag = "perr"   -> [NoCell EXCEPT !.runs = TRUE, !.prints = <<"q" \o ToString(n)>>, !.out = "error", !.ename = "ValueError"]
    [] tag = "syntax" -> [NoCell EXCEPT !.out = "error", !.ename = "SyntaxError"]
    [] OTHER -> NoCell
ExecTags   == {"ok", "stmt", "print", "burst", "err", "perr", "syntax"}
ForgedTags == {"forged-key", "forged-sig", "forged-content"}
KindOf(tag) == IF tag \in ExecTags \cup ForgedTags THEN "execute_request" ELSE tag
Req(n, tag, who, store) ==
  [e |-> "req", id |-> n, hdr |-> "h" \o ToString(n), kind |-> KindOf(tag),
   key |-> IF tag = "forged-key" THEN "other" ELSE SessionKey,
   tamper |-> CASE tag = "forged-sig" -> "sig" [] tag = "forged-content" -> "content" [] OTHER -> "none",
   ids |-> who, conn |-> 1, store |-> store,
   cell |-> IF tag \in ForgedTags THEN CellOf("ok", n) ELSE CellOf(tag, n)]
Universe(n) == { Req(n, tag, who, st) : tag \in Tags, who \in Who, st \in Stores }
               \ { Req(n, tag, who, st) : tag \in Tags \ ExecTags, who \in Who, st \in Stores \ {TRUE} }

Init == KInit
\* clients write only while the handler is reading (several in a row = pipelining); a write in the middle
\* of a request's handling is equivalent for the kernel, which does not look at its input before `wait`
Sent == nreq + Len(inbox)
Next == Internal \/ (/\ pc = "wait" /\ Sent < MaxReqs
                     /\ Pipelining \/ (inbox = <<>> /\ hq = <<>>)
                     /\ \E r \in Universe(Sent + 1) : Send(r))
Spec == Init /\ [][Next]_kvars

\* ---------------------------------------------------------------- the statement, over the history
\* (LET-bound sets are evaluated once per use site by TLC; the formulas below are written for that)
Idx      == 1..Len(log)
Reqs     == { i \in Idx : log[i].e = "req" }
Read     == { i \in Reqs : Cardinality({ k \in Reqs : k <= i }) <= nreq }     \* read by the kernel so far (FIFO)
VReqs    == { i \in Read : Valid(log[i]) }
Forged   == { i \in Reqs : ~Valid(log[i]) }
Outs     == { j \in Idx : log[j].e = "out" }
Execs    == { j \in Idx : log[j].e = "exec" }
OutsOf(i)  == { j \in Outs : log[j].parent = log[i].hdr }
IsBusy(j)  == log[j].t = "status" /\ log[j].state = "busy"
IsIdle(j)  == log[j].t = "status" /\ log[j].state = "idle"
Done(i)    == \E j \in Outs : log[j].parent = log[i].hdr /\ IsIdle(j)
ReqOf(j)   == CHOOSE i \in Reqs : log[i].hdr = log[j].parent
Runs(i)    == IsExec(log[i]) /\ log[i].cell.runs

ExactlyOneReplyPerValidRequest ==
  LET V == VReqs IN
  /\ \A i \in V : LET R == { j \in OutsOf(i) : log[j].ch = "shell" } IN
                  Cardinality(R) <= 1 /\ (Done(i) => Cardinality(R) = 1)
  /\ pc = "wait" => \A i \in V : Done(i)          \* the handler is back at reading: nothing is owed
  /\ (alive /\ Quiescent) => Read = Reqs           \* and nothing stays unread while the session lives

ReplyCorrelated ==
  LET V == VReqs IN
  \A j \in Outs : log[j].ch = "shell" =>
     \E i \in V : /\ i < j /\ log[j].parent = log[i].hdr /\ log[j].ids = log[i].ids /\ log[j].conn = log[i].conn
                  /\ log[j].sigok /\ log[j].t = ReplyType(log[i].kind)
AllSigned == \A j \in Outs : log[j].sigok

\* busy first, idle last, each once; the reply, the input/result/error and the cell's execution in between
BusyIdleBracket ==
  \A i \in VReqs :
     LET O == OutsOf(i)
         B == { j \in O : IsBusy(j) }
         D == { j \in O : IsIdle(j) }
         M == { j \in O : log[j].t # "stream" } \cup { j \in Execs : log[j].id = log[i].id }
     IN /\ Cardinality(B) <= 1 /\ Cardinality(D) <= 1
        /\ M # {} => B # {}
        /\ \A j \in M : (\A b \in B : b <= j) /\ (\A d \in D : j <= d)

NoEffectOfForgedRequest ==
  \A i \in Forged :
     /\ OutsOf(i) = {}
     /\ ~\E j \in Execs : log[j].id = log[i].id
     /\ ~\E k \in 1..Len(acc) : acc[k] = log[i].id

\* the counter a request sees = 1 + number of earlier executed cells with store_history
CounterMonotone ==
  LET V == VReqs
      CntOf(i) == 1 + Cardinality({ k \in V : k < i /\ IsExec(log[k]) /\ log[k].store })
  IN /\ \A j \in Outs : log[j].t \in {"execute_input", "execute_result", "execute_reply"} => log[j].cnt = CntOf(ReqOf(j))
     /\ \A i \in V : \A k \in V : (i < k /\ IsExec(log[i]) /\ IsExec(log[k])) =>
           (CntOf(i) <= CntOf(k) /\ (log[i].store => CntOf(i) < CntOf(k)))

\* markers, results and errors reflect the executed cells in order
OutputsReflectCells ==
  LET V == VReqs
      MemAt(i) == SelectSeq([k \in 1..i |-> IF k \in V /\ Runs(k) /\ log[k].cell.append THEN log[k].id ELSE 0], LAMBDA x : x # 0)
  IN
  /\ \A j \in Execs :
        /\ \E i \in V : i < j /\ log[i].id = log[j].id /\ Runs(i)
        /\ \A k \in Execs : k < j => log[k].id < log[j].id
  /\ \A j \in Outs : log[j].t = "execute_result" =>
        LET i == ReqOf(j) IN i \in V /\ log[i].cell.out \in {"acc", "const"} /\ log[j].text = ResultText(log[i], MemAt(i))
  /\ \A j \in Outs : log[j].t = "error" =>
        LET i == ReqOf(j) IN i \in V /\ log[i].cell.out = "error" /\ log[j].ename = log[i].cell.ename
  /\ \A i \in V : (IsExec(log[i]) /\ Done(i)) =>
        LET O == OutsOf(i) IN
        /\ Cardinality({ j \in O : log[j].t = "execute_input" }) = 1
        /\ Cardinality({ j \in O : log[j].t = "execute_result" }) = (IF log[i].cell.out \in {"acc", "const"} THEN 1 ELSE 0)
        /\ Cardinality({ j \in O : log[j].t = "error" }) = (IF log[i].cell.out = "error" THEN 1 ELSE 0)
        /\ Cardinality({ j \in Execs : log[j].id = log[i].id }) = (IF Runs(i) THEN 1 ELSE 0)
        /\ \A j \in O : log[j].ch = "shell" => log[j].status = (IF log[i].cell.out = "error" THEN "error" ELSE "ok")

\* stdout: what was printed, in order (StdoutInOrder), attributed to the cell that printed it (StdoutAttributed)
RECURSIVE PrintsFrom(_, _)
PrintsFrom(i, ran) ==
  IF i > Len(log) THEN <<>>
  ELSE (IF log[i].e = "req" /\ Valid(log[i]) /\ Runs(i) /\ log[i].id \in ran
        THEN [k \in 1..Len(log[i].cell.prints) |-> [text |-> log[i].cell.prints[k] \o "\n", parent |-> log[i].hdr]]
        ELSE <<>>) \o PrintsFrom(i + 1, ran)
Printed == PrintsFrom(1, { log[j].id : j \in Execs })
Streams == SelectSeq(log, LAMBDA x : x.e = "out" /\ x.t = "stream")
StdoutInOrder ==
  LET p == Printed  s == Streams IN
  /\ Len(s) <= Len(p) /\ \A k \in 1..Len(s) : s[k].text = p[k].text
  /\ Quiescent => Len(s) = Len(p)
StdoutAttributed ==
  LET p == Printed  s == Streams IN
  Len(s) <= Len(p) /\ \A k \in 1..Len(s) : s[k].parent = p[k].parent
\* established by the proposed fix (not demanded by the statement): stdout inside its own bracket
StdoutBeforeIdle ==
  \A i \in VReqs : LET O == OutsOf(i) IN
     \A j \in O : log[j].t = "stream" => (\E b \in O : IsBusy(b) /\ b < j) /\ (\A d \in O : IsIdle(d) => j < d)

\* ---------------------------------------------------------------- witnesses
\* Each W_ predicate is expected to be FALSE in some reachable state (the antecedents of the invariants
\* are not vacuous).  One run checks them all: CONSTRAINT TrackW notes in a TLC register which ones
\* were seen violated, POSTCONDITION WitnessesSeen reports the rest (run with -workers 1).
W_NoLateStdout   == StdoutBeforeIdle
W_NoForged       == Forged = {}
W_NoSurvivor     == \A i \in Forged \cap Read : ~alive
W_NoPipelining   == Len(inbox) < 2
W_NoSecondClient == \A i \in VReqs : \A k \in VReqs : log[i].ids = log[k].ids
W_NoErrorReply   == \A j \in Outs : log[j].status # "error"
W_CounterStuck   == \A j \in Outs : log[j].cnt < 2
W_NoUnstored     == ~\E i \in VReqs : IsExec(log[i]) /\ ~log[i].store /\ Done(i)
W_NoDeadSession  == alive
W_NoBurst        == ~(Quiescent /\ \E i \in VReqs : Len(log[i].cell.prints) >= 3 /\ Done(i))   \* a burst of stdout, all of it published
W_NoQueuedBurst  == Len(hq) < 3                                                             \* ... that was waiting in the queue at once
WNames == <<"W_NoLateStdout", "W_NoForged", "W_NoSurvivor", "W_NoPipelining", "W_NoSecondClient", "W_NoErrorReply",
            "W_CounterStuck", "W_NoUnstored", "W_NoDeadSession">>
\* (a predicate is evaluated only until it has been seen violated once; a tuple of all of them would be evaluated
\* in full at every use)
WVal(k) == CASE k = 1 -> W_NoLateStdout [] k = 2 -> W_NoForged [] k = 3 -> W_NoSurvivor [] k = 4 -> W_NoPipelining
             [] k = 5 -> W_NoSecondClient [] k = 6 -> W_NoErrorReply [] k = 7 -> W_CounterStuck [] k = 8 -> W_NoUnstored
             [] k = 9 -> W_NoDeadSession
ASSUME \A k \in 1..Len(WNames) : TLCSet(k, FALSE)
TrackW == \A k \in 1..Len(WNames) : IF TLCGet(k) THEN TRUE ELSE IF ~WVal(k) THEN TLCSet(k, TRUE) ELSE TRUE
WitnessesSeen == PrintT("INFO " \o ToJson([unseen |-> { WNames[k] : k \in { j \in 1..Len(WNames) : ~TLCGet(j) } }]))
\* the same for the burst family (a run of its own: Tags with "burst"; CONSTRAINT TrackWB, POSTCONDITION WitnessesSeenB)
WNamesB == <<"W_NoBurst", "W_NoQueuedBurst">>
WValB(k) == CASE k = 1 -> W_NoBurst [] k = 2 -> W_NoQueuedBurst
TrackWB == \A k \in 1..Len(WNamesB) : IF TLCGet(k) THEN TRUE ELSE IF ~WValB(k) THEN TLCSet(k, TRUE) ELSE TRUE
WitnessesSeenB == PrintT("INFO " \o ToJson([unseen |-> { WNamesB[k] : k \in { j \in 1..Len(WNamesB) : ~TLCGet(j) } }]))
=============================================================================
