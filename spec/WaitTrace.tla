------------------------------ MODULE WaitTrace ------------------------------
(* Acceptor for recordings of real task.wait_until calls (C15), folding WaitCore over the    *)
(* recorded timeline.  A case:                                                               *)
(*   [id, c (WaitCore configuration, times in ms), a0, tl : <<[t, k, v]>>,                    *)
(*    obs : [k, t, a : [tt, v] | exception name | "-"], leak : [state, listeners, timers,     *)
(*    tasks, dms] ]                                                                           *)
(* leak = resources held after the call has ended (and everything settled) minus the          *)
(* baseline taken just before the call.  Deviations are classified by WaitCore's flags.       *)
EXTENDS WaitCore, FiniteSets, TLC, Json, IOUtils
Cases == JsonDeserialize(IOEnv.CASES)
AllFlags == {"cancel-leaks"}
NoLeak(l) == l.state <= 0 /\ l.listeners <= 0 /\ l.timers <= 0 /\ l.tasks <= 0   \* nothing in excess of the baseline

Verdict(cs, flags) ==
  LET c == [cs.c EXCEPT !.flags = flags]
      o == Outcome(c, cs.tl, cs.a0)
  IN IF o # cs.obs THEN "outcome"
     ELSE IF o.k = "waiting" THEN ""
     ELSE IF NoLeak(cs.leak) \/ MayLeak(c, o) THEN "" ELSE "leak"

VARIABLE i
Init == i = 1
Next == i <= Len(Cases) /\ i' = i + 1
Spec == Init /\ [][Next]_i
Report == i <= Len(Cases) =>
  LET cs == Cases[i]  v == Verdict(cs, {})
  IN IF v = "" THEN TRUE
     ELSE PrintT("REJECT " \o ToJson([id |-> cs.id, exp |-> Outcome([cs.c EXCEPT !.flags = {}], cs.tl, cs.a0), obs |-> cs.obs, leak |-> cs.leak,
                  why |-> IF v = "outcome" THEN <<"wrong-outcome">>
                          ELSE IF Verdict(cs, AllFlags) = "" THEN <<"cancel-leaks">> ELSE <<"leak-after-" \o cs.obs.k>>]))
=============================================================================
