---------------------------- MODULE Requirements ----------------------------
(* C20 - record evolution over repeated runs as a state machine.                            *)
(*   inst : package -> version present in the Python environment (NoVer = not installed)    *)
(*   rec  : package -> pyscript's record of what it installed (config entry)                *)
(*   mine : ghost - the version pyscript itself installed last (never forgotten)            *)
(* Run(lines, allow) is one start of pyscript with the given requirement lines; External    *)
(* is anything else changing the environment (HA upgrade, user, another integration).       *)
(* The properties restate the clauses of the statement over (state, state') independently   *)
(* of the definitions of Select/Decide/RecordsOk, which the trace acceptor uses as oracle.  *)
EXTENDS RequirementsCore

CONSTANTS Pkgs, MaxRuns, MaxLinesPerPkg, Vers
VARIABLES inst, rec, mine, runs, lastAct
vars == <<inst, rec, mine, runs, lastAct>>
View == <<inst, rec, mine, runs>>

V3 == {<<1, 0>>, <<1, 1>>, <<2, 0>>}          \* with NoVer: {none, 1.0, 1.1, 2.0}
V2 == {<<1, 0>>, <<2, 0>>}
VerOrNone == Vers \cup {NoVer}
\* the lines a file set may contain for one package (bounded): pins of every version, one in a second
\* spelling (1.0.0 = 1.0), unpinned, and representatives of the ignored classes
LinesOf(p) == { [f |-> "pin", p |-> p, v |-> v] : v \in Vers } \cup { [f |-> "pin_comment", p |-> p, v |-> <<1, 0, 0>>] }
              \cup { [f |-> "unpinned", p |-> p, v |-> NoVer], [f |-> "ge", p |-> p, v |-> <<2, 0>>], [f |-> "comment", p |-> p, v |-> <<2, 0>>] }
Small(S) == { T \in SUBSET S : Cardinality(T) <= MaxLinesPerPkg }
PkgSeq == CHOOSE s \in [1..Cardinality(Pkgs) -> Pkgs] : \A i, j \in 1..Cardinality(Pkgs) : i # j => s[i] # s[j]
RECURSIVE Fam(_)
Fam(i) == IF i > Len(PkgSeq) THEN {{}} ELSE { a \cup b : a \in Small(LinesOf(PkgSeq[i])), b \in Fam(i + 1) }
LineFamilies == Fam(1)

Init == /\ inst \in [Pkgs -> VerOrNone]          \* whatever Home Assistant's environment already contains
        /\ rec = [p \in Pkgs |-> NoVer] /\ mine = [p \in Pkgs |-> NoVer]
        /\ runs = 0 /\ lastAct = [k |-> "init"]

\* (the singleton quantifiers make TLC evaluate want / ins / after once per step)
Run == /\ runs < MaxRuns
       /\ \E lines \in LineFamilies, allow \in BOOLEAN, latest \in Vers \ {<<1, 0>>}, drop \in BOOLEAN :
          \E want \in {[p \in Pkgs |-> Select(lines, p)]} :
          \E ins \in {{ p \in Pkgs : Decide(inst[p], rec[p], want[p], allow) }} :
          \E after \in {[p \in Pkgs |-> IF p \in ins THEN (IF want[p].k = "pin" THEN want[p].v ELSE latest) ELSE inst[p]]} :
               /\ inst' = after
               \* stale entries of foreign packages: all kept or all dropped (statement silent)
               /\ rec' = [p \in Pkgs |-> LET ok == RecordsOk(inst[p], rec[p], want[p], allow, after[p])
                                          IN IF drop /\ NoVer \in ok THEN NoVer ELSE CHOOSE r \in ok : r # NoVer \/ ok = {NoVer}]
               /\ mine' = [p \in Pkgs |-> IF p \in ins THEN after[p] ELSE mine[p]]
               /\ lastAct' = [k |-> "run", lines |-> lines, allow |-> allow, ins |-> ins,
                               upd |-> { p \in ins : Owned(inst[p], rec[p]) },                       \* (for the witnesses)
                               skipped |-> { p \in Pkgs \ ins : Foreign(inst[p], rec[p]) /\ want[p].k = "pin" /\ ~VEq(want[p].v, inst[p]) }]
       /\ runs' = runs + 1

External == /\ runs < MaxRuns
            /\ \E p \in Pkgs, v \in VerOrNone : v # inst[p] /\ inst' = [inst EXCEPT ![p] = v]
            /\ lastAct' = [k |-> "external"] /\ UNCHANGED <<rec, mine, runs>>

Next == Run \/ External
Spec == Init /\ [][Next]_vars

\* ------------------------------------------------------------------ the statement
A == lastAct'
IsRun == A.k = "run"
PinsIn(L, p) == { l.v : l \in { x \in L : x.p = p /\ x.f \in {"pin", "pin_comment"} } }
\* what was installed by the run: the packages whose environment version moved
Moved == { p \in Pkgs : inst'[p] # inst[p] }

NothingInstalledUnlessAllowed == [][ IsRun /\ ~A.allow => A.ins = {} /\ inst' = inst ]_vars
\* installed by something else (no record, or the record no longer matches): never reinstalled or changed
ForeignNeverTouched ==
  [][ IsRun => \A p \in Pkgs : inst[p] # NoVer /\ (rec[p] = NoVer \/ ~VEq(rec[p], inst[p])) => p \notin A.ins /\ inst'[p] = inst[p] ]_vars
\* installed by pyscript: touched exactly when a pin exists and the highest pin differs from what is installed
OwnUpdatedOnlyOnPinChange ==
  [][ IsRun /\ A.allow => \A p \in Pkgs : inst[p] # NoVer /\ rec[p] # NoVer /\ VEq(rec[p], inst[p]) =>
        (p \in A.ins <=> PinsIn(A.lines, p) # {} /\ \E v \in PinsIn(A.lines, p) : (\A w \in PinsIn(A.lines, p) : ~VLt(v, w)) /\ ~VEq(v, inst[p])) ]_vars
\* missing packages that are required get the highest pin (or any version when only unpinned)
MissingInstalledAsSelected ==
  [][ IsRun /\ A.allow => \A p \in Pkgs : inst[p] = NoVer =>
        IF PinsIn(A.lines, p) # {} THEN p \in A.ins /\ inst'[p] \in PinsIn(A.lines, p) /\ \A w \in PinsIn(A.lines, p) : ~VLt(inst'[p], w)
        ELSE IF \E l \in A.lines : l.p = p /\ l.f = "unpinned" THEN p \in A.ins /\ inst'[p] # NoVer
        ELSE p \notin A.ins /\ inst'[p] = NoVer ]_vars
OnlyDecidedMove == [][ IsRun => Moved \subseteq A.ins ]_vars
\* the record always matches what pyscript installed
RecordEqualsWhatWasInstalled == \A p \in Pkgs : rec[p] # NoVer => mine[p] # NoVer /\ VEq(rec[p], mine[p])
RecordFollowsInstall == [][ IsRun => \A p \in A.ins : rec'[p] # NoVer /\ VEq(rec'[p], inst'[p]) ]_vars
TypeOK == inst \in [Pkgs -> VerOrNone \cup {<<1, 0, 0>>}] /\ runs \in 0..MaxRuns

\* ------------------------------------------------------------------ witnesses (each must be VIOLATED)
W_NoForeignWithRecord == \A p \in Pkgs : ~(rec[p] # NoVer /\ inst[p] # NoVer /\ ~VEq(rec[p], inst[p]))
W_NoOwnUpdate         == ~(lastAct.k = "run" /\ lastAct.upd # {})
W_NoForeignSkipped    == ~(lastAct.k = "run" /\ lastAct.allow /\ lastAct.skipped # {})
W_NoUnpinnedInstall   == ~(lastAct.k = "run" /\ \E p \in lastAct.ins : Select(lastAct.lines, p).k = "unpinned")
W_NoTie               == ~(lastAct.k = "run" /\ \E p \in Pkgs : \E a, b \in Pins(lastAct.lines, p) : a # b /\ VEq(a, b))
Witnesses == <<W_NoForeignWithRecord, W_NoOwnUpdate, W_NoForeignSkipped, W_NoUnpinnedInstall, W_NoTie>>
ASSUME \A i \in 1..5 : TLCSet(i, 0)
WitnessTrack == \A i \in 1..5 : Witnesses[i] \/ TLCSet(i, 1)
WitnessPost  == \A i \in 1..5 : TLCGet(i) = 1 \/ PrintT("WITNESS-MISSING " \o ToString(i))
=============================================================================
