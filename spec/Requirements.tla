---------------------------- MODULE Requirements ----------------------------
(* C20 - record evolution over repeated runs as a state machine.                            *)
(*   inst : package -> version present in the Python environment (NoVer = not installed)    *)
(*   rec  : package -> pyscript's record of what it installed (config entry)                *)
(*   mine : ghost - the version pyscript itself installed last (never forgotten)            *)
(*   disk : the record as Home Assistant's storage holds it (the persisted config entry);   *)
(*          dirty: a write of the config entry is pending (HA writes with a delay);         *)
(*          fresh: no run yet since the entry in memory was loaded from storage             *)
(* Run(lines, allow) is one start of pyscript with the given requirement lines; External    *)
(* is anything else changing the environment (HA upgrade, user, another integration);       *)
(* Flush is HA writing the pending config entry, Restart is HA stopping (final write) and   *)
(* starting again: the record in memory is whatever storage holds.                          *)
(* The properties restate the clauses of the statement over (state, state') independently   *)
(* of the definitions of Select/Decide/RecordsOk, which the trace acceptor uses as oracle.  *)
EXTENDS RequirementsCore

CONSTANTS Pkgs, MaxRuns, MaxLinesPerPkg, Vers,
          Mode      \* "text": every kind of line text, the config entry written at once (no Flush / Restart);
                    \* "store": plain lines only, HA's storage explicit (delayed write, Flush, Restart)
VARIABLES inst, rec, mine, runs, lastAct, disk, dirty, fresh
vars == <<inst, rec, mine, runs, lastAct, disk, dirty, fresh>>
View == <<inst, rec, mine, runs, disk, dirty, fresh>>

V3 == {<<1, 0>>, <<1, 1>>, <<2, 0>>}          \* with NoVer: {none, 1.0, 1.1, 2.0}
V2 == {<<1, 0>>, <<2, 0>>}
VerOrNone == Vers \cup {NoVer}
\* the lines a file set may contain for one package (bounded).  A line is its text (tokens) plus the label
\* of what it is meant to be; Select / Decide see only the text (RequirementsCore!Classify), the clauses
\* below are restated on the labels.  Pins of every version, one in a second spelling (1.0.0 = 1.0), unpinned,
\* representatives of the ignored classes - and comments that look like requirement text: specifiers, commas,
\* a higher pin of the same package, a second '#'.
Hi == CHOOSE v \in Vers : \A w \in Vers : ~VLt(v, w)
CPlain    == <<TWs, TSym("#"), TWs, TWord("pinned"), TWs, TWord("here")>>
CSpec(p)  == <<TWs, TSym("#"), TWs, TWord("was"), TWs, TName(p), TSym(">="), TVer(<<1, 0>>), TSym(","), TSym("!="), TVer(<<1, 1>>), TWs, TSym("~="), TSym("<"), TSym(">")>>
CPin(p)   == <<TWs, TSym("#"), TName(p), TSym("=="), TVer(<<9, 9>>), TWs, TSym("#"), TWs, TName(p)>>
Mk(f, p, v, toks) == [f |-> f, p |-> p, v |-> v, toks |-> toks, tr |-> TrickyToks(toks)]      \* (tr: for the witnesses, computed once)
PinL(p, v, c)  == Mk(IF c = <<>> THEN "pin" ELSE "pin_comment", p, v, <<TName(p), TSym("=="), TVer(v)>> \o c)
UnpL(p, c)     == Mk(IF c = <<>> THEN "unpinned" ELSE "unpinned_comment", p, NoVer, <<TName(p)>> \o c)
GeL(p, v, c)   == Mk("ge", p, v, <<TName(p), TSym(">="), TVer(v)>> \o c)
ComL(p, v, c)  == Mk("comment", p, v, <<TSym("#"), TWs, TName(p), TSym("=="), TVer(v)>> \o c)
LinesOf(p) == { PinL(p, v, <<>>) : v \in Vers } \cup { UnpL(p, <<>>) } \cup
              IF Mode = "store" THEN {} ELSE
              { PinL(p, <<1, 0, 0>>, CPlain), PinL(p, Hi, CSpec(p)), PinL(p, <<1, 0>>, CPin(p)) }
              \cup { UnpL(p, CPin(p)) }
              \cup { GeL(p, Hi, <<>>), GeL(p, Hi, CPin(p)), ComL(p, Hi, <<>>), ComL(p, Hi, CSpec(p)) }
Small(S) == { T \in SUBSET S : Cardinality(T) <= MaxLinesPerPkg }
PkgSeq == CHOOSE s \in [1..Cardinality(Pkgs) -> Pkgs] : \A i, j \in 1..Cardinality(Pkgs) : i # j => s[i] # s[j]
RECURSIVE Fam(_)
Fam(i) == IF i > Len(PkgSeq) THEN {{}} ELSE { a \cup b : a \in Small(LinesOf(PkgSeq[i])), b \in Fam(i + 1) }
\* a file set = its lines and what they mean (Classify on the text, evaluated once per family)
LineFamilies == { [lines |-> F, M |-> Means(F)] : F \in Fam(1) }

Init == /\ inst \in [Pkgs -> VerOrNone]          \* whatever Home Assistant's environment already contains
        /\ rec = [p \in Pkgs |-> NoVer] /\ mine = [p \in Pkgs |-> NoVer]
        /\ runs = 0 /\ lastAct = [k |-> "init"]
        /\ disk = rec /\ dirty = FALSE /\ fresh = TRUE

\* (the singleton quantifiers make TLC evaluate want / ins / after once per step)
Run == /\ runs < MaxRuns
       /\ \E fam \in LineFamilies, allow \in BOOLEAN, latest \in Vers \ {<<1, 0>>}, drop \in BOOLEAN :
          \E lines \in {fam.lines}, want \in {[p \in Pkgs |-> SelectM(fam.M, p)]} :
          \E ins \in {{ p \in Pkgs : Decide(inst[p], rec[p], want[p], allow) }} :
          \E after \in {[p \in Pkgs |-> IF p \in ins THEN (IF want[p].k = "pin" THEN want[p].v ELSE latest) ELSE inst[p]]} :
               /\ inst' = after
               \* stale entries of foreign packages: all kept or all dropped (statement silent)
               /\ rec' = [p \in Pkgs |-> LET ok == RecordsOk(inst[p], rec[p], want[p], allow, after[p])
                                          IN IF drop /\ NoVer \in ok THEN NoVer ELSE CHOOSE r \in ok : r # NoVer \/ ok = {NoVer}]
               /\ mine' = [p \in Pkgs |-> IF p \in ins THEN after[p] ELSE mine[p]]
               \* the record is persisted: a run that changes it hands the new record to HA (RecordWrite), which writes later
               /\ IF Mode = "store" THEN dirty' = RecordWrite(rec, rec', dirty) /\ disk' = disk /\ fresh' = FALSE
                                   ELSE dirty' = FALSE /\ disk' = rec' /\ fresh' = TRUE
               /\ lastAct' = [k |-> "run", lines |-> lines, want |-> want, allow |-> allow, ins |-> ins, fresh |-> fresh,
                               upd |-> { p \in ins : Owned(inst[p], rec[p]) },                       \* (for the witnesses)
                               missing |-> { p \in Pkgs : inst[p] = NoVer },
                               skipped |-> { p \in Pkgs \ ins : Foreign(inst[p], rec[p]) /\ want[p].k = "pin" /\ ~VEq(want[p].v, inst[p]) }]
       /\ runs' = runs + 1

External == /\ runs < MaxRuns
            /\ \E p \in Pkgs, v \in VerOrNone : v # inst[p] /\ inst' = [inst EXCEPT ![p] = v]
            /\ lastAct' = [k |-> "external"] /\ UNCHANGED <<rec, mine, runs, disk, dirty, fresh>>

\* Home Assistant writes the pending config entry (delayed save)
Flush == /\ Mode = "store" /\ dirty /\ disk' = rec /\ dirty' = FALSE
         /\ lastAct' = [k |-> "flush", dropped |-> { p \in Pkgs : disk[p] # NoVer /\ rec[p] = NoVer }]
         /\ UNCHANGED <<inst, rec, mine, runs, fresh>>
\* Home Assistant stops (final write of what is pending) and starts again: the entry is re-created from storage
Restart == /\ Mode = "store" /\ ~fresh
           /\ disk' = StoredAtStop(rec, disk, dirty) /\ rec' = Reloaded(disk')
           /\ dirty' = FALSE /\ fresh' = TRUE /\ lastAct' = [k |-> "restart"]
           /\ UNCHANGED <<inst, mine, runs>>

Next == Run \/ External \/ Flush \/ Restart
Spec == Init /\ [][Next]_vars

\* ------------------------------------------------------------------ the statement
A == lastAct'
IsRun == A.k = "run"
\* (on the labels: what the author of the files wrote, whatever the comments say)
PinsIn(L, p) == { l.v : l \in { x \in L : x.p = p /\ x.f \in {"pin", "pin_comment"} } }
UnpinnedIn(L, p) == \E l \in L : l.p = p /\ l.f \in {"unpinned", "unpinned_comment"}
\* what was installed by the run: the packages whose environment version moved
Moved == { p \in Pkgs : inst'[p] # inst[p] }

NothingInstalledUnlessAllowed == [][ IsRun /\ ~A.allow => A.ins = {} /\ inst' = inst ]_vars
\* installed by something else (no record, or the record no longer matches): never reinstalled or changed
ForeignNeverTouched ==
  [][ IsRun => \A p \in Pkgs : inst[p] # NoVer /\ (rec[p] = NoVer \/ ~VEq(rec[p], inst[p])) => p \notin A.ins /\ inst'[p] = inst[p] ]_vars
\* installed by pyscript: touched exactly when a pin exists and the highest pin differs from what is installed
OwnUpdatedOnlyOnPinChange ==
  [][ IsRun /\ A.allow => \A p \in Pkgs : inst[p] # NoVer /\ rec[p] # NoVer /\ VEq(rec[p], inst[p]) =>
        (p \in A.ins <=> PinsIn(A.lines, p) # {} /\ \E v \in PinsIn(A.lines, p) : (\A w \in PinsIn(A.lines, p) : ~VLt(v, w)) /\ ~VEq(v, inst[p])) ]_vars
\* missing packages that are required get the highest pin (or any version when only unpinned)
MissingInstalledAsSelected ==
  [][ IsRun /\ A.allow => \A p \in Pkgs : inst[p] = NoVer =>
        IF PinsIn(A.lines, p) # {} THEN p \in A.ins /\ inst'[p] \in PinsIn(A.lines, p) /\ \A w \in PinsIn(A.lines, p) : ~VLt(inst'[p], w)
        ELSE IF UnpinnedIn(A.lines, p) THEN p \in A.ins /\ inst'[p] # NoVer
        ELSE p \notin A.ins /\ inst'[p] = NoVer ]_vars
OnlyDecidedMove == [][ IsRun => Moved \subseteq A.ins ]_vars
\* the record always matches what pyscript installed
RecordEqualsWhatWasInstalled == \A p \in Pkgs : rec[p] # NoVer => mine[p] # NoVer /\ VEq(rec[p], mine[p])
RecordFollowsInstall == [][ IsRun => \A p \in A.ins : rec'[p] # NoVer /\ VEq(rec'[p], inst'[p]) ]_vars
\* ... and it is persisted: once HA has written what is pending, storage holds the record, so a restart loses nothing
StoredRecordCurrent == ~dirty => disk = rec
StoredEqualsWhatWasInstalled == ~dirty => \A p \in Pkgs : disk[p] # NoVer => mine[p] # NoVer /\ VEq(disk[p], mine[p])
RestartKeepsRecord == [][ A.k = "restart" => rec' = rec ]_vars
TypeOK == inst \in [Pkgs -> VerOrNone \cup {<<1, 0, 0>>}] /\ runs \in 0..MaxRuns
\* the text of every line of the model means what its label says (Classify against the form table)
LabelsOk == \A p \in Pkgs : \A l \in LinesOf(p) : LabelOk(l)

\* ------------------------------------------------------------------ witnesses (each must be VIOLATED)
W_NoForeignWithRecord == \A p \in Pkgs : ~(rec[p] # NoVer /\ inst[p] # NoVer /\ ~VEq(rec[p], inst[p]))
W_NoOwnUpdate         == ~(lastAct.k = "run" /\ lastAct.upd # {})
W_NoForeignSkipped    == ~(lastAct.k = "run" /\ lastAct.allow /\ lastAct.skipped # {})
W_NoUnpinnedInstall   == ~(lastAct.k = "run" /\ \E p \in lastAct.ins : lastAct.want[p].k = "unpinned")
W_NoTie               == ~(lastAct.k = "run" /\ \E p \in Pkgs : \E a, b \in PinsIn(lastAct.lines, p) : a # b /\ VEq(a, b))
\* a pin whose comment carries specifiers / commas is the only line of a package and gets installed
W_NoTrickyPin         == ~(lastAct.k = "run" /\ \E l \in lastAct.lines : l.f = "pin_comment" /\ l.tr /\ l.p \in lastAct.ins
                                                      /\ \A m \in lastAct.lines : m.p = l.p => m = l)
\* a comment line / an unpinned line whose comment contains a pin: the pin in the comment is not installed
W_NoTrickyCommentLine == ~(lastAct.k = "run" /\ lastAct.allow /\ \E l \in lastAct.lines : l.f = "comment" /\ l.tr /\ l.p \in lastAct.missing
                                                      /\ l.p \notin lastAct.ins)
W_NoTrickyUnpinned    == ~(lastAct.k = "run" /\ \E l \in lastAct.lines : l.f = "unpinned_comment" /\ l.tr /\ l.p \in lastAct.ins
                                                      /\ \A m \in lastAct.lines : m.p = l.p => m = l)
\* the first run after a restart updates a package pyscript installed before the restart (the record came from storage)
W_NoOwnUpdateAfterRestart == ~(lastAct.k = "run" /\ lastAct.fresh /\ runs >= 2 /\ lastAct.upd # {})
\* a dropped record entry reaches storage
W_NoDropPersisted     == ~(lastAct.k = "flush" /\ lastAct.dropped # {})
NW == 10
Witnesses == <<W_NoForeignWithRecord, W_NoOwnUpdate, W_NoForeignSkipped, W_NoUnpinnedInstall, W_NoTie,
               W_NoTrickyPin, W_NoTrickyCommentLine, W_NoTrickyUnpinned, W_NoOwnUpdateAfterRestart, W_NoDropPersisted>>
ASSUME \A i \in 1..NW : TLCSet(i, 0)
WitnessTrack == \A i \in 1..NW : Witnesses[i] \/ TLCSet(i, 1)
Wanted == IF Mode = "store" THEN {1, 2, 3, 4, 9, 10} ELSE 1..8
WitnessPost  == \A i \in Wanted : TLCGet(i) = 1 \/ PrintT("WITNESS-MISSING " \o ToString(i))
=============================================================================
