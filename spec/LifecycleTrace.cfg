SPECIFICATION TSpec
CONSTANTS
 MaxGen = 80
 MaxSteps = 100000
 Ctx = {"c1", "c2", "c3", "c4"}
 Name = {"f", "g", "h"}
 FlagSets = {{}}
 SubSet = {"dm"}
 StartedSet = {TRUE}
 Eager = TRUE
 DeclSet = {}
 MaxDefs = 2
 Vias = {"exec", "run"}
 Rush = TRUE
 Acts = {"define", "del", "rebind", "push", "pop", "clear", "reload", "close", "unload", "boot", "import", "fail", "tick", "fire", "set", "call", "out"}
INVARIANT Report
CHECK_DEADLOCK FALSE
