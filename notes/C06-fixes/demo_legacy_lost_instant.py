"""Real-time demonstration (no virtual clock) of known finding "legacy trigger loop loses a time trigger when a
notification of another trigger source of the same function is handled just before the instant".

Run from a copy of the repository root (a directory that contains custom_components/pyscript):
    /venv/bin/python -m pytest -q -p no:cacheprovider demo_legacy_lost_instant.py -s

A function has @time_trigger("cron(* * * * * *)") (every second) and @event_trigger("ping").  For 25 s an event
is fired a fraction of a millisecond before each whole second (lead time swept over 0.05 .. 1.5 ms: handling a
notification takes about that long).  Whatever the events do, the time trigger must arrive for every whole
second: successive trigger_time values exactly 1 s apart.  legacy_decorators: some seconds are missing (which
ones depends on the machine's timing); default subsystem: none.  With E-legacy-pending-instant.patch: none.
"""
import asyncio
from datetime import datetime as dt, timedelta
import os
import re
import sys
import time
from unittest.mock import patch

sys.path.insert(0, os.getcwd())

from mock_open import MockOpen  # noqa: E402
import pytest  # noqa: E402

from custom_components.pyscript.const import CONF_ALLOW_ALL_IMPORTS, DOMAIN, FOLDER  # noqa: E402
from custom_components.pyscript.function import Function  # noqa: E402
from homeassistant.setup import async_setup_component  # noqa: E402

SOURCE = """
@event_trigger("ping")
@time_trigger("cron(* * * * * *)")
def watcher(trigger_type=None, trigger_time=None, **kw):
    if trigger_type == "time":
        demo.rec(str(trigger_time))
"""


async def setup_script(hass, source, rec):
    conf_dir = hass.config.path(FOLDER)
    file_contents = {f"{conf_dir}/hello.py": source}
    Function.hass = None
    mock_open = MockOpen()
    for key, value in file_contents.items():
        mock_open[key].read_data = value

    def glob_side_effect(path, recursive=None, root_dir=None, dir_fd=None, include_hidden=False):
        path_re = path.replace("*", "[^/]*").replace(".", "\\.").replace("[^/]*[^/]*/", ".*")
        return [p for p in file_contents if re.match(path_re, p)]

    config = {DOMAIN: {CONF_ALLOW_ALL_IMPORTS: True}}
    with (
        patch("custom_components.pyscript.os.path.isdir", return_value=True),
        patch("custom_components.pyscript.glob.iglob", side_effect=glob_side_effect),
        patch("custom_components.pyscript.global_ctx.open", mock_open),
        patch("custom_components.pyscript.open", mock_open),
        patch("homeassistant.config.load_yaml_config_file", return_value=config),
        patch("custom_components.pyscript.install_requirements", return_value=None),
        patch("custom_components.pyscript.watchdog_start", return_value=None),
        patch("custom_components.pyscript.os.path.getmtime", return_value=1000),
        patch("custom_components.pyscript.global_ctx.os.path.getmtime", return_value=1000),
        patch("custom_components.pyscript.os.path.isfile", side_effect=lambda p: p in file_contents),
    ):
        Function.register({"demo.rec": rec})
        assert await async_setup_component(hass, "pyscript", config)
        Function.register({"demo.rec": rec})


@pytest.mark.parametrize("legacy", [True, False], ids=["legacy_decorators", "decorator_manager"])
@pytest.mark.asyncio
async def test_time_trigger_survives_event_just_before_instant(hass, enable_custom_integrations, monkeypatch, legacy):
    if legacy:
        monkeypatch.setenv("NODM", "1")
    else:
        monkeypatch.delenv("NODM", raising=False)
    got = []
    await setup_script(hass, SOURCE, got.append)
    await hass.async_start()
    await hass.async_block_till_done()
    loop = asyncio.get_running_loop()
    first = int(time.time()) + 2
    for k in range(25):
        lead = 0.00005 + 0.00006 * k
        loop.call_at(loop.time() + (first + k - lead - time.time()), lambda: hass.bus.async_fire("ping", {}))
    await asyncio.sleep(first + 26 - time.time())
    times = [dt.fromisoformat(s) for s in got]
    print("time triggers:", len(times))
    gaps = [(str(a), str(b)) for a, b in zip(times, times[1:]) if b - a != timedelta(seconds=1)]
    assert not gaps, "time triggers lost between: %s" % gaps
