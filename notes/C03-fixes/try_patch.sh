#!/bin/sh
# notes/C03-fixes/try_patch.sh <patch...>  -- applies the patches to a scratch copy of the repository (never to /repo)
# and runs the repository's evaluator unit tests (tests/test_unit_eval.py, not part of the pinned baseline) on it;
# prints the failing tests and the pytest summary line; removes the copy.
set -e
D=$(mktemp -d /tmp/c03fix.XXXXXX)
cp -r /repo/custom_components /repo/tests /repo/setup.cfg "$D"/
for p in "$@"; do p=$(readlink -f "$p"); (cd "$D" && patch -p1 -s < "$p"); done
rc=0
(cd "$D" && env -u PYSCRIPT_VERIF /venv/bin/python -m pytest -q -p no:cacheprovider --timeout=900 \
   tests/test_unit_eval.py 2>&1 | grep -E "^(FAILED|ERROR)|passed|failed" | sort | uniq) || rc=$?
rm -rf "$D"
exit $rc
