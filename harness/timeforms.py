"""Structural time specifications for C06/C07: generation, rendering to pyscript's text syntax,
environment tables (time-zone transitions, sunrise/sunset) and the small cron field parser.

A specification is generated as *structure* (what spec/TimeSpec.tla reads) and rendered to text
(what pyscript reads); no parser of pyscript's syntax is trusted, except the cron field expansion
below (documented crontab grammar: '*', n, a-b, comma lists, '*/n', 'a-b/n').

Nothing in this module decides whether pyscript is right: `place_*` helpers only choose
*interesting evaluation times* (on / 1 us around an instant a form denotes).
"""
import calendar
import datetime as dt
import zoneinfo
from fractions import Fraction

TZNAME = "America/Los_Angeles"
LAT, LON, ELEV = 32.87336, -117.22743, 0        # what async_test_home_assistant configures
DOW = ["sun", "mon", "tue", "wed", "thu", "fri", "sat"]
DOW_FULL = ["sunday", "monday", "tuesday", "wednesday", "thursday", "friday", "saturday"]
SUN_FROM, SUN_TO = dt.date(2017, 1, 1), dt.date(2027, 1, 1)
WIN_FROM, WIN_TO = dt.datetime(2019, 3, 1), dt.datetime(2021, 3, 1)       # two-year window for `now`
EPOCH = dt.date(1970, 1, 1)
US = dt.timedelta(microseconds=1)

UNITS = [("", 1), ("s", 1), ("sec", 1), ("second", 1), ("seconds", 1),
         ("m", 60), ("min", 60), ("mins", 60), ("minute", 60), ("minutes", 60),
         ("h", 3600), ("hr", 3600), ("hour", 3600), ("hours", 3600),
         ("d", 86400), ("day", 86400), ("days", 86400), ("w", 604800), ("week", 604800), ("weeks", 604800)]
NUMS = ["1", "2", "3", "5", "10", "30", "36", "90", "1.5", "2.5", "0.5", ".5", "0.25", "1.0"]


def enc(t):
    """naive datetime -> limbs [sec, usec]"""
    return [calendar.timegm(t.timetuple()), t.microsecond]


def dec(l):
    return dt.datetime(1970, 1, 1) + dt.timedelta(seconds=l[0], microseconds=l[1])


def daynum(d):
    return (dt.date(d.year, d.month, d.day) - EPOCH).days


# ------------------------------------------------------------------------------------ environment
_ENV = None


def tz_table(tzname=TZNAME, y0=2016, y1=2028):
    z = zoneinfo.ZoneInfo(tzname)
    utc = dt.timezone.utc
    u = dt.datetime(y0, 1, 1, tzinfo=utc)
    end = dt.datetime(y1, 1, 1, tzinfo=utc)
    off = u.astimezone(z).utcoffset()
    out = [{"utc": 0, "off": int(off.total_seconds())}]
    step = dt.timedelta(hours=6)
    while u < end:
        n = u + step
        o2 = n.astimezone(z).utcoffset()
        if o2 != off:
            lo, hi = u, n                       # offset(lo) = off, offset(hi) = o2: bisect to the second
            while hi - lo > dt.timedelta(seconds=1):
                mid = lo + (hi - lo) // 2
                mid = mid.replace(microsecond=0)
                if mid.astimezone(z).utcoffset() == off:
                    lo = mid
                else:
                    hi = mid
            out.append({"utc": calendar.timegm(hi.timetuple()), "off": int(o2.total_seconds())})
            off = o2
        u = n
    return out


def sun_tables(tzname=TZNAME, lat=LAT, lon=LON):
    """Whole-second local second-of-day of sunrise / sunset per day, computed with the very helper
    pyscript calls (astral Location.sunrise/sunset(date), local time, seconds truncated)."""
    from astral import LocationInfo
    from astral.location import Location
    loc = Location(LocationInfo("", "", tzname, lat, lon))
    rise, sset = [], []
    d = SUN_FROM
    while d < SUN_TO:
        for fn, dst in ((loc.sunrise, rise), (loc.sunset, sset)):
            t = fn(d)
            dst.append((t.date() - d).days * 86400 + t.hour * 3600 + t.minute * 60 + t.second)
        d += dt.timedelta(days=1)
    return {"day0": daynum(SUN_FROM), "rise": rise, "set": sset}


def env():
    global _ENV
    if _ENV is None:
        _ENV = {"tz": tz_table(), "sun": sun_tables()}
    return _ENV


def transitions_in_window():
    """local naive datetimes (wall clock just before the change) of the DST transitions in the window"""
    out = []
    tz = env()["tz"]
    for a, b in zip(tz, tz[1:]):
        loc = dt.datetime(1970, 1, 1) + dt.timedelta(seconds=b["utc"] + a["off"])
        if WIN_FROM - dt.timedelta(days=30) <= loc <= WIN_TO + dt.timedelta(days=30):
            out.append({"local": loc, "utc": b["utc"], "fwd": b["off"] > a["off"], "before": a["off"], "after": b["off"]})
    return out


def sun_sec(day, which):
    s = env()["sun"]
    return s["rise" if which == "sunrise" else "set"][daynum(day) - s["day0"]]


# ------------------------------------------------------------------------------------ cron fields
CRON_RANGES = [(0, 59), (0, 23), (1, 31), (1, 12), (0, 6), (0, 59)]


def cron_expand(field, lo, hi):
    """documented crontab field grammar -> (sorted list, is_star)"""
    vals = set()
    for part in field.split(","):
        step = 1
        if "/" in part:
            part, st = part.split("/")
            step = int(st)
        if part == "*":
            a, b = lo, hi
        elif "-" in part:
            a, b = (int(x) for x in part.split("-"))
        else:
            a = b = int(part)
            if step != 1:
                b = hi
        if not (lo <= a <= b <= hi):
            raise ValueError("cron field out of range: %s" % field)
        vals.update(range(a, b + 1, step))
    return sorted(vals), field.startswith("*")


def cron_struct(text):
    f = text.split()
    assert len(f) in (5, 6), text
    c = {"kind": "cron", "text": text}
    names = ["mins", "hours", "doms", "mons", "dows", "secs"]
    for i, nm in enumerate(names):
        if i < len(f):
            vals, star = cron_expand(f[i], *CRON_RANGES[i])
        else:
            vals, star = [0], False
        c[nm] = vals
        if nm == "doms":
            c["domstar"] = star
        if nm == "dows":
            c["dowstar"] = star
    c["hassec"] = len(f) == 6
    return c


def gen_cron_text(r, allow_sec=True, coarse=False):
    def lst(lo, hi, n=3):
        k = r.choice([1, 1, 2, n])
        parts = []
        for _ in range(k):
            if r.random() < 0.35:
                a = r.randint(lo, hi - 1)
                b = r.randint(a + 1, min(hi, a + 6))
                parts.append("%d-%d" % (a, b))
            else:
                parts.append(str(r.randint(lo, hi)))
        return ",".join(parts)
    mins = r.choice(["*", "0", "*/15", "*/20", "*/7", "30", lst(0, 59), lst(0, 59), "0,30", "1"])
    hours = r.choice(["*", "*", "*/6", "*/2", lst(0, 23), lst(0, 23), "1-4", "1,2,3", "0", "23", "6,10-13"])
    if coarse and mins in ("*", "*/7") and hours in ("*", "*/2"):
        mins = "0"
    doms = r.choice(["*", "*", "*", "*", "1", "15", "28-31", "31", "29", lst(1, 31), "10,11-12,13"])
    mons = r.choice(["*", "*", "*", "*", "*", "2", "3", "11", "2-3", "10-12", lst(1, 12), "9"])
    dows = r.choice(["*", "*", "*", "*", "0", "6", "1-5", "2,4-5", "0,6", lst(0, 6)])
    if doms == "29" and mons == "2":
        doms = "28-29"
    txt = "%s %s %s %s %s" % (mins, hours, doms, mons, dows)
    if allow_sec and r.random() < 0.15:
        txt += " " + r.choice(["10,35", "0", "30", "*/20", "59"])
    return txt


# ------------------------------------------------------------------------------------ datetime forms
def gen_off(r, maxsec=21 * 86400, p_none=0.45, signs="+-"):
    if r.random() < p_none:
        return {"neg": False, "s": 0, "u": 0, "text": ""}
    for _ in range(50):
        num = r.choice(NUMS)
        unit, scale = r.choice(UNITS)
        tot = Fraction(num) * scale * 1000000
        if tot.denominator != 1 or tot > maxsec * 1000000 or tot == 0:
            continue
        tot = int(tot)
        neg = r.choice(signs) == "-"
        text = r.choice([" ", ""]) + ("-" if neg else "+") + r.choice([" ", ""]) + num + r.choice([" ", ""]) + unit
        return {"neg": neg, "s": tot // 1000000, "u": tot % 1000000, "text": text}
    return {"neg": False, "s": 0, "u": 0, "text": ""}


def off_struct(o):
    return {"neg": o["neg"], "s": o["s"], "u": o["u"]}


def gen_tod(r, sun=True):
    """-> (struct, text)"""
    k = r.choice(["hm", "hm", "hms", "hms", "hmsf", "noon", "midnight", "omitted"] + (["sunrise", "sunset"] if sun else []))
    if k in ("sunrise", "sunset"):
        return {"k": k, "s": 0, "u": 0}, k
    if k == "noon":
        return {"k": "clock", "s": 43200, "u": 0}, "noon"
    if k == "midnight":
        return {"k": "clock", "s": 0, "u": 0}, "midnight"
    if k == "omitted":
        return {"k": "clock", "s": 0, "u": 0}, ""
    h = r.choice([0, 1, 2, 2, 3, 12, 23, r.randint(0, 23), r.randint(0, 23)])
    m = r.choice([0, 30, 59, r.randint(0, 59)])
    s = u = 0
    pad = r.random() < 0.3
    txt = ("%02d:%02d" if pad else "%d:%02d") % (h, m)
    if k in ("hms", "hmsf"):
        s = r.choice([0, 59, r.randint(0, 59)])
        txt += (":%02d" if r.random() < 0.7 else ":%d") % s
        if k == "hmsf":
            u = r.choice([500000, 250000, 1, 999999, 90000, 600000])
            txt += (".%06d" % u).rstrip("0")
    return {"k": "clock", "s": h * 3600 + m * 60 + s, "u": u}, txt


def special_days():
    days = []
    for tr in transitions_in_window():
        d = tr["local"].date()
        if WIN_FROM.date() <= d <= WIN_TO.date():
            days += [d - dt.timedelta(days=1), d, d, d + dt.timedelta(days=1)]
    days += [dt.date(2020, 2, 28), dt.date(2020, 2, 29), dt.date(2020, 2, 29), dt.date(2020, 3, 1),
             dt.date(2019, 12, 31), dt.date(2020, 1, 1), dt.date(2020, 12, 31), dt.date(2021, 1, 1),
             dt.date(2019, 4, 30), dt.date(2019, 5, 1), dt.date(2021, 2, 28), dt.date(2019, 3, 31)]
    return days


def rnd_day(r, p_special=0.4):
    if r.random() < p_special:
        return r.choice(special_days())
    return WIN_FROM.date() + dt.timedelta(days=r.randint(0, (WIN_TO - WIN_FROM).days - 1))


def gen_dt(r, kinds, sun=True, maxoff=21 * 86400, p_nooff=0.45, dow_names=None):
    """A datetime form: -> struct with 'text'.  kinds: list of date kinds to draw from."""
    k = r.choice(kinds)
    date = {"k": k, "y": 0, "m": 0, "d": 0, "w": 0}
    ds = ""
    if k == "full":
        d = rnd_day(r)
        date.update(y=d.year, m=d.month, d=d.day)
        sep = r.choice("/-")
        ds = (("%d" + sep + "%d" + sep + "%d") if r.random() < 0.6 else ("%d" + sep + "%02d" + sep + "%02d")) % (d.year, d.month, d.day)
    elif k == "md":
        d = r.choice([dt.date(2020, 2, 29), dt.date(2019, 12, 31), dt.date(2019, 1, 1), rnd_day(r), rnd_day(r), rnd_day(r)])
        date.update(m=d.month, d=d.day)
        ds = ("%d/%d" if r.random() < 0.7 else "%02d/%02d") % (d.month, d.day)
    elif k == "dow":
        w = r.randint(0, 6)
        date.update(w=w)
        names = [n for n, v in (dow_names or {}).items() if v == w] or [DOW[w], DOW_FULL[w]]
        ds = r.choice(sorted(names))
    elif k in ("today", "tomorrow"):
        ds = k
    if k == "now":
        tod, ts = {"k": "clock", "s": 0, "u": 0}, "now"
    else:
        tod, ts = gen_tod(r, sun)
    off = gen_off(r, maxoff, p_nooff)
    if k == "md" and not ts and off["text"].startswith(("-", "+")):
        off["text"] = " " + off["text"]          # "1/15-10" would read as the date 1/15/10
    text = " ".join(x for x in [ds, ts] if x) + off["text"]
    if not text.strip():
        text = "0:00"
    return {"date": date, "tod": tod, "off": off_struct(off), "text": text.strip()}


def dt_struct(f):
    return {"date": f["date"], "tod": f["tod"], "off": f["off"]}


def inst_on(f, day, startup):
    """placement helper: the instant form f yields when its date part is taken to be `day`"""
    if f["date"]["k"] == "now":
        t = startup
    else:
        base = dt.datetime(day.year, day.month, day.day)
        if f["tod"]["k"] == "clock":
            t = base + dt.timedelta(seconds=f["tod"]["s"], microseconds=f["tod"]["u"])
        else:
            t = base + dt.timedelta(seconds=sun_sec(day, f["tod"]["k"]))
    delta = dt.timedelta(seconds=f["off"]["s"], microseconds=f["off"]["u"])
    return t - delta if f["off"]["neg"] else t + delta


def some_day_of(r, f, near):
    """placement helper: a calendar day on which form f has an instant, near the day `near`"""
    k = f["date"]["k"]
    if k == "full":
        return dt.date(f["date"]["y"], f["date"]["m"], f["date"]["d"])
    if k == "md":
        for y in (near.year, near.year + 1, near.year - 1, 2020):
            try:
                return dt.date(y, f["date"]["m"], f["date"]["d"])
            except ValueError:
                continue
    if k == "dow":
        cur = (near.isoweekday() % 7)
        return near + dt.timedelta(days=(f["date"]["w"] - cur) % 7 - r.choice([0, 0, 7]))
    if k == "tomorrow":
        return near + dt.timedelta(days=1)
    return near


def around(r, inst, far=90000):
    m = r.random()
    if m < 0.22:
        return inst
    if m < 0.40:
        return inst - US
    if m < 0.58:
        return inst + US
    if m < 0.72:
        return inst + dt.timedelta(seconds=r.randint(1, far), microseconds=r.choice([0, 0, 1, 500000]))
    if m < 0.86:
        return inst - dt.timedelta(seconds=r.randint(1, far), microseconds=r.choice([0, 0, 1, 500000]))
    return inst + dt.timedelta(days=r.choice([-8, -1, 1, 6, 7, 8, 40, 300]), seconds=r.randint(-3600, 3600))


def clamp(t):
    return min(max(t, WIN_FROM), WIN_TO - dt.timedelta(seconds=1))


def form_class(sp):
    if sp["kind"] == "once":
        return "once(%s)" % sp["dt"]["date"]["k"]
    if sp["kind"] == "period":
        return "period(%s%s)" % ("dated" if sp["start"]["date"]["k"] in ("full", "now", "today", "tomorrow") else "daily",
                                 ",end" if sp["hasend"] else "")
    return "cron"


def spec_struct(sp):
    """what TLC reads (texts dropped)"""
    if sp["kind"] == "once":
        return {"kind": "once", "dt": dt_struct(sp["dt"])}
    if sp["kind"] == "period":
        return {"kind": "period", "start": dt_struct(sp["start"]), "isec": sp["isec"], "hasend": sp["hasend"],
                "end": dt_struct(sp["end"])}
    return {k: sp[k] for k in ("kind", "mins", "hours", "doms", "mons", "dows", "secs", "domstar", "dowstar")}


def window_struct(w):
    if w["k"] == "cron":
        return {"neg": w["neg"], "k": "cron", "hassec": w["c"]["hassec"], "c": spec_struct(w["c"])}
    return {"neg": w["neg"], "k": "range", "start": dt_struct(w["start"]), "end": dt_struct(w["end"])}


# ------------------------------------------------------------------------------------ trigger specs
INTERVALS = [("1s", 1), ("7 sec", 7), ("60", 60), ("90s", 90), ("2.5 min", 150), ("5min", 300), ("20 minutes", 1200),
             ("1 hours", 3600), ("1.5 hr", 5400), ("4 hr", 14400), ("7h", 25200), ("12 hours", 43200), ("1d", 86400),
             ("1 day", 86400), ("25h", 90000), ("2 days", 172800), ("1 week", 604800), ("1w", 604800)]
DAILY_INTERVALS = [x for x in INTERVALS if 86400 % x[1] == 0]      # interval divides 24 h


def gen_once(r, kinds=("full", "md", "dow", "none", "none", "now", "today", "tomorrow"), dow_names=None, **kw):
    f = gen_dt(r, list(kinds), dow_names=dow_names, **kw)
    return {"kind": "once", "dt": f, "text": "once(%s)" % f["text"]}


def gen_period(r, dow_names=None):
    """period(start, interval[, end]) inside the property's domain:
       dated start (full / now) with any whole-second interval, optional end of the same kind;
       time-only start without end: start < interval and interval divides 24 h;
       time-only start with time-only end: any interval."""
    shape = r.choice(["full", "full", "now", "now", "daily", "daily", "dailyend", "dailyend"])
    hasend = shape == "dailyend" or (shape in ("full", "now") and r.random() < 0.5)
    if shape == "full":
        itxt, isec = r.choice(INTERVALS)
        s = gen_dt(r, ["full"], sun=r.random() < 0.15, maxoff=2 * 86400, p_nooff=0.6)
        e = dict(s)
        if hasend:
            e = gen_dt(r, ["full"], sun=False, maxoff=2 * 86400, p_nooff=0.6)
            d = dt.date(s["date"]["y"], s["date"]["m"], s["date"]["d"]) + dt.timedelta(days=r.choice([0, 0, 1, 3, 30]))
            e["date"] = dict(e["date"], y=d.year, m=d.month, d=d.day)
            # re-render the end with its new date (keep time/offset text)
            e["text"] = render_with_date(e, "%d/%d/%d" % (d.year, d.month, d.day))
    elif shape == "now":
        itxt, isec = r.choice(INTERVALS)
        s = gen_dt(r, ["now"], maxoff=2 * 86400, p_nooff=0.4)
        e = dict(s)
        if hasend:
            e = gen_dt(r, ["now"], maxoff=3 * 86400, p_nooff=0.1)
    elif shape == "daily":
        itxt, isec = r.choice(DAILY_INTERVALS)
        while True:
            s = gen_dt(r, ["none"], sun=False, maxoff=0, p_nooff=1.0)
            if s["tod"]["s"] < isec:
                break
            if r.random() < 0.5:                     # fold the time of day into [0, interval)
                sec = s["tod"]["s"] % isec
                s["tod"] = {"k": "clock", "s": sec, "u": s["tod"]["u"]}
                s["text"] = "%d:%02d:%02d" % (sec // 3600, sec % 3600 // 60, sec % 60) + ((".%06d" % s["tod"]["u"]).rstrip("0") if s["tod"]["u"] else "")
                break
        e = dict(s)
    else:
        itxt, isec = r.choice(INTERVALS[:14])
        while True:
            s = gen_dt(r, ["none"], sun=r.random() < 0.3, maxoff=7200, p_nooff=0.7)
            e = gen_dt(r, ["none"], sun=r.random() < 0.3, maxoff=7200, p_nooff=0.7)
            a, b = inst_on(s, dt.date(2019, 6, 1), None), inst_on(e, dt.date(2019, 6, 1), None)
            span = (b - a).total_seconds() % 86400
            # keep windows clearly shorter than a day and end points clearly apart (sun times drift)
            if 1200 <= span <= 80000 and abs((b - a).total_seconds()) > 1200:
                break
    if hasend and r.random() < 0.5:
        # end exactly on an element of the progression (the last instant is the end itself)
        k = r.choice([0, 1, 2, 5])
        if shape == "now" and not s["off"]["neg"]:
            tot = s["off"]["s"] + k * isec
            e = {"date": dict(s["date"]), "tod": dict(s["tod"]), "off": {"neg": False, "s": tot, "u": s["off"]["u"]},
                 "text": "now + %s" % (("%d.%06d" % (tot, s["off"]["u"])).rstrip("0") if s["off"]["u"] else "%d" % tot) + r.choice(["s", " sec", ""])}
        elif shape in ("full", "dailyend") and s["tod"]["k"] == "clock":
            ref = dt.date(s["date"]["y"], s["date"]["m"], s["date"]["d"]) if shape == "full" else dt.date(2019, 6, 1)
            t = inst_on(s, ref, None) + dt.timedelta(seconds=k * isec)
            if shape == "full" or (t.date() == ref and (t - inst_on(s, ref, None)).total_seconds() < 80000):
                e = {"date": {"k": "full", "y": t.year, "m": t.month, "d": t.day, "w": 0} if shape == "full" else dict(s["date"]),
                     "tod": {"k": "clock", "s": t.hour * 3600 + t.minute * 60 + t.second, "u": t.microsecond},
                     "off": {"neg": False, "s": 0, "u": 0}}
                e["text"] = render_with_date(e, "%d/%d/%d" % (t.year, t.month, t.day) if shape == "full" else "").strip()
    text = "period(%s, %s%s)" % (s["text"], itxt, ", " + e["text"] if hasend else "")
    return {"kind": "period", "start": s, "isec": isec, "itxt": itxt, "hasend": hasend, "end": e, "text": text}


def render_with_date(f, ds):
    k = f["tod"]
    if k["k"] != "clock":
        ts = k["k"]
    else:
        ts = "%d:%02d:%02d" % (k["s"] // 3600, k["s"] % 3600 // 60, k["s"] % 60) + ((".%06d" % k["u"]).rstrip("0") if k["u"] else "")
    o = f["off"]
    ot = ""
    if o["s"] or o["u"]:
        ot = (" - " if o["neg"] else " + ") + ("%d" % o["s"] if not o["u"] else ("%d.%06d" % (o["s"], o["u"])).rstrip("0")) + "s"
    return ds + " " + ts + ot


def gen_cron(r, allow_sec=True, coarse=False):
    for _ in range(100):
        c = cron_struct(gen_cron_text(r, allow_sec, coarse))
        if cron_recurs(c):
            c["text_spec"] = "cron(%s)" % c["text"]
            return c
    raise RuntimeError("cron generator")


def cron_recurs(c):
    """the day condition must be satisfiable within every 1600-day window (TimeSpec's search bound);
    specifications for which croniter itself gives up (CroniterBadDateError, e.g. `31 9`: a day of month
    that never occurs, even when a day of week is given as alternative) are not generated - the
    correctness of croniter is outside the property"""
    dim = [31, 29, 31, 30, 31, 30, 31, 31, 30, 31, 30, 31]
    if not c["domstar"] and not any(d <= dim[m - 1] for m in c["mons"] for d in c["doms"]):
        return False
    from croniter import croniter
    try:
        it = croniter(c["text"], dt.datetime(2019, 3, 1), dt.datetime)
        for _ in range(3):
            it.get_next()
    except Exception:
        return False
    return True


def gen_spec(r, dow_names=None, weights=(5, 3, 3)):
    k = r.choices(["once", "period", "cron"], weights)[0]
    if k == "once":
        return gen_once(r, dow_names=dow_names)
    if k == "period":
        return gen_period(r, dow_names)
    c = gen_cron(r)
    c["text"], c["crontext"] = c["text_spec"], c["text"]
    return c


def place_now(r, sp, startup):
    """an evaluation time on / around an instant the specification denotes (placement only)"""
    near = rnd_day(r)
    if sp["kind"] == "once":
        f = sp["dt"]
        day = some_day_of(r, f, near)
        if f["date"]["k"] == "tomorrow":
            # the instant of `tomorrow T` seen from the day before
            return clamp(around(r, inst_on(f, near + dt.timedelta(days=1), startup)))
        return clamp(around(r, inst_on(f, day, startup)))
    if sp["kind"] == "period":
        s = sp["start"]
        day = some_day_of(r, s, near)
        a = inst_on(s, day, startup)
        k = r.choice([0, 0, 1, 2, 5, 17, 400])
        if sp["hasend"] and r.random() < 0.4:
            e = inst_on(sp["end"], some_day_of(r, sp["end"], day), startup)
            return clamp(around(r, e, far=3 * sp["isec"]))
        if s["date"]["k"] == "none":
            k = r.choice([0, 1, 2, 86400 // sp["isec"] - 1, 86400 // sp["isec"]])
        return clamp(around(r, a + dt.timedelta(seconds=k * sp["isec"]), far=max(60, 2 * sp["isec"])))
    # cron: croniter is used to *place* now next to a matching minute, never to judge
    from croniter import croniter
    base = dt.datetime(near.year, near.month, near.day) + dt.timedelta(seconds=r.randint(0, 86399))
    try:
        it = croniter(sp["crontext"], base, dt.datetime)
        t = it.get_next()
        if not (WIN_FROM <= t < WIN_TO):
            t = base
    except Exception:
        t = base
    return clamp(around(r, t, far=4000))


# ------------------------------------------------------------------------------------ masks (known findings)
_SUNRANGE = {}


def sun_crosses_day(f):
    """a sun-based time whose offset moves the instant to another calendar day than the sun event's
    (input class of a known finding: the code's one-candidate day estimate is thrown off by the drift of
    sunrise/sunset from day to day)"""
    if f["tod"]["k"] == "clock" or not (f["off"]["s"] or f["off"]["u"]):
        return False
    if not _SUNRANGE:
        s = env()["sun"]
        _SUNRANGE["sunrise"] = (min(s["rise"]), max(s["rise"]))
        _SUNRANGE["sunset"] = (min(s["set"]), max(s["set"]))
    lo, hi = _SUNRANGE[f["tod"]["k"]]
    o = (-1 if f["off"]["neg"] else 1) * (f["off"]["s"] + (1 if f["off"]["u"] else 0))
    return not (0 <= lo + o and hi + o < 86400)


def start_before_its_day(f):
    """time-only form whose (negative) offset puts the instant before midnight of its day"""
    if f["date"]["k"] != "none" or not f["off"]["neg"]:
        return False
    if f["tod"]["k"] == "clock":
        return f["tod"]["s"] * 1000000 + f["tod"]["u"] - f["off"]["s"] * 1000000 - f["off"]["u"] < 0
    return sun_crosses_day(f)


def mask_ok_period(sp):
    """outside the known period() defect: a time-only start (with an end) that lies before midnight of its day"""
    return not (sp["kind"] == "period" and sp["hasend"] and start_before_its_day(sp["start"]))


def mask_ok_once(sp, now):
    """Input classes outside the known once(dow)/once(mm/dd) defects: no offset, and the form's next
    occurrence counted from today's date (today included only while the instant is still ahead)."""
    if sp["kind"] != "once":
        return True
    f = sp["dt"]
    k = f["date"]["k"]
    if sun_crosses_day(f):
        return False
    if k not in ("dow", "md"):
        return True
    if f["off"]["s"] or f["off"]["u"]:
        return False
    if k == "dow":
        if now.isoweekday() % 7 != f["date"]["w"]:
            return True
        return now < inst_on(f, now.date(), None)
    try:
        d = dt.date(now.year, f["date"]["m"], f["date"]["d"])
    except ValueError:
        return False
    if d > now.date():
        return True
    return d == now.date() and now < inst_on(f, d, None)
