"""TLC driver: exhaustive checks, batch trace acceptors, simulation dumps.

Everything TLC writes goes to a scratch directory given by the caller; the spec
directory (/verif/spec) is only read.
"""
import json
import os
import re
import subprocess
import time

SPEC_DIR = os.path.join(os.path.dirname(os.path.dirname(os.path.abspath(__file__))), "spec")
JAR = "/opt/veriftools/tla/tla2tools.jar:/opt/veriftools/tla/CommunityModules-deps.jar"


class TLCError(Exception):
    """TLC itself failed (parse error, evaluation error, timeout): machinery failure."""


class TLCResult:
    def __init__(self, out, wall):
        self.out = out
        self.wall = wall
        self.generated = 0
        self.distinct = 0
        self.depth = 0
        self.violated = None          # name of violated invariant / property
        self.rejects = []             # parsed JSON of 'REJECT {...}' lines
        self.infos = []               # parsed JSON of 'INFO {...}' lines
        self.coverage = {}            # action -> (distinct, total)
        self.cex = None               # counterexample text
        m = None
        for m in re.finditer(r"(\d+) states generated, (\d+) distinct states found", out):
            pass
        if m:
            self.generated, self.distinct = int(m.group(1)), int(m.group(2))
        m = re.search(r"The depth of the complete state graph search is (\d+)", out)
        if m:
            self.depth = int(m.group(1))
        m = re.search(r"Error: Invariant (\S+) is violated", out)
        if m:
            self.violated = m.group(1)
        m2 = re.search(r"Error: Action property (\S+) is violated", out)
        if m2 and not self.violated:
            self.violated = m2.group(1)
        if "Error: Temporal properties were violated" in out and not self.violated:
            self.violated = "temporal"
        if self.violated:
            i = out.find("Error:")
            self.cex = out[i:i + 20000]
        for line in out.splitlines():
            s = line.strip().strip('"')
            for tag, dst in (("REJECT ", self.rejects), ("INFO ", self.infos)):
                if s.startswith(tag):
                    body = s[len(tag):].replace('\\"', '"')
                    try:
                        dst.append(json.loads(body))
                    except Exception:
                        dst.append({"raw": body})
        # coverage lines: <Action line 12, col 1 to line 20, col 30 of module X>: 12:345
        for m in re.finditer(r"<(\w+) line \d+, col \d+ to line \d+, col \d+ of module (\w+)>: (\d+):(\d+)", out):
            name = m.group(1)
            d, t = int(m.group(3)), int(m.group(4))
            od, ot = self.coverage.get(name, (0, 0))
            self.coverage[name] = (od + d, ot + t)

    @property
    def ok(self):
        return self.violated is None


def _java_opts(stack_mb=256, depth_first=False, heap=None):
    opts = ["-Xss%dm" % stack_mb]
    if heap:
        opts.append("-Xmx" + heap)
    if depth_first:
        opts.append("-Dtlc2.tool.queue.IStateQueue=StateDeque")
    return " ".join(opts)


def run(spec, cfg, scratch, workers=16, env=None, timeout=900, depth_first=False,
        coverage=False, extra=(), allow_violation=True, spec_dir=SPEC_DIR, deadlock=False):
    """Run TLC on spec_dir/spec(.tla) with spec_dir/cfg; returns TLCResult.

    Raises TLCError on anything that is not a clean run or an invariant violation.
    """
    spec_path = os.path.join(spec_dir, spec if spec.endswith(".tla") else spec + ".tla")
    cfg_path = cfg if os.path.isabs(cfg) else os.path.join(spec_dir, cfg)
    meta = os.path.join(scratch, "tlcmeta_%d_%d" % (os.getpid(), int(time.time() * 1e6) % 10**9))
    os.makedirs(meta, exist_ok=True)
    # a heap cap per TLC run: several runs go in parallel, and the JVM default (a quarter of the RAM each) made the
    # kernel's OOM killer end some of them when checks ran side by side
    cmd = ["java", "-XX:+UseParallelGC", "-Xmx" + os.environ.get("VERIF_TLC_HEAP", "4g"), "-cp", JAR, "tlc2.TLC",
           "-workers", str(workers), "-metadir", meta, "-noGenerateSpecTE", "-config", cfg_path]
    if coverage:
        cmd += ["-coverage", "1"]
    if not deadlock:
        cmd += ["-deadlock"]
    cmd += list(extra)
    cmd.append(spec_path)
    e = dict(os.environ)
    e["JAVA_TOOL_OPTIONS"] = _java_opts(depth_first=depth_first)
    if env:
        e.update({k: str(v) for k, v in env.items()})
    t0 = time.time()
    try:
        p = subprocess.run(cmd, cwd=scratch, env=e, capture_output=True, text=True, timeout=timeout)
    except subprocess.TimeoutExpired as ex:
        raise TLCError("TLC timeout after %ss on %s" % (timeout, spec)) from ex
    finally:
        subprocess.run(["rm", "-rf", meta])
    out = p.stdout + "\n" + p.stderr
    res = TLCResult(out, time.time() - t0)
    if res.violated and allow_violation:
        return res
    bad = None
    if "Model checking completed. No error has been found" not in out and \
            "Finished computing initial states" not in out and "Progress:" not in out and "-simulate" not in " ".join(cmd):
        bad = "no completion message"
    for marker in ("Parsing or semantic analysis failed", "Error: TLC threw an unexpected exception",
                   "Error: Evaluating", "Error: The", "java.lang.StackOverflowError",
                   "TLC encountered", "Error: In evaluation", "Error: Attempted", "was not found",
                   "Error: Deadlock reached", "Error: current state is not a legal state",
                   "Error: Successor state is not completely specified", "Error: The invariant"):
        if marker in out:
            bad = marker
            break
    if p.returncode != 0 and not res.violated and bad is None and "-simulate" not in " ".join(cmd):
        bad = "exit code %d" % p.returncode
    if bad:
        raise TLCError("TLC failed on %s (%s):\n%s" % (spec, bad, out[-6000:]))
    return res


def accept_batch(spec, cases_path, scratch, cfg=None, depth_first=False, workers=1, timeout=900, env=None):
    """Batch acceptor: spec reads IOEnv.CASES; REJECT lines are verdicts.  Total verdicts:
    the caller compares len(cases) with len(rejects)."""
    cfg = cfg or "Acceptor.cfg"
    e = {"CASES": cases_path}
    if env:
        e.update(env)
    return run(spec, cfg, scratch, workers=workers, env=e, timeout=timeout, depth_first=depth_first,
               allow_violation=False)


def simulate(spec, cfg, scratch, num, depth, seed, outdir=None, timeout=600, env=None):
    """tlc -simulate writing one behaviour per file; returns list of file paths."""
    outdir = outdir or os.path.join(scratch, "sim_%s_%d" % (spec, seed))
    os.makedirs(outdir, exist_ok=True)
    extra = ["-simulate", "file=%s/tr,num=%d" % (outdir, num), "-depth", str(depth), "-seed", str(seed)]
    run(spec, cfg, scratch, workers=1, extra=extra, timeout=timeout, allow_violation=False, env=env)
    return sorted(os.path.join(outdir, f) for f in os.listdir(outdir))


# ----------------------------------------------------------------------------------------------
# parser for TLC state dumps (simulate trace files)
TOK = re.compile(r'\s*(<<|>>|\|->|:>|@@|[\[\]{}(),]|"(?:[^"\\]|\\.)*"|-?\d+|[A-Za-z_][A-Za-z0-9_]*)')


def tokens(s):
    pos = 0
    out = []
    while pos < len(s):
        m = TOK.match(s, pos)
        if not m:
            if s[pos:].strip() == "":
                break
            raise ValueError("bad token at " + s[pos:pos + 30])
        out.append(m.group(1))
        pos = m.end()
    return out


def parse_value(toks, i=0):
    t = toks[i]
    if t == "<<":
        items = []
        i += 1
        while toks[i] != ">>":
            v, i = parse_value(toks, i)
            items.append(v)
            if toks[i] == ",":
                i += 1
        return items, i + 1
    if t == "{":
        items = []
        i += 1
        while toks[i] != "}":
            v, i = parse_value(toks, i)
            items.append(v)
            if toks[i] == ",":
                i += 1
        return {"__set__": items}, i + 1
    if t == "[":
        rec = {}
        i += 1
        while toks[i] != "]":
            k = toks[i]
            assert toks[i + 1] == "|->", toks[i:i + 3]
            v, i = parse_value(toks, i + 2)
            rec[k] = v
            if toks[i] == ",":
                i += 1
        return rec, i + 1
    if t == "(":
        d = {}
        i += 1
        while toks[i] != ")":
            k, i = parse_value(toks, i)
            assert toks[i] == ":>", toks[i - 2:i + 2]
            v, i = parse_value(toks, i + 1)
            d[k if not isinstance(k, list) else tuple(k)] = v
            if toks[i] == "@@":
                i += 1
        return d, i + 1
    if t.startswith('"'):
        return t[1:-1], i + 1
    if t in ("TRUE", "FALSE"):
        return t == "TRUE", i + 1
    if re.fullmatch(r"-?\d+", t):
        return int(t), i + 1
    return t, i + 1


def parse_trace_file(path):
    """Returns list of states (dict var -> python value) of one simulated behaviour."""
    txt = open(path).read()
    states = []
    for block in re.split(r"\nSTATE_\d+ ==\s*\n", txt)[1:]:
        block = block.split("\n\n\\*")[0].split("\n====")[0]
        st = {}
        for part in re.split(r"\n?/\\ ", "\n" + block)[1:]:
            name, val = part.split(" = ", 1)
            st[name.strip()] = parse_value(tokens(val))[0]
        states.append(st)
    return states


def sany(spec, scratch, spec_dir=SPEC_DIR):
    p = subprocess.run(["java", "-cp", JAR, "tla2sany.SANY", os.path.join(spec_dir, spec)],
                       cwd=scratch, capture_output=True, text=True)
    out = p.stdout + p.stderr
    return ("Semantic errors" not in out and "Parse Error" not in out and "Fatal" not in out
            and "Could not" not in out and p.returncode == 0), out
