"""Program generator for C18: call chains with a data-dependent fault at a chosen statement position.

A program is a list of *units* (code objects as Python sees them: module level, functions,
methods, nested functions, decorator wrappers, lambdas, class bodies) plus their rendering into
files.  The description handed to TLA+ (spec/FaultCore.tla) is the unit list: kind, name, file and
statement list with the line number the generator believes Python reports for each statement.
That belief is checked: CPython's own traceback for the rendered source must equal
Frames(program) (otherwise MachineryFailure); the traceback pyscript logs is what the property is
about.

Every function-like unit takes one argument `v` and hands it down the chain; the statement at the
fault position raises iff v == 0 (`1 // v`, `if not v: raise X(..)`, ...), so the same source serves
a benign occurrence (v = 1) and a faulty one (v = 0).
"""
import random

# expressions raising iff v == 0
FAULT_EXPR = {          # every one evaluates to an int when v != 0 (they sit inside arithmetic / subscript contexts)
    "ZeroDivisionError": "1 // v",
    "KeyError": "{1: 0}[v]",
    "IndexError": "[0][1 - v]",
    "TypeError": "(None if not v else 0) + 1",
    "ValueError": "int('zz' if not v else '1')",
    "AttributeError": "(None if not v else 0).real",
    "NameError": "(undefined_name_zz if not v else 0)",
    "OverflowError": "int(2.0 ** (100000 if not v else 1))",
    "UnicodeDecodeError": "len((b'\\xff' if not v else b'a').decode('utf-8'))",
    "UnicodeEncodeError": "len(('\\udcff' if not v else 'a').encode('utf-8'))",
}
# builtin exception classes raised explicitly: `if not v: raise X('m')`
RAISED = ["ArithmeticError", "AssertionError", "AttributeError", "BlockingIOError", "BrokenPipeError", "BufferError", "BytesWarning",
          "ChildProcessError", "ConnectionAbortedError", "ConnectionError", "ConnectionRefusedError", "ConnectionResetError",
          "DeprecationWarning", "EOFError", "EncodingWarning", "Exception", "FileExistsError", "FileNotFoundError",
          "FloatingPointError", "FutureWarning", "ImportError", "ImportWarning", "IndentationError", "IndexError",
          "InterruptedError", "IsADirectoryError", "KeyError", "LookupError", "MemoryError", "ModuleNotFoundError", "NameError",
          "NotADirectoryError", "NotImplementedError", "OSError", "OverflowError", "PendingDeprecationWarning", "PermissionError",
          "ProcessLookupError", "RecursionError", "ReferenceError", "ResourceWarning", "RuntimeError", "RuntimeWarning",
          "StopAsyncIteration", "StopIteration", "SyntaxError", "SyntaxWarning", "SystemError", "TabError", "TimeoutError", "TypeError",
          "UnboundLocalError", "UnicodeError", "UnicodeWarning", "UserWarning", "ValueError", "Warning", "ZeroDivisionError"]
USER_EXC = {
    "MyErr": "class MyErr(Exception):\n    pass",
    "MyValueErr": "class MyValueErr(ValueError):\n    pass",
    "MyBaseErr": "class MyBaseErr(Exception):\n    pass\nclass MyDerivedErr(MyBaseErr):\n    pass",
}
USER_EXC_RAISE = {"MyErr": "MyErr", "MyValueErr": "MyValueErr", "MyBaseErr": "MyDerivedErr"}

# expression contexts: (name, template lines with {E}, line offset of {E})
CONTEXTS = [
    ("assign", ["r = {E}"], 0),
    ("expr-stmt", ["{E}"], 0),
    ("binop-2nd-line", ["r = (1 +", "     {E})"], 1),
    ("call-kw-3-lines", ["r = dict(a=1,", "         b={E},", "         c=3)"], 1),
    ("list-2nd-line", ["r = [1,", "     {E}][1]"], 1),
    ("listcomp", ["r = [{E} for _q in [0]]"], 0),
    ("dictcomp", ["r = {0: {E} for _q in [0]}"], 0),
    ("setcomp", ["r = {{E} for _q in [0]}"], 0),
    ("if-test", ["if {E} is None:", "    pass"], 0),
    ("ifexp", ["r = {E} if v is not None else 0"], 0),
    ("fstring", ["r = f\"{({E})}\""], 0),
    ("for-iter", ["for _q in [{E}]:", "    pass"], 0),
    ("while-test", ["while {E} is None:", "    break"], 0),
    ("assert", ["assert {E} is not None or True"], 0),
    ("unary", ["r = not {E}"], 0),
    ("tuple", ["r = ({E}, 2)"], 0),
    ("dict-value", ["r = {'k': {E}}"], 0),
    ("boolop", ["r = {E} and 1"], 0),
    ("call-arg", ["r = str({E})"], 0),
    ("augassign", ["acc = 0", "acc += {E}"], 1),
    ("subscript-index", ["r = [5, 6][0 * {E}]"], 0),
    ("starred", ["r = [*[{E}]]"], 0),
    ("walrus", ["r = (w := {E})"], 0),
    ("compare-chain", ["r = -10 ** 9 <= {E} <= 10 ** 9"], 0),
    ("multiline-call", ["r = max(", "    0,", "    {E},", ")"], 2),
    ("callee-spanning-lines", ["r = {E}"], 0),        # the call expression itself spans three lines (rendered by ctx_lines)
    ("operand-spanning-lines", ["r = {E}"], 0),       # the failing operation spans three lines
    ("return-value", ["return {E}"], 0),
]


def ctx_lines(c, expr):
    """Source lines of context c around expression expr (the reported line is the first line of the spanning node)."""
    if c[0] == "callee-spanning-lines" and expr.endswith("(v)"):
        return ["r = " + expr[:-2], "    v,", ")"]
    if c[0] == "operand-spanning-lines" and expr == "(1 // v)":
        return ["r = 1 // (", "    v", ")"]
    return [ln.replace("{E}", expr) for ln in c[1]]
CTX_NAMES = [c[0] for c in CONTEXTS]
# statement wrappers: (name, header lines, indent added, trailer lines)
WRAPPERS = [
    ("none", [], 0, []),
    ("none", [], 0, []),
    ("if", ["if v is not None:"], 1, []),
    ("else", ["if v is None:", "    pass", "else:"], 1, []),
    ("for", ["for _i in [0]:"], 1, []),
    ("for-else", ["for _i in []:", "    pass", "else:"], 1, []),
    ("while", ["while True:"], 1, ["    break"]),
    ("try-finally", ["try:"], 1, ["finally:", "    pass"]),
    ("try-except-other", ["try:"], 1, ["except GeneratorExit:", "    pass"]),
    ("try-else", ["try:", "    pass", "except GeneratorExit:", "    pass", "else:"], 1, []),
    ("with", ["with CM():"], 1, []),
    ("nested-if-for", ["if True:", "    for _i in [0]:"], 2, []),
]
WRAP_NAMES = sorted({w[0] for w in WRAPPERS})
PLAIN = [["x1 = v + 1"], ["x2 = [v, 2]"], ["x3 = {'a': v}"], ["pass"], ["x4 = str(v)"], ["x5 = (v,", "      2)"], ["x6 = len([v])"]]
PRELUDE = ["class CM:", "    def __enter__(self):", "        return self", "    def __exit__(self, *a):", "        return False"]
# how the statement that waits is written (wait entries): the exception of the expression is raised at the line of the call
WAIT_FORMS = ["assign", "call-spanning-lines", "call-arg", "expr-stmt"]
WAIT_ENTRIES = ("wait-expr", "wait-filter-expr")
LINK_KINDS = ["func", "method", "nested", "wrapper", "classbody", "lambda", "samename", "import"]


class Emitter:
    def __init__(self, rel):
        self.rel = rel
        self.lines = []

    @property
    def next_line(self):
        return len(self.lines) + 1

    def emit(self, text, indent=0):
        self.lines.append("    " * indent + text if text else "")

    def text(self):
        return "\n".join(self.lines) + "\n"


def ctx_of(rel):
    if rel is None:
        return "-"
    mod = rel[:-3].replace("/", ".")
    return mod if rel.startswith(("modules/", "apps/")) else "file." + mod


def gen_spec(r, pid, masked=False, entry="load", depth=None):
    """Random structural choices for one program (JSON-able; Program(spec) is deterministic)."""
    depth = depth if depth is not None else r.choice([1, 2, 2, 3, 3, 4, 5])
    kinds = ["func", "func", "func", "method", "nested"]
    if not masked:
        kinds += ["wrapper", "classbody", "samename", "import", "method", "func"]
    links = []
    for i in range(depth):
        k = r.choice(kinds)
        if k == "import" and (i == depth - 1 and False):
            k = "func"
        if k == "samename" and i == depth - 1:
            k = "method"
        links.append({"kind": k, "other_file": r.random() < 0.3 and k in ("func", "method", "wrapper", "samename"),
                      "pre": r.choice([0, 1, 1, 2]), "post": r.choice([0, 1, 1, 2]),
                      "try": r.choice(["-", "-", "-", "-", "reraise", "from", "ctx", "none", "swallow"]) if not masked
                      else r.choice(["-", "-", "-", "reraise", "none", "swallow"])})
    leaf_lambda = (not masked) and r.random() < 0.12
    exc_style = r.choice(["expr", "expr", "raise", "raise", "user", "fresh-cause", "assert", "import"])
    if masked and exc_style == "fresh-cause":
        exc_style = "raise"
    if exc_style == "expr":
        exc = r.choice(sorted(FAULT_EXPR))
    elif exc_style in ("raise", "fresh-cause"):
        exc = r.choice(RAISED)
        if masked and exc == "StopIteration":
            exc = "StopAsyncIteration"
    elif exc_style == "user":
        exc = r.choice(sorted(USER_EXC))
    elif exc_style == "assert":
        exc = "AssertionError"
    else:
        exc = "ModuleNotFoundError"
    return {"pid": pid, "seed": r.randrange(1 << 30), "entry": entry, "entry_pre": r.choice([0, 1, 2]), "entry_post": r.choice([0, 1]),
            "entry_try": r.choice(["-", "-", "-", "from", "ctx", "reraise", "none", "swallow"]) if not masked else r.choice(["-", "-", "none", "swallow"]),
            "wait_form": r.choice(WAIT_FORMS),
            "links": links, "leaf_lambda": leaf_lambda, "exc_style": exc_style, "exc": exc, "masked": masked}


class Program:
    """Renders a spec.  After construction: .files {rel: text}, .units (description for TLA+),
    .positions (list of (unit id, statement index path) where a fault can be placed).
    fault=(k) selects the k-th position (modulo)."""

    def __init__(self, spec, fault_pos=0):
        self.spec = spec
        self.pid = spec["pid"]
        self.r = random.Random(spec["seed"])
        self.units = []
        self.main_rel = "%s.py" % self.pid
        self.mod_rel = "modules/%sm.py" % self.pid
        self.em = {self.main_rel: Emitter(self.main_rel), self.mod_rel: Emitter(self.mod_rel)}
        self.fr = random.Random(spec["seed"] * 31 + fault_pos + 7)
        self.nslots = 0          # plain-statement slots seen so far (execution order within a unit, chain order leaf-first)
        self.fault_pos = fault_pos
        self.fault = None
        self.user_exc_needed = spec["exc_style"] == "user"
        self.lazy_mods = {}
        self._build()

    # ------------------------------------------------------------------ description helpers
    def unit(self, kind, name, rel, wraps="-"):
        u = {"id": len(self.units) + 1, "kind": kind, "name": name, "file": rel, "ctx": ctx_of(rel), "wraps": wraps, "body": []}
        self.units.append(u)
        return u

    def wrapper_choice(self):
        return self.r.choice(WRAPPERS) if not self.spec.get("no_wrappers") else WRAPPERS[0]

    def context_choice(self, allow_return):
        pool = [c for c in CONTEXTS if (allow_return or c[0] != "return-value")]
        if self.spec.get("contexts"):
            pool = [c for c in pool if c[0] in self.spec["contexts"]] or pool
        return self.r.choice(pool)

    # ------------------------------------------------------------------ statement emitters
    def emit_plain(self, em, indent, u, body):
        """A plain statement; it is a candidate fault position: the fault_pos-th one becomes the fault."""
        w = self.wrapper_choice()
        lines = self.r.choice(PLAIN)
        for h in w[1]:
            em.emit(h, indent)
        ind = indent + w[2]
        idx = self.nslots
        self.nslots += 1
        if idx == self.fault_pos:
            flines, off, fields = self.fault_lines()
            st = {"k": "fault", "line": em.next_line + off, "wrap": w[0]}
            st.update(fields)
            for ln in flines:
                em.emit(ln, ind)
            self.fault = {"unit": u["id"], "line": st["line"], "file": em.rel, "wrap": w[0], **fields}
        else:
            st = {"k": "plain", "line": em.next_line, "wrap": w[0]}
            for ln in lines:
                em.emit(ln, ind)
        for t in w[3]:
            em.emit(t, indent)
        body.append(st)
        return st

    def fault_lines(self):
        """(lines, offset of the reported line, record fields) of the fault statement."""
        sp = self.spec
        saved, self.r = self.r, self.fr        # choices of the fault do not disturb the structural random stream
        style, exc = sp["exc_style"], sp["exc"]
        msg = "m-%s" % self.pid
        if style == "expr":
            c = self.context_choice(False)
            self.r = saved
            lines = ctx_lines(c, "(" + FAULT_EXPR[exc] + ")")        # parenthesized: the context must not re-associate its operators
            return lines, c[2], {"exc": exc, "fctx": c[0]}
        self.r = saved
        if style == "raise":
            return ["if not v:", "    raise %s('%s')" % (exc, msg)], 1, {"exc": exc, "fctx": "raise"}
        if style == "user":
            return ["if not v:", "    raise %s('%s', 3)" % (USER_EXC_RAISE[exc], msg)], 1, {"exc": USER_EXC_RAISE[exc], "fctx": "raise-user"}
        if style == "fresh-cause":
            return ["if not v:", "    raise %s('%s') from KeyError('c-%s')" % (exc, msg, self.pid)], 1, \
                {"exc": exc, "fctx": "raise-from-fresh", "cause": "KeyError"}
        if style == "assert":
            return ["assert v, '%s'" % msg], 0, {"exc": "AssertionError", "fctx": "assert"}
        return ["if not v:", "    import nosuch_mod_zz_%s" % self.pid], 1, {"exc": "ModuleNotFoundError", "fctx": "import"}

    def _fault_lines_restore(self):
        pass

    # ------------------------------------------------------------------ structure
    def _build(self):
        sp = self.spec
        main, mod = self.em[self.main_rel], self.em[self.mod_rel]
        for em in (main, mod):
            for ln in PRELUDE:
                em.emit(ln)
        if self.user_exc_needed:
            for em in (main, mod):
                for ln in USER_EXC[sp["exc"]].split("\n"):
                    em.emit(ln)
        main.emit("import %sm" % self.pid)
        # the chain is built leaf first so that every callee is defined above its caller
        links = sp["links"]
        n = len(links)
        # pre-create units in chain order (ids follow the chain), then render leaf-first
        chain = []      # per link: dict(kind, units..., callexpr from the caller's point of view)
        waits = sp["entry"] in WAIT_ENTRIES
        entry_kind = "module" if sp["entry"] in ("load",) else ("func" if waits else "expr" if sp["entry"].endswith("expr") else "func")
        entry_name = ctx_of(self.main_rel) if entry_kind == "module" else ("entry_%s" % self.pid if entry_kind == "func" else "<expr>")
        self.entry_unit = self.unit(entry_kind, entry_name, self.main_rel)
        # wait entries: the entry function waits in task.wait_until; the expression it waits for is a unit of its own that
        # calls the chain (its exception is delivered to the waiting function at the wait statement)
        self.wait_unit = self.unit("waitexpr", "<expr>", self.main_rel) if waits else None
        below_import = False
        for i, lk in enumerate(links):
            if i == 0 and (entry_kind == "expr" or waits) and lk["kind"] not in ("func", "method", "wrapper"):
                lk = dict(lk, kind="func")
                links[i] = lk
            rel = self.mod_rel if (lk["other_file"] or below_import) else self.main_rel
            if lk["kind"] == "import" or (rel == self.mod_rel and lk["kind"] in ("func", "method", "wrapper", "samename")):
                below_import = True          # module code cannot call back into the script file
            k = lk["kind"]
            info = {"kind": k, "rel": rel, "lk": lk, "i": i}
            pfx = "{M}"           # replaced at the call site: module prefix iff the caller lives in another file
            if k == "classbody" and not (i == 0 and entry_kind == "module") and not (i > 0 and links[i - 1]["kind"] == "import"):
                k = "func"           # a class body inside a function cannot see the function's `v` in pyscript (scoping is C03's subject)
                lk = dict(lk, kind="func")
                links[i] = lk
                info["kind"] = "func"
            if k == "func":
                info["u"] = self.unit("func", "f%d_%s" % (i, self.pid), rel)
                info["call"] = "%sf%d_%s(v)" % (pfx, i, self.pid)
            elif k in ("method", "samename"):
                mname = "run" if k == "samename" else "m%d_%s" % (i, self.pid)
                info["u"] = self.unit("method", mname, rel)
                info["call"] = "%so%d_%s.%s(v)" % (pfx, i, self.pid, mname)
            elif k == "nested":
                info["u"] = self.unit("nested", "n%d_%s" % (i, self.pid), None)     # file = caller's file, fixed below
                info["call"] = "n%d_%s(v)" % (i, self.pid)
            elif k == "wrapper":
                info["w"] = self.unit("wrapper", "w%d_%s" % (i, self.pid), rel, wraps="t%d_%s" % (i, self.pid))
                info["u"] = self.unit("func", "t%d_%s" % (i, self.pid), rel)
                info["call"] = "%st%d_%s(v)" % (pfx, i, self.pid)
            elif k == "classbody":
                info["u"] = self.unit("classbody", "K%d_%s" % (i, self.pid), None)
                info["call"] = None
            elif k == "import":
                lrel = "modules/%sl%d.py" % (self.pid, i)
                self.em[lrel] = Emitter(lrel)
                info["rel"] = lrel
                info["u"] = self.unit("module", ctx_of(lrel), lrel)
                info["call"] = None
            chain.append(info)
        # "samename": the link *above* a samename link is a method called `run` too (adjacent equal names)
        for i, info in enumerate(chain):
            if info["kind"] == "samename" and i + 1 < n and chain[i + 1]["kind"] in ("method", "func", "samename"):
                nxt = chain[i + 1]
                if nxt["kind"] == "func":
                    nxt["kind"] = "method"
                    nxt["u"]["kind"] = "method"
                nxt["u"]["name"] = "run"
                pfx = "{M}"
                nxt["call"] = "%so%d_%s.run(v)" % (pfx, i + 1, self.pid)
        self.chain = chain
        # render leaf first; nested / classbody / import links are rendered inside their caller
        deferred = {}          # link index -> renderer to call inside the caller body
        for i in range(n - 1, -1, -1):
            info = chain[i]
            callee = chain[i + 1] if i + 1 < n else None
            if info["kind"] in ("nested", "classbody"):
                deferred[i] = info
                continue
            if info["kind"] == "import":
                self._render_module_link(info, callee, deferred)
                continue
            self._render_def(info, callee, deferred)
        first = chain[0] if chain else None
        if waits:
            first = {"kind": "waitexpr", "u": self.wait_unit, "target": first, "i": -1, "rel": self.main_rel, "lk": {}}
        self._render_entry(first, deferred)
        if self.fault is None:
            if self.fault_pos >= 0:
                raise ValueError("fault position %d out of range (%d slots)" % (self.fault_pos, self.nslots))
            self.files = {rel: em.text() for rel, em in self.em.items()}
            return
        # lazily imported modules: constant v (0 iff the fault is at / below that link)
        fault_unit = self.fault["unit"]
        for info in chain:
            if info["kind"] == "import":
                em = self.em[info["rel"]]          # unit ids follow the chain (lambdas of the leaf come last)
                em.lines[em.vline - 1] = "v = %d" % (0 if fault_unit >= info["u"]["id"] else 1)
        self.files = {rel: em.text() for rel, em in self.em.items()}

    def _body(self, em, indent, u, lk, callee, deferred, is_module=False):
        """pre statements, the call into the callee (if any), post statements; returns True if the body ended
        with a `return` (then no trailing return is emitted)."""
        body = u["body"]
        for _ in range(lk["pre"]):
            self.emit_plain(em, indent, u, body)
        returned = False
        if callee is not None:
            returned = self._emit_call(em, indent, u, body, lk, callee, deferred, allow_return=(lk["post"] == 0 and not is_module and u["kind"] != "classbody"))
        elif self.spec["leaf_lambda"] and u["kind"] != "classbody":
            self._emit_lambda_leaf(em, indent, u, body)
        for _ in range(lk["post"]):
            self.emit_plain(em, indent, u, body)
        if not body:
            self.emit_plain(em, indent, u, body)
        return returned

    def _emit_lambda_leaf(self, em, indent, u, body):
        lam = self.unit("lambda", "<lambda>", u["file"])
        idx = self.nslots
        self.nslots += 1
        em.emit("lam = lambda q: (q,", indent)
        if idx == self.fault_pos:
            lam["body"].append({"k": "fault", "line": em.next_line, "wrap": "none", "exc": "ZeroDivisionError", "fctx": "lambda-body"})
            self.fault = {"unit": lam["id"], "line": em.next_line, "file": em.rel, "wrap": "none", "exc": "ZeroDivisionError", "fctx": "lambda-body"}
            em.emit("                 1 // q)[0]", indent)
        else:
            lam["body"].append({"k": "plain", "line": em.next_line, "wrap": "none"})
            em.emit("                 q + 1)[0]", indent)
        body.append({"k": "call", "line": em.next_line, "callee": lam["id"], "cctx": "lambda-call", "wrap": "none"})
        em.emit("r = lam(v)", indent)

    def _emit_call(self, em, indent, u, body, lk, callee, deferred, allow_return):
        """The statement of u that enters the callee link."""
        w = self.wrapper_choice()
        t = lk.get("try", "-")
        for h in w[1]:
            em.emit(h, indent)
        ind = indent + w[2]
        target = body
        tryst = None
        if t != "-":
            tryst = {"k": "try", "body": [], "h": t, "hline": 0, "exc": "RuntimeError", "line": em.next_line, "wrap": w[0]}
            em.emit("try:", ind)
            ind += 1
            target = tryst["body"]
        k = callee["kind"]
        returned = False
        if k == "nested":
            cu = callee["u"]
            cu["file"] = u["file"]
            cu["ctx"] = u["ctx"]
            em.emit("def %s(v):" % cu["name"], ind)
            ret = self._body(em, ind + 1, cu, callee["lk"], self._next(callee), deferred)
            if not ret:
                em.emit("return v", ind + 1)
            c = self.context_choice(allow_return and t == "-" and w[0] == "none")
            start = em.next_line
            for ln in ctx_lines(c, callee["call"]):
                em.emit(ln, ind)
            target.append({"k": "call", "line": start + c[2], "callee": cu["id"], "cctx": c[0], "wrap": w[0]})
            returned = c[0] == "return-value"
            callee["rel"] = em.rel
        elif k == "classbody":
            cu = callee["u"]
            cu["file"] = u["file"]
            cu["ctx"] = u["ctx"]
            st = {"k": "classdef", "line": em.next_line, "callee": cu["id"], "cctx": "classdef", "wrap": w[0]}
            em.emit("class %s:" % cu["name"], ind)
            self._body(em, ind + 1, cu, callee["lk"], self._next(callee), deferred)
            target.append(st)
        elif k == "waitexpr":
            cu, tgt = callee["u"], callee["target"]
            cu["body"].append({"k": "call", "line": 1, "callee": tgt.get("w", tgt["u"])["id"], "cctx": "expr", "wrap": "none"})
            call = self.call_text(tgt, em.rel)
            if self.spec["entry"] == "wait-expr":
                self.wait_expr = "pyscript.c18g_%s == '1' and %s >= 0" % (self.pid, call.replace("(v)", "(int(pyscript.c18_%s))" % self.pid))
                arg = 'state_trigger="%s"' % self.wait_expr
            else:
                self.wait_expr = "%s >= 0" % call
                arg = 'event_trigger=["ev2_%s", "%s"]' % (self.pid, self.wait_expr)
            form = self.spec.get("wait_form", "assign")
            lines = {"assign": ["r = task.wait_until(%s, timeout=600)" % arg],
                     "expr-stmt": ["task.wait_until(%s, timeout=600)" % arg],
                     "call-arg": ["r = dict(task.wait_until(timeout=600, %s))" % arg],
                     "call-spanning-lines": ["r = task.wait_until(", "    %s," % arg, "    timeout=600,", ")"]}[form]
            st = {"k": "call", "line": em.next_line, "callee": cu["id"], "cctx": "wait:" + form, "wrap": w[0]}
            for ln in lines:
                em.emit(ln, ind)
            target.append(st)
        elif k == "import":
            cu = callee["u"]
            em.emit("if not v:", ind)
            st = {"k": "import", "line": em.next_line, "callee": cu["id"], "cctx": "import", "wrap": w[0]}
            em.emit("import %s" % cu["file"][len("modules/"):-3], ind + 1)
            target.append(st)
        else:
            first = callee.get("w", callee["u"])
            c = self.context_choice(allow_return and t == "-" and w[0] == "none")
            start = em.next_line
            for ln in ctx_lines(c, self.call_text(callee, em.rel)):
                em.emit(ln, ind)
            target.append({"k": "call", "line": start + c[2], "callee": first["id"], "cctx": c[0], "wrap": w[0]})
            returned = c[0] == "return-value"
        if tryst is not None:
            ind -= 1
            em.emit("except Exception as e1:", ind)
            tryst["hline"] = em.next_line
            if t == "reraise":
                em.emit("raise", ind + 1)
            elif t == "from":
                em.emit("raise RuntimeError('h-%s') from e1" % self.pid, ind + 1)
            elif t == "none":
                em.emit("raise RuntimeError('h-%s') from None" % self.pid, ind + 1)       # __suppress_context__: the caught one is not printed
            elif t == "swallow":
                em.emit("handled = str(e1)", ind + 1)                                      # the script handles its own error: nothing escapes
            else:
                em.emit("raise RuntimeError('h-%s')" % self.pid, ind + 1)
            body.append(tryst)
        for tl in w[3]:
            em.emit(tl, indent)
        return returned

    def call_text(self, callee, caller_rel):
        c = callee["call"]
        return c.replace("{M}", ("%sm." % self.pid) if callee["rel"] != caller_rel else "")

    def _next(self, info):
        i = info["i"]
        return self.chain[i + 1] if i + 1 < len(self.chain) else None

    def _render_def(self, info, callee, deferred):
        em = self.em[info["rel"]]
        u, lk = info["u"], info["lk"]
        k = info["kind"]
        if k == "wrapper":
            w = info["w"]
            em.emit("def d%d_%s(fn):" % (info["i"], self.pid))
            em.emit("def %s(v):" % w["name"], 1)
            wl = {"pre": self.r.choice([0, 1]), "post": self.r.choice([0, 1]), "try": "-"}
            for _ in range(wl["pre"]):
                self.emit_plain(em, 2, w, w["body"])
            c = self.context_choice(False)
            start = em.next_line
            for ln in ctx_lines(c, "fn(v)"):
                em.emit(ln, 2)
            w["body"].append({"k": "call", "line": start + c[2], "callee": u["id"], "cctx": c[0], "wrap": "none"})
            for _ in range(wl["post"]):
                self.emit_plain(em, 2, w, w["body"])
            em.emit("return v", 2)
            em.emit("return %s" % w["name"], 1)
            em.emit("@d%d_%s" % (info["i"], self.pid))
            em.emit("def %s(v):" % u["name"])
            ret = self._body(em, 1, u, lk, callee, deferred)
            if not ret:
                em.emit("return v", 1)
        elif k in ("method", "samename"):
            em.emit("class C%d_%s:" % (info["i"], self.pid))
            em.emit("def %s(self, v):" % u["name"], 1)
            ret = self._body(em, 2, u, lk, callee, deferred)
            if not ret:
                em.emit("return v", 2)
            em.emit("o%d_%s = C%d_%s()" % (info["i"], self.pid, info["i"], self.pid))
        else:
            em.emit("def %s(v):" % u["name"])
            ret = self._body(em, 1, u, lk, callee, deferred)
            if not ret:
                em.emit("return v", 1)

    def _render_module_link(self, info, callee, deferred):
        """A module whose load is part of the chain (imported lazily by its caller when v == 0)."""
        em = self.em[info["rel"]]
        for ln in PRELUDE:
            em.emit(ln)
        if self.user_exc_needed:
            for ln in USER_EXC[self.spec["exc"]].split("\n"):
                em.emit(ln)
        em.emit("import %sm" % self.pid)
        if info["rel"] != self.main_rel:
            pass
        em.vline = em.next_line
        em.emit("v = 0")
        # functions of the main file are not visible here: callee links below an import link live in the
        # imported module's world: re-home them
        self._body(em, 0, info["u"], info["lk"], callee, deferred, is_module=True)

    def _render_entry(self, first, deferred):
        sp = self.spec
        em = self.em[self.main_rel]
        u = self.entry_unit
        lk = {"pre": sp["entry_pre"], "post": max(1, sp["entry_post"]) if u["kind"] == "func" else sp["entry_post"], "try": sp["entry_try"]}
        for ln in sp.get("before_entry", []):
            em.emit(ln)

        def after():
            for ln in sp.get("after_entry", []):
                if "{CALL:" in ln:
                    a, b = ln.index("{CALL:"), ln.index("}", ln.index("{CALL:"))
                    ln = ln[:a] + self.call_text(first, em.rel).replace("(v)", "(%s)" % ln[a + 6:b]) + ln[b + 1:]
                em.emit(ln)
        if u["kind"] == "module":
            em.emit("v = 0")
            self._body(em, 0, u, lk, first, deferred, is_module=True)
        elif u["kind"] == "func":
            for ln in sp.get("decorators", []):
                em.emit(ln)
            em.emit("def %s(%s):" % (u["name"], sp.get("signature", "v")))
            for ln in sp.get("entry_prolog", []):
                em.emit(ln, 1)
            self._body(em, 1, u, lk, first, deferred)
            for ln in sp.get("entry_epilog", []):
                em.emit(ln, 1)
            em.emit("return v", 1)
            after()
        else:   # expression entry: the expression calls the first link
            u["body"].append({"k": "call", "line": 1, "callee": first.get("w", first["u"])["id"], "cctx": "expr", "wrap": "none"})
            after()


# ------------------------------------------------------------------------------------------------
# entry points: scaffolding around the entry unit (identical source for both decorator subsystems)
ENTRIES = ["load", "trigger-func", "trigger-func-state", "service-func", "trigger-expr", "filter-expr", "active-expr",
           "done-callback", "created-task", "wait-expr", "wait-filter-expr"]


def scaffold(spec):
    """Adds the entry-specific source fragments to a spec (in place) and returns it."""
    pid, e = spec["pid"], spec["entry"]
    done = 'vf.rec("done", "%s")' % pid
    by = ['@event_trigger("evb_%s")' % pid, "def bystander_%s(**kw):" % pid, '    vf.rec("bystander", "%s")' % pid]
    # things the file defines ABOVE the entry / fault: an event trigger, a service, a state trigger.  They must keep serving
    # after a runtime fault, and must all be gone after a load-time fault (the file is unloaded as a whole)
    by += ["@service", "def svcb_%s():" % pid, '    vf.rec("bystander-svc", "%s")' % pid,
           '@state_trigger("pyscript.c18b_%s == \'1\'")' % pid, "def stb_%s(**kw):" % pid, '    vf.rec("bystander-st", "%s")' % pid]
    spec["before_entry"] = by
    if e in WAIT_ENTRIES:        # an event trigger function that waits (task.wait_until) for a state expression / a filtered event
        spec.update(decorators=['@event_trigger("ev_%s")' % pid], signature="**kw", entry_prolog=["v = kw['v']"], entry_epilog=[done])
    elif e == "trigger-func":
        spec.update(decorators=['@event_trigger("ev_%s")' % pid], signature="**kw", entry_prolog=["v = kw['v']"], entry_epilog=[done])
    elif e == "trigger-func-state":
        spec.update(decorators=['@state_trigger("pyscript.c18_%s != \'idle\'")' % pid], signature="**kw",
                    entry_prolog=["v = int(kw['value'])"], entry_epilog=[done])
    elif e == "service-func":
        spec.update(decorators=["@service"], signature="v=None", entry_prolog=["v = int(v)"], entry_epilog=[done])
    elif e == "trigger-expr":
        spec.update(after_entry=['@state_trigger("{CALL} >= 0")'.replace("{CALL}", "{CALL:int(pyscript.c18_%s)}" % pid),
                                 "def trig_%s(**kw):" % pid, "    " + done])
    elif e == "filter-expr":
        spec.update(after_entry=['@event_trigger("ev_%s", "{CALL:v} >= 0")' % pid, "def trig_%s(**kw):" % pid, "    " + done])
    elif e == "active-expr":
        spec.update(after_entry=['@event_trigger("ev_%s")' % pid, '@state_active("{CALL:int(pyscript.c18_%s)} >= 0")' % pid,
                                 "def trig_%s(**kw):" % pid, "    " + done])
    elif e == "done-callback":
        spec.update(signature="v", after_entry=['@event_trigger("ev_%s")' % pid, "def reg_%s(**kw):" % pid,
                                                "    task.add_done_callback(task.current_task(), entry_%s, kw['v'])" % pid, "    " + done])
    elif e == "created-task":
        spec.update(signature="v", after_entry=['@event_trigger("ev_%s")' % pid, "def reg_%s(**kw):" % pid,
                                                "    task.create(entry_%s, kw['v'])" % pid, "    " + done])
    return spec


def expr_of(spec, call):
    """The expression text of an expression entry (what CPython evaluates for the reference)."""
    for ln in spec.get("after_entry", []):
        if "{CALL:" in ln:
            arg = ln[ln.index("{CALL:") + 6:ln.index("}", ln.index("{CALL:"))]
            return call.replace("(v)", "(%s)" % arg) + " >= 0", arg
    return None, None
