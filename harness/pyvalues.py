"""Recorder values for the language checks (C01).

`V` wraps a real Python value and implements every protocol operation the expression/assignment
constructs of Python use (binary/reflected/in-place operators, unary operators, rich comparisons,
contains, item/attribute get/set/del, call, iter/next, keys, format/repr/str).  Each operation is
logged as ONE event

    {"e": kind, "op": name, "n": int, "xs": [operand descriptors], "names": [keyword names],
     "r": result descriptor, "x": exception type or ""}

and delegated to the wrapped value, so results and exception *types* are CPython's own.  Operand
and result descriptors identify recorder objects by a per-run id (creation order) and carry their
truthiness (`__bool__`, `__hash__` and dict/set-insertion `__eq__` are deliberately NOT events:
their number is a CPython-internal matter, DESIGN appendix H).

Descriptors (JSON, consumed by spec/PyExpr.tla):
    {"k":"v","id":n,"b":bool}                      recorder object (V or VIter)
    {"k":"b","b":bool}  {"k":"none"}               real bool / None
    {"k":"c","t":type,"r":repr,"s":str,"b":bool}   other plain scalar (int, float, str, bytes, ...); small ints also "i": value
    {"k":"seq","t":"list"|"tuple"|"set","e":[...]} plain container (set elements in canonical order)
    {"k":"dict","ks":[...],"vs":[...]}             plain dict, insertion order
    {"k":"slice","e":[lo,hi,step]}
    {"k":"fn","r":name}                            native tracer function
    {"k":"o","r":type name}                        anything else (opaque)

Recorder modes (per program, `opts`), used as generator masks for known findings:
    cmpbool    rich comparisons return a real bool instead of a recorder object
    noinplace  the recorder class has no in-place operator methods (Python falls back to __add__ ...)
    quietstr   __str__/__repr__ are not events
"""
import json
import operator

BIN_OPS = {
    "add": operator.add, "sub": operator.sub, "mul": operator.mul, "truediv": operator.truediv,
    "floordiv": operator.floordiv, "mod": operator.mod, "pow": operator.pow,
    "lshift": operator.lshift, "rshift": operator.rshift, "and": operator.and_, "or": operator.or_,
    "xor": operator.xor, "matmul": operator.matmul,
}
IBIN_OPS = {
    "add": operator.iadd, "sub": operator.isub, "mul": operator.imul, "truediv": operator.itruediv,
    "floordiv": operator.ifloordiv, "mod": operator.imod, "pow": operator.ipow,
    "lshift": operator.ilshift, "rshift": operator.irshift, "and": operator.iand, "or": operator.ior,
    "xor": operator.ixor, "matmul": operator.imatmul,
}
UN_OPS = {"neg": operator.neg, "pos": operator.pos, "invert": operator.invert}
CMP_OPS = {"lt": operator.lt, "le": operator.le, "eq": operator.eq, "ne": operator.ne,
           "gt": operator.gt, "ge": operator.ge}

# kind table: name -> list of Python literal sources (first = "typical", rest = edge)
KINDS = {
    "int": ["3", "0", "-2"],
    "float": ["2.5", "0.0"],
    "bool": ["True", "False"],
    "None": ["None"],
    "str": ["'ab'", "''"],
    "bytes": ["b'xy'", "b''"],
    "list": ["[1, 2, 3]", "[]"],
    "tuple": ["(4, 5)", "()"],
    "dict": ["{'k': 1, 2: 3}", "{}"],
    "set": ["{1, 2}", "set()"],
}
KIND_NAMES = list(KINDS)


class Rec:
    def __init__(self, opts=None):
        self.log = []
        self.objs = []            # recorder objects by id-1
        self.opts = opts or {}

    def new_id(self, obj):
        self.objs.append(obj)
        return len(self.objs)

    def ev(self, e, op, xs, r, x, names=(), n=0):
        self.log.append({"e": e, "op": op, "n": n, "xs": xs, "names": list(names), "r": r, "x": x})


class NS:
    """Plain attribute holder (the wrapped value of the recorder object `o0`)."""

    def __init__(self, **kw):
        self.__dict__.update(kw)

    def __repr__(self):
        return "NS(%s)" % ", ".join("%s=%r" % kv for kv in sorted(self.__dict__.items()))


def _ckey(d):
    return json.dumps(d, sort_keys=True)


def desc(o):
    if isinstance(o, (VBase, VIter)):
        return {"k": "v", "id": o._id, "b": o._b}
    if o is None:
        return {"k": "none"}
    if isinstance(o, bool):
        return {"k": "b", "b": o}
    if isinstance(o, (list, tuple)):
        return {"k": "seq", "t": "list" if isinstance(o, list) else "tuple", "e": [desc(x) for x in o]}
    if isinstance(o, (set, frozenset)):
        return {"k": "seq", "t": "set", "e": sorted((desc(x) for x in o), key=_ckey)}
    if isinstance(o, dict):
        return {"k": "dict", "ks": [desc(k) for k in o.keys()], "vs": [desc(v) for v in o.values()]}
    if isinstance(o, slice):
        return {"k": "slice", "e": [desc(o.start), desc(o.stop), desc(o.step)]}
    if isinstance(o, (int, float, str, bytes, complex)) or o is Ellipsis:
        try:
            d = {"k": "c", "t": type(o).__name__, "r": _ascii(repr(o)), "s": _ascii(str(o)), "b": bool(o)}
            if type(o) is int and -2 ** 30 < o < 2 ** 30:
                d["i"] = o          # the value itself (indices / slice bounds into plain containers; TLC ints are 32-bit)
            return d
        except Exception:
            pass
    if getattr(o, "_vf_native", None):
        return {"k": "fn", "r": o._vf_native}
    return {"k": "o", "r": type(o).__name__}


def _ascii(s):
    return s.encode("ascii", "backslashreplace").decode("ascii")


def unwrap(o):
    if isinstance(o, VBase):
        return o._x
    if isinstance(o, VIter):
        return o._it
    if isinstance(o, slice):
        return slice(unwrap(o.start), unwrap(o.stop), unwrap(o.step))
    if isinstance(o, (list, tuple)):
        return type(o)(unwrap(x) for x in o)
    if isinstance(o, dict):
        return {unwrap(k): unwrap(v) for k, v in o.items()}
    if isinstance(o, (set, frozenset)):
        return type(o)(unwrap(x) for x in o)
    return o


def safe_repr(x):
    """Printable value of a wrapped object, without addresses (heap comparison CPython/pyscript)."""
    try:
        if callable(x) and not isinstance(x, type):
            return "<callable>"
        if isinstance(x, (set, frozenset)):
            return "{%s}" % ", ".join(sorted(safe_repr(y) for y in x))
        s = repr(x)
        if " at 0x" in s:
            return "<%s>" % type(x).__name__
        return _ascii(s)[:200]
    except Exception as e:     # pragma: no cover
        return "<repr failed %s>" % type(e).__name__


class VIter:
    """Recorder iterator returned by V.__iter__."""

    def __init__(self, rec, it, cls):
        self._r = rec
        self._it = it
        self._cls = cls
        self._b = True
        self._id = rec.new_id(self)

    def __hash__(self):
        return self._id * 1000003 + 7919

    def __iter__(self):
        return self

    def __next__(self):
        xs = [desc(self)]
        try:
            v = next(self._it)
        except StopIteration:
            self._r.ev("next", "", xs, {"k": "none"}, "StopIteration")
            raise
        except Exception as e:
            self._r.ev("next", "", xs, {"k": "none"}, type(e).__name__)
            raise
        r = self._cls(self._r, v)
        self._r.ev("next", "", xs, desc(r), "")
        return r


class VBase:
    """Recorder object without in-place operator methods."""

    def __init__(self, rec, x):
        d = object.__getattribute__(self, "__dict__")
        d["_r"] = rec
        d["_x"] = x
        try:
            d["_b"] = bool(x)
        except Exception:
            d["_b"] = True
        d["_id"] = rec.new_id(self)

    def __hash__(self):
        return self._id * 1000003 + 7919

    def __bool__(self):
        return self._b

    # -- helper: run a primitive, log it, wrap the result
    def _do(self, e, op, xs, fn, wrap=True, names=(), n=0):
        try:
            res = fn()
        except Exception as ex:
            self._r.ev(e, op, xs, {"k": "none"}, type(ex).__name__, names, n)
            raise
        if wrap:
            res = self if res is self._x and e == "op2" and op.startswith("i") else type(self)(self._r, res)
        self._r.ev(e, op, xs, desc(res), "", names, n)
        return res

    # -- items
    def __getitem__(self, k):
        return self._do("getitem", "", [desc(self), desc(k)], lambda: self._x[unwrap(k)])

    def __setitem__(self, k, v):
        def f():
            self._x[unwrap(k)] = unwrap(v)
        self._do("setitem", "", [desc(self), desc(k), desc(v)], f, wrap=False)

    def __delitem__(self, k):
        def f():
            del self._x[unwrap(k)]
        self._do("delitem", "", [desc(self), desc(k)], f, wrap=False)

    def __contains__(self, k):
        return self._do("contains", "", [desc(self), desc(k)], lambda: unwrap(k) in self._x, wrap=False)

    # -- attributes (names starting with "_" are never events; `keys` exists iff the wrapped value has it)
    def __getattr__(self, name):
        if name.startswith("_"):
            raise AttributeError(name)
        if name == "keys":
            if not hasattr(self._x, "keys"):
                raise AttributeError(name)
            return self._keys
        return self._do("getattr", name, [desc(self)], lambda: getattr(self._x, name))

    def __setattr__(self, name, v):
        if name.startswith("_"):
            object.__getattribute__(self, "__dict__")[name] = v
            return
        self._do("setattr", name, [desc(self), desc(v)], lambda: setattr(self._x, name, unwrap(v)), wrap=False)

    def __delattr__(self, name):
        if name.startswith("_"):
            object.__delattr__(self, name)
            return
        self._do("delattr", name, [desc(self)], lambda: delattr(self._x, name), wrap=False)

    def _keys(self):
        return self._do("keys", "", [desc(self)], lambda: list(self._x.keys()), wrap=False)

    # -- call
    def __call__(self, *a, **kw):
        xs = [desc(self)] + [desc(x) for x in a] + [desc(x) for x in kw.values()]
        return self._do("call", "", xs, lambda: self._x(*[unwrap(x) for x in a], **{k: unwrap(v) for k, v in kw.items()}),
                        names=list(kw.keys()), n=len(a))

    # -- iteration
    def __iter__(self):
        xs = [desc(self)]
        try:
            it = iter(self._x)
        except Exception as e:
            self._r.ev("iter", "", xs, {"k": "none"}, type(e).__name__)
            raise
        r = VIter(self._r, it, type(self))
        self._r.ev("iter", "", xs, desc(r), "")
        return r

    # -- formatting
    def __format__(self, spec):
        return self._do("format", "", [desc(self), desc(spec)], lambda: format(self._x, spec), wrap=False)

    def __repr__(self):
        if self._r.opts.get("quietstr"):
            return repr(self._x)
        return self._do("conv", "r", [desc(self)], lambda: repr(self._x), wrap=False)

    def __str__(self):
        if self._r.opts.get("quietstr"):
            return str(self._x)
        return self._do("conv", "s", [desc(self)], lambda: str(self._x), wrap=False)


def _mk_bin(name, fn):
    def op(self, other):
        return self._do("op2", name, [desc(self), desc(other)], lambda: fn(self._x, unwrap(other)))

    def rop(self, other):
        return self._do("op2", "r" + name, [desc(self), desc(other)], lambda: fn(unwrap(other), self._x))
    return op, rop


def _mk_ibin(name, fn):
    def iop(self, other):
        return self._do("op2", "i" + name, [desc(self), desc(other)], lambda: fn(self._x, unwrap(other)))
    return iop


def _mk_un(name, fn):
    def op(self):
        return self._do("op1", name, [desc(self)], lambda: fn(self._x))
    return op


def _mk_cmp(name, fn):
    def op(self, other):
        return self._do("cmp", name, [desc(self), desc(other)], lambda: fn(self._x, unwrap(other)),
                        wrap=not self._r.opts.get("cmpbool"))
    return op


for _n, _f in BIN_OPS.items():
    _o, _ro = _mk_bin(_n, _f)
    setattr(VBase, "__%s__" % _n, _o)
    setattr(VBase, "__r%s__" % _n, _ro)
for _n, _f in UN_OPS.items():
    setattr(VBase, "__%s__" % _n, _mk_un(_n, _f))
for _n, _f in CMP_OPS.items():
    setattr(VBase, "__%s__" % _n, _mk_cmp(_n, _f))


class V(VBase):
    """Recorder object with the in-place operator protocol."""


for _n, _f in IBIN_OPS.items():
    setattr(V, "__i%s__" % _n, _mk_ibin(_n, _f))


def make_env(opts=None):
    """Fresh recorder + the global symbol table every program starts from."""
    rec = Rec(opts)
    cls = VBase if (opts or {}).get("noinplace") else V

    def t(n, x=None):
        """Tracer leaf: a fresh recorder object wrapping x (default: the int n)."""
        v = cls(rec, n if x is None else x)
        rec.ev("t", "", [], desc(v), "", n=n)
        return v

    def g(*a, **kw):
        """Native callee (not a recorder object): logs the call itself."""
        xs = [desc(g)] + [desc(x) for x in a] + [desc(x) for x in kw.values()]
        r = cls(rec, len(a) * 10 + len(kw))
        rec.ev("call", "", xs, desc(r), "", names=list(kw.keys()), n=len(a))
        return r

    g._vf_native = "g"
    t._vf_native = "t"
    env = {
        "f": cls(rec, lambda *a, **k: len(a) * 10 + len(k)),
        "a0": cls(rec, [10, 20, 30, 40]),
        "d0": cls(rec, {0: 5, 1: 6, "k": 7}),
        "o0": cls(rec, NS(p=1, q=[1, 2])),
        "m0": cls(rec, {"ka": 1, "kb": 2}),
        "g": g,
        "t": t,
        "NS": NS,
    }
    return rec, env


HIDDEN = ("t", "__builtins__")


def final_bindings(table):
    out = {}
    for k, v in table.items():
        if k in HIDDEN or k.startswith("__"):
            continue
        out[k] = desc(v)
    return out


def heap(rec):
    return [safe_repr(o._x) if isinstance(o, VBase) else "<iter>" for o in rec.objs]
