"""C17 - import and builtin restrictions hold for every import form.

(M) spec/Imports.tla: the import statement as the mechanism executes it (resolve pyscript module,
    apply the rule, load, bind) over a universe of module names x forms x routes x configurations;
    invariants RefusedBindsNothing (also in intermediate states), AllowedIffRule (mechanism = the
    declarative rule ImportCore!Outcomes), StubsIgnored; witnesses; the three code mutants injected
    into the model violate the invariants; the expected outcome table is printed.
(T) the real interpreter: every top-level module name known to the interpreter and a sample of
    submodules x all statement forms x direct / function body / exec / eval / eval(exec) /
    @pyscript_compile x allow_all_imports in {False, True} x module names that shadow files below
    pyscript/modules and pyscript/apps; every builtin name as a plain name in every scope kind;
    print / log.* routed to the script's logger.  Each outcome is one recording line; plain
    CPython (the same process, natively) supplies what "imports normally" means for a module
    (importable?, names bound by `from m import *`, attribute present?); spec/ImportTrace.tla
    decides.  The allow-list is read from the code under test at run time.
"""
import copy
import json
import os
import random
import sys
import time

from harness import tlc
from harness.common import MachineryFailure, parallel, run_workers

# names whose import has side effects that disturb the process (only relevant where the module is
# really imported, i.e. with allow_all_imports=True); documented in notes/C17.md
SKIP_IMPORT = {
    "this", "antigravity", "__hello__", "__phello__",                 # print / open a browser on import
    "idlelib", "tkinter", "turtle", "turtledemo", "_tkinter",          # need a display
    "__main__", "readline", "pty", "curses", "_curses", "tty",        # terminal state
    "pip", "setuptools", "distutils", "_distutils_hack", "pkg_resources", "lib2to3",  # monkey patching / slow / deprecated
    "pytest", "_pytest", "xdist", "coverage", "pytest_cov", "hypothesis", "_hypothesis_pytestplugin",
    "_hypothesis_ftz_detector", "_hypothesis_globals", "pytest_asyncio", "pytest_homeassistant_custom_component",
    "test", "custom_components", "harness", "world", "vloop", "conftest",
    "boto3", "botocore", "numpy", "PIL", "grpc",                      # slow to import (seconds)
}

SHADOW_FILES = {
    "hello.py": "x = 1\n",
    "modules/json.py": "marker = 'pys-json'\ndef loads(s):\n    return 'mine'\n",            # shadows an allow-listed stdlib module
    "modules/socket/__init__.py": "marker = 'pys-socket'\nAF_INET = 'mine'\n",                 # package form, shadows a refused module
    "modules/select.py": "marker = 'pys-select'\npoll = 'mine'\n",                             # shadows a refused module
    "modules/pk/__init__.py": "from . import sub\nmarker = 'pk'\nval = 1\n",
    "modules/pk/sub.py": "marker = 'pk.sub'\nleaf = 3\n",
    "modules/both.py": "marker = 'both-module-form'\nwhich = 'module'\n",                      # ignored: the package form is present
    "modules/both/__init__.py": "marker = 'both-package-form'\nwhich = 'package'\n",
    "modules/pkall.py": "__all__ = ['a']\na = 1\nb = 2\n",
    "modules/stubs/gen.py": "raise ValueError('a stub module must never be loaded')\n",
    "apps/app1/__init__.py": "marker = 'app1'\nval = 1\n",
    "apps/app1/sib.py": "marker = 'app1.sib'\nleaf = 2\n",
    "apps/zlib/__init__.py": "marker = 'apps-zlib'\ncrc32 = 'mine'\n",                          # an app package named like a refused module
}
# pyscript modules of the scenario: name -> (context name, scope, public names, star names)
PYS = {
    "json": ("modules.json", "any", ["loads", "marker"], None),
    "socket": ("modules.socket", "any", ["AF_INET", "marker"], None),
    "select": ("modules.select", "any", ["marker", "poll"], None),
    "pk": ("modules.pk", "any", ["marker", "sub", "val"], None),
    "pk.sub": ("modules.pk.sub", "any", ["leaf", "marker"], None),
    "both": ("modules.both", "any", ["marker", "which"], None),
    "pkall": ("modules.pkall", "any", ["a", "b"], ["a"]),
    "app1": ("apps.app1", "app", ["marker", "val"], None),
    "app1.sib": ("apps.app1.sib", "app", ["leaf", "marker"], None),
    "zlib": ("apps.zlib", "app", ["crc32", "marker"], None),
}
SUBMODULES = ["os.path", "json.decoder", "json.tool", "homeassistant.const", "homeassistant.core", "homeassistant.helpers",
              "xml.etree", "xml.etree.ElementTree", "importlib.util", "email.mime.text", "collections.abc", "concurrent.futures",
              "urllib.parse", "logging.handlers", "datetime.datetime", "math.pi", "re.compile", "functools.partial",
              "json.nosuch_zz", "voluptuous.error", "string.templatelib", "time.sleep", "random.seed"]
STUBS = [("stubs", "x"), ("stubs.gen", "a"), ("stubs.pyscript_builtins", "state"), ("stubs.deep.er", "q")]
EXCLUDED = ["open", "compile", "input", "breakpoint", "memoryview", "print"]
SCOPES = ["module", "func", "class", "listcomp", "eval", "exec", "lambda", "compiled",
          # a name the function declares `global` while the script's globals do not define it, through every route
          "global-decl", "global-decl-nested", "global-decl-method", "global-decl-exec", "global-decl-eval", "global-decl-many",
          # further places a plain name can be read from
          "nested-func", "method", "class-in-func", "dictcomp", "setcomp", "func-default", "call-arg", "exec-in-func"]


# ------------------------------------------------------------------------------------------------
# statements
def clause(mod, asname="-", name="-"):
    return {"mod": mod, "parts": mod.split("."), "as": asname, "name": name}


def stmt_text(cs):
    if cs["form"] == "import":
        return "import " + ", ".join(c["mod"] + ("" if c["as"] == "-" else " as " + c["as"]) for c in cs["clauses"])
    return "from %s import %s" % (cs["clauses"][0]["mod"],
                                 ", ".join(c["name"] + ("" if c["as"] == "-" else " as " + c["as"]) for c in cs["clauses"]))


def wrap(cs):
    s = stmt_text(cs)
    via = cs["via"]
    if via == "direct":
        return s
    if via == "exec":
        return "exec(%r)" % s
    if via == "eval":
        return "_v = eval(%r)" % s
    if via == "evalexec":
        return "_v = eval(%r)" % ("exec(%r)" % s)
    body = ("def _f():\n    try:\n        %s\n    except Exception as _e:\n        return [type(_e).__name__, dict(locals())]\n"
            "    return ['ok', dict(locals())]\n_r = _f()\n") % s
    return ("@pyscript_compile\n" if via == "compiled" else "") + body


def form_name(cs):
    c = cs["clauses"][0]
    if cs["form"] == "import":
        base = "import a.b" if len(c["parts"]) > 1 else "import a"
        if c["as"] != "-":
            base += " as x"
        return base + (", c" if len(cs["clauses"]) > 1 else "")
    mod = "a.b" if len(c["parts"]) > 1 else "a"
    if c["name"] == "*":
        return "from %s import *" % mod
    return "from %s import b%s%s" % (mod, " as c" if c["as"] != "-" else "", ", d" if len(cs["clauses"]) > 1 else "")


def mk(form, clauses, via, ctx="file"):
    return {"kind": "import", "form": form, "clauses": clauses, "via": via, "ctx": ctx}


def statements_for(mod, vias, attr="nm_zz", star=True, ctx="file"):
    out = []
    for via in vias:
        out.append(mk("import", [clause(mod)], via, ctx))
        out.append(mk("import", [clause(mod, "x_al")], via, ctx))
        if mod == "__future__":
            continue            # `from __future__ import x` is a compiler directive, not a module import
        out.append(mk("from", [clause(mod, "-", attr)], via, ctx))
        out.append(mk("from", [clause(mod, "c_al", attr)], via, ctx))
        if star and via not in ("func", "compiled"):
            out.append(mk("from", [clause(mod, "-", "*")], via, ctx))
    return out


def universe():
    import pkgutil
    names = set(sys.stdlib_module_names) | {m.name for m in pkgutil.iter_modules()}
    return sorted(n for n in names if n.isidentifier())


def near_misses(allow):
    out = set()
    for a in allow:
        out |= {a + "x", a[:-1], a + "_", a.upper(), a + ".sub_zz", "x" + a}
        if "." in a:
            out.add(a.split(".")[0])
            out.add(a.rsplit(".", 1)[0] + ".core")
    return sorted(n for n in out if n and n not in allow and all(p.isidentifier() for p in n.split(".")))


def gen_cases(ctx, allow, allow_all):
    r = random.Random(ctx.seed * 7919 + (1 if allow_all else 0))
    names = universe()
    cases = []
    if not allow_all:
        # every top-level name, the core forms directly and through exec; other routes on a rotating share
        for k, n in enumerate(names):
            step = ctx.pick(6, 1)
            extra = [["func"], ["evalexec"], ["eval"], ["compiled"]][(k // step) % 4] if k % step == 0 else []
            cases += statements_for(n, ["direct", "exec"] + extra)
        for n in SUBMODULES + near_misses(allow):
            cases += statements_for(n, ["direct", "exec", "func"])
        # all routes for every allow-listed name and every shadowing name
        for n in sorted(allow) + sorted(PYS):
            for c in ("file", "app"):
                if c == "app" and n in allow and n not in PYS:
                    continue
                cases += statements_for(n, ["direct", "func", "exec", "evalexec", "eval"] + ([] if n in PYS else ["compiled"]), ctx=c)
        # two-clause statements: what is bound before a refusal stays, nothing of the refused clause
        for a, b in [("math", "os"), ("os", "math"), ("json", "sys"), ("re", "string"), ("pk", "subprocess"), ("shutil", "pk")]:
            for via in ("direct", "func", "exec"):
                cases.append(mk("import", [clause(a, "m1"), clause(b, "m2")], via))
                cases.append(mk("import", [clause(a), clause(b)], via))
        for m, a, b in [("math", "pi", "e"), ("os", "sep", "name"), ("pk", "val", "marker")]:
            for via in ("direct", "func", "exec"):
                cases.append(mk("from", [clause(m, "-", a), clause(m, "n2", b)], via))
        # from-imports below stubs
        for m, a in STUBS:
            for via in ("direct", "func", "exec", "evalexec"):
                cases.append(mk("from", [clause(m, "-", a)], via))
                cases.append(mk("from", [clause(m, "-", a), clause(m, "-", "other")], via))
                cases.append(mk("from", [clause(m, "al", a)], via))
                if via not in ("func",):
                    cases.append(mk("from", [clause(m, "-", "*")], via))
        # a name that is absent from an importable module
        for m in ("math", "json", "pk", "homeassistant.const"):
            for via in ("direct", "exec"):
                cases.append(mk("from", [clause(m, "-", "nosuch_attr_zz")], via))
    else:
        pool = [n for n in names if n not in SKIP_IMPORT and n not in PYS and not n.startswith("_test") and not n.startswith("pytest")]
        sample = r.sample(pool, min(len(pool), ctx.pick(36, 10000)))
        for n in sorted(set(sample) | set(allow)):
            cases += statements_for(n, ["direct", "exec"])
        for n in SUBMODULES + near_misses(allow)[:12]:
            cases += statements_for(n, ["direct", "func"])
        for n in sorted(PYS):
            if n == "zlib":
                continue        # app package named from outside apps/ that is also an installed module: statement silent
            cases += statements_for(n, ["direct", "exec"])
        for m, a in STUBS[:2]:
            cases.append(mk("from", [clause(m, "-", a)], "direct"))
        for a, b in [("math", "os"), ("nosuch_mod_zz", "math")]:
            cases.append(mk("import", [clause(a), clause(b)], "direct"))
    for i, c in enumerate(cases):
        c["allow_all"] = allow_all
        c["id"] = "%s%d" % ("T" if allow_all else "F", i)
    return cases


# ------------------------------------------------------------------------------------------------
# worker side: the real interpreter
def work(job):
    import asyncio  # noqa: F401
    import builtins
    import importlib
    import io
    import logging
    import types
    import world
    out = []

    async def body(w):
        from custom_components.pyscript.eval import AstEval
        from custom_components.pyscript.function import Function
        from custom_components.pyscript.global_ctx import GlobalContext, GlobalContextMgr
        from custom_components.pyscript.const import ALLOWED_IMPORTS
        allow = set(ALLOWED_IMPORTS)

        def new_ctx(kind):
            if kind == "app":
                gc = GlobalContext("apps.app1", global_sym_table={}, manager=GlobalContextMgr, rel_import_path="apps/app1/__init__")
                gc.file_path = os.path.join(w.pdir, "apps/app1/__init__.py")
            else:
                gc = GlobalContext("file.hello", global_sym_table={}, manager=GlobalContextMgr)
                gc.file_path = os.path.join(w.pdir, "hello.py")
            a = AstEval(gc.name, gc)
            Function.install_ast_funcs(a)
            return gc, a

        def pys_entry(mod, kind):
            p = PYS.get(mod)
            if p and (p[1] == "any" or kind == "app"):
                return p
            return None

        def classify(cs, c, name, v):
            """identity class of the object bound under `name`"""
            if cs["form"] == "import":
                if isinstance(v, types.ModuleType):
                    if sys.modules.get(c["mod"]) is v:
                        return "module:" + c["mod"]
                    if sys.modules.get(v.__name__) is v:
                        return "module:" + v.__name__
                    for cn, g in GlobalContextMgr.contexts.items():
                        if g.module is v:
                            return "pysmod:" + cn
                    return "module-foreign:" + v.__name__
                return "not-a-module:" + type(v).__name__
            attr = c["name"] if c["name"] != "*" else name
            owners = []
            real = sys.modules.get(c["mod"])
            if real is not None and hasattr(real, attr) and getattr(real, attr) is v:
                owners.append("attr:module:" + c["mod"])
            for cn, g in GlobalContextMgr.contexts.items():
                if g.module is not None and cn in ("modules." + c["mod"], "apps." + c["mod"]) and attr in g.module.__dict__ \
                        and g.module.__dict__[attr] is v:
                    owners.append("attr:pysmod:" + cn)
            if not owners:
                return "attr:foreign"
            # small ints / interned strings can be the same object in two modules: prefer the pyscript owner when one exists
            owners.sort(key=lambda o: 0 if o.startswith("attr:pysmod") else 1)
            return owners[0]

        def truth_for(cs, c):
            """what plain CPython does with the module (run natively, after the interpreter under test)"""
            t = {"imp": "-", "has": False, "star": [], "pub": []}
            p = pys_entry(c["mod"], cs["ctx"]) or (PYS.get(c["mod"]) if c["mod"] in PYS else None)
            if p and not (cs["via"] == "compiled"):
                t["imp"] = "ok"
                t["pub"] = list(p[2])
                t["star"] = list(p[3] if p[3] is not None else p[2])
                t["has"] = c["name"] in p[2]
                return t
            if not (cs["allow_all"] or c["mod"] in allow or cs["via"] == "compiled"):
                return t
            try:
                mod = importlib.import_module(c["mod"])
                t["imp"] = "ok"
            except Exception as e:  # noqa: BLE001
                t["imp"] = type(e).__name__
                return t
            t["pub"] = sorted(n for n in vars(mod) if not n.startswith("_"))
            if c["name"] == "*":
                ns = {}
                try:
                    exec("from %s import *" % c["mod"], ns)  # noqa: S102  CPython's own answer
                    t["star"] = sorted(k for k in ns if k != "__builtins__")
                except Exception:  # noqa: BLE001
                    t["star_unavailable"] = True      # CPython itself cannot star-import this module: nothing to compare with
            elif c["name"] != "-":
                ns = {}
                try:
                    exec("from %s import %s" % (c["mod"], c["name"]), ns)  # noqa: S102
                    t["has"] = True
                except Exception:  # noqa: BLE001
                    t["has"] = False
            return t

        def pick_attr(cs):
            """replace the placeholder attribute by a real, non-module public attribute of an importable module"""
            for c in cs["clauses"]:
                if c["name"] != "nm_zz":
                    continue
                p = pys_entry(c["mod"], cs["ctx"])
                if p and cs["via"] != "compiled":
                    c["name"] = [n for n in p[2] if n != "sub"][0]
                    continue
                if cs["allow_all"] or c["mod"] in allow or cs["via"] == "compiled":
                    if c["mod"] in SKIP_IMPORT:
                        continue
                    try:
                        mod = importlib.import_module(c["mod"])
                    except Exception:  # noqa: BLE001
                        continue
                    cand = [n for n in sorted(vars(mod)) if not n.startswith("_") and not isinstance(getattr(mod, n), types.ModuleType)]
                    c["name"] = cand[0] if cand else "__name__"

        for cs in job["cases"]:
            cs = copy.deepcopy(cs)
            if cs["kind"] == "import":
                pick_attr(cs)
                gc, a = new_ctx(cs["ctx"])
                src = wrap(cs)
                before = dict(gc.global_sym_table)
                exc = "ok"
                try:
                    a.parse(src)
                    await a.eval()
                except Exception as e:  # noqa: BLE001
                    exc = type(e).__name__
                g = gc.global_sym_table
                new = {k: v for k, v in g.items() if k not in before or before[k] is not v}
                leak = []
                if cs["via"] in ("func", "compiled"):
                    r = new.get("_r")
                    leak = sorted(k for k in new if k not in ("_f", "_r") and not (k.startswith("__") and k.endswith("__")))
                    if exc == "ok" and isinstance(r, list) and len(r) == 2:
                        exc = r[0]
                        new = {k: v for k, v in r[1].items() if k != "_e"}
                    else:
                        new = {}
                else:
                    new.pop("_v", None)
                bound = sorted(set(new) | set(leak))
                vals = []
                for c in cs["clauses"]:
                    nm = sorted(new)[:6] if c["name"] == "*" else [c["as"] if c["as"] != "-" else (c["name"] if cs["form"] == "from" else c["mod"])]
                    for n in nm:
                        if n in new:
                            vals.append({"n": n, "c": classify(cs, c, n, new[n])})
                    if cs["form"] == "import" and c["as"] == "-" and len(c["parts"]) > 1 and c["parts"][0] in new:
                        vals.append({"n": c["parts"][0], "c": classify(cs, c, c["parts"][0], new[c["parts"][0]])})
                cs["obs"] = {"exc": exc, "bound": bound, "vals": vals}
                cs["truth"] = [truth_for(cs, c) for c in cs["clauses"]]
                cs["src"] = src
                if any(t.pop("star_unavailable", False) for t in cs["truth"]):
                    continue
                out.append(cs)
            elif cs["kind"] == "builtin":
                gc, a = new_ctx("file")
                n = cs["name"]
                src = {"module": "_r = %s" % n,
                       "func": "def _f():\n    return %s\n_r = _f()" % n,
                       "class": "class _C:\n    v = %s\n_r = _C.v" % n,
                       "listcomp": "_r = [%s for _ in [1]][0]" % n,
                       "eval": "_r = eval(%r)" % n,
                       "exec": "exec(%r)" % ("_r = %s" % n),
                       "lambda": "_r = (lambda: %s)()" % n,
                       "compiled": "@pyscript_compile\ndef _f():\n    return %s\n_r = _f()" % n,
                       "global-decl": "def _f():\n    global %s\n    return %s\n_r = _f()" % (n, n),
                       "global-decl-nested": "def _g():\n    def _f():\n        global %s\n        return %s\n    return _f()\n_r = _g()" % (n, n),
                       "global-decl-method": "class _C:\n    def m(self):\n        global %s\n        return %s\n_o = _C()\n_r = _o.m()" % (n, n),
                       "global-decl-exec": "exec(%r)" % ("def _f():\n    global %s\n    return %s\n_r = _f()" % (n, n)),
                       "global-decl-eval": "def _f():\n    global %s\n    return eval(%r)\n_r = _f()" % (n, n),
                       "global-decl-many": "def _f():\n    global _zz1, %s, _zz2\n    x = [%s]\n    return x[0]\n_r = _f()" % (n, n),
                       "nested-func": "def _g():\n    def _f():\n        return %s\n    return _f()\n_r = _g()" % n,
                       "method": "class _C:\n    def m(self):\n        return %s\n_o = _C()\n_r = _o.m()" % n,
                       "class-in-func": "def _f():\n    class _C:\n        v = %s\n    return _C.v\n_r = _f()" % n,
                       "dictcomp": "_r = {0: %s for _ in [1]}[0]" % n,
                       "setcomp": "_r = [x for x in {%s for _ in [1]}][0]" % n,
                       "func-default": "def _f(x=%s):\n    return x\n_r = _f()" % n,
                       "call-arg": "def _f(x):\n    return x\n_r = _f(%s)" % n,
                       "exec-in-func": "def _f():\n    exec(%r)\n    return locals().get('_q')\n_r = _f()" % ("_q = %s" % n)}[cs["scope"]]
                try:
                    a.parse(src)
                    await a.eval()
                    if "_r" not in gc.global_sym_table:
                        o = "exc:unset"
                    else:
                        v = gc.global_sym_table["_r"]
                        o = "builtin" if v is getattr(builtins, n, object()) else "replacement"
                except NameError:
                    o = "NameError"
                except Exception as e:  # noqa: BLE001
                    o = "exc:" + type(e).__name__
                cs["out"] = o
                cs["src"] = src
                out.append(cs)

        if job.get("logs"):
            # print / log.* from module level, a trigger function, a service function and a helper they call
            root = logging.getLogger("custom_components.pyscript")
            root.setLevel(logging.DEBUG)
            fake_out = io.StringIO()
            real_out, sys.stdout = sys.stdout, fake_out
            try:
                w.logs.clear()
                w.write("logs17.py", LOG_SCRIPT, 5000)
                await w.reload()
                w.hass.bus.async_fire("ev17", {})
                await w.settle()
                await w.hass.services.async_call("pyscript", "svc17", {}, blocking=True)
                await w.settle()
            finally:
                sys.stdout = real_out
                root.setLevel(logging.INFO)
            text = fake_out.getvalue()
            for where, func in (("module", "-"), ("trigger", "trig17"), ("service", "svc17"), ("helper-of-trigger", "trig17"),
                                ("global-decl", "trig17")):
                for fn in ("print", "log.debug", "log.info", "log.warning", "log.error"):
                    if where == "global-decl" and fn != "print":
                        continue
                    mk_ = "MK17-%s-%s" % (where, fn)
                    loggers = sorted(n for (n, _l, m) in w.logs if m.strip() == mk_)
                    out.append({"kind": "log", "id": "L-%s-%s-%s" % (job["sub"], where, fn), "fn": fn, "where": where, "ctxname": "file.logs17",
                                "func": func, "loggers": loggers, "stdout": mk_ in text, "sub": job["sub"]})

    world.run(dict(SHADOW_FILES), body, legacy=job.get("legacy", False), realfs=True, allow_all_imports=job["allow_all"],
              capture_logs=bool(job.get("logs")))
    return out


def _log_lines(where):
    return "\n".join("%s%s('MK17-%s-%s')" % ("    " if where != "module" else "", fn, where, fn)
                     for fn in ("print", "log.debug", "log.info", "log.warning", "log.error"))


LOG_SCRIPT = (_log_lines("module") + "\n\ndef helper17():\n" + _log_lines("helper-of-trigger") +
              "\n\ndef gp17():\n    global print\n    print('MK17-global-decl-print')\n"
              "\n\n@event_trigger('ev17')\ndef trig17(**kw):\n" + _log_lines("trigger") + "\n    helper17()\n"
              "    try:\n        gp17()\n    except NameError:\n        pass\n"
              "\n@service\ndef svc17():\n" + _log_lines("service") + "\n")


def read_allow_list(ctx):
    src = os.environ.get("PYSCRIPT_SRC", "/repo")
    if src not in sys.path:
        sys.path.insert(0, src)
    import importlib.util
    spec = importlib.util.spec_from_file_location("_c17_const", os.path.join(src, "custom_components", "pyscript", "const.py"))
    mod = importlib.util.module_from_spec(spec)
    spec.loader.exec_module(mod)
    return sorted(mod.ALLOWED_IMPORTS)


NPROC = int(os.environ.get("VERIF_NPROC", "16") or 16)      # development on a shared machine: VERIF_NPROC=4
PINNED_ALLOW = ["black", "cmath", "datetime", "decimal", "fractions", "functools", "homeassistant.const", "isort", "json", "math",
                "number", "random", "re", "statistics", "string", "time", "voluptuous"]

WHAT = {
    "refused-import-succeeds": "an import the rule refuses succeeded",
    "failed-import-binds-names": "a refused / failing import left names bound",
    "wrong-exception": "a refused import did not raise ModuleNotFoundError",
    "allowed-import-refused": "an import the rule allows was refused",
    "allowed-import-fails": "an import the rule allows failed",
    "wrong-names-bound": "an import bound other names than the statement denotes",
    "wrong-object-bound": "an import bound a different object than the module it names (shadowing / identity)",
    "stubs-as-refused": "`from stubs... import x as y` raises ModuleNotFoundError instead of being ignored",
    "star-ignores-all": "`from m import *` ignores __all__ and binds every public name of the module namespace",
    "from-missing-attributeerror": "`from m import missing` raises AttributeError instead of ImportError",
    "compiled-native": "an import statement in a @pyscript_compile body is native Python: the rule is not applied",
    "compiled-native-builtins": "lambda / @pyscript_compile bodies are native Python: excluded builtins are plain names there",
    "excluded-builtin-reachable": "an excluded builtin is reachable as a plain name",
    "not-on-the-scripts-logger": "print / log.* did not write (only) to the script's logger",
    "writes-to-stdout": "print wrote to the process's stdout",
}


def slim(c):
    return {k: v for k, v in c.items() if k not in ("src",)}


def validate(ctx, cases, allow, label):
    path = os.path.join(ctx.scratch, "c17_%s.json" % label)
    pys = [{"name": n, "ctxname": p[0], "scope": p[1]} for n, p in sorted(PYS.items())]
    json.dump({"allow": allow, "pys": pys, "cases": [slim(c) for c in cases]}, open(path, "w"))
    res = tlc.accept_batch("ImportTrace", path, ctx.scratch, timeout=1800)
    if res.distinct != len(cases) + 1:
        raise MachineryFailure("ImportTrace visited %d states for %d cases" % (res.distinct, len(cases)))
    ctx.add_tlc(res, "ImportTrace:" + label)
    return res


def report(ctx, cases, res):
    byid = {c["id"]: c for c in cases}
    for rj in res.rejects:
        c = byid[rj["id"]]
        sig = {"clause": rj["why"], "kind": c["kind"]}
        if c["kind"] == "import":
            sig["form"] = form_name(c)
            sig["via"] = c["via"]
        elif c["kind"] == "builtin":
            sig["scope"] = c["scope"]
            sig["name"] = c["name"]
        else:
            sig["fn"] = c["fn"]
            sig["where"] = c["where"]
            sig["subsystem"] = c["sub"]
        ctx.report(sig, WHAT.get(rj["why"], rj["why"]), {"case": c, "expected": rj.get("exp")})


def selftest(ctx, cases, rejected, allow):
    bad = []

    def add(c, tag):
        c["id"] = "corrupt-%s/%s" % (tag, c["id"])
        bad.append(c)
    n = {"a": 0, "b": 0, "c": 0, "d": 0, "e": 0, "f": 0}
    for c in cases:
        if c["id"] in rejected:
            continue
        if c["kind"] == "import" and c["obs"]["exc"] == "ModuleNotFoundError" and c["via"] != "eval" and n["a"] < 12:
            c2 = copy.deepcopy(c)
            c2["obs"]["exc"] = "ok"
            c2["obs"]["bound"] = [c["clauses"][0]["mod"]]
            add(c2, "refused-imported")
            c3 = copy.deepcopy(c)
            c3["obs"]["bound"] = ["leftover"]
            add(c3, "refused-binds")
            c4 = copy.deepcopy(c)
            c4["obs"]["exc"] = "ImportError"
            add(c4, "refused-wrong-exception")
            n["a"] += 1
        elif c["kind"] == "import" and c["obs"]["exc"] == "ok" and c["obs"]["bound"] and n["b"] < 12:
            c2 = copy.deepcopy(c)
            c2["obs"]["exc"] = "ModuleNotFoundError"
            c2["obs"]["bound"] = []
            c2["obs"]["vals"] = []
            add(c2, "allowed-refused")
            c3 = copy.deepcopy(c)
            c3["obs"]["bound"] = c3["obs"]["bound"][1:]
            c3["obs"]["vals"] = []
            add(c3, "name-dropped")
            if c["obs"]["vals"] and n["c"] < 8:
                c4 = copy.deepcopy(c)
                c4["obs"]["vals"][0]["c"] = "module:os"
                add(c4, "other-object")
                n["c"] += 1
            n["b"] += 1
        elif c["kind"] == "builtin" and c["name"] in EXCLUDED and c["out"] in ("NameError", "replacement") and n["d"] < 8:
            c2 = copy.deepcopy(c)
            c2["out"] = "builtin"
            add(c2, "builtin-reachable")
            n["d"] += 1
        elif c["kind"] == "log" and n["e"] < 6:
            c2 = copy.deepcopy(c)
            c2["loggers"] = ["custom_components.pyscript.eval"]
            add(c2, "wrong-logger")
            c3 = copy.deepcopy(c)
            c3["stdout"] = True
            add(c3, "stdout")
            n["e"] += 1
    if len(bad) < 20:
        raise MachineryFailure("selftest: too few recordings to corrupt (%d)" % len(bad))
    res = validate(ctx, bad, allow, "corrupt")
    got = {r["id"] for r in res.rejects}
    missed = [c["id"] for c in bad if c["id"] not in got]
    if missed:
        raise MachineryFailure("selftest: corrupted recordings accepted: %s" % missed[:4])
    ctx.cov["selftest_corruptions_rejected"] = len(bad)


MODEL_MUTANTS = ("prefix", "skip-dotted", "bind-first")
WITNESSES = ("w_refused", "w_shadow", "w_stub", "w_partial")


def model(ctx):
    """(M) Imports.tla with its invariants and the outcome table (whose w_* columns are the witnesses);
    thorough tier: the three code mutants injected into the model must violate an invariant."""
    def cfg(name, mutant, invs):
        p = os.path.join(ctx.scratch, "Imports_%s.cfg" % name)
        open(p, "w").write("SPECIFICATION Spec\nCONSTANT Mutant = \"%s\"\n%s\nCHECK_DEADLOCK FALSE\n" % (
            mutant, "\n".join("INVARIANT " + i for i in invs)))
        return p
    main_invs = ["RefusedBindsNothing", "AllowedIffRule", "StubsIgnored", "ShadowResolvesToPyscript"]
    thunks = [lambda: tlc.run("Imports", cfg("main", "", main_invs + ["Table"]), ctx.scratch, workers=min(4, NPROC), timeout=1800)]
    if not ctx.quick:
        thunks += [(lambda m=m: tlc.run("Imports", cfg("mut_" + m, m, main_invs), ctx.scratch, workers=1, timeout=1800))
                   for m in MODEL_MUTANTS]
    return thunks


def main(ctx):
    allow = read_allow_list(ctx)
    if allow != PINNED_ALLOW:
        ctx.notes.append("allow-list differs from the pinned tree")
        ctx.cov["allow_list_differs_from_pinned"] = {"added": sorted(set(allow) - set(PINNED_ALLOW)),
                                                     "removed": sorted(set(PINNED_ALLOW) - set(allow))}
    ctx.cov["allow_list"] = allow
    if ctx.replay:
        rp = json.load(open(ctx.replay))
        c = rp["case"]["case"]
        c = {k: v for k, v in c.items() if k not in ("obs", "truth", "out", "loggers", "stdout", "src")}
        if c["kind"] == "log":
            res_cases = run_workers("harness.drivers.c17", "work", [{"allow_all": False, "cases": [], "logs": True, "sub": c["sub"],
                                                                    "legacy": c["sub"] == "legacy"}], ctx.scratch, nproc=1)[0]
            res_cases = [x for x in res_cases if x["id"] == c["id"]]
        else:
            res_cases = run_workers("harness.drivers.c17", "work", [{"allow_all": c.get("allow_all", False), "cases": [c]}], ctx.scratch, nproc=1)[0]
        res = validate(ctx, res_cases, allow, "replay")
        ctx.cov["traces_validated_against_impl"] += len(res_cases)
        report(ctx, res_cases, res)
        return
    false_cases = gen_cases(ctx, allow, False)
    true_cases = gen_cases(ctx, allow, True)
    import builtins
    bnames = sorted(dir(builtins))
    # excluded names (and a few neighbours) in every scope kind; every other builtin name at module level and inside a function
    wide = set(EXCLUDED) | {"len", "exec", "eval", "globals", "locals", "getattr", "__import__", "__build_class__", "vars", "dir"}
    bcases = [{"kind": "builtin", "id": "B-%s-%s" % (n, s), "name": n, "scope": s} for n in bnames
              for s in (SCOPES if n in wide or not ctx.quick else ("module", "func"))
              if n.isidentifier() and n not in ("None", "True", "False", "__debug__")]
    nw = 12
    jobs = []
    for k in range(nw):
        jobs.append({"allow_all": False, "cases": false_cases[k::nw] + bcases[k::nw]})
    nt = 8
    for k in range(nt):
        jobs.append({"allow_all": True, "cases": true_cases[k::nt]})
    jobs.append({"allow_all": False, "cases": [], "logs": True, "sub": "dm", "legacy": False})
    jobs.append({"allow_all": False, "cases": [], "logs": True, "sub": "legacy", "legacy": True})
    mthunks = model(ctx)
    t0 = time.time()
    outs = parallel([lambda: run_workers("harness.drivers.c17", "work", jobs, ctx.scratch, nproc=NPROC, timeout=3000)] + mthunks, max_workers=min(10, NPROC))
    outs = outs[1:] + outs[:1]          # model results first, recordings last
    ctx.cov["phase_wall_s"] = {"model+recording": round(time.time() - t0, 1)}
    mres = outs[0]
    if not mres.ok:
        ctx.report({"clause": "model:" + mres.violated}, "Imports.tla violates %s" % mres.violated, {"cex": mres.cex})
    ctx.add_tlc(mres, "Imports(statement forms x modules x routes x configurations)")
    ctx.cov["expected_outcome_table_rows"] = len(mres.infos)
    for wname in WITNESSES:
        if mres.ok and not any(row.get(wname) for row in mres.infos):
            raise MachineryFailure("witness %s never occurs: the model does not exercise the case" % wname)
    ctx.cov["witnesses_seen"] = list(WITNESSES)
    ctx.cov["expected_outcome_table_sample"] = [r for r in mres.infos if r.get("w_partial")][:1] + [r for r in mres.infos if r.get("w_shadow")][:1]
    if not ctx.quick:
        for mname, wres in zip(MODEL_MUTANTS, outs[1:1 + len(MODEL_MUTANTS)]):
            if wres.ok:
                raise MachineryFailure("model mutant %s violates no invariant" % mname)
            ctx.add_tlc(wres)
        ctx.cov["model_mutants_violating_invariants"] = len(MODEL_MUTANTS)
    cases = [x for r in outs[-1] for x in r]
    t0 = time.time()
    res = validate(ctx, cases, allow, "main")
    ctx.cov["phase_wall_s"]["acceptor"] = round(time.time() - t0, 1)
    ctx.cov["traces_validated_against_impl"] += len(cases)
    report(ctx, cases, res)
    rejected = {r["id"] for r in res.rejects}
    imp = [c for c in cases if c["kind"] == "import"]
    ctx.cov["evaluations"] = len(cases)
    ctx.cov["import_statements"] = len(imp)
    ctx.cov["builtin_name_evaluations"] = sum(1 for c in cases if c["kind"] == "builtin")
    ctx.cov["logger_routes"] = sum(1 for c in cases if c["kind"] == "log")
    ctx.cov["top_level_names"] = len(universe())
    ctx.cov["outcomes"] = {}
    for c in imp:
        key = "%s|allow_all=%s" % (c["obs"]["exc"], c["allow_all"])
        ctx.cov["outcomes"][key] = ctx.cov["outcomes"].get(key, 0) + 1
    ctx.cov["per_form"] = {}
    ctx.cov["per_route"] = {}
    for c in imp:
        ctx.cov["per_form"][form_name(c)] = ctx.cov["per_form"].get(form_name(c), 0) + 1
        ctx.cov["per_route"][c["via"]] = ctx.cov["per_route"].get(c["via"], 0) + 1
    ctx.cov["shadowing_statements"] = sum(1 for c in imp if any(cl["mod"] in PYS for cl in c["clauses"]))
    ctx.cov["bound_something"] = sum(1 for c in imp if c["obs"]["bound"])
    ctx.cov["skip_list_allow_all"] = sorted(SKIP_IMPORT)
    ctx.cov["distinct_nontrivial"] = len({json.dumps([stmt_text(c), c["via"], c["allow_all"], c["ctx"]]) for c in imp
                                          if c["obs"]["exc"] == "ModuleNotFoundError" or c["obs"]["bound"]
                                          or any(cl["parts"][0] == "stubs" for cl in c["clauses"])})
    ctx.cov["rule"] = ("every identifier in sys.stdlib_module_names + pkgutil.iter_modules() (allow_all=False: all; True: seeded sample minus "
                       "a documented skip list) + submodule sample + near-misses of the allow-list + shadowing files x {import a, import a.b, "
                       "import a as x, from a import b, from a import b as c, from a[.b] import *, two-clause forms, missing attribute, stubs} x "
                       "{direct, function body, exec, eval, eval(exec), @pyscript_compile}; non-trivial = the statement was refused, bound "
                       "something, or is a from-import below stubs; distinct by statement text, route, configuration and context kind")
    for c in (imp[0], [x for x in imp if x["obs"]["bound"]][0], [x for x in cases if x["kind"] == "builtin" and x["name"] == "open"][0]):
        ctx.sample({k: v for k, v in c.items() if k not in ("truth",)})
    if ctx.violations:
        ctx.cov["selftest_skipped"] = "violations present"      # thin coverage is then a consequence, not a machinery failure
    else:
        if ctx.cov["bound_something"] < 50 or ctx.cov["outcomes"].get("ModuleNotFoundError|allow_all=False", 0) < 1000:
            raise MachineryFailure("vacuous coverage: %s" % ctx.cov["outcomes"])
        selftest(ctx, cases, rejected, allow)
    ctx.assumptions += [
        "names that are not identifiers cannot appear in an import statement and are skipped",
        "allow_all_imports=True: a seeded sample of installed top-level names, minus a skip list of modules whose import disturbs the process",
        "what 'imports normally' means for a module is CPython's own behaviour in the same process (importlib / exec of the statement)",
        "`import a.b` may bind the dotted name (pyscript's naming scheme) or the top package (CPython); both accepted",
        "an app package named from a context outside apps/ may be refused or imported (statement silent)",
        "from-imports of submodules that are not yet attributes of their package, and relative imports, are not generated",
        "eval(): an import statement is not an expression - SyntaxError (or the refusal) and nothing bound",
    ]
